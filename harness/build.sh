#!/bin/sh
# Rebuild the Go harness against /repo's current working tree (hooks on).
# go.mod/go.sum are regenerated from /repo's own every time: nothing is fetched.
set -e
export GOFLAGS=-mod=mod GOPROXY=off GOSUMDB=off GOTOOLCHAIN=local GONOSUMDB='*' GONOSUMCHECK=1
REPO="${VERIF_REPO:-/repo}"
cd "$(dirname "$0")"
mkdir -p /verif/.work/bin
{
  echo "module verifharness"; echo; echo "go 1.22"; echo
  echo "require github.com/AliceO2Group/Control v0.0.0"
  echo "replace github.com/AliceO2Group/Control => $REPO"
  grep '^replace' "$REPO/go.mod" | grep -v 'AliceO2Group/Control '
} > go.mod
cp "$REPO/go.sum" go.sum
go build -tags verif -o /verif/.work/bin/vh ./cmd/vh
