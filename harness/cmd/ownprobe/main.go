// ownprobe: throw-away exploration of ownership/teardown behaviour on the real core (C04/C06).
package main

import (
	"context"
	"flag"
	"fmt"
	"io"
	"os"
	"sort"
	"strings"
	"sync"
	"time"

	pb "github.com/AliceO2Group/Control/core/protos"
	"github.com/sirupsen/logrus"
	"google.golang.org/grpc/status"

	"verifharness/fw"
	"verifharness/sim"
)

const ceiling = 60 * time.Second

func taskClass(name, mode string) string {
	return fmt.Sprintf("name: %s\ncontrol:\n  mode: %s\nwants:\n  cpu: 0.1\n  memory: 64\ncommand:\n  shell: true\n  value: \"sleep 100000\"\n", name, mode)
}

func ctx() (context.Context, context.CancelFunc) {
	return context.WithTimeout(context.Background(), ceiling)
}

func newEnv(w *sim.World, wf string, vars map[string]string) (string, string, error) {
	c, cancel := ctx()
	defer cancel()
	r, err := w.Client().NewEnvironment(c, &pb.NewEnvironmentRequest{WorkflowTemplate: wf, Vars: vars})
	if err != nil {
		id := ""
		if st, ok := status.FromError(err); ok {
			for _, d := range st.Details() {
				if ei, ok := d.(*pb.EnvironmentInfo); ok {
					id = ei.GetId()
				}
			}
		}
		return id, "", err
	}
	return r.GetEnvironment().GetId(), r.GetEnvironment().GetState(), nil
}

func snapshot(w *sim.World) string {
	c, cancel := ctx()
	defer cancel()
	var b strings.Builder
	er, err := w.Client().GetEnvironments(c, &pb.GetEnvironmentsRequest{ShowAll: true, ShowTaskInfos: true})
	if err != nil {
		return "GetEnvironments: " + err.Error()
	}
	for _, e := range er.GetEnvironments() {
		fmt.Fprintf(&b, "  env %s %s dets=%v tasks=", e.GetId(), e.GetState(), e.GetIncludedDetectors())
		for _, t := range e.GetTasks() {
			fmt.Fprintf(&b, "%s[l=%v] ", short(t.GetClassName()), t.GetLocked())
		}
		b.WriteString("\n")
	}
	tr, err := w.Client().GetTasks(c, &pb.GetTasksRequest{})
	if err != nil {
		return "GetTasks: " + err.Error()
	}
	var ls []string
	for _, t := range tr.GetTasks() {
		env := "?"
		if g, err := w.Client().GetTask(c, &pb.GetTaskRequest{TaskId: t.GetTaskId()}); err == nil {
			env = g.GetTask().GetEnvId()
		}
		ls = append(ls, fmt.Sprintf("%s[l=%v c=%v %s/%s env=%s]", short(t.GetClassName()), t.GetLocked(), t.GetClaimable(), t.GetStatus(), t.GetState(), env))
	}
	sort.Strings(ls)
	fmt.Fprintf(&b, "  roster: %s\n", strings.Join(ls, " "))
	ad, _ := w.Client().GetActiveDetectors(c, &pb.Empty{})
	fmt.Fprintf(&b, "  active detectors: %v\n", ad.GetDetectors())
	var ms []string
	for _, t := range w.Tasks() {
		ms = append(ms, fmt.Sprintf("%s@%s[%s kills=%d env=%s]", t.Class, t.Host, t.MesosState, t.Kills, t.EnvID))
	}
	fmt.Fprintf(&b, "  master: %s\n", strings.Join(ms, " "))
	return b.String()
}

func short(s string) string { return s[strings.LastIndex(s, "/")+1:] }

var mark int

func dump(w *sim.World) {
	tr := w.Trace()
	for _, r := range tr[mark:] {
		if r.Type == "ACKNOWLEDGE" || r.Type == "DECLINE" || r.Type == "REVIVE" || r.Type == "OFFERS" {
			continue
		}
		fmt.Println("     ", r.String())
	}
	mark = len(tr)
}

func destroy(w *sim.World, id string, force, air, keep bool) error {
	c, cancel := ctx()
	defer cancel()
	_, err := w.Client().DestroyEnvironment(c, &pb.DestroyEnvironmentRequest{Id: id, Force: force, AllowInRunningState: air, KeepTasks: keep})
	return err
}

func control(w *sim.World, id string, op pb.ControlEnvironmentRequest_Optype) (string, error) {
	c, cancel := ctx()
	defer cancel()
	r, err := w.Client().ControlEnvironment(c, &pb.ControlEnvironmentRequest{Id: id, Type: op})
	return r.GetState(), err
}

func role(name, host, class string, extra string) string {
	return fmt.Sprintf("  - name: %q\n    constraints:\n      - attribute: machine_id\n        value: %q\n    task:\n      load: %s\n%s", name, host, class, extra)
}

func main() {
	logrus.SetOutput(io.Discard)
	fw.DispatchChild()
	only := flag.String("only", "", "")
	verbose := flag.Bool("v", false, "")
	flag.Parse()
	for _, sc := range scenarios {
		if *only != "" && !strings.Contains(sc.name, *only) {
			continue
		}
		fmt.Printf("\n=========== %s\n", sc.name)
		w, err := sim.Start(sim.Config{Name: "probe", Verbose: *verbose, CoreFlags: sc.flags, Defaults: map[string]string{"deploy_timeout": "5s"}})
		if err != nil {
			fmt.Println("start:", err)
			os.Exit(1)
		}
		w.AddAgent(sim.AgentSpec{Host: "h1", Detector: "ITS"})
		w.AddAgent(sim.AgentSpec{Host: "h2", Detector: "ITS"})
		w.AddAgent(sim.AgentSpec{Host: "h3", Detector: "TPC"})
		mark = 0
		err = sc.run(w)
		dump(w)
		fmt.Println("-> err:", err)
		if *verbose {
			fmt.Println("core log:", w.CoreLog())
			b, _ := os.ReadFile(w.CoreLog())
			for _, l := range strings.Split(string(b), "\n") {
				if strings.Contains(l, "cancelled") || strings.Contains(l, "hook:") {
					fmt.Println("   LOG", l)
				}
			}
		}
		w.Stop()
	}
}

type scenario struct {
	name  string
	flags map[string]string
	run   func(w *sim.World) error
}

var scenarios = []scenario{
	{"nohost", nil, func(w *sim.World) error {
		w.SetTaskClass("ta", taskClass("ta", "direct"))
		w.SetTaskClass("tb", taskClass("tb", "direct"))
		w.SetWorkflow("wf", "name: wf\nroles:\n"+role("a", "h1", "ta", "")+role("b", "h9", "tb", ""))
		t0 := time.Now()
		id, st, err := newEnv(w, "wf", map[string]string{"hosts": `["h1"]`})
		fmt.Println("new:", id, st, err, time.Since(t0))
		time.Sleep(300 * time.Millisecond)
		fmt.Print(snapshot(w))
		dump(w)
		c, cancel := ctx()
		r, err := w.Client().CleanupTasks(c, &pb.CleanupTasksRequest{})
		cancel()
		fmt.Println("cleanup:", len(r.GetKilledTasks()), len(r.GetRunningTasks()), err)
		time.Sleep(300 * time.Millisecond)
		fmt.Print(snapshot(w))
		return nil
	}},
	{"slowlaunch", nil, func(w *sim.World) error {
		w.SetTaskClass("ta", taskClass("ta", "direct"))
		w.SetTaskClass("tb", taskClass("tb", "direct"))
		w.SetWorkflow("wf", "name: wf\nroles:\n"+role("a", "h1", "ta", "")+role("b", "h2", "tb", ""))
		w.SetOutcome(sim.Selector{Class: "tb"}, sim.EvLaunch, sim.Outcome{Kind: sim.OK, Gate: "slow"})
		t0 := time.Now()
		id, st, err := newEnv(w, "wf", map[string]string{"hosts": `["h1"]`})
		fmt.Println("new:", id, st, err, time.Since(t0))
		time.Sleep(300 * time.Millisecond)
		fmt.Print(snapshot(w))
		dump(w)
		w.Release("slow")
		time.Sleep(300 * time.Millisecond)
		fmt.Print(snapshot(w))
		dump(w)
		return nil
	}},
	{"cfgfail", nil, func(w *sim.World) error {
		w.SetTaskClass("ta", taskClass("ta", "direct"))
		w.SetTaskClass("tb", taskClass("tb", "direct"))
		w.SetWorkflow("wf", "name: wf\nroles:\n"+role("a", "h1", "ta", "")+role("b", "h2", "tb", ""))
		w.SetOutcome(sim.Selector{Class: "tb"}, "CONFIGURE", sim.Outcome{Kind: sim.FailError})
		t0 := time.Now()
		id, st, err := newEnv(w, "wf", map[string]string{"hosts": `["h1"]`})
		fmt.Println("new:", id, st, err, time.Since(t0))
		time.Sleep(300 * time.Millisecond)
		fmt.Print(snapshot(w))
		dump(w)
		id, st, err = newEnv(w, "nosuchwf", map[string]string{"hosts": `["h1"]`})
		fmt.Println("new nosuchwf:", id, st, err)
		w.SetWorkflow("bad", "name: bad\nroles:\n  - name: x\n    task:\n      load: nosuchclass\n")
		id, st, err = newEnv(w, "bad", map[string]string{"hosts": `["h1"]`})
		fmt.Println("new bad:", id, st, err)
		fmt.Print(snapshot(w))
		return nil
	}},
	{"reuse", map[string]string{"reuseUnlockedTasks": "true"}, func(w *sim.World) error {
		w.SetTaskClass("ta", taskClass("ta", "direct"))
		w.SetWorkflow("wf", "name: wf\nroles:\n"+role("a", "h1", "ta", ""))
		w.SetWorkflow("wf2", "name: wf2\nroles:\n"+role("a", "h1", "ta", ""))
		w.SetWorkflow("wf3", "name: wf3\nroles:\n"+role("a", "h1", "ta", ""))
		for i := 0; i < 40; i++ {
			id, _, err := newEnv(w, "wf", map[string]string{"hosts": `["h3"]`})
			if err != nil {
				fmt.Println("new X:", err)
				return err
			}
			var wg sync.WaitGroup
			res := make([]string, 3)
			wg.Add(3)
			go func() { defer wg.Done(); res[0] = fmt.Sprint(destroy(w, id, false, false, true)) }()
			go func() { defer wg.Done(); time.Sleep(time.Duration(i%8) * 500 * time.Microsecond); a, st, err := newEnv(w, "wf2", map[string]string{"hosts": `["h1"]`}); res[1] = fmt.Sprint(a, st, err) }()
			go func() { defer wg.Done(); time.Sleep(time.Duration(i%8) * 500 * time.Microsecond); a, st, err := newEnv(w, "wf3", map[string]string{"hosts": `["h2"]`}); res[2] = fmt.Sprint(a, st, err) }()
			wg.Wait()
			fmt.Println("iter", i, res)
			snap := snapshot(w)
			fmt.Print(snap)
			// destroy everything
			c, cancel := ctx()
			er, _ := w.Client().GetEnvironments(c, &pb.GetEnvironmentsRequest{ShowAll: true})
			cancel()
			for _, e := range er.GetEnvironments() {
				fmt.Println("  destroy", e.GetId(), destroy(w, e.GetId(), true, false, false))
			}
			c, cancel = ctx()
			w.Client().CleanupTasks(c, &pb.CleanupTasksRequest{})
			cancel()
			w.Master.ForgetTerminalTasks()
		}
		return nil
	}},
	{"hooks2w", nil, func(w *sim.World) error {
		w.SetTaskClass("ta", taskClass("ta", "direct"))
		w.SetTaskClass("hk1", taskClass("hk1", "basic"))
		w.SetTaskClass("hk2", taskClass("hk2", "basic"))
		w.SetWorkflow("wf", "name: wf\nroles:\n"+role("a", "h1", "ta", "")+
			role("c1", "h1", "hk1", "      trigger: DESTROY+10\n      timeout: 10s\n")+
			role("c2", "h2", "hk2", "      trigger: DESTROY+20\n      timeout: 10s\n"))
		w.SetOutcome(sim.Selector{Class: "hk1"}, sim.EvHook, sim.Outcome{Kind: sim.OK, Gate: "g1"})
		w.SetOutcome(sim.Selector{Class: "hk2"}, sim.EvHook, sim.Outcome{Kind: sim.OK, Gate: "g2"})
		id, st, err := newEnv(w, "wf", map[string]string{"hosts": `["h1","h2"]`})
		fmt.Println("new:", id, st, err)
		fmt.Print(snapshot(w))
		dump(w)
		done := make(chan error, 1)
		go func() { done <- destroy(w, id, false, false, false) }()
		if err := sim.Poll("g1", ceiling, func() (bool, error) { return w.Master.Held("g1") == 1, nil }); err != nil {
			return err
		}
		fmt.Println("at gate g1:")
		fmt.Print(snapshot(w))
		dump(w)
		w.Release("g1")
		if err := sim.Poll("g2", ceiling, func() (bool, error) { return w.Master.Held("g2") == 1, nil }); err != nil {
			return err
		}
		fmt.Println("at gate g2:")
		fmt.Print(snapshot(w))
		dump(w)
		w.Release("g2")
		err = <-done
		fmt.Println("destroy:", err)
		time.Sleep(300 * time.Millisecond)
		fmt.Print(snapshot(w))
		return nil
	}},
	{"create-race", nil, func(w *sim.World) error {
		w.SetTaskClass("ta", taskClass("ta", "direct"))
		w.SetTaskClass("tb", taskClass("tb", "direct"))
		w.SetWorkflow("wfa", "name: wfa\nroles:\n"+role("a", "h1", "ta", ""))
		w.SetWorkflow("wfb", "name: wfb\nroles:\n"+role("b", "h2", "tb", ""))
		var wg sync.WaitGroup
		for _, x := range []struct{ wf, hosts string }{{"wfa", `["h1"]`}, {"wfb", `["h2"]`}} {
			wg.Add(1)
			x := x
			go func() {
				defer wg.Done()
				id, st, err := newEnv(w, x.wf, map[string]string{"hosts": x.hosts})
				fmt.Println("new", x.wf, ":", id, st, err)
			}()
		}
		wg.Wait()
		fmt.Print(snapshot(w))
		// sequential conflict
		w.SetWorkflow("wfc", "name: wfc\nroles:\n"+role("b", "h2", "tb", ""))
		id, st, err := newEnv(w, "wfc", map[string]string{"hosts": `["h2"]`})
		fmt.Println("new wfc (sequential, conflict):", id, st, err)
		fmt.Print(snapshot(w))
		return nil
	}},
	{"pending-call", map[string]string{"integrationPlugins": "testplugin"}, func(w *sim.World) error {
		w.SetTaskClass("ta", taskClass("ta", "direct"))
		w.SetWorkflow("wf", "name: wf\nroles:\n"+role("a", "h1", "ta", "")+
			"  - name: \"pc\"\n    call:\n      func: testplugin.Test()\n      trigger: before_CONFIGURE\n      await: before_START_ACTIVITY\n      timeout: 100ms\n      critical: false\n")
		id, st, err := newEnv(w, "wf", map[string]string{"hosts": `["h1"]`})
		fmt.Println("new:", id, st, err)
		fmt.Print(snapshot(w))
		err = destroy(w, id, false, false, false)
		fmt.Println("destroy:", err)
		time.Sleep(300 * time.Millisecond)
		fmt.Print(snapshot(w))
		for _, e := range w.CoreEvents() {
			if e.Topic == "aliecs.call" || strings.Contains(e.Type, "Call") {
				fmt.Println("   EV", e.Topic, e.Type, string(e.Payload))
			}
		}
		return nil
	}},
	{"destroy-running", nil, func(w *sim.World) error {
		w.SetTaskClass("ta", taskClass("ta", "direct"))
		w.SetWorkflow("wf", "name: wf\nroles:\n"+role("a", "h1", "ta", ""))
		for _, fl := range [][3]bool{{false, false, false}, {false, true, false}, {true, false, false}, {false, true, true}, {true, false, true}} {
			id, st, err := newEnv(w, "wf", map[string]string{"hosts": `["h1"]`})
			fmt.Println("new:", id, st, err)
			st, err = control(w, id, pb.ControlEnvironmentRequest_START_ACTIVITY)
			fmt.Println("start:", st, err)
			err = destroy(w, id, fl[0], fl[1], fl[2])
			fmt.Printf("destroy force=%v air=%v keep=%v: %v\n", fl[0], fl[1], fl[2], err)
			time.Sleep(200 * time.Millisecond)
			fmt.Print(snapshot(w))
			dump(w)
		}
		return nil
	}},
}
