// ownrun: run ownership scenarios (harness/ownh input format, one per argument or per stdin line) on the real core and print the observations.
package main

import (
	"bufio"
	"fmt"
	"io"
	"os"
	"strings"
	"time"

	"github.com/sirupsen/logrus"

	"verifharness/fw"
	"verifharness/ownh"
)

func main() {
	logrus.SetOutput(io.Discard)
	fw.DispatchChild()
	ins := os.Args[1:]
	tsv := false
	if len(ins) > 0 && ins[0] == "-tsv" {
		tsv, ins = true, ins[1:]
	}
	if len(ins) == 0 {
		sc := bufio.NewScanner(os.Stdin)
		sc.Buffer(make([]byte, 1<<20), 1<<24)
		for sc.Scan() {
			if l := strings.TrimSpace(sc.Text()); l != "" && !strings.HasPrefix(l, "#") {
				ins = append(ins, l)
			}
		}
	}
	for _, in := range ins {
		t0 := time.Now()
		obs, err := ownh.Run(in)
		if tsv {
			if err != nil {
				fmt.Fprintln(os.Stderr, "ERR", err)
				continue
			}
			fmt.Printf("%s\t%s\n", in, obs)
			continue
		}
		fmt.Printf("IN  %s\nOBS %s\nERR %v  (%.2fs)\n", in, strings.ReplaceAll(obs, ") ((", ")\n    (("), err, time.Since(t0).Seconds())
	}
}
