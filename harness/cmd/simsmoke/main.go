// simsmoke: end-to-end smoke run of verifharness/sim (the whole-core simulator).
//
//	cd /verif/harness && go build -tags verif -o /verif/.work/bin/simsmoke ./cmd/simsmoke && /verif/.work/bin/simsmoke
package main

import (
	"context"
	"flag"
	"fmt"
	"io"
	"os"
	"strings"
	"time"

	pb "github.com/AliceO2Group/Control/core/protos"
	mesos "github.com/mesos/mesos-go/api/v1/lib"
	"github.com/sirupsen/logrus"

	"verifharness/fw"
	"verifharness/sim"
)

const ceiling = 150 * time.Second // harness deadline for any single wait (never a verdict)

func taskClass(name, mode string) string {
	return fmt.Sprintf(`name: %s
control:
  mode: %s
wants:
  cpu: 0.1
  memory: 64
command:
  shell: true
  value: "sleep 100000"
`, name, mode)
}

const workflow = `name: simwf
defaults:
  deploy_timeout: 30s
roles:
  - name: "alpha"
    constraints:
      - attribute: machine_id
        value: "host1"
    task:
      load: tca
  - name: "beta"
    constraints:
      - attribute: machine_id
        value: "host2"
    task:
      load: tcb
  - name: "gamma"
    task:
      load: tcc
      critical: false
`

func main() {
	logrus.SetOutput(io.Discard)
	fw.DispatchChild()
	verbose := flag.Bool("v", false, "core runs with --verbose")
	only := flag.String("only", "", "run only the scenarios whose name contains this")
	slow := flag.Bool("slow", false, "also run the scenarios that wait for the core's 90 s response timeout")
	flag.Parse()
	t0 := time.Now()
	failed := 0
	for _, sc := range scenarios {
		if *only != "" && !strings.Contains(sc.name, *only) {
			continue
		}
		if strings.HasPrefix(sc.name, "slow-") && !*slow {
			fmt.Printf("\n(skipping %s: needs -slow)\n", sc.name)
			continue
		}
		fmt.Printf("\n================ scenario %s ================\n", sc.name)
		t1 := time.Now()
		err := runScenario(sc, *verbose)
		switch {
		case err == nil:
			fmt.Printf("---- %s done in %.1fs\n", sc.name, time.Since(t1).Seconds())
		case sim.IsInfra(err):
			fmt.Printf("---- %s INCONCLUSIVE (infrastructure): %v\n", sc.name, err)
			failed++
		default:
			fmt.Printf("---- %s ERROR: %v\n", sc.name, err)
			failed++
		}
	}
	fmt.Printf("\nall scenarios: %.1fs, %d not completed\n", time.Since(t0).Seconds(), failed)
	if failed > 0 {
		os.Exit(1)
	}
}

type scenario struct {
	name string
	run  func(w *sim.World) error
}

func runScenario(sc scenario, verbose bool) error {
	w, err := sim.Start(sim.Config{Name: "smoke", Verbose: verbose})
	if err != nil {
		return err
	}
	defer w.Stop()
	w.AddAgent(sim.AgentSpec{Host: "host1", Detector: "TST"})
	w.AddAgent(sim.AgentSpec{Host: "host2", Detector: "TST"})
	for _, c := range []struct{ n, m string }{{"tca", "direct"}, {"tcb", "direct"}, {"tcc", "basic"}} {
		if err = w.SetTaskClass(c.n, taskClass(c.n, c.m)); err != nil {
			return err
		}
	}
	if err = w.SetWorkflow("simwf", workflow); err != nil {
		return err
	}
	fmt.Printf("world up: master %s, consul %s, repo %s, dir %s\n", w.Master.URL(), w.Consul.Addr(), w.Repo.Path(), w.Dir())
	mark = 0
	err = sc.run(w)
	dump(w)
	return err
}

var mark int

// dump prints the trace entries not printed yet.
func dump(w *sim.World) {
	tr := w.Trace()
	for _, r := range tr[mark:] {
		if r.Type == "ACKNOWLEDGE" {
			continue
		}
		fmt.Println("   ", r.String())
	}
	mark = len(tr)
}

func tasksLine(w *sim.World) string {
	var s []string
	for _, t := range w.Tasks() {
		s = append(s, fmt.Sprintf("%s@%s[%s/%s kills=%d]", t.Class, t.Host, t.MesosState, t.FSM, t.Kills))
	}
	return strings.Join(s, " ")
}

func ctx() (context.Context, context.CancelFunc) {
	return context.WithTimeout(context.Background(), ceiling)
}

func newEnv(w *sim.World) (string, string, error) {
	c, cancel := ctx()
	defer cancel()
	r, err := w.Client().NewEnvironment(c, &pb.NewEnvironmentRequest{WorkflowTemplate: "simwf", Vars: map[string]string{}})
	if err != nil {
		return "", "", err
	}
	return r.GetEnvironment().GetId(), r.GetEnvironment().GetState(), nil
}

func control(w *sim.World, id string, op pb.ControlEnvironmentRequest_Optype) (string, error) {
	c, cancel := ctx()
	defer cancel()
	r, err := w.Client().ControlEnvironment(c, &pb.ControlEnvironmentRequest{Id: id, Type: op})
	if err != nil {
		return "", err
	}
	return r.GetState(), nil
}

func destroy(w *sim.World, id string, force bool) error {
	c, cancel := ctx()
	defer cancel()
	_, err := w.Client().DestroyEnvironment(c, &pb.DestroyEnvironmentRequest{Id: id, Force: force, AllowInRunningState: force})
	return err
}

func coreTasks(w *sim.World) string {
	c, cancel := ctx()
	defer cancel()
	r, err := w.Client().GetTasks(c, &pb.GetTasksRequest{})
	if err != nil {
		return "GetTasks: " + err.Error()
	}
	var s []string
	for _, t := range r.GetTasks() {
		s = append(s, fmt.Sprintf("%s[%s/%s locked=%v]", t.GetClassName()[strings.LastIndex(t.GetClassName(), "/")+1:], t.GetStatus(), t.GetState(), t.GetLocked()))
	}
	return fmt.Sprintf("%d: %s", len(s), strings.Join(s, " "))
}

func envs(w *sim.World) string {
	c, cancel := ctx()
	defer cancel()
	r, err := w.Client().GetEnvironments(c, &pb.GetEnvironmentsRequest{})
	if err != nil {
		return "GetEnvironments: " + err.Error()
	}
	var s []string
	for _, e := range r.GetEnvironments() {
		s = append(s, e.GetId()+"="+e.GetState())
	}
	return fmt.Sprintf("%d %v", len(s), s)
}

var scenarios = []scenario{
	{"subscribe", func(w *sim.World) error {
		fmt.Println("core subscribed, framework id", w.Master.FrameworkID())
		v, _ := w.Consul.Get("o2/runtime/aliecs/mesos_fid")
		fmt.Println("mesos_fid in KV:", v)
		return nil
	}},
	{"happy", func(w *sim.World) error {
		id, st, err := newEnv(w)
		if err != nil {
			return err
		}
		fmt.Printf("NewEnvironment -> env %s state %s\n  sim tasks: %s\n  core tasks: %s\n", id, st, tasksLine(w), coreTasks(w))
		dump(w)
		for _, op := range []pb.ControlEnvironmentRequest_Optype{
			pb.ControlEnvironmentRequest_START_ACTIVITY, pb.ControlEnvironmentRequest_STOP_ACTIVITY,
			pb.ControlEnvironmentRequest_RESET, pb.ControlEnvironmentRequest_CONFIGURE, pb.ControlEnvironmentRequest_RESET} {
			st, err = control(w, id, op)
			fmt.Printf("ControlEnvironment %s -> state %q err %v\n  sim tasks: %s\n", op, st, err, tasksLine(w))
			dump(w)
			if err != nil {
				return err
			}
		}
		err = destroy(w, id, false)
		fmt.Printf("DestroyEnvironment -> err %v; environments: %s\n", err, envs(w))
		// the kills are asynchronous to the reply: wait until the master saw every task end
		if e := w.Master.Wait("all tasks terminal", ceiling, func(v *sim.View) bool {
			for _, t := range v.Tasks {
				if !t.Terminal {
					return false
				}
			}
			return true
		}); e != nil {
			return e
		}
		fmt.Printf("  sim tasks: %s\n  core tasks: %s\n", tasksLine(w), coreTasks(w))
		return err
	}},
	{"start-error-critical", func(w *sim.World) error {
		// critical task tca answers START with an error and stays CONFIGURED
		w.SetOutcome(sim.Selector{Class: "tca"}, "START", sim.Outcome{Kind: sim.FailStay, Error: "cannot start: simulated"})
		return startScenario(w)
	}},
	{"start-error-noncritical", func(w *sim.World) error {
		// the non-critical task tcc answers START with an error and reports ERROR
		w.SetOutcome(sim.Selector{Class: "tcc"}, "START", sim.Outcome{Kind: sim.FailError, Error: "cannot start: simulated"})
		return startScenario(w)
	}},
	{"die-while-running", func(w *sim.World) error {
		id, st, err := newEnv(w)
		if err != nil {
			return err
		}
		st, err = control(w, id, pb.ControlEnvironmentRequest_START_ACTIVITY)
		fmt.Printf("env %s START_ACTIVITY -> %q err %v\n", id, st, err)
		if err != nil {
			return err
		}
		dump(w)
		var victim string
		for _, t := range w.Tasks() {
			if t.Class == "tcb" {
				victim = t.TaskID
			}
		}
		fmt.Printf("critical task tcb (%s) dies: TASK_FAILED from its executor\n", victim)
		if err = w.Master.InjectStatus(victim, mesos.TASK_FAILED, "process exited with 137"); err != nil {
			return err
		}
		st, err = w.WaitEnvState(id, ceiling, "ERROR", "")
		fmt.Printf("environment state after the death: %q (err %v)\n  sim tasks: %s\n  core tasks: %s\n", st, err, tasksLine(w), coreTasks(w))
		dump(w)
		if err != nil {
			return err
		}
		err = destroy(w, id, true)
		fmt.Printf("DestroyEnvironment(force) -> err %v; environments: %s\n", err, envs(w))
		if e := waitAllTerminal(w); e != nil {
			return e
		}
		fmt.Printf("  sim tasks: %s\n  core tasks: %s\n", tasksLine(w), coreTasks(w))
		return nil
	}},
	{"restart-with-live-tasks", func(w *sim.World) error {
		id, st, err := newEnv(w)
		if err != nil {
			return err
		}
		fmt.Printf("env %s %s; sim tasks: %s\n", id, st, tasksLine(w))
		dump(w)
		fmt.Println("kill -9 the core, start a new one against the same master/consul/repo")
		if err = w.RestartCore(); err != nil {
			return err
		}
		fmt.Printf("new core: framework id %s (KV mesos_fid), environments: %s, core tasks: %s\n", w.Master.FrameworkID(), envs(w), coreTasks(w))
		// whatever the new core does about the old tasks shows up as calls; wait for the reconciliation answers
		// to be consumed: the RECONCILE call of epoch 2 and, if the core kills them, the terminal states
		err = w.Master.Wait("reconciliation handled", 20*time.Second, func(v *sim.View) bool {
			for _, t := range v.Tasks {
				if !t.Terminal {
					return false
				}
			}
			return true
		})
		if err != nil {
			fmt.Println("(old tasks still alive after 20s — the core left them alone)")
		}
		fmt.Printf("  sim tasks: %s\n  core tasks: %s\n", tasksLine(w), coreTasks(w))
		dump(w)
		id2, st2, err := newEnv(w)
		fmt.Printf("NewEnvironment on the restarted core -> %s %s err %v\n  sim tasks: %s\n", id2, st2, err, tasksLine(w))
		return err
	}},
	{"drop-stream", func(w *sim.World) error {
		id, st, err := newEnv(w)
		if err != nil {
			return err
		}
		fmt.Printf("env %s %s; sim tasks: %s\n", id, st, tasksLine(w))
		dump(w)
		fmt.Println("master drops the event stream (connection reset)")
		n := len(w.Trace())
		w.DropStream(true)
		if err = w.Master.Wait("re-subscription", ceiling, func(v *sim.View) bool {
			for _, r := range v.Trace[n:] {
				if r.Type == "SUBSCRIBED" {
					return true
				}
			}
			return false
		}); err != nil {
			return err
		}
		// give the core the chance to act on the reconciliation answers: wait for a terminal task or 5s of quiet
		_ = w.Master.Wait("kills after reconciliation", 5*time.Second, func(v *sim.View) bool {
			for _, t := range v.Tasks {
				if !t.Terminal {
					return false
				}
			}
			return true
		})
		st, err = w.EnvState(id)
		fmt.Printf("after re-subscription: env state %q err %v\n  sim tasks: %s\n  core tasks: %s\n", st, err, tasksLine(w), coreTasks(w))
		st, err = w.WaitEnvState(id, 20*time.Second, "ERROR", "")
		fmt.Printf("a little later: env state %q (wait err %v)\n  core tasks: %s\n", st, err, coreTasks(w))
		return nil
	}},
	{"undeliverable+gate+duplicate", func(w *sim.World) error {
		w.SetOutcome(sim.Selector{Class: "tca"}, "CONFIGURE", sim.Outcome{Kind: sim.Duplicate})
		w.SetOutcome(sim.Selector{Class: "tcb"}, "START", sim.Outcome{Kind: sim.OK, Gate: "g1"})
		id, st, err := newEnv(w)
		if err != nil {
			return err
		}
		fmt.Printf("NewEnvironment (tca answers CONFIGURE twice) -> env %s state %s\n", id, st)
		dump(w)
		type res struct {
			st  string
			err error
		}
		ch := make(chan res, 1)
		go func() {
			st, err := control(w, id, pb.ControlEnvironmentRequest_START_ACTIVITY)
			ch <- res{st, err}
		}()
		if err = sim.Poll("tcb's START parked at the gate", ceiling, func() (bool, error) { return w.Master.Held("g1") == 1, nil }); err != nil {
			return err
		}
		st, _ = w.EnvState(id)
		fmt.Printf("START_ACTIVITY in flight, tcb holds its reply: env state %q, sim tasks: %s\n", st, tasksLine(w))
		w.Release("g1")
		r := <-ch
		fmt.Printf("gate released: START_ACTIVITY -> %q err %v\n", r.st, r.err)
		dump(w)
		st, err = control(w, id, pb.ControlEnvironmentRequest_STOP_ACTIVITY)
		fmt.Printf("STOP_ACTIVITY -> %q err %v\n", st, err)
		dump(w)
		fmt.Println("now the master answers the MESSAGE call carrying tca's START with HTTP 503")
		w.SetOutcome(sim.Selector{Class: "tca"}, "START", sim.Outcome{Kind: sim.Undeliverable, Times: 1})
		st, err = control(w, id, pb.ControlEnvironmentRequest_START_ACTIVITY)
		st2, _ := w.EnvState(id)
		fmt.Printf("START_ACTIVITY -> %q err %v; GetEnvironment: %q\n  sim tasks: %s\n  core tasks: %s\n", st, err, st2, tasksLine(w), coreTasks(w))
		_ = w.Master.Wait("quiet", 3*time.Second, func(v *sim.View) bool { return false })
		dump(w)
		return nil
	}},
	{"launch-failure", func(w *sim.World) error {
		w.SetOutcome(sim.Selector{Class: "tca"}, sim.EvLaunch, sim.Outcome{Kind: sim.Die})
		t1 := time.Now()
		id, st, err := newEnv(w)
		fmt.Printf("NewEnvironment (critical tca fails at launch) -> id %q state %q after %.1fs\n  err %v\n  environments: %s\n", id, st, time.Since(t1).Seconds(), err, envs(w))
		// NOTE: the core only KILLs tasks it already saw ACTIVE; siblings whose TASK_RUNNING it had not processed
		// yet when the deployment failed are dropped from its roster and keep running (observed ~1 run in 4).
		if e := w.Master.Wait("siblings of the failed task killed", 5*time.Second, func(v *sim.View) bool {
			for _, t := range v.Tasks {
				if !t.Terminal {
					return false
				}
			}
			return true
		}); e != nil {
			fmt.Println("  !! tasks still running in the master 5 s after the failed NewEnvironment returned, unknown to the core:")
		}
		fmt.Printf("  sim tasks: %s\n  core tasks: %s\n", tasksLine(w), coreTasks(w))
		return nil
	}},
	{"launch-failure-slow-siblings", func(w *sim.World) error {
		// deterministic version of the race above: the siblings report TASK_RUNNING only after the deployment failed
		w.SetOutcome(sim.Selector{Class: "tca"}, sim.EvLaunch, sim.Outcome{Kind: sim.Die})
		w.SetOutcome(sim.Selector{Class: "tcb"}, sim.EvLaunch, sim.Outcome{Kind: sim.OK, Gate: "slowstart"})
		w.SetOutcome(sim.Selector{Class: "tcc"}, sim.EvLaunch, sim.Outcome{Kind: sim.OK, Gate: "slowstart"})
		_, _, err := newEnv(w)
		fmt.Printf("NewEnvironment (tca fails at launch while tcb, tcc are still starting) -> err %v\n  environments: %s; core tasks: %s\n", err, envs(w), coreTasks(w))
		dump(w)
		fmt.Println("now tcb and tcc finish starting and report TASK_RUNNING")
		w.Release("slowstart")
		e := w.Master.Wait("late starters killed", 5*time.Second, func(v *sim.View) bool {
			for _, t := range v.Tasks {
				if !t.Terminal {
					return false
				}
			}
			return true
		})
		if e != nil {
			fmt.Println("  !! 5 s later they are still running in the master and the core does not know them:")
		}
		fmt.Printf("  sim tasks: %s\n  core tasks: %s\n", tasksLine(w), coreTasks(w))
		dump(w)
		return nil
	}},
	{"slow-silent-foreign-die", func(w *sim.World) error {
		// every one of these makes the core wait for its 90 s response timeout
		w.SetOutcome(sim.Selector{Class: "tcb"}, "START", sim.Outcome{Kind: sim.ForeignID})
		w.SetOutcome(sim.Selector{Class: "tcc"}, "START", sim.Outcome{Kind: sim.Silent})
		id, st, err := newEnv(w)
		if err != nil {
			return err
		}
		fmt.Printf("env %s %s\n", id, st)
		dump(w)
		t1 := time.Now()
		st, err = control(w, id, pb.ControlEnvironmentRequest_START_ACTIVITY)
		st2, _ := w.EnvState(id)
		fmt.Printf("START_ACTIVITY (tcb replies with a foreign command id, non-critical tcc never replies) -> %q err %v after %.1fs; GetEnvironment %q\n  sim tasks: %s\n  core tasks: %s\n",
			st, err, time.Since(t1).Seconds(), st2, tasksLine(w), coreTasks(w))
		dump(w)
		return nil
	}},
	{"slow-die-in-transition", func(w *sim.World) error {
		w.SetOutcome(sim.Selector{Class: "tcb"}, "START", sim.Outcome{Kind: sim.Die})
		id, st, err := newEnv(w)
		if err != nil {
			return err
		}
		fmt.Printf("env %s %s\n", id, st)
		dump(w)
		t1 := time.Now()
		st, err = control(w, id, pb.ControlEnvironmentRequest_START_ACTIVITY)
		st2, _ := w.EnvState(id)
		fmt.Printf("START_ACTIVITY (critical tcb dies instead of replying) -> %q err %v after %.1fs; GetEnvironment %q\n  sim tasks: %s\n  core tasks: %s\n",
			st, err, time.Since(t1).Seconds(), st2, tasksLine(w), coreTasks(w))
		dump(w)
		return nil
	}},
	{"failures+term", func(w *sim.World) error {
		id, st, err := newEnv(w)
		if err != nil {
			return err
		}
		st, err = control(w, id, pb.ControlEnvironmentRequest_START_ACTIVITY)
		rn, _ := w.Consul.Get("o2/runtime/run_number")
		fmt.Printf("env %s START_ACTIVITY -> %q err %v; run_number in KV: %s\n", id, st, err, rn)
		dump(w)
		var t2 sim.TaskRecord
		for _, t := range w.Tasks() {
			if t.Host == "host2" {
				t2 = t
			}
		}
		fmt.Printf("executor %s on host2 fails (FAILURE event, tasks reported TASK_FAILED by the agent)\n", t2.ExecutorID)
		w.Master.InjectExecutorFailure(t2.AgentID, t2.ExecutorID, 9, true)
		st, err = w.WaitEnvState(id, ceiling, "ERROR", "")
		fmt.Printf("environment state: %q (err %v)\n  sim tasks: %s\n  core tasks: %s\n", st, err, tasksLine(w), coreTasks(w))
		dump(w)
		n := 0
		for _, e := range w.CoreEvents() {
			if e.Topic == "aliecs.environment" {
				n++
			}
		}
		fmt.Printf("core published %d events, %d on aliecs.environment\n", len(w.CoreEvents()), n)
		fmt.Println("SIGTERM to the core")
		err = w.TermCore()
		fmt.Printf("core exited (err %v); sim tasks: %s\n", err, tasksLine(w))
		dump(w)
		return nil
	}},
	{"hook", func(w *sim.World) error {
		if err := w.SetTaskClass("thook", taskClass("thook", "hook")); err != nil {
			return err
		}
		if err := w.SetWorkflow("simwf", workflow+`  - name: "prehook"
    task:
      load: thook
      trigger: before_START_ACTIVITY
      timeout: 20s
`); err != nil {
			return err
		}
		w.SetOutcome(sim.Selector{Class: "thook"}, sim.EvHook, sim.Outcome{Kind: sim.OK, ExitCode: 0})
		id, st, err := newEnv(w)
		if err != nil {
			return err
		}
		fmt.Printf("NewEnvironment with a before_START_ACTIVITY hook task -> %s %s\n  sim tasks: %s\n", id, st, tasksLine(w))
		dump(w)
		st, err = control(w, id, pb.ControlEnvironmentRequest_START_ACTIVITY)
		fmt.Printf("START_ACTIVITY (hook exits 0) -> %q err %v\n", st, err)
		dump(w)
		st, err = control(w, id, pb.ControlEnvironmentRequest_STOP_ACTIVITY)
		fmt.Printf("STOP_ACTIVITY -> %q err %v\n", st, err)
		w.SetOutcome(sim.Selector{Class: "thook"}, sim.EvHook, sim.Outcome{Kind: sim.OK, ExitCode: 3})
		st, err = control(w, id, pb.ControlEnvironmentRequest_START_ACTIVITY)
		st2, _ := w.EnvState(id)
		fmt.Printf("START_ACTIVITY (hook exits 3) -> %q err %v; GetEnvironment %q\n", st, err, st2)
		dump(w)
		return nil
	}},
}

func waitAllTerminal(w *sim.World) error {
	return w.Master.Wait("all tasks terminal", ceiling, func(v *sim.View) bool {
		for _, t := range v.Tasks {
			if !t.Terminal {
				return false
			}
		}
		return true
	})
}

func startScenario(w *sim.World) error {
	id, st, err := newEnv(w)
	if err != nil {
		return err
	}
	fmt.Printf("NewEnvironment -> env %s state %s\n", id, st)
	dump(w)
	st, err = control(w, id, pb.ControlEnvironmentRequest_START_ACTIVITY)
	st2, _ := w.EnvState(id)
	fmt.Printf("ControlEnvironment START_ACTIVITY -> reply state %q err %v\n  GetEnvironment state: %q\n  sim tasks: %s\n  core tasks: %s\n", st, err, st2, tasksLine(w), coreTasks(w))
	dump(w)
	err = destroy(w, id, true)
	fmt.Printf("DestroyEnvironment(force) -> err %v; environments: %s\n", err, envs(w))
	if e := waitAllTerminal(w); e != nil {
		return e
	}
	fmt.Printf("  sim tasks: %s\n  core tasks: %s\n", tasksLine(w), coreTasks(w))
	return nil
}

var _ = mesos.TASK_RUNNING
