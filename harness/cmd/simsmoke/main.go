// simsmoke: end-to-end smoke run of verifharness/sim (the whole-core simulator).
//
//	cd /verif/harness && go build -tags verif -o /verif/.work/bin/simsmoke ./cmd/simsmoke && /verif/.work/bin/simsmoke
package main

import (
	"context"
	"flag"
	"fmt"
	"io"
	"os"
	"strings"
	"time"

	pb "github.com/AliceO2Group/Control/core/protos"
	mesos "github.com/mesos/mesos-go/api/v1/lib"
	"github.com/sirupsen/logrus"

	"verifharness/fw"
	"verifharness/sim"
)

const ceiling = 150 * time.Second // harness deadline for any single wait (never a verdict)

func taskClass(name, mode string) string {
	return fmt.Sprintf(`name: %s
control:
  mode: %s
wants:
  cpu: 0.1
  memory: 64
command:
  shell: true
  value: "sleep 100000"
`, name, mode)
}

const workflow = `name: simwf
defaults:
  deploy_timeout: 30s
roles:
  - name: "alpha"
    constraints:
      - attribute: machine_id
        value: "host1"
    task:
      load: tca
  - name: "beta"
    constraints:
      - attribute: machine_id
        value: "host2"
    task:
      load: tcb
  - name: "gamma"
    task:
      load: tcc
      critical: false
`

func main() {
	logrus.SetOutput(io.Discard)
	fw.DispatchChild()
	verbose := flag.Bool("v", false, "core runs with --verbose")
	only := flag.String("only", "", "run only the scenarios whose name contains this")
	flag.Parse()
	t0 := time.Now()
	failed := 0
	for _, sc := range scenarios {
		if *only != "" && !strings.Contains(sc.name, *only) {
			continue
		}
		fmt.Printf("\n================ scenario %s ================\n", sc.name)
		t1 := time.Now()
		err := runScenario(sc, *verbose)
		switch {
		case err == nil:
			fmt.Printf("---- %s done in %.1fs\n", sc.name, time.Since(t1).Seconds())
		case sim.IsInfra(err):
			fmt.Printf("---- %s INCONCLUSIVE (infrastructure): %v\n", sc.name, err)
			failed++
		default:
			fmt.Printf("---- %s ERROR: %v\n", sc.name, err)
			failed++
		}
	}
	fmt.Printf("\nall scenarios: %.1fs, %d not completed\n", time.Since(t0).Seconds(), failed)
	if failed > 0 {
		os.Exit(1)
	}
}

type scenario struct {
	name string
	run  func(w *sim.World) error
}

func runScenario(sc scenario, verbose bool) error {
	w, err := sim.Start(sim.Config{Name: "smoke", Verbose: verbose})
	if err != nil {
		return err
	}
	defer w.Stop()
	w.AddAgent(sim.AgentSpec{Host: "host1", Detector: "TST"})
	w.AddAgent(sim.AgentSpec{Host: "host2", Detector: "TST"})
	for _, c := range []struct{ n, m string }{{"tca", "direct"}, {"tcb", "direct"}, {"tcc", "basic"}} {
		if err = w.SetTaskClass(c.n, taskClass(c.n, c.m)); err != nil {
			return err
		}
	}
	if err = w.SetWorkflow("simwf", workflow); err != nil {
		return err
	}
	fmt.Printf("world up: master %s, consul %s, repo %s, dir %s\n", w.Master.URL(), w.Consul.Addr(), w.Repo.Path(), w.Dir())
	mark := 0
	err = sc.run(w)
	dump(w, &mark)
	return err
}

// dump prints the trace entries after *mark.
func dump(w *sim.World, mark *int) {
	tr := w.Trace()
	for _, r := range tr[*mark:] {
		if r.Type == "ACKNOWLEDGE" {
			continue
		}
		fmt.Println("   ", r.String())
	}
	*mark = len(tr)
}

func tasksLine(w *sim.World) string {
	var s []string
	for _, t := range w.Tasks() {
		s = append(s, fmt.Sprintf("%s@%s[%s/%s kills=%d]", t.Class, t.Host, t.MesosState, t.FSM, t.Kills))
	}
	return strings.Join(s, " ")
}

func ctx() (context.Context, context.CancelFunc) {
	return context.WithTimeout(context.Background(), ceiling)
}

func newEnv(w *sim.World) (string, string, error) {
	c, cancel := ctx()
	defer cancel()
	r, err := w.Client().NewEnvironment(c, &pb.NewEnvironmentRequest{WorkflowTemplate: "simwf", Vars: map[string]string{}})
	if err != nil {
		return "", "", err
	}
	return r.GetEnvironment().GetId(), r.GetEnvironment().GetState(), nil
}

func control(w *sim.World, id string, op pb.ControlEnvironmentRequest_Optype) (string, error) {
	c, cancel := ctx()
	defer cancel()
	r, err := w.Client().ControlEnvironment(c, &pb.ControlEnvironmentRequest{Id: id, Type: op})
	if err != nil {
		return "", err
	}
	return r.GetState(), nil
}

func destroy(w *sim.World, id string, force bool) error {
	c, cancel := ctx()
	defer cancel()
	_, err := w.Client().DestroyEnvironment(c, &pb.DestroyEnvironmentRequest{Id: id, Force: force, AllowInRunningState: force})
	return err
}

func coreTasks(w *sim.World) string {
	c, cancel := ctx()
	defer cancel()
	r, err := w.Client().GetTasks(c, &pb.GetTasksRequest{})
	if err != nil {
		return "GetTasks: " + err.Error()
	}
	var s []string
	for _, t := range r.GetTasks() {
		s = append(s, fmt.Sprintf("%s[%s/%s locked=%v]", t.GetClassName()[strings.LastIndex(t.GetClassName(), "/")+1:], t.GetStatus(), t.GetState(), t.GetLocked()))
	}
	return fmt.Sprintf("%d: %s", len(s), strings.Join(s, " "))
}

func envs(w *sim.World) string {
	c, cancel := ctx()
	defer cancel()
	r, err := w.Client().GetEnvironments(c, &pb.GetEnvironmentsRequest{})
	if err != nil {
		return "GetEnvironments: " + err.Error()
	}
	var s []string
	for _, e := range r.GetEnvironments() {
		s = append(s, e.GetId()+"="+e.GetState())
	}
	return fmt.Sprintf("%d %v", len(s), s)
}

var scenarios = []scenario{
	{"subscribe", func(w *sim.World) error {
		fmt.Println("core subscribed, framework id", w.Master.FrameworkID())
		v, _ := w.Consul.Get("o2/runtime/aliecs/mesos_fid")
		fmt.Println("mesos_fid in KV:", v)
		return nil
	}},
	{"happy", func(w *sim.World) error {
		mark := 0
		id, st, err := newEnv(w)
		if err != nil {
			return err
		}
		fmt.Printf("NewEnvironment -> env %s state %s\n  sim tasks: %s\n  core tasks: %s\n", id, st, tasksLine(w), coreTasks(w))
		dump(w, &mark)
		for _, op := range []pb.ControlEnvironmentRequest_Optype{
			pb.ControlEnvironmentRequest_START_ACTIVITY, pb.ControlEnvironmentRequest_STOP_ACTIVITY,
			pb.ControlEnvironmentRequest_RESET, pb.ControlEnvironmentRequest_CONFIGURE, pb.ControlEnvironmentRequest_RESET} {
			st, err = control(w, id, op)
			fmt.Printf("ControlEnvironment %s -> state %q err %v\n  sim tasks: %s\n", op, st, err, tasksLine(w))
			dump(w, &mark)
			if err != nil {
				return err
			}
		}
		err = destroy(w, id, false)
		fmt.Printf("DestroyEnvironment -> err %v; environments: %s\n", err, envs(w))
		// the kills are asynchronous to the reply: wait until the master saw every task end
		if e := w.Master.Wait("all tasks terminal", ceiling, func(v *sim.View) bool {
			for _, t := range v.Tasks {
				if !t.Terminal {
					return false
				}
			}
			return true
		}); e != nil {
			return e
		}
		fmt.Printf("  sim tasks: %s\n  core tasks: %s\n", tasksLine(w), coreTasks(w))
		return err
	}},
}

var _ = mesos.TASK_RUNNING
