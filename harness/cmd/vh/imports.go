package main

// One blank import per property package (keep sorted).
import (
	_ "verifharness/props/c11"
)
