// vh: extractor (gen) and correspondence driver (run / replay), one property
// package per property under harness/props, registered through fw.Register.
package main

import (
	"encoding/json"
	"flag"
	"fmt"
	"io"
	"os"
	"strconv"

	"github.com/sirupsen/logrus"

	"verifharness/fw"
)

func die(code int, f string, a ...any) {
	fmt.Fprintf(os.Stderr, f+"\n", a...)
	os.Exit(code)
}

func main() {
	// the repository logs through logrus' standard logger; log text is never an observable
	logrus.SetOutput(io.Discard)
	logrus.SetLevel(logrus.PanicLevel)
	fw.DispatchChild()
	if len(os.Args) < 2 {
		die(2, "usage: vh gen <dir> | vh run <Cxx> [flags] | vh replay <Cxx> <input-file> [flags] | vh list")
	}
	switch os.Args[1] {
	case "list":
		for _, id := range fw.IDs() {
			fmt.Println(id)
		}
	case "gen":
		if len(os.Args) < 3 {
			die(2, "usage: vh gen <dir>")
		}
		repo := os.Getenv("VERIF_REPO")
		if repo == "" {
			repo = "/repo"
		}
		if err := fw.WriteGens(repo, os.Args[2]); err != nil {
			die(3, "gen failed: %v", err)
		}
	case "run", "replay":
		if len(os.Args) < 3 {
			die(2, "usage: vh %s <Cxx> ...", os.Args[1])
		}
		id := os.Args[2]
		p := fw.Lookup(id)
		if p == nil {
			die(2, "unknown property %s", id)
		}
		fs := flag.NewFlagSet("vh", flag.ExitOnError)
		tier := fs.String("tier", "quick", "")
		seed := fs.String("seed", "1", "")
		driver := fs.String("driver", "/verif/lean/.lake/build/bin/driver", "")
		work := fs.String("work", "/verif/.work/"+id, "")
		corpus := fs.String("corpus", "/verif/corpus/"+id, "")
		out := fs.String("out", "", "")
		witnesses := fs.String("witnesses", "", "JSON file: [{\"ID\":..,\"Input\":..}]")
		input := fs.String("input", "", "replay: the input itself")
		max := fs.Int("max", 0, "")
		fs.Parse(os.Args[3:])
		s, _ := strconv.ParseUint(*seed, 10, 64)
		o := fw.RunOpts{Tier: *tier, Seed: s, Driver: *driver, Work: *work, CorpusDir: *corpus, MaxCases: *max}
		if *witnesses != "" {
			b, err := os.ReadFile(*witnesses)
			if err == nil {
				json.Unmarshal(b, &o.Witnesses)
			}
		}
		if os.Args[1] == "replay" {
			cr, fails, err := fw.Replay(p, o, *input)
			if err != nil {
				die(3, "replay: %v", err)
			}
			b, _ := json.MarshalIndent(map[string]any{"case": cr, "still_fails": fails}, "", " ")
			fmt.Println(string(b))
			if *out != "" {
				os.WriteFile(*out, b, 0o644)
			}
			return
		}
		res, err := fw.Run(p, o)
		if err != nil {
			die(3, "run: %v", err)
		}
		if *out != "" {
			if err := fw.WriteJSON(*out, res); err != nil {
				die(3, "write: %v", err)
			}
		} else {
			b, _ := json.MarshalIndent(res, "", " ")
			fmt.Println(string(b))
		}
	default:
		die(2, "unknown subcommand %s", os.Args[1])
	}
}
