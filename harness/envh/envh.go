// Package envh drives a REAL core/environment.Environment (real fsm, real
// callbacks, real handleHooks, real callable.Call machinery, real
// Manager.TeardownEnvironment) with scripted task-level bodies, probe call hooks
// and probe task hooks, and records everything observable in one global order.
// Shared by the C01, C08, C09 and C10 harnesses.
//
// Input (S-expression):  (hooks reqs nTasks)  |  (hooks reqs nTasks uvars)
//
//	uvars := ((key value) …)   user-supplied workflow variables, set as user variables of the workflow's root
//	        role before the first request (what `env.GetKV("", key)` and every role's variable stack see). The
//	        model takes no variable of this kind into account: whatever the code makes of one shows as a
//	        disagreement. Inputs without the field run exactly as before.
//	hook := (id call|task crit trigName trigW awaitName awaitW (o0 o1 …))     oK=1 ⇒ K-th execution fails
//	      | (id call|task crit trigName trigW awaitName awaitW (o0 o1 …) timeoutMs durMs)
//	        timeoutMs > 0: the call hook's own `timeout` trait in ms (default 5s; task hooks always 5s);
//	        durMs > 0: the probe takes that many ms (default 0.3 ms). Neither has any effect in the model:
//	        the core does not abort a call at its timeout and collects its result at the await point whenever
//	        the call finishes (docs/handbook/configuration.md, callable/call.go).
//	        oK may also NAME THE WAY the K-th execution of a call hook fails (an atom other than 0 / 1; 1 = the
//	        plugin writes __call_error, the only way there was before): see ways.go. Hooks without such an
//	        atom run exactly as before.
//	        trigW / awaitW may also be (w TEXT): the weight AS WRITTEN in the template — TEXT is appended to the
//	        trigger / await name verbatim ("+010", "-007", "+0", "-0", "" = no weight at all, …), so that the
//	        core's own callable.ParseTriggerExpression reads it; the model reads the same text with the documented
//	        decimal reading (Model/TrigExpr.lean). A plain integer is written as %+d, as ever.
//	req  := (T ev bodyOk rnFail) | (C ev bodyOk rnFail) | (D force relOk1 relOk2)
//	      | (TR ev bodyOk rnFail) | (CR ev bodyOk rnFail)
//	        like T / C, but the task-level body is the REAL one of core/environment/transition_*.go
//	        (environment.NewConfigureTransition / NewStartActivityTransition / NewStopActivityTransition /
//	        NewResetTransition) for ev in CONFIGURE START_ACTIVITY STOP_ACTIVITY RESET: it sends its
//	        TransitionTasks / ConfigureTasks command to the task manager's MessageChannel and waits on the
//	        environment's stateChangedCh; the harness's fake task manager answers it with a
//	        TasksStateChangedEvent through the environment manager's event loop (bodyOk ⇒ no error, !bodyOk ⇒
//	        "tasks failed to change state"), and records (B ev) when the command arrives. Everything the real
//	        body does besides (StartActivityTransition.do resets currentRunNumber when the tasks fail to
//	        start, …) is the code's own doing, not a replica. For the other events (DEPLOY needs a real
//	        deployment; EXIT/RECOVER/GO_ERROR have no task-level command) TR/CR fall back to the scripted
//	        body. The model is the same for T and TR, C and CR. A real CONFIGURE asks nobody when the
//	        workflow has no active task, so TR/CR CONFIGURE need nTasks ≥ 1 (otherwise the case is
//	        reported as an infrastructure error, i.e. inconclusive).
//	      | (P q1 q2) | (P q1 q2 holdMs)
//	        q2 is issued by a second caller while q1 is parked inside its critical section (at its first gate
//	        point: scripted body, command of a real body held unanswered by the fake task manager, first release
//	        round). holdMs > 0: the gate stays closed for at least holdMs more after the first sighting of q2 —
//	        the task phase of q1 lasts that long — and a second sighting is recorded (OW) before it opens.
//
// Trace (S-expression list), in global sequence order:
//
//	(M step s|f)                   Ev_EnvironmentEvent "transition step starting/finished"
//	(XS id k) (XE id k fails snap st)   probe call: entry / exit (snap = variables of the call's VarStack)
//	(XE id k 1 snap st way)        the same for an execution that failed in a NAMED way (ways.go)
//	(H (id k fails)…)              hookHandlerF invoked with these task hooks
//	(B ev)                         the scripted task-level body ran / the fake task manager received the
//	                               command of the real body of ev (named after the command: START→START_ACTIVITY …)
//	(RE transition status rn ts)   Ev_RunEvent published (ts = timestamp it was published with)
//	(R result state rn vars pending gone)   the request returned
//	(OV queued|returned|elsewhere st0 st1)  overlapping pair (P q1 q2), q1 parked inside its critical section:
//	                               q2 was seen waiting for the transition mutex / returned / blocked elsewhere;
//	                               st0, st1 = the state reported before q2 was issued and after that sighting
//	                               (both while q1 still holds the mutex). A q2 that returned has its R record
//	                               right after this one, i.e. BEFORE q1's.
//	(OW first second st)           pair (P q1 q2 holdMs): the second sighting, holdMs after the first, the gate of q1
//	                               still closed (its task-level command still unanswered): first = inside | returned
//	                               (q1 has / has not returned to its caller), second = queued | returned | inside
//	                               (q2 got into its critical section: it reached its first published event) |
//	                               elsewhere, st = the state reported now. A request that returned by now has its R
//	                               record right after this one.
//	(BO ev n)                      the command of a real body of ev reached the fake task manager while n earlier
//	                               commands of this environment were still unanswered (two task phases at a time)
//	(Q n)                          end of the case, after every probe call has returned: n goroutines of
//	                               callable.(*Call).Start hold a result that was neither collected (Await) nor
//	                               cancelled (teardown) — counted before the harness's own clean-up teardown
package envh

import (
	"fmt"
	"os"
	"path/filepath"
	"regexp"
	"runtime"
	"sort"
	"strconv"
	"strings"
	"sync"
	"sync/atomic"
	"time"

	"github.com/AliceO2Group/Control/common/event"
	"github.com/AliceO2Group/Control/common/event/topic"
	"github.com/AliceO2Group/Control/common/gera"
	evpb "github.com/AliceO2Group/Control/common/protos"
	occpb "github.com/AliceO2Group/Control/executor/protos"
	"github.com/AliceO2Group/Control/common/utils/uid"
	"github.com/AliceO2Group/Control/core/environment"
	"github.com/AliceO2Group/Control/core/integration"
	"github.com/AliceO2Group/Control/core/task"
	"github.com/AliceO2Group/Control/core/task/channel"
	"github.com/AliceO2Group/Control/core/task/sm"
	"github.com/AliceO2Group/Control/core/task/taskclass"
	"github.com/AliceO2Group/Control/core/task/taskop"
	"github.com/AliceO2Group/Control/core/the"
	"github.com/AliceO2Group/Control/core/workflow"
	"github.com/AliceO2Group/Control/core/workflow/callable"
	mesos "github.com/mesos/mesos-go/api/v1/lib"
	"github.com/spf13/viper"
	"gopkg.in/yaml.v3"

	"verifharness/sx"
)

// ---- global recorder (one case at a time: Workers must be 1) ------------------------------

type recorder struct {
	mu     sync.Mutex
	events []*sx.Node
}

var rec = &recorder{}

func (r *recorder) add(n *sx.Node) {
	r.mu.Lock()
	r.events = append(r.events, n)
	r.mu.Unlock()
}
func (r *recorder) reset() {
	r.mu.Lock()
	r.events = nil
	r.mu.Unlock()
}
func (r *recorder) take() []*sx.Node {
	r.mu.Lock()
	defer r.mu.Unlock()
	out := r.events
	r.events = nil
	return out
}

// ---- current case ---------------------------------------------------------------------------

type hookDef struct {
	id       int
	isTask   bool
	crit     bool
	trig     string
	tw       int
	await    string
	aw       int
	outcomes []bool
	execs    int32
	timeout  int // ms, 0 = default
	dur      int // ms the probe takes, 0 = default
	ways     []string // per execution: "" = the plugin writes __call_error (outcome atoms 0 / 1), else the named way (ways.go)
	hasWays  bool     // some execution fails in a named way: the hook goes through waysStack
	twText   *string  // the trigger weight as written, when the input gives it as (w TEXT)
	awText   *string  // the await weight as written
}

type caseState struct {
	hooks   map[string]*hookDef // by role path "root.h<id>"
	byTask  map[string]*hookDef // by task id
	env     *environment.Environment
	relOk   []bool // scripted results of the next ReleaseTasks rounds
	relMu   sync.Mutex
	pace    bool
	body    atomic.Pointer[bodyScript] // TR/CR: scripted answer of the fake task manager to the next command of a real body
	gate    atomic.Pointer[gateT] // overlapping requests: where the first one is parked inside its critical section
	badWay  atomic.Pointer[string] // ways.go: an execution the input does not script consistently (infrastructure error)
	hold    atomic.Pointer[holdT] // overlapping requests: the second one is parked at its first published event
	inflight atomic.Int32 // commands of real bodies that reached the fake task manager and are not answered yet
}

// bodyScript: how the fake task manager answers the command round trip of a real transition body.
type bodyScript struct {
	ev string
	ok bool
}

// realBodyEvents: the environment events whose real task-level body is one command round trip with the
// task manager, and the constructor of the real transition.
var realBodyEvents = map[string]func(*task.Manager) environment.Transition{
	"CONFIGURE":      environment.NewConfigureTransition,
	"START_ACTIVITY": environment.NewStartActivityTransition,
	"STOP_ACTIVITY":  environment.NewStopActivityTransition,
	"RESET":          environment.NewResetTransition,
}

// commandEvent names the environment event a task-manager command belongs to (what the real body asked for).
func commandEvent(m *task.TaskmanMessage) string {
	if m.GetMessageType() == taskop.ConfigureTasks {
		return "CONFIGURE"
	}
	switch m.GetEvent() {
	case sm.START.String():
		return "START_ACTIVITY"
	case sm.STOP.String():
		return "STOP_ACTIVITY"
	case sm.RESET.String():
		return "RESET"
	}
	return "TASKS_" + m.GetEvent()
}

// gateT parks the goroutine that first reaches a gate point (scripted body, ReleaseTasks handling) while armed.
type gateT struct {
	armed   atomic.Bool
	reached chan struct{}
	release chan struct{}
}

func (cs *caseState) hitGate() {
	if g := cs.gate.Load(); g != nil && g.armed.CompareAndSwap(true, false) {
		close(g.reached)
		<-g.release
	}
}

// holdT parks goroutine gid at the first event it publishes (the first thing TryTransition and
// TeardownEnvironment do with the mutex held, before they change anything).
type holdT struct {
	gid     int64
	ch      chan struct{}
	reached atomic.Bool // gid got as far as its first published event (it is inside its critical section)
}

func goid() int64 {
	var buf [64]byte
	n := runtime.Stack(buf[:], false)
	f := strings.Fields(string(buf[:n]))
	if len(f) < 2 {
		return -1
	}
	id, _ := strconv.ParseInt(f[1], 10, 64)
	return id
}

var cur atomic.Pointer[caseState]

// ---- event capture ------------------------------------------------------------------------------

type capWriter struct{ t topic.Topic }

func (w *capWriter) Close() {}
func (w *capWriter) WriteEvent(e interface{}) {
	w.WriteEventWithTimestamp(e, time.Time{})
}
func (w *capWriter) WriteEventWithTimestamp(e interface{}, ts time.Time) {
	if ev, ok := e.(*evpb.Ev_EnvironmentEvent); ok && ev.Message == "running DESTROY hooks" {
		// TeardownEnvironment has just been handed the first TasksReleasedEvent and is about to
		// register a fresh pending-teardown channel, while the manager's event loop may not yet
		// have closed-and-deleted the old registration — done late, that delete removes the
		// FRESH one and the teardown waits for ever (a race in the core, recorded under C06).
		// The harness does not race it: it waits here until the loop is back at its receive.
		syncEnvmanLoop()
	}
	cs := cur.Load()
	if cs == nil {
		return
	}
	if h := cs.hold.Load(); h != nil && goid() == h.gid {
		h.reached.Store(true)
		<-h.ch
	}
	switch ev := e.(type) {
	case *evpb.Ev_EnvironmentEvent:
		switch ev.Message {
		case "transition step starting":
			rec.add(sx.L(sx.A("M"), sx.A(ev.TransitionStep), sx.A("s")))
		case "transition step finished":
			rec.add(sx.L(sx.A("M"), sx.A(ev.TransitionStep), sx.A("f")))
			pace(cs)
		}
	case *evpb.Ev_RunEvent:
		rec.add(sx.L(sx.A("RE"), sx.A(ev.Transition), sx.A(ev.TransitionStatus.String()), sx.U64(uint64(ev.RunNumber)), sx.I64(ts.UnixMilli())))
		pace(cs)
	}
}

// pace makes consecutive time.Now() reads of the core fall into different milliseconds, so
// that the four run timestamps are pairwise comparable by value (see DESIGN: C10 tie).
func pace(cs *caseState) {
	if cs.pace {
		time.Sleep(1200 * time.Microsecond)
	}
}

// ---- probe plugin -------------------------------------------------------------------------------

type probePlugin struct{}

func (p *probePlugin) GetName() string                         { return "verifprobe" }
func (p *probePlugin) GetPrettyName() string                   { return "verification probe" }
func (p *probePlugin) GetEndpoint() string                     { return "" }
func (p *probePlugin) GetConnectionState() string              { return "READY" }
func (p *probePlugin) GetData(_ []any) string                  { return "" }
func (p *probePlugin) GetEnvironmentsData(_ []uid.ID) map[uid.ID]string      { return nil }
func (p *probePlugin) GetEnvironmentsShortData(_ []uid.ID) map[uid.ID]string { return nil }
func (p *probePlugin) Init(_ string) error                     { return nil }
func (p *probePlugin) Destroy() error                          { return nil }
func (p *probePlugin) ObjectStack(_ map[string]string, _ map[string]string) map[string]interface{} {
	return map[string]interface{}{}
}

func snapOf(vs map[string]string) *sx.Node {
	get := func(k string) *sx.Node {
		v, ok := vs[k]
		if !ok {
			return sx.A("absent")
		}
		if v == "" {
			return sx.A("empty")
		}
		return sx.A(v)
	}
	return sx.L(get("run_number"), get("last_run_number"), get("run_start_time_ms"), get("run_start_completion_time_ms"),
		get("run_end_time_ms"), get("run_end_completion_time_ms"))
}

func (p *probePlugin) CallStack(data interface{}) map[string]interface{} {
	call, ok := data.(*callable.Call)
	if !ok {
		return nil
	}
	if cs := cur.Load(); cs != nil {
		if h := cs.hooks[call.GetParentRolePath()]; h != nil && h.hasWays {
			return waysStack(cs, h, call)
		}
	}
	return map[string]interface{}{
		"Probe": func() string {
			cs := cur.Load()
			if cs == nil {
				return ""
			}
			h := cs.hooks[call.GetParentRolePath()]
			if h == nil {
				call.VarStack["__call_error"] = "unknown probe " + call.GetParentRolePath()
				return ""
			}
			k := int(atomic.AddInt32(&h.execs, 1)) - 1
			rec.add(sx.L(sx.A("XS"), sx.I(h.id), sx.I(k)))
			fails := k < len(h.outcomes) && h.outcomes[k]
			st := cs.env.Sm.Current()
			// take a little time, so that a transition that failed to wait for this call would be seen moving on
			if h.dur > 0 {
				time.Sleep(time.Duration(h.dur) * time.Millisecond)
			} else {
				time.Sleep(300 * time.Microsecond)
			}
			if fails {
				call.VarStack["__call_error"] = fmt.Sprintf("probe %d failed", h.id)
			}
			rec.add(sx.L(sx.A("XE"), sx.I(h.id), sx.I(k), sx.B(fails), snapOf(call.VarStack), sx.A(st)))
			return ""
		},
	}
}

// ---- one-time process setup ---------------------------------------------------------------------

var (
	setupOnce sync.Once
	setupErr  error
	workDir   string
	envman    *environment.Manager
	taskman   *task.Manager
	evCh      chan event.Event
	envSeq    uint64
)

// Setup prepares the process-global pieces (viper, plugin registry, event writers, managers).
func Setup(work string) error {
	setupOnce.Do(func() {
		workDir = filepath.Join(work, fmt.Sprintf("envh-%d", os.Getpid()))
		if setupErr = os.MkdirAll(workDir, 0o755); setupErr != nil {
			return
		}
		viper.Set("integrationPlugins", []string{"verifprobe"})
		viper.Set("config_endpoint", "mock://")
		viper.Set("verifProbeEndpoint", "inproc")
		viper.Set("coreWorkingDir", workDir)
		viper.Set("enableKafka", false)
		integration.RegisterPlugin("verifprobe", "verifProbeEndpoint", func(string) integration.Plugin { return &probePlugin{} })
		for _, t := range []topic.Topic{topic.Environment, topic.Run, topic.Call, topic.Role, topic.Task, topic.Core, topic.Root, topic.IntegratedService} {
			the.SetEventWriterForVerif(t, &capWriter{t: t})
		}
		taskman = task.NewBareManagerForVerif()
		evCh = make(chan event.Event)
		envman = environment.NewEnvManager(taskman, evCh)
		// the fake task manager: answers ReleaseTasks like the real one would, per script
		go func() {
			for m := range taskman.MessageChannel {
				if mt := m.GetMessageType(); mt == taskop.TransitionTasks || mt == taskop.ConfigureTasks {
					// the command of a REAL transition body (TR/CR requests): answered like the real task
					// manager does, with a TasksStateChangedEvent that the environment manager's event loop
					// hands to the environment's stateChangedCh, where the body waits
					var terr error
					cs := cur.Load()
					if cs == nil {
						evCh <- event.NewTasksStateChangedEvent(m.GetEnvironmentId(), m.GetTasks().GetTaskIds(), terr)
						continue
					}
					// the task phase of the transition begins: commands in flight are counted, a command that
					// arrives while an earlier one is unanswered is an observation of its own
					n := cs.inflight.Add(1)
					rec.add(sx.L(sx.A("B"), sx.A(commandEvent(m))))
					if n > 1 {
						rec.add(sx.L(sx.A("BO"), sx.A(commandEvent(m)), sx.I(int(n-1))))
					}
					if b := cs.body.Swap(nil); b != nil && !b.ok {
						terr = fmt.Errorf("scripted body failed: tasks did not reach %s", m.GetDestination())
					}
					answer := func(m *task.TaskmanMessage, terr error) {
						evCh <- event.NewTasksStateChangedEvent(m.GetEnvironmentId(), m.GetTasks().GetTaskIds(), terr)
						cs.inflight.Add(-1)
					}
					if g := cs.gate.Load(); g != nil && g.armed.CompareAndSwap(true, false) {
						// overlapping pair: the answer is HELD (the tasks are slow) until the gate opens; the fake
						// task manager goes on serving, so that whatever else reaches it meanwhile is seen
						close(g.reached)
						go func(m *task.TaskmanMessage, terr error) {
							<-g.release
							answer(m, terr)
						}(m, terr)
						continue
					}
					answer(m, terr)
					continue
				}
				if m.GetMessageType() != taskop.ReleaseTasks {
					continue
				}
				cs := cur.Load()
				ok := true
				if cs != nil {
					cs.hitGate()
					cs.relMu.Lock()
					if len(cs.relOk) > 0 {
						ok = cs.relOk[0]
						cs.relOk = cs.relOk[1:]
					}
					cs.relMu.Unlock()
				}
				ids := []string{}
				for _, t := range m.GetTasks() {
					ids = append(ids, t.GetTaskId())
				}
				errs := map[string]error{}
				if !ok {
					errs["scripted"] = fmt.Errorf("scripted release failure")
				}
				evCh <- event.NewTasksReleasedEvent(m.GetEnvironmentId(), ids, errs)
			}
		}()
	})
	return setupErr
}

func Teardown() {
	if workDir != "" {
		os.RemoveAll(workDir)
	}
}

// ---- building the environment ---------------------------------------------------------------------

func buildYAML(hooks []*hookDef, nTasks int) string {
	var b strings.Builder
	b.WriteString("name: root\nroles:\n")
	for i := 0; i < nTasks; i++ {
		fmt.Fprintf(&b, "  - name: t%d\n    task:\n      load: cls\n", i)
	}
	for _, h := range hooks {
		fmt.Fprintf(&b, "  - name: h%d\n", h.id)
		kind := "call"
		if h.isTask {
			kind = "task"
		}
		fmt.Fprintf(&b, "    %s:\n", kind)
		if h.isTask {
			b.WriteString("      load: cls\n      timeout: 5s\n")
		} else {
			if h.timeout > 0 {
				fmt.Fprintf(&b, "      func: %s\n      timeout: %dms\n", h.funcExpr(), h.timeout)
			} else {
				fmt.Fprintf(&b, "      func: %s\n      timeout: 5s\n", h.funcExpr())
			}
		}
		if h.twText != nil || h.awText != nil {
			// weights as written: the expressions go into the YAML as double-quoted scalars, verbatim
			fmt.Fprintf(&b, "      trigger: %s\n      await: %s\n      critical: %v\n", yamlQuote(writtenExpr(h.trig, h.tw, h.twText)),
				yamlQuote(writtenExpr(h.await, h.aw, h.awText)), h.crit)
			continue
		}
		if h.await == h.trig && h.aw == h.tw && h.id%2 == 0 {
			// await left out: the reader's default is the trigger expression itself (callrole.go / taskrole.go
			// UnmarshalYAML), so the same hook must behave exactly as with the await spelled out (seed C08-7)
			fmt.Fprintf(&b, "      trigger: %s%+d\n      critical: %v\n", h.trig, h.tw, h.crit)
			continue
		}
		fmt.Fprintf(&b, "      trigger: %s%+d\n      await: %s%+d\n      critical: %v\n", h.trig, h.tw, h.await, h.aw, h.crit)
	}
	if nTasks == 0 && len(hooks) == 0 {
		b.Reset()
		b.WriteString("name: root\nroles: []\n")
	}
	return b.String()
}

// writtenExpr: a trigger / await expression with its weight as written (text), or as %+d.
func writtenExpr(name string, w int, text *string) string {
	if text != nil {
		return name + *text
	}
	return fmt.Sprintf("%s%+d", name, w)
}

func yamlQuote(s string) string {
	var b strings.Builder
	b.WriteByte('"')
	for _, c := range s {
		switch c {
		case '"', '\\':
			b.WriteByte('\\')
			b.WriteRune(c)
		case '\t':
			b.WriteString("\\t")
		case '\n':
			b.WriteString("\\n")
		default:
			b.WriteRune(c)
		}
	}
	b.WriteByte('"')
	return b.String()
}

// weightField reads a trigW / awaitW field: an integer, or (w TEXT).
func weightField(n *sx.Node) (int, *string) {
	if n != nil && n.IsList && n.Len() == 2 && n.At(0).Str() == "w" {
		t := n.At(1).Str()
		return 0, &t
	}
	return n.Int(), nil
}

var cls = &taskclass.Class{Identifier: taskclass.Id{RepoIdentifier: "verif", Hash: "0", Name: "cls"}}

func parseHooks(n *sx.Node) []*hookDef {
	var out []*hookDef
	for _, h := range n.List {
		d := &hookDef{id: h.At(0).Int(), isTask: h.At(1).Str() == "task", crit: h.At(2).Bool(),
			trig: h.At(3).Str(), await: h.At(5).Str()}
		d.tw, d.twText = weightField(h.At(4))
		d.aw, d.awText = weightField(h.At(6))
		for _, o := range h.At(7).List {
			if w := o.Str(); !o.IsList && w != "0" && w != "1" && w != "true" && w != "false" && w != "" {
				// the K-th execution fails in the named way
				d.outcomes = append(d.outcomes, true)
				d.ways = append(d.ways, w)
				d.hasWays = true
				continue
			}
			d.outcomes = append(d.outcomes, o.Bool())
			d.ways = append(d.ways, "")
		}
		if h.Len() >= 10 {
			d.timeout, d.dur = h.At(8).Int(), h.At(9).Int()
		}
		out = append(out, d)
	}
	return out
}

var reCrit = regexp.MustCompile(`(?:(\d+) critical hooks failed at trigger (\w+)|critical hook failed at trigger (\w+))`)

// classify maps an error to (class, [(n trigger)…]).
func classify(err error) *sx.Node {
	if err == nil {
		return sx.L(sx.A("ok"))
	}
	s := err.Error()
	class := "other"
	switch {
	case strings.Contains(s, "inappropriate in current state"):
		class = "illegal"
	case strings.Contains(s, "scripted body failed"):
		class = "body"
	case strings.Contains(s, "invalid syntax") || strings.Contains(s, "ParseUint"):
		class = "rn"
	case strings.Contains(s, "critical hook"):
		class = "hooks"
	case strings.Contains(s, "cannot teardown environment in state") || strings.Contains(s, "already in DONE"):
		class = "refused"
	case strings.Contains(s, "failed to release"):
		class = "release"
	case strings.Contains(s, "not found") || strings.Contains(s, "no environment with id"):
		class = "notfound"
	}
	l := sx.L()
	for _, m := range reCrit.FindAllStringSubmatch(s, -1) {
		if m[1] != "" {
			n, _ := strconv.Atoi(m[1])
			l.Add(sx.L(sx.I(n), sx.A(m[2])))
		} else {
			l.Add(sx.L(sx.I(1), sx.A(m[3])))
		}
	}
	return sx.L(sx.A("err"), sx.A(class), l)
}

func varsOf(env *environment.Environment) *sx.Node {
	wf := env.Workflow()
	vs := map[string]string{}
	for _, k := range []string{"run_number", "last_run_number"} {
		if v, ok := wf.GetVars().Get(k); ok {
			vs[k] = v
		}
	}
	for _, k := range []string{"run_start_time_ms", "run_start_completion_time_ms", "run_end_time_ms", "run_end_completion_time_ms"} {
		if v, ok := wf.GetUserVars().Get(k); ok {
			vs[k] = v
		}
	}
	return snapOf(vs)
}

func pendingOf(env *environment.Environment) *sx.Node {
	p := env.PendingAwaitForVerif()
	type ent struct {
		name string
		w, n int
	}
	var es []ent
	for name, m := range p {
		for w, n := range m {
			es = append(es, ent{name, w, n})
		}
	}
	sort.Slice(es, func(i, j int) bool {
		if es[i].name != es[j].name {
			return es[i].name < es[j].name
		}
		return es[i].w < es[j].w
	})
	l := sx.L()
	for _, e := range es {
		l.Add(sx.L(sx.A(e.name), sx.I(e.w), sx.I(e.n)))
	}
	return l
}

// hasRealBody: does the request list hold a TR/CR request (also inside an overlapping pair)?
func hasRealBody(reqs *sx.Node) bool {
	for _, q := range reqs.List {
		switch q.At(0).Str() {
		case "TR", "CR":
			return true
		case "P":
			if hasRealBody(sx.L(q.At(1), q.At(2))) {
				return true
			}
		}
	}
	return false
}

// Run executes one case and returns its trace.
func Run(input string, paced bool) (string, error) {
	in, err := sx.Parse(input)
	if err != nil {
		return "", err
	}
	hooks := parseHooks(in.At(0))
	if err := checkWays(hooks); err != nil {
		return "", err
	}
	nTasks := in.At(2).Int()
	cs := &caseState{hooks: map[string]*hookDef{}, byTask: map[string]*hookDef{}, pace: paced}
	// results held by call goroutines of earlier cases (none on a healthy tree)
	_, parked0 := callGoroutines()

	os.Remove(filepath.Join(workDir, "runcounter.txt"))
	envSeq++
	id := uid.New()
	env, err := environment.NewEnvironmentForVerif(map[string]string{}, id)
	if err != nil {
		return "", fmt.Errorf("newEnvironment: %v", err)
	}
	root := workflow.NewAggregatorRole("", nil)
	y := buildYAML(hooks, nTasks)
	if err := yaml.Unmarshal([]byte(y), root); err != nil {
		return "", fmt.Errorf("yaml: %v\n%s", err, y)
	}
	workflow.LinkChildrenToParents(root)
	workflow.SetParentForVerif(root, env.WfAdapterForVerif())
	// attach a task to every task role, as AcquireTasks does after a launch
	type taskSetter interface {
		SetTask(*task.Task)
		GetPath() string
	}
	for i, r := range root.GetRoles() {
		ts, ok := r.(taskSetter)
		if !ok {
			continue
		}
		tid := fmt.Sprintf("tid-%d-%d", envSeq, i)
		t := task.NewTaskForVerif(r.GetName(), tid, "host", cls)
		if p, ok := r.(parentRoleFull); ok {
			t.SetParent(p)
		} else {
			return "", fmt.Errorf("role %s is not a task parent", r.GetName())
		}
		ts.SetTask(t)
		for _, h := range hooks {
			if h.isTask && r.GetName() == fmt.Sprintf("h%d", h.id) {
				cs.byTask[tid] = h
			}
		}
	}
	for _, h := range hooks {
		cs.hooks[fmt.Sprintf("root.h%d", h.id)] = h
	}
	if in.Len() >= 4 {
		// user-supplied workflow variables
		for _, kv := range in.At(3).List {
			root.GetUserVars().Set(kv.At(0).Str(), kv.At(1).Str())
		}
	}
	env.SetWorkflowForVerif(root)
	cs.env = env
	if hasRealBody(in.At(1)) {
		// the real bodies address the ACTIVE tasks of the workflow: mark the plain task roles (not the hook
		// tasks) active, as the task manager does once a launched task is up. Only for inputs that ask for
		// real bodies: every other input runs exactly as before.
		for _, r := range root.GetRoles() {
			if p, ok := r.(parentRoleFull); ok && strings.HasPrefix(r.GetName(), "t") {
				p.UpdateStatus(task.ACTIVE)
			}
		}
	}
	env.SetHookHandlerForVerif(func(hs task.Tasks) error {
		l := sx.L(sx.A("H"))
		type ev struct {
			tid   string
			fails bool
		}
		var evs []ev
		sorted := append(task.Tasks{}, hs...)
		sort.Slice(sorted, func(i, j int) bool { return cs.byTask[sorted[i].GetTaskId()].id < cs.byTask[sorted[j].GetTaskId()].id })
		for _, t := range sorted {
			h := cs.byTask[t.GetTaskId()]
			k := int(atomic.AddInt32(&h.execs, 1)) - 1
			fails := k < len(h.outcomes) && h.outcomes[k]
			l.Add(sx.L(sx.I(h.id), sx.I(k), sx.B(fails)))
			evs = append(evs, ev{t.GetTaskId(), fails})
		}
		rec.add(l)
		go func() {
			for _, e := range evs {
				de := event.NewDeviceEvent(event.DeviceEventOrigin{TaskId: mesos.TaskID{Value: e.tid}}, occpb.DeviceEventType_BASIC_TASK_TERMINATED)
				bt := de.(*event.BasicTaskTerminated)
				bt.VoluntaryTermination = true
				if e.fails {
					bt.ExitCode = 1
				}
				env.NotifyEventBlockingForVerif(bt, 10*time.Second)
			}
		}()
		return nil
	})
	envman.AddEnvironmentForVerif(env)
	cur.Store(cs)
	defer cur.Store(nil)
	rec.reset()

	gone := false
	tornDown := false  // a teardown has been attempted in this case
	var infraErr error // set by exec when a request cannot be run as asked (never a verdict: the case is inconclusive)
	// exec runs one request as a caller of the core would; scriptRel: a teardown scripts its two release rounds
	exec := func(q *sx.Node, scriptRel bool) error {
		var rerr error
		switch q.At(0).Str() {
		case "T", "C", "TR", "CR":
			kind := q.At(0).Str()
			evName := q.At(1).Str()
			bodyOk := q.At(2).Bool()
			rnFail := q.At(3).Bool()
			realCtor := realBodyEvents[evName]
			if len(kind) == 1 {
				realCtor = nil
			}
			if realCtor != nil && tornDown {
				// TeardownEnvironment closes the environment's stateChangedCh before its first release round; if
				// the release then fails the environment lives on, and a real body no longer waits for the task
				// manager's answer (it reads nil from the closed channel and reports success whatever the tasks
				// did). Seen on the real code, not modelled: such a request is not run.
				infraErr = fmt.Errorf("infrastructure: real transition body after a teardown attempt is not supported (stateChangedCh is closed)")
				return infraErr
			}
			if realCtor != nil && evName == "CONFIGURE" && len(workflow.GetActiveTasks(env.Workflow())) == 0 {
				infraErr = fmt.Errorf("infrastructure: the real CONFIGURE body sends no command without active tasks (TR/CR CONFIGURE need nTasks >= 1)")
				return infraErr
			}
			var mine *bodyScript
			defer func() { cs.body.CompareAndSwap(mine, nil) }() // not the script of an overlapping request issued meanwhile
			mk := func() environment.Transition {
				if realCtor != nil {
					// the REAL body; only the task manager's answer is scripted
					mine = &bodyScript{ev: evName, ok: bodyOk}
					cs.body.Store(mine)
					return realCtor(taskman)
				}
				return environment.NewScriptedTransition(evName, taskman, func(e *environment.Environment) error {
					rec.add(sx.L(sx.A("B"), sx.A(evName)))
					cs.hitGate()
					if !bodyOk {
						if evName == "START_ACTIVITY" {
							e.SetCurrentRunNumberForVerif(0) // as StartActivityTransition.do does when tasks fail to start
						}
						return fmt.Errorf("scripted body failed")
					}
					return nil
				})
			}
			rcf := filepath.Join(workDir, "runcounter.txt")
			var saved []byte
			if rnFail {
				saved, _ = os.ReadFile(rcf)
				os.WriteFile(rcf, []byte("garbage"), 0o644)
			}
			if kind[0] == 'T' {
				rerr = env.TryTransition(mk())
			} else if _, lerr := envman.Environment(id); lerr != nil {
				// RpcServer.ControlEnvironment looks the environment up first
				rerr = lerr
			} else {
				// the ControlEnvironment glue of core/server.go, line for line; the condition under which the
				// state is forced is the one written in the tree under test (glue.go reads it from the source):
				//   goErr != nil                                     before "fix: ControlEnvironment does not force ERROR on an environment that is DONE"
				//   goErr != nil && env.CurrentState() != "DONE"     since
				rerr = env.TryTransition(mk())
				if rerr != nil {
					if goErr := env.TryTransition(environment.NewGoErrorTransition(taskman)); goErr != nil && !glueSpares(env.CurrentState()) {
						env.Sm.SetState("ERROR")
					}
				}
			}
			if rnFail {
				if saved == nil {
					os.Remove(rcf)
				} else {
					os.WriteFile(rcf, saved, 0o644)
				}
			}
		case "D":
			tornDown = true
			if scriptRel {
				cs.relMu.Lock()
				cs.relOk = []bool{q.At(2).Bool(), q.At(3).Bool()}
				cs.relMu.Unlock()
			}
			rerr = envman.TeardownEnvironment(id, q.At(1).Bool())
		}
		return rerr
	}
	// settle: what the sequential harness does after a request returned, before it looks at the environment
	settle := func(q *sx.Node) error {
		if q.At(0).Str() == "D" {
			// The manager's event loop closes and forgets the pending-teardown channel only AFTER
			// TeardownEnvironment has returned; a teardown requested right away would have its fresh
			// registration deleted by that late cleanup (see DESIGN: finding "teardown retry race").
			// The harness does not race it: it waits until the registration is gone.
			return waitNoPendingTeardown(id)
		}
		return nil
	}
	record := func(rerr error) {
		if _, e2 := envman.Environment(id); e2 != nil {
			gone = true
		}
		rec.add(sx.L(sx.A("R"), classify(rerr), sx.A(env.CurrentState()), sx.U64(uint64(env.GetCurrentRunNumber())),
			varsOf(env), pendingOf(env), sx.B(gone)))
	}
	for _, q := range in.At(1).List {
		if q.At(0).Str() != "P" {
			rerr := exec(q, true)
			if err := settle(q); err != nil {
				return "", err
			}
			record(rerr)
			continue
		}
		// (P q1 q2): q2 is issued by a second caller while q1 is inside its critical section
		q1, q2 := q.At(1), q.At(2)
		// release rounds of a teardown in a pair: as scripted by its own fields (pairs generated so far say
		// "both succeed"); the script is installed when nobody else can be consuming rounds: q1's before it is
		// issued, q2's once q1 has returned (q2 is then still waiting for the mutex or parked at its first event)
		scriptFor := func(q *sx.Node) {
			cs.relMu.Lock()
			cs.relOk = nil
			if q.At(0).Str() == "D" {
				cs.relOk = []bool{q.At(2).Bool(), q.At(3).Bool()}
			}
			cs.relMu.Unlock()
		}
		scriptFor(q1)
		g := &gateT{reached: make(chan struct{}), release: make(chan struct{})}
		g.armed.Store(true)
		cs.gate.Store(g)
		aDone := make(chan error, 1)
		go func() { aDone <- exec(q1, false) }()
		var aErr error
		aFinished := false
		select {
		case <-g.reached:
		case aErr = <-aDone:
			aFinished = true
		case <-time.After(60 * time.Second):
			return "", fmt.Errorf("infrastructure: first request of an overlapping pair neither returned nor reached its gate within 60s")
		}
		if aFinished {
			// q1 never got as far as a gate point (refused, illegal, vetoed by a hook): nothing to overlap with
			g.armed.Store(false)
			cs.gate.Store(nil)
			if err := settle(q1); err != nil {
				return "", err
			}
			record(aErr)
			scriptFor(q2)
			rerr := exec(q2, false)
			if err := settle(q2); err != nil {
				return "", err
			}
			record(rerr)
			continue
		}
		// q1 is parked inside its critical section and holds the transition mutex: whatever the reported state
		// does from here until the gate opens is not q1's doing
		st0 := env.CurrentState()
		h := &holdT{ch: make(chan struct{})}
		bDone := make(chan error, 1)
		started := make(chan struct{})
		go func() {
			h.gid = goid()
			cs.hold.Store(h)
			close(started)
			bDone <- exec(q2, false)
		}()
		<-started
		var bErr error
		bFinished, onMutex, werr := waitParked(h.gid, bDone, &bErr)
		if werr != nil {
			close(g.release)
			close(h.ch)
			return "", werr
		}
		// (OV how st0 st1): what the second caller was seen doing while the first is still parked inside its
		// critical section — queued on the transition mutex, returned, or blocked elsewhere — and the state the
		// environment reported before the second caller was issued and now. A request that returned is
		// recorded where it returned: before the first one's.
		how := "elsewhere"
		if bFinished {
			how = "returned"
		} else if onMutex {
			how = "queued"
		}
		rec.add(sx.L(sx.A("OV"), sx.A(how), sx.A(st0), sx.A(env.CurrentState())))
		if bFinished {
			record(bErr)
		}
		holdOpen := false
		openHold := func() {
			if !holdOpen {
				holdOpen = true
				close(h.ch)
			}
		}
		aReturned := false // q1 returned while its gate was still closed
		if holdMs := q.At(3).Int(); q.Len() >= 4 && holdMs > 0 {
			// (P q1 q2 holdMs): the task phase of q1 is SLOW — its gate stays closed for holdMs more — and the
			// second sighting says what the two callers are doing by then: on a tree that serialises requests q1
			// is still in there (the command it sent is unanswered, it cannot have returned) and q2 still queues.
			time.Sleep(time.Duration(holdMs) * time.Millisecond)
			first, second := "inside", "returned"
			select {
			case aErr = <-aDone:
				aReturned, first = true, "returned"
			default:
			}
			bNow := false
			if !bFinished {
				select {
				case bErr = <-bDone:
					bFinished, bNow = true, true
				default:
				}
			}
			if !bFinished {
				if h.reached.Load() {
					second = "inside"
				} else {
					fin, onM, werr := waitParked(h.gid, bDone, &bErr)
					switch {
					case werr != nil:
						close(g.release)
						openHold()
						return "", werr
					case fin:
						bFinished, bNow = true, true
					case onM:
						second = "queued"
					case h.reached.Load():
						second = "inside"
					default:
						second = "elsewhere"
					}
				}
			}
			rec.add(sx.L(sx.A("OW"), sx.A(first), sx.A(second), sx.A(env.CurrentState())))
			if aReturned {
				record(aErr)
			}
			if bNow {
				record(bErr)
			}
			if second == "inside" {
				// q2 is being carried out while the command of q1 is unanswered (never on a tree that serialises):
				// it is let go on for a while, so that what it does meanwhile — a second command in flight, an
				// answer taken by the wrong transition — is on the trace, before the tasks answer q1
				openHold()
				select {
				case bErr = <-bDone:
					bFinished = true
					record(bErr)
				case <-time.After(time.Duration(max(holdMs, 50)) * time.Millisecond):
				}
			}
		}
		close(g.release)
		cs.gate.Store(nil)
		if !aReturned {
			select {
			case aErr = <-aDone:
			case <-time.After(60 * time.Second):
				openHold()
				return "", fmt.Errorf("infrastructure: first request of an overlapping pair did not return within 60s of its release")
			}
			if err := settle(q1); err != nil {
				openHold()
				return "", err
			}
			scriptFor(q2)
			record(aErr) // q2 is parked at its first event (mutex held, nothing changed yet), or has not got the mutex yet
		}
		openHold()
		cs.hold.Store(nil)
		if !bFinished {
			select {
			case bErr = <-bDone:
			case <-time.After(60 * time.Second):
				return "", fmt.Errorf("infrastructure: second request of an overlapping pair did not return within 60s")
			}
		}
		if err := settle(q2); err != nil {
			return "", err
		}
		if !bFinished {
			record(bErr)
		}
	}
	// let floating probe calls finish before the trace is cut: every goroutine spawned by
	// callable.(*Call).Start must be parked in its select (call executed, result waiting to be
	// awaited or cancelled) — not runnable, not inside the call
	if err := waitCallsQuiescent(); err != nil {
		return "", err
	}
	if infraErr != nil {
		return "", infraErr
	}
	if w := cs.badWay.Load(); w != nil {
		return "", fmt.Errorf("infrastructure: %s", *w)
	}
	_, parked := callGoroutines()
	rec.add(sx.L(sx.A("Q"), sx.I(max(parked-parked0, 0))))
	tr := sx.L()
	tr.List = rec.take()
	if !gone {
		// do not leak environments in the process-global manager
		cs.relMu.Lock()
		cs.relOk = []bool{true, true}
		cs.relMu.Unlock()
		cur.Store(nil)
		_ = envman.TeardownEnvironment(id, true)
		if err := waitNoPendingTeardown(id); err != nil {
			return "", err
		}
	}
	return tr.String(), nil
}

// syncEnvmanLoop returns once the environment manager's event loop has finished whatever it was
// doing: a no-op event is accepted only when the loop is back at its receive.
func syncEnvmanLoop() {
	select {
	case evCh <- &event.RoleEvent{}:
	case <-time.After(30 * time.Second):
	}
}

// callGoroutines looks at the goroutines spawned by callable.(*Call).Start: busy = some of them are not
// parked in their select (inside the call, or runnable); parked = how many sit in the select, i.e. hold the
// result of a finished call that has been neither collected (Await) nor cancelled.
var stackBuf = make([]byte, 4<<20) // only the goroutine running the case uses it

func callGoroutines() (busy bool, parked int) {
	buf := stackBuf
	n := runtime.Stack(buf, true)
	for _, g := range strings.Split(string(buf[:n]), "\n\n") {
		if !strings.Contains(g, "callable.(*Call).Start.func1") {
			continue
		}
		head := g
		if i := strings.IndexByte(g, '\n'); i >= 0 {
			head = g[:i]
		}
		if strings.Contains(head, "[select") {
			parked++
		} else {
			busy = true
		}
	}
	return
}

func waitCallsQuiescent() error {
	deadline := time.Now().Add(30 * time.Second)
	for {
		busy, _ := callGoroutines()
		if !busy {
			return nil
		}
		if time.Now().After(deadline) {
			return fmt.Errorf("infrastructure: probe calls still running after 30s")
		}
		time.Sleep(300 * time.Microsecond)
	}
}

// waitParked returns once goroutine gid waits for a mutex (on the unchanged tree: the environment's
// transitionMutex, within microseconds), or has finished (finished = true), or has been blocked on
// something else for a while (only a tree without the mutex gets there: the overlap is then real and
// shows in the trace).
func waitParked(gid int64, done chan error, res *error) (finished, onMutex bool, err error) {
	deadline := time.Now().Add(30 * time.Second)
	buf := make([]byte, 4<<20)
	head := fmt.Sprintf("goroutine %d [", gid)
	otherSince := time.Time{}
	for {
		select {
		case *res = <-done:
			return true, false, nil
		default:
		}
		n := runtime.Stack(buf, true)
		st, stack := "", ""
		for _, g := range strings.Split(string(buf[:n]), "\n\n") {
			if strings.HasPrefix(g, head) {
				stack = g
				st = g[len(head):]
				if i := strings.IndexByte(st, ']'); i >= 0 {
					st = st[:i]
				}
				break
			}
		}
		// the environment's transitionMutex is the only RWMutex these callers take with Lock()
		// (the manager's map lock is only read-locked on their way in, loggers use plain mutexes)
		onTransitionMutex := strings.Contains(stack, "sync.(*RWMutex).Lock(") &&
			(strings.Contains(stack, ".TryTransition(") || strings.Contains(stack, ".TeardownEnvironment("))
		switch {
		case (strings.Contains(st, "Mutex") || strings.Contains(st, "semacquire")) && onTransitionMutex:
			return false, true, nil
		case st == "" || strings.HasPrefix(st, "running") || strings.HasPrefix(st, "runnable") || strings.HasPrefix(st, "syscall"):
			otherSince = time.Time{}
		default:
			if otherSince.IsZero() {
				otherSince = time.Now()
			} else if time.Since(otherSince) > 300*time.Millisecond {
				return false, false, nil
			}
		}
		if time.Now().After(deadline) {
			return false, false, fmt.Errorf("infrastructure: second request of an overlapping pair neither parked nor returned within 30s")
		}
		time.Sleep(200 * time.Microsecond)
	}
}

func waitNoPendingTeardown(id uid.ID) error {
	deadline := time.Now().Add(30 * time.Second)
	for envman.HasPendingTeardownForVerif(id) {
		if time.Now().After(deadline) {
			return fmt.Errorf("infrastructure: pending-teardown registration of %s not cleaned up within 30s", id)
		}
		time.Sleep(200 * time.Microsecond)
	}
	return nil
}

// parentRoleFull spells out task.parentRole (unexported there); workflow's task roles satisfy it.
type parentRoleFull interface {
	UpdateStatus(task.Status)
	UpdateState(sm.State)
	GetPath() string
	GetTaskClass() string
	GetTaskTraits() task.Traits
	SetTask(*task.Task)
	GetEnvironmentId() uid.ID
	CollectOutboundChannels() []channel.Outbound
	GetDefaults() gera.Map[string, string]
	GetVars() gera.Map[string, string]
	GetUserVars() gera.Map[string, string]
	ConsolidatedVarStack() (varStack map[string]string, err error)
	CollectInboundChannels() []channel.Inbound
	SendEvent(event.Event)
	GetName() string
}

// TabulateFsm evaluates the fsm.FSM that newEnvironment really builds: for every (state, event)
// it forces the state, asks Can(event) and, if allowed, fires the event on an environment with an
// empty workflow and reads the state reached. Returns rows "eventIdx srcIdx dstIdx".
func TabulateFsm(work string) ([][3]int, error) {
	if err := Setup(work); err != nil {
		return nil, err
	}
	var rows [][3]int
	for ei, ev := range events {
		for si, st := range states {
			env, err := environment.NewEnvironmentForVerif(map[string]string{}, uid.New())
			if err != nil {
				return nil, err
			}
			root := workflow.NewAggregatorRole("", nil)
			if err := yaml.Unmarshal([]byte("name: root\nroles: []\n"), root); err != nil {
				return nil, err
			}
			workflow.SetParentForVerif(root, env.WfAdapterForVerif())
			env.SetWorkflowForVerif(root)
			env.Sm.SetState(st)
			can := env.Sm.Can(ev)
			err = env.TryTransition(environment.NewScriptedTransition(ev, taskman, func(*environment.Environment) error { return nil }))
			if can != (err == nil) {
				return nil, fmt.Errorf("fsm: Can(%s) in %s = %v but firing it gave %v", ev, st, can, err)
			}
			if err == nil {
				di := -1
				for i, s := range states {
					if s == env.CurrentState() {
						di = i
					}
				}
				rows = append(rows, [3]int{ei, si, di})
			}
		}
	}
	return rows, nil
}

func StateNames() []string { return states }
func EventNames() []string { return events }
