package envh

import (
	"fmt"

	"verifharness/fw"
	"verifharness/rng"
	"verifharness/sx"
)

var states = []string{"STANDBY", "DEPLOYED", "CONFIGURED", "RUNNING", "ERROR", "DONE"}
var events = []string{"DEPLOY", "CONFIGURE", "RESET", "START_ACTIVITY", "STOP_ACTIVITY", "EXIT", "GO_ERROR", "RECOVER"}

// the documented graph, used by the generator only to steer towards legal requests
var next = map[string]map[string]string{
	"STANDBY":    {"DEPLOY": "DEPLOYED", "EXIT": "DONE", "GO_ERROR": "ERROR"},
	"DEPLOYED":   {"CONFIGURE": "CONFIGURED", "EXIT": "DONE", "GO_ERROR": "ERROR"},
	"CONFIGURED": {"RESET": "DEPLOYED", "START_ACTIVITY": "RUNNING", "EXIT": "DONE", "GO_ERROR": "ERROR"},
	"RUNNING":    {"STOP_ACTIVITY": "CONFIGURED", "GO_ERROR": "ERROR"},
	"ERROR":      {"RECOVER": "DEPLOYED"},
	"DONE":       {},
}

func moments() []string {
	var ms []string
	for _, e := range events {
		ms = append(ms, "before_"+e, "after_"+e)
	}
	for _, s := range states {
		ms = append(ms, "leave_"+s, "enter_"+s)
	}
	return ms
}

var allMoments = moments()

// Profile steers the generator towards what one property cares about.
type Profile struct {
	MaxHooks     int
	MaxReqs      int
	FailP        int // per-mille probability that a hook execution fails
	BodyFailP    int
	IllegalP     int // per-mille probability of choosing an arbitrary (mostly illegal) event
	TaskHookP    int // per-mille of hooks that are task hooks
	FloatP       int // per-mille of call hooks whose await differs from their trigger
	TeardownP    int // per-mille of requests that are teardowns
	ControlP     int // per-mille of transition requests going through the API glue (C) rather than TryTransition (T)
	RunFocus     bool
	OverlapP     int // per-mille of request positions holding an overlapping pair (P q1 q2)
	DestroyHooks bool
}

// hot moments: those a typical walk actually visits
var hot = []string{"before_CONFIGURE", "leave_DEPLOYED", "enter_CONFIGURED", "after_CONFIGURE", "before_START_ACTIVITY", "leave_CONFIGURED",
	"enter_RUNNING", "after_START_ACTIVITY", "before_STOP_ACTIVITY", "leave_RUNNING", "after_STOP_ACTIVITY", "before_DEPLOY", "after_DEPLOY",
	"enter_DEPLOYED", "leave_STANDBY", "before_GO_ERROR", "enter_ERROR", "after_GO_ERROR", "before_RESET", "after_RESET"}

func GenCase(r *rng.R, p Profile) fw.Case {
	nh := r.Range(0, p.MaxHooks)
	hooks := sx.L()
	weights := []int{-300, -100, -50, -10, -1, 0, 0, 1, 5, 10, 50, 100, 300}
	tags := []string{}
	nFloat, nTask, nCritFail := 0, 0, 0
	for i := 0; i < nh; i++ {
		isTask := r.P(p.TaskHookP, 1000)
		trig := rng.Pick(r, hot)
		if r.P(1, 6) {
			trig = rng.Pick(r, allMoments)
		}
		if p.DestroyHooks && !isTask && r.P(1, 5) {
			trig = rng.Pick(r, []string{"DESTROY", "after_DESTROY"})
		}
		tw := rng.Pick(r, weights)
		// deliberate ties: reuse an earlier hook's trigger point sometimes
		if i > 0 && r.P(1, 3) {
			prev := hooks.List[r.N(i)]
			trig, tw = prev.At(3).Str(), prev.At(4).Int()
			if r.P(1, 2) {
				tw = rng.Pick(r, weights)
			}
		}
		aw, at := tw, trig
		float := false
		if !isTask && trig != "DESTROY" && trig != "after_DESTROY" && r.P(p.FloatP, 1000) {
			float = true
			nFloat++
			switch r.N(4) {
			case 0: // later weight, same moment
				aw = tw + r.Range(1, 60)
			case 1: // another moment
				at = rng.Pick(r, hot)
				aw = rng.Pick(r, weights)
			case 2: // a moment that never fires
				at = fmt.Sprintf("never_%d", r.N(3))
			case 3: // earlier weight, same moment
				aw = tw - r.Range(1, 60)
			}
		}
		crit := r.P(6, 10)
		outs := sx.L()
		if float {
			// constant script: execution indices of floating calls are not order-stable
			if r.P(p.FailP, 1000) {
				for j := 0; j < 8; j++ {
					outs.Add(sx.B(true))
				}
				if crit {
					nCritFail++
				}
			}
		} else {
			for j := 0; j < 6; j++ {
				f := r.P(p.FailP, 1000)
				outs.Add(sx.B(f))
				if f && crit {
					nCritFail++
				}
			}
		}
		kind := "call"
		if isTask {
			kind = "task"
			nTask++
		}
		hooks.Add(sx.L(sx.I(i), sx.A(kind), sx.B(crit), sx.A(trig), sx.I(tw), sx.A(at), sx.I(aw), outs))
	}
	// requests: a steered random walk
	nr := r.Range(1, p.MaxReqs)
	reqs := sx.L()
	st := "STANDBY"
	illegal, tear := 0, 0
	overlaps := 0
	for i := 0; i < nr; i++ {
		if p.OverlapP > 0 && r.P(p.OverlapP, 1000) {
			// q2 arrives while q1 is inside its critical section (TryTransition body / first release round)
			mkT := func(kinds []string) *sx.Node {
				legal := []string{}
				for e := range next[st] {
					legal = append(legal, e)
				}
				sortStrings(legal)
				ev := rng.Pick(r, events)
				if len(legal) > 0 && !r.P(p.IllegalP, 1000) {
					ev = rng.Pick(r, legal)
				}
				kind := rng.Pick(r, kinds)
				bodyOk := !r.P(p.BodyFailP, 1000)
				if d, ok := next[st][ev]; ok && bodyOk {
					st = d
				} else if kind == "C" {
					st = "ERROR"
				}
				return sx.L(sx.A(kind), sx.A(ev), sx.B(bodyOk), sx.B(false))
			}
			mkD := func() *sx.Node {
				force := r.P(2, 3)
				if force || st == "STANDBY" || st == "DEPLOYED" {
					st = "DONE"
				}
				return sx.L(sx.A("D"), sx.B(force), sx.B(true), sx.B(true))
			}
			// the first request of a pair may be a teardown that fails at one of its release rounds (1 in 4):
			// the environment lives on and the second request is carried out on the state it left
			mkD1 := func() *sx.Node {
				if !r.P(1, 4) {
					return mkD()
				}
				first := r.P(1, 2)
				return sx.L(sx.A("D"), sx.B(r.P(2, 3)), sx.B(!first), sx.B(first))
			}
			var q1, q2 *sx.Node
			if r.P(1, 3) {
				q1 = mkD1()
			} else {
				q1 = mkT([]string{"T"})
			}
			if r.P(1, 3) {
				q2 = mkD()
			} else {
				q2 = mkT([]string{"T", "C", "C"})
			}
			reqs.Add(sx.L(sx.A("P"), q1, q2))
			overlaps++
			continue
		}
		if r.P(p.TeardownP, 1000) {
			reqs.Add(sx.L(sx.A("D"), sx.B(r.P(2, 3)), sx.B(r.P(9, 10)), sx.B(r.P(9, 10))))
			tear++
			continue
		}
		var ev string
		legal := []string{}
		for e := range next[st] {
			legal = append(legal, e)
		}
		sortStrings(legal)
		if r.P(p.IllegalP, 1000) || len(legal) == 0 {
			ev = rng.Pick(r, events)
		} else {
			ev = rng.Pick(r, legal)
			if p.RunFocus {
				// prefer the run cycle
				switch st {
				case "STANDBY":
					ev = pickW(r, legal, "DEPLOY")
				case "DEPLOYED":
					ev = pickW(r, legal, "CONFIGURE")
				case "CONFIGURED":
					ev = pickW(r, legal, "START_ACTIVITY")
				case "RUNNING":
					ev = pickW(r, legal, "STOP_ACTIVITY")
				}
			} else if ev == "EXIT" && r.P(2, 3) {
				ev = rng.Pick(r, legal)
			}
		}
		if _, ok := next[st][ev]; !ok {
			illegal++
		}
		kind := "T"
		if r.P(p.ControlP, 1000) {
			kind = "C"
		}
		bodyOk := !r.P(p.BodyFailP, 1000)
		rnFail := ev == "START_ACTIVITY" && r.P(1, 12)
		reqs.Add(sx.L(sx.A(kind), sx.A(ev), sx.B(bodyOk), sx.B(rnFail)))
		// steer with the optimistic outcome; the real outcome may differ, that is fine
		if d, ok := next[st][ev]; ok && bodyOk && !rnFail {
			st = d
		} else if kind == "C" {
			st = "ERROR"
		}
	}
	tags = append(tags, fmt.Sprintf("hooks=%d", min(nh, 12)), fmt.Sprintf("reqs~%d", (nr+2)/3*3))
	if nFloat > 0 {
		tags = append(tags, "floating-await")
	}
	if nTask > 0 {
		tags = append(tags, "task-hooks")
	}
	if nCritFail > 0 {
		tags = append(tags, "critical-failures")
	}
	if illegal > 0 {
		tags = append(tags, "illegal-requests")
	}
	if tear > 0 {
		tags = append(tags, "teardown")
	}
	if overlaps > 0 {
		tags = append(tags, "overlapping-requests")
	}
	return fw.Case{Input: sx.L(hooks, reqs, sx.I(r.Range(0, 2))).String(), Tags: tags}
}

// GenTeardownCase: a TEARDOWN from every state — half of the time from RUNNING, i.e. one that ends a run —
// reached by a fixed legal path, with hooks where a teardown looks for them: 1..4 call and task hooks at
// leave_<state> (critical or not, failing or not, several weights of both signs: the teardown handles them in
// ONE pass and stops at the first weight with a critical failure), 0..3 call hooks at DESTROY / after_DESTROY
// (several weights, the same weight at both now and then), sometimes a call started earlier that is still
// pending (awaited at leave_<state>, i.e. collected by the teardown, or never), sometimes a probe at a run
// moment. The teardown is forced or not, its two release rounds succeed or not; it is followed by 0..2 more
// requests (a second teardown, a STOP/GO_ERROR of the run it may have failed to end, an API request).
func GenTeardownCase(r *rng.R) fw.Case {
	type hop struct{ ev, dst string }
	paths := map[string][]hop{
		"STANDBY":    {},
		"DEPLOYED":   {{"DEPLOY", "DEPLOYED"}},
		"CONFIGURED": {{"DEPLOY", "DEPLOYED"}, {"CONFIGURE", "CONFIGURED"}},
		"RUNNING":    {{"DEPLOY", "DEPLOYED"}, {"CONFIGURE", "CONFIGURED"}, {"START_ACTIVITY", "RUNNING"}},
	}
	from := "RUNNING"
	if r.P(1, 2) {
		from = rng.Pick(r, []string{"STANDBY", "DEPLOYED", "CONFIGURED", "ERROR"})
	}
	var path []hop
	if from == "ERROR" {
		live := rng.Pick(r, []string{"STANDBY", "DEPLOYED", "CONFIGURED", "RUNNING"})
		path = append(append([]hop{}, paths[live]...), hop{"GO_ERROR", "ERROR"})
	} else {
		path = paths[from]
	}
	weights := []int{-50, -1, 0, 0, 5, 100}
	hooks := sx.L()
	id := 0
	outs := func(mode int) *sx.Node {
		l := sx.L()
		for j := 0; j < 4; j++ {
			switch mode {
			case 0:
				l.Add(sx.B(true))
			case 2:
				l.Add(sx.B(r.P(1, 3)))
			}
		}
		return l
	}
	add := func(kind string, crit bool, trig string, tw int, at string, aw int, o *sx.Node) {
		hooks.Add(sx.L(sx.I(id), sx.A(kind), sx.B(crit), sx.A(trig), sx.I(tw), sx.A(at), sx.I(aw), o))
		id++
	}
	leave := "leave_" + from
	nCritFail := 0
	for i, n := 0, r.Range(1, 4); i < n; i++ {
		kind := "call"
		if r.P(1, 3) {
			kind = "task"
		}
		crit := r.Bool()
		mode := r.N(3) // always fails / never fails / fails now and then
		if mode == 0 && crit {
			nCritFail++
		}
		w := rng.Pick(r, weights)
		add(kind, crit, leave, w, leave, w, outs(mode))
	}
	for i, n := 0, r.N(4); i < n; i++ {
		trig := rng.Pick(r, []string{"DESTROY", "after_DESTROY"})
		w := rng.Pick(r, []int{-5, 0, 0, 7})
		add("call", r.Bool(), trig, w, trig, w, outs(r.N(3)))
	}
	nFloat := 0
	if len(path) > 0 && r.P(1, 3) {
		// started on the way, still pending when the teardown begins
		h := path[r.N(len(path))]
		at, aw := leave, rng.Pick(r, weights)
		if r.P(1, 3) {
			at, aw = fmt.Sprintf("never_%d", r.N(3)), 0
		}
		mode := 1
		if r.P(1, 2) {
			mode = 0
		}
		add("call", r.Bool(), rng.Pick(r, []string{"before_" + h.ev, "enter_" + h.dst, "after_" + h.ev}), rng.Pick(r, weights), at, aw, outs(mode))
		nFloat++
	}
	if r.P(1, 3) {
		m := rng.Pick(r, []string{"before_START_ACTIVITY", "after_START_ACTIVITY", "enter_RUNNING", "before_GO_ERROR", "after_GO_ERROR", "enter_ERROR"})
		w := rng.Pick(r, weights)
		add("call", false, m, w, m, w, sx.L())
	}
	rng.Shuffle(r, hooks.List)
	reqs := sx.L()
	for _, h := range path {
		reqs.Add(sx.L(sx.A("T"), sx.A(h.ev), sx.B(true), sx.B(false)))
	}
	force := r.P(5, 6)
	rel1, rel2 := r.P(9, 10), r.P(9, 10)
	reqs.Add(sx.L(sx.A("D"), sx.B(force), sx.B(rel1), sx.B(rel2)))
	for i, n := 0, r.N(3); i < n; i++ {
		switch r.N(3) {
		case 0:
			reqs.Add(sx.L(sx.A("D"), sx.B(true), sx.B(true), sx.B(true)))
		case 1:
			reqs.Add(sx.L(sx.A("T"), sx.A(rng.Pick(r, []string{"STOP_ACTIVITY", "GO_ERROR"})), sx.B(true), sx.B(false)))
		case 2:
			reqs.Add(sx.L(sx.A("C"), sx.A(rng.Pick(r, []string{"STOP_ACTIVITY", "CONFIGURE", "START_ACTIVITY"})), sx.B(true), sx.B(false)))
		}
	}
	tags := []string{"teardown-class", "teardown", "teardown-from-" + from}
	if nCritFail > 0 {
		tags = append(tags, "critical-failures", "teardown-critical-leave-failure")
	}
	if nFloat > 0 {
		tags = append(tags, "floating-await")
	}
	return fw.Case{Input: sx.L(hooks, reqs, sx.I(r.Range(0, 2))).String(), Tags: tags}
}

func pickW(r *rng.R, legal []string, pref string) string {
	for _, l := range legal {
		if l == pref && r.P(3, 4) {
			return l
		}
	}
	return rng.Pick(r, legal)
}

func sortStrings(s []string) {
	for i := 1; i < len(s); i++ {
		for j := i; j > 0 && s[j] < s[j-1]; j-- {
			s[j], s[j-1] = s[j-1], s[j]
		}
	}
}

// Shrink: drop one request, or one hook (ids are kept).
func Shrink(input string) []string {
	in, err := sx.Parse(input)
	if err != nil {
		return nil
	}
	var out []string
	drop := func(l *sx.Node, i int) *sx.Node {
		n := sx.L()
		n.List = append(append([]*sx.Node{}, l.List[:i]...), l.List[i+1:]...)
		return n
	}
	// with: the input with its hooks / requests replaced; a fourth field (user variables) is kept
	with := func(hooks, reqs *sx.Node) string {
		n := sx.L(hooks, reqs, in.At(2))
		if in.Len() >= 4 {
			n.Add(in.At(3))
		}
		return n.String()
	}
	for i := len(in.At(1).List) - 1; i >= 0; i-- {
		out = append(out, with(in.At(0), drop(in.At(1), i)))
	}
	for i, q := range in.At(1).List {
		if q.At(0).Str() == "P" {
			// the pair issued one after the other instead
			n := sx.L()
			n.List = append(append(append([]*sx.Node{}, in.At(1).List[:i]...), q.At(1), q.At(2)), in.At(1).List[i+1:]...)
			out = append(out, with(in.At(0), n))
		}
	}
	for i := range in.At(0).List {
		out = append(out, with(drop(in.At(0), i), in.At(1)))
	}
	if in.Len() >= 4 {
		// without the user variables; without one of them
		out = append(out, sx.L(in.At(0), in.At(1), in.At(2)).String())
		if in.At(3).Len() > 1 {
			for i := range in.At(3).List {
				out = append(out, sx.L(in.At(0), in.At(1), in.At(2), drop(in.At(3), i)).String())
			}
		}
	}
	return out
}

// Nontrivial: at least 2 hooks that share a trigger moment or at least one failing
// execution scripted, and at least 3 requests.
func Nontrivial(input, obs string) bool {
	in, err := sx.Parse(input)
	if err != nil {
		return false
	}
	return in.At(0).Len() >= 2 && in.At(1).Len() >= 3
}

// ---- real task-level bodies (TR / CR requests) ---------------------------------------------------

// realEligible: the events whose real body is one command round trip with the task manager.
func realEligible(ev string) bool { return realBodyEvents[ev] != nil }

// WithRealBodies rewrites the T / C requests of a generated case on CONFIGURE / START_ACTIVITY /
// STOP_ACTIVITY / RESET into TR / CR (the REAL body of core/environment/transition_*.go runs, the fake task
// manager answers its command per bodyOk): all of them (half of the cases) or each with probability 1/2.
// Requests inside an overlapping pair are left alone; nothing is rewritten from the first teardown on (a
// teardown attempt closes the environment's stateChangedCh: see Run). The case gets at least one task (a real
// CONFIGURE asks nobody otherwise) and the tag real-bodies.
func WithRealBodies(c fw.Case, r *rng.R) fw.Case {
	in, err := sx.Parse(c.Input)
	if err != nil {
		return c
	}
	all := r.P(1, 2)
	reqs := sx.L()
	n, live := 0, true
	for _, q := range in.At(1).List {
		k := q.At(0).Str()
		if k == "D" || k == "P" {
			live = false
		}
		if live && (k == "T" || k == "C") && realEligible(q.At(1).Str()) && (all || r.P(1, 2)) {
			q = sx.L(sx.A(k+"R"), q.At(1), q.At(2), q.At(3))
			n++
		}
		reqs.Add(q)
	}
	if n == 0 {
		return c
	}
	return fw.Case{Input: sx.L(in.At(0), reqs, sx.I(max(in.At(2).Int(), 1))).String(), Tags: append(append([]string{}, c.Tags...), "real-bodies")}
}

// GenBodyFailureCase: the class "a command round trip with the task manager FAILS inside a transition"
// (tasks refuse CONFIGURED→RUNNING at START_ACTIVITY — half of the cases —, RUNNING→CONFIGURED at
// STOP_ACTIVITY, the configuration, the reset), with the REAL transition body, reached by a legal path
// (sometimes after a complete earlier run), requested through TryTransition or through the API glue (which
// answers the failure with GO_ERROR), with 0..4 probes where the failed transition and the GO_ERROR that
// closes it look for hooks (both signs of weight at before_<event>, so that the probes see the variables
// before and after the run number is handed out; critical ones that fail now and then), followed by 0..3
// further requests: GO_ERROR, the same request again with tasks that comply, RECOVER, a STOP, a teardown.
func GenBodyFailureCase(r *rng.R) fw.Case {
	target := rng.Pick(r, []string{"START_ACTIVITY", "START_ACTIVITY", "START_ACTIVITY", "STOP_ACTIVITY", "CONFIGURE", "RESET"})
	src := map[string]string{"START_ACTIVITY": "CONFIGURED", "STOP_ACTIVITY": "RUNNING", "CONFIGURE": "DEPLOYED", "RESET": "CONFIGURED"}[target]
	path := map[string][]string{
		"DEPLOYED":   {"DEPLOY"},
		"CONFIGURED": {"DEPLOY", "CONFIGURE"},
		"RUNNING":    {"DEPLOY", "CONFIGURE", "START_ACTIVITY"},
	}[src]
	if (src == "CONFIGURED" || src == "RUNNING") && r.P(1, 3) {
		// an earlier, complete run: its stamps and number must not show in what follows
		path = append([]string{"DEPLOY", "CONFIGURE", "START_ACTIVITY", "STOP_ACTIVITY"}, path[2:]...)
	}
	kindOf := func() string { return rng.Pick(r, []string{"TR", "TR", "CR"}) }
	reqs := sx.L()
	for _, ev := range path {
		k := "T"
		if realEligible(ev) && r.P(2, 3) {
			k = "TR"
		}
		reqs.Add(sx.L(sx.A(k), sx.A(ev), sx.B(true), sx.B(false)))
	}
	fk := kindOf()
	reqs.Add(sx.L(sx.A(fk), sx.A(target), sx.B(false), sx.B(false)))
	st := src
	if fk == "CR" {
		st = "ERROR"
	}
	nFollow := r.N(4)
	for i := 0; i < nFollow; i++ {
		legal := []string{}
		for e := range next[st] {
			legal = append(legal, e)
		}
		sortStrings(legal)
		if r.P(1, 8) || len(legal) == 0 {
			reqs.Add(sx.L(sx.A("D"), sx.B(r.P(5, 6)), sx.B(r.P(9, 10)), sx.B(r.P(9, 10))))
			break
		}
		ev := rng.Pick(r, legal)
		switch {
		case st == src && i == 0 && r.P(1, 2):
			ev = "GO_ERROR" // what closes the failed transition when the caller is not the API glue
		case st == src && r.P(1, 2):
			ev = target // once more, the tasks comply this time (mostly)
		case ev == "EXIT" && r.P(2, 3):
			ev = rng.Pick(r, legal)
		}
		k := "T"
		if realEligible(ev) {
			k = kindOf()
		} else if r.P(1, 4) {
			k = "C"
		}
		ok := !r.P(1, 6)
		reqs.Add(sx.L(sx.A(k), sx.A(ev), sx.B(ok), sx.B(false)))
		if d, legalEv := next[st][ev]; legalEv && ok {
			st = d
		} else if k[0] == 'C' {
			st = "ERROR"
		}
	}
	// probes
	spots := []string{"before_" + target, "before_" + target, "leave_" + src, "after_" + target, "before_GO_ERROR", "before_GO_ERROR",
		"enter_ERROR", "after_GO_ERROR", "after_GO_ERROR", "before_START_ACTIVITY", "after_STOP_ACTIVITY", "enter_" + src}
	weights := []int{-50, -1, 0, 0, 5, 100}
	hooks := sx.L()
	nCritFail := 0
	for i, n := 0, r.N(5); i < n; i++ {
		m := rng.Pick(r, spots)
		w := rng.Pick(r, weights)
		crit := r.P(1, 3)
		outs := sx.L()
		switch r.N(6) {
		case 0: // always fails
			for j := 0; j < 6; j++ {
				outs.Add(sx.B(true))
			}
			if crit {
				nCritFail++
			}
		case 1: // fails now and then
			for j := 0; j < 6; j++ {
				outs.Add(sx.B(r.P(1, 3)))
			}
		}
		kind := "call"
		if r.P(1, 6) {
			kind = "task"
		}
		hooks.Add(sx.L(sx.I(i), sx.A(kind), sx.B(crit), sx.A(m), sx.I(w), sx.A(m), sx.I(w), outs))
	}
	tags := []string{"body-failure-class", "body-failure-" + target, "body-failure-via-" + fk, "real-bodies"}
	if nCritFail > 0 {
		tags = append(tags, "critical-failures")
	}
	return fw.Case{Input: sx.L(hooks, reqs, sx.I(r.Range(1, 2))).String(), Tags: tags}
}

// ---- slow task phases, user-supplied workflow variables -------------------------------------------

// uvarNames: plausible names of user-supplied workflow variables that bound how long something may take —
// names the core reads today (auto_stop_timeout, odc_padding_timeout, deploy_timeout, timeout) and names
// a variable of that kind would plausibly get. The model takes no user variable into account: a tree whose
// behaviour depends on one of them disagrees with it wherever the generated value matters.
var uvarNames = func() []string {
	var out []string
	for _, p := range []string{"", "transition_", "task_", "tasks_", "command_", "state_change_", "configure_", "start_activity_",
		"stop_activity_", "reset_", "deploy_", "environment_", "fsm_", "auto_stop_", "odc_padding_", "hook_", "call_"} {
		for _, s := range []string{"timeout", "deadline", "max_wait", "ttl"} {
			out = append(out, p+s)
		}
	}
	return out
}()

// small durations, in the spellings a Go program may parse (time.ParseDuration, a bare number)
var uvarValues = []string{"1ms", "2ms", "5ms", "8ms", "10ms", "0.01s", "0.005s", "3", "10"}

// UVarNames returns the vocabulary (for exhaustive tables that walk through it).
func UVarNames() []string { return uvarNames }

// GenUserVars: the names given plus n more picked at random, each with a small duration; sorted by name,
// no name twice.
func GenUserVars(r *rng.R, n int, names ...string) *sx.Node {
	seen := map[string]bool{}
	var ks []string
	for _, k := range names {
		if !seen[k] {
			seen[k] = true
			ks = append(ks, k)
		}
	}
	for i := 0; i < n; i++ {
		k := rng.Pick(r, uvarNames)
		if !seen[k] {
			seen[k] = true
			ks = append(ks, k)
		}
	}
	sortStrings(ks)
	l := sx.L()
	for _, k := range ks {
		l.Add(sx.L(sx.A(k), sx.A(rng.Pick(r, uvarValues))))
	}
	return l
}

// HoldFor: how long (ms) a task phase must last to be slow relative to EVERYTHING the environment was
// configured with: twice the longest duration any user variable can be read as (bare numbers as
// milliseconds), plus a margin.
func HoldFor(uvars *sx.Node) int {
	longest := 0.0
	for _, kv := range uvars.List {
		v := kv.At(1).Str()
		ms := 0.0
		switch {
		case len(v) > 2 && v[len(v)-2:] == "ms":
			fmt.Sscanf(v[:len(v)-2], "%g", &ms)
		case len(v) > 1 && v[len(v)-1] == 's':
			fmt.Sscanf(v[:len(v)-1], "%g", &ms)
			ms *= 1000
		default:
			fmt.Sscanf(v, "%g", &ms)
		}
		if ms > longest {
			longest = ms
		}
	}
	return int(2*longest) + 30
}

// WithSlowTaskPhases rewrites the overlapping pairs (P q1 q2) of a generated case into the class "the task
// phase of the first request is slow relative to anything the environment may be configured with, and a
// further request arrives meanwhile": the environment gets 1..6 user variables with timeout-like names and
// small values, every pair gets a hold longer than all of them ((P q1 q2 holdMs): q1 stays at its gate — its
// command to the tasks unanswered — for that long after q2 was first sighted, then both are sighted again),
// and, as long as no teardown has been attempted before (a teardown attempt closes the environment's
// stateChangedCh: see Run), a first request on CONFIGURE / START_ACTIVITY / STOP_ACTIVITY / RESET runs its
// REAL body (TR: the held answer is the fake task manager's), and so does the second one half of the time.
// Cases without a pair only get the user variables. Tags: user-vars, slow-task-phase, real-bodies.
func WithSlowTaskPhases(c fw.Case, r *rng.R) fw.Case {
	in, err := sx.Parse(c.Input)
	if err != nil {
		return c
	}
	uvars := GenUserVars(r, r.Range(1, 6))
	hold := HoldFor(uvars)
	reqs := sx.L()
	live, nReal, nHold := true, 0, 0
	real := func(q *sx.Node) *sx.Node {
		k := q.At(0).Str()
		if live && (k == "T" || k == "C") && realEligible(q.At(1).Str()) {
			nReal++
			return sx.L(sx.A(k+"R"), q.At(1), q.At(2), q.At(3))
		}
		return q
	}
	for _, q := range in.At(1).List {
		switch q.At(0).Str() {
		case "D":
			live = false
		case "P":
			q1, q2 := q.At(1), q.At(2)
			if q1.At(0).Str() == "D" {
				live = false
			}
			q1 = real(q1)
			if q2.At(0).Str() == "D" {
				live = false
			} else if r.P(1, 2) {
				q2 = real(q2)
			}
			q = sx.L(sx.A("P"), q1, q2, sx.I(hold))
			nHold++
		}
		reqs.Add(q)
	}
	nTasks := in.At(2).Int()
	tags := append(append([]string{}, c.Tags...), "user-vars")
	if nHold > 0 {
		tags = append(tags, "slow-task-phase")
	}
	if nReal > 0 {
		nTasks = max(nTasks, 1)
		tags = append(tags, "real-bodies")
	}
	return fw.Case{Input: sx.L(in.At(0), reqs, sx.I(nTasks), uvars).String(), Tags: tags}
}

// ---- calls awaited in the OTHER pass of their trigger moment -------------------------------------

// GenCrossPassCase: the class "a call whose trigger weight and await weight lie on DIFFERENT sides of 0 at the
// same moment, next to other hooks triggered at its await weight". before_<event>, leave_<state>,
// enter_<state> and after_<event> are each handled in two passes — the negative weights, then (after the run
// number / the run timestamps of that moment have been written) the others. A call triggered at
// before_START_ACTIVITY-10 with `await: before_START_ACTIVITY+10` is started by the first pass and collected
// by the second; the hooks triggered at +10 belong to the second pass ONLY: each runs once per occurrence of
// the moment and sees what that pass sees (before_START_ACTIVITY: the new run number and start time;
// before_STOP_ACTIVITY / before_GO_ERROR: the end time; after_START_ACTIVITY / after_STOP_ACTIVITY: the
// completion times). The walk is the run cycle, once or twice (a second run must not see the first one's
// values), closed by STOP_ACTIVITY or GO_ERROR; 1..2 crossing calls (forward: negative trigger, non-negative
// await — three quarters; backward: the reverse, collected at the next occurrence), 1..2 call / task hooks at
// the await weight, 0..2 more at other weights of both signs of the same moment.
func GenCrossPassCase(r *rng.R) fw.Case {
	type tr struct{ ev, src, dst string }
	run := []tr{{"DEPLOY", "STANDBY", "DEPLOYED"}, {"CONFIGURE", "DEPLOYED", "CONFIGURED"},
		{"START_ACTIVITY", "CONFIGURED", "RUNNING"}}
	end := tr{"STOP_ACTIVITY", "RUNNING", "CONFIGURED"}
	twice := r.P(1, 2)
	if !twice && r.P(1, 3) {
		end = tr{"GO_ERROR", "RUNNING", "ERROR"}
	}
	walk := append(append([]tr{}, run...), end)
	if twice {
		walk = append(walk, run[2])
		if r.P(1, 2) {
			walk = append(walk, tr{"STOP_ACTIVITY", "RUNNING", "CONFIGURED"})
		} else if r.P(1, 2) {
			walk = append(walk, tr{"GO_ERROR", "RUNNING", "ERROR"})
		}
	}
	// the moments of the run bracket (where the passes differ in what they see), now and then any moment of the walk
	bracket := []string{"before_START_ACTIVITY", "before_START_ACTIVITY", "after_START_ACTIVITY", "before_" + end.ev, "before_" + end.ev, "after_" + end.ev}
	var anyM []string
	for _, t := range walk {
		anyM = append(anyM, "before_"+t.ev, "leave_"+t.src, "enter_"+t.dst, "after_"+t.ev)
	}
	m := rng.Pick(r, bracket)
	if r.P(1, 4) {
		m = rng.Pick(r, anyM)
	}
	negs := []int{-50, -10, -1}
	poss := []int{0, 5, 10, 100}
	hooks := sx.L()
	id := 0
	add := func(kind string, crit bool, trig string, tw int, at string, aw int, outs *sx.Node) {
		hooks.Add(sx.L(sx.I(id), sx.A(kind), sx.B(crit), sx.A(trig), sx.I(tw), sx.A(at), sx.I(aw), outs))
		id++
	}
	failing := func(p int) *sx.Node {
		l := sx.L()
		if r.P(p, 1000) {
			for j := 0; j < 6; j++ {
				l.Add(sx.B(true))
			}
		}
		return l
	}
	tags := []string{"cross-pass-await", "cross-pass-at-" + m}
	nCritFail := 0
	var awaitWs []int
	for i, n := 0, r.Range(1, 2); i < n; i++ {
		a, b := rng.Pick(r, negs), rng.Pick(r, poss)
		dir := "cross-pass-forward"
		if r.P(1, 4) {
			a, b = b, a
			dir = "cross-pass-backward"
		}
		crit := r.P(1, 3)
		outs := failing(60)
		if outs.Len() > 0 && crit {
			nCritFail++
		}
		add("call", crit, m, a, m, b, outs)
		awaitWs = append(awaitWs, b)
		tags = append(tags, dir)
	}
	// the hooks triggered AT the await weight of a crossing call
	for i, n := 0, r.Range(1, 2); i < n; i++ {
		w := rng.Pick(r, awaitWs)
		kind := "call"
		if r.P(1, 4) {
			kind = "task"
		}
		crit := r.P(1, 3)
		outs := failing(60)
		if outs.Len() > 0 && crit {
			nCritFail++
		}
		add(kind, crit, m, w, m, w, outs)
	}
	for i, n := 0, r.N(3); i < n; i++ {
		w := rng.Pick(r, append(append([]int{}, negs...), poss...))
		kind := "call"
		if r.P(1, 5) {
			kind = "task"
		}
		add(kind, false, m, w, m, w, sx.L())
	}
	rng.Shuffle(r, hooks.List)
	reqs := sx.L()
	for _, t := range walk {
		k := "T"
		if r.P(1, 6) {
			k = "C"
		}
		reqs.Add(sx.L(sx.A(k), sx.A(t.ev), sx.B(true), sx.B(false)))
	}
	if r.P(1, 5) {
		reqs.Add(sx.L(sx.A("D"), sx.B(true), sx.B(true), sx.B(true)))
		tags = append(tags, "teardown")
	}
	if twice {
		tags = append(tags, "cross-pass-two-runs")
	}
	if nCritFail > 0 {
		tags = append(tags, "critical-failures")
	}
	tags = append(tags, "floating-await")
	return fw.Case{Input: sx.L(hooks, reqs, sx.I(r.Range(0, 2))).String(), Tags: tags}
}
