package envh

import (
	"bytes"
	"fmt"
	"go/ast"
	"go/parser"
	"go/printer"
	"go/token"
	"os"
	"path/filepath"
	"strconv"
	"sync"
)

// The lines of RpcServer.ControlEnvironment that `Run` replicates for "C" requests end with the
// statement that forces the state when the GO_ERROR fallback was refused too:
//
//	if goErr := env.TryTransition(environment.NewGoErrorTransition(m.state.taskman)); goErr != nil [&& env.CurrentState() != "S"]… {
//		… env.Sm.SetState("ERROR")
//	}
//
// GlueFacts reads that statement from the tree the harness is built against (go/ast), so that the
// replica follows the code as it is in THAT tree: the states the condition spares are not hard-wired
// here. The same facts go to Lean (Gen/EnvGlue.lean, props/c01) where `C01_glue_is_code` pins them.
type GlueFact struct {
	Init       string   // init statement of the `if` that guards env.Sm.SetState("ERROR"), as written
	Cond       string   // its condition, as written
	Spares     []string // S of every conjunct `env.CurrentState() != "S"`, in order
	Recognised bool     // exactly one such `if`, init = GO_ERROR through TryTransition, condition = `<its error> != nil` followed by such conjuncts only
}

func nodeString(fset *token.FileSet, n ast.Node) string {
	var b bytes.Buffer
	printer.Fprint(&b, fset, n)
	return b.String()
}

// conjuncts of a && b && c (left-associated or not)
func conjuncts(e ast.Expr) []ast.Expr {
	if p, ok := e.(*ast.ParenExpr); ok {
		return conjuncts(p.X)
	}
	if b, ok := e.(*ast.BinaryExpr); ok && b.Op == token.LAND {
		return append(conjuncts(b.X), conjuncts(b.Y)...)
	}
	return []ast.Expr{e}
}

func GlueFacts(repo string) (GlueFact, error) {
	var g GlueFact
	fset := token.NewFileSet()
	f, err := parser.ParseFile(fset, filepath.Join(repo, "core/server.go"), nil, 0)
	if err != nil {
		return g, err
	}
	var fn *ast.FuncDecl
	for _, d := range f.Decls {
		if fd, ok := d.(*ast.FuncDecl); ok && fd.Name.Name == "ControlEnvironment" && fd.Recv != nil && fd.Body != nil {
			fn = fd
		}
	}
	if fn == nil {
		return g, fmt.Errorf("core/server.go: no method ControlEnvironment")
	}
	var guards []*ast.IfStmt
	ast.Inspect(fn.Body, func(n ast.Node) bool {
		is, ok := n.(*ast.IfStmt)
		if !ok {
			return true
		}
		for _, st := range is.Body.List {
			es, ok := st.(*ast.ExprStmt)
			if !ok {
				continue
			}
			if ce, ok := es.X.(*ast.CallExpr); ok && nodeString(fset, ce) == `env.Sm.SetState("ERROR")` {
				guards = append(guards, is)
			}
		}
		return true
	})
	if len(guards) != 1 {
		return g, nil // not recognised: no or several forced writes
	}
	is := guards[0]
	g.Cond = nodeString(fset, is.Cond)
	errName := ""
	if as, ok := is.Init.(*ast.AssignStmt); ok && as.Tok == token.DEFINE && len(as.Lhs) == 1 && len(as.Rhs) == 1 {
		g.Init = nodeString(fset, as)
		if id, ok := as.Lhs[0].(*ast.Ident); ok &&
			nodeString(fset, as.Rhs[0]) == "env.TryTransition(environment.NewGoErrorTransition(m.state.taskman))" {
			errName = id.Name
		}
	}
	cs := conjuncts(is.Cond)
	ok := errName != "" && nodeString(fset, cs[0]) == errName+" != nil"
	for _, c := range cs[1:] {
		b, isBin := c.(*ast.BinaryExpr)
		if !isBin || b.Op != token.NEQ || nodeString(fset, b.X) != "env.CurrentState()" {
			ok = false
			continue
		}
		lit, isLit := b.Y.(*ast.BasicLit)
		if !isLit || lit.Kind != token.STRING {
			ok = false
			continue
		}
		s, uerr := strconv.Unquote(lit.Value)
		if uerr != nil {
			ok = false
			continue
		}
		g.Spares = append(g.Spares, s)
	}
	g.Recognised = ok
	if !ok {
		g.Spares = nil
	}
	return g, nil
}

var (
	glueOnce   sync.Once
	glueSpared map[string]bool
)

// glueSpares: does the glue of the tree under test leave an environment in state st alone when GO_ERROR
// was refused? (Tree = $VERIF_REPO, default /repo — the one the harness binary was built against.) A glue
// of unrecognised shape is replicated as the unconditional forced ERROR it was before any condition
// existed; C01's tie theorem `C01_glue_is_code` fails for it.
func glueSpares(st string) bool {
	glueOnce.Do(func() {
		repo := os.Getenv("VERIF_REPO")
		if repo == "" {
			repo = "/repo"
		}
		glueSpared = map[string]bool{}
		if g, err := GlueFacts(repo); err == nil && g.Recognised {
			for _, s := range g.Spares {
				glueSpared[s] = true
			}
		}
	})
	return glueSpared[st]
}
