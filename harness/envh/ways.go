package envh

// The WAYS a call hook can fail.
//
// (*Call).Call() in core/workflow/callable/call.go has two failure exits: the call expression could not be
// evaluated (fields.Execute returned an error), or it was evaluated and the plugin left a non-empty
// `__call_error` in the call's VarStack. Before, the probe made a call fail only the second way. An outcome
// atom of a CALL hook may now name the way its K-th execution fails:
//
//	1          the plugin writes __call_error                                          (as before)
//	reason     … and __call_error_reason
//	timeout    the plugin waits out the call's own timeout (`__call_timeout`, so the hook needs timeoutMs in
//	           1..200) and then reports "context deadline exceeded" through __call_error + reason — the only way
//	           a call can time out: the core never aborts one (handleHooks: "it is up to the specific called
//	           function to implement a timeout internally")
//	cancelled  the plugin reports that its own request was cancelled (gRPC Canceled) through __call_error
//	goerr      the plugin function returns a Go error to the expression evaluator
//	both       the plugin function writes __call_error AND returns a Go error
//	panic      the plugin function panics (the evaluator recovers and returns an error)
//	nofunc     the plugin does not export the function (its CallStack for this call has no `Probe`)
//	noplugin   the hook's expression names a plugin that is not loaded in this core instance
//	           (`verifabsent.Probe()` — nothing registers verifabsent)
//	badexpr    the hook's expression is not an expression (`verifprobe.Probe(`)
//
// noplugin and badexpr are properties of the hook's `func:` text, not of one execution: such a hook fails at
// EVERY execution, so its script must name that one way for every execution that takes place (the generators
// write 16 entries; an execution beyond the script, or scripted otherwise, makes the case an infrastructure
// error, never a verdict).
//
// For nofunc / noplugin / badexpr the probe function never runs. The probe PLUGIN is still asked for its call
// stack by (*Call).Call() — integration.Plugins.CallStack asks every loaded plugin, whatever the expression says —
// with the call's VarStack already built, and that is where the harness records the entry / exit of such an
// execution. A hook with at least one named way is served by waysStack for all its executions (execution index
// and XS taken there); every other hook runs the code path it always ran.

import (
	"fmt"
	"sync/atomic"
	"time"

	"github.com/AliceO2Group/Control/core/workflow/callable"

	"verifharness/sx"
)

// Ways lists the names an outcome atom may carry, in a fixed order (generators enumerate it).
var Ways = []string{"reason", "timeout", "cancelled", "goerr", "both", "panic", "nofunc", "noplugin", "badexpr"}

// StaticWay: the way is a property of the hook's expression (every execution fails that way).
func StaticWay(w string) bool { return w == "noplugin" || w == "badexpr" }

func knownWay(w string) bool {
	for _, k := range Ways {
		if k == w {
			return true
		}
	}
	return false
}

// staticWay: the static way this hook's script names, if any.
func (h *hookDef) staticWay() string {
	for _, w := range h.ways {
		if StaticWay(w) {
			return w
		}
	}
	return ""
}

// funcExpr: the hook's `func:` text.
func (h *hookDef) funcExpr() string {
	switch h.staticWay() {
	case "noplugin":
		return "verifabsent.Probe()"
	case "badexpr":
		return "\"verifprobe.Probe(\""
	}
	return "verifprobe.Probe()"
}

// checkWays refuses inputs whose named ways cannot be acted out (an error of the input, not a verdict).
func checkWays(hooks []*hookDef) error {
	for _, h := range hooks {
		if !h.hasWays {
			continue
		}
		if h.isTask {
			return fmt.Errorf("hook %d: named failure ways are for call hooks", h.id)
		}
		st := h.staticWay()
		for k, w := range h.ways {
			if w != "" && !knownWay(w) {
				return fmt.Errorf("hook %d: unknown way %q", h.id, w)
			}
			if st != "" && w != st {
				return fmt.Errorf("hook %d: a %s hook fails that way at every execution, entry %d says otherwise", h.id, st, k)
			}
			if w == "timeout" && (h.timeout < 1 || h.timeout > 200) {
				return fmt.Errorf("hook %d: way timeout needs the hook's own timeout (timeoutMs in 1..200)", h.id)
			}
		}
	}
	return nil
}

// waysStack is the probe plugin's call stack for one execution of a hook that has named ways.
func waysStack(cs *caseState, h *hookDef, call *callable.Call) map[string]interface{} {
	k := int(atomic.AddInt32(&h.execs, 1)) - 1
	rec.add(sx.L(sx.A("XS"), sx.I(h.id), sx.I(k)))
	fails := k < len(h.outcomes) && h.outcomes[k]
	way := ""
	if fails {
		way = h.ways[k]
	}
	if st := h.staticWay(); st != "" && way != st {
		msg := fmt.Sprintf("hook %d fails by %s at every execution, but execution %d is not scripted so", h.id, st, k)
		cs.badWay.CompareAndSwap(nil, &msg)
	}
	st := cs.env.Sm.Current()
	// the time the execution takes, and its exit record
	finish := func() {
		if h.dur > 0 {
			time.Sleep(time.Duration(h.dur) * time.Millisecond)
		} else {
			time.Sleep(300 * time.Microsecond)
		}
	}
	exit := func() {
		x := sx.L(sx.A("XE"), sx.I(h.id), sx.I(k), sx.B(fails), snapOf(call.VarStack), sx.A(st))
		if way != "" {
			x.Add(sx.A(way))
		}
		rec.add(x)
	}
	other := func() string { return "" }
	switch way {
	case "nofunc":
		// the plugin is there, the function is not
		finish()
		exit()
		return map[string]interface{}{"Other": other}
	case "noplugin", "badexpr":
		// the expression never reaches this plugin
		finish()
		exit()
		return map[string]interface{}{"Probe": other, "Other": other}
	case "goerr", "both":
		return map[string]interface{}{"Other": other, "Probe": func() (string, error) {
			finish()
			if way == "both" {
				call.VarStack["__call_error"] = fmt.Sprintf("probe %d failed", h.id)
			}
			exit()
			return "", fmt.Errorf("probe %d: the service refused the request", h.id)
		}}
	case "panic":
		return map[string]interface{}{"Other": other, "Probe": func() string {
			finish()
			exit()
			panic(fmt.Errorf("probe %d: assignment to entry in nil map", h.id))
		}}
	}
	return map[string]interface{}{"Other": other, "Probe": func() string {
		finish()
		switch way {
		case "reason":
			call.VarStack["__call_error"] = fmt.Sprintf("probe %d failed", h.id)
			call.VarStack["__call_error_reason"] = "the detector is not ready"
		case "cancelled":
			call.VarStack["__call_error"] = "rpc error: code = Canceled desc = context canceled"
		case "timeout":
			// what a plugin does with the timeout the core hands it: wait that long for its service, give up
			d, err := time.ParseDuration(call.VarStack["__call_timeout"])
			if err != nil || d <= 0 || d > 200*time.Millisecond {
				msg := fmt.Sprintf("hook %d: __call_timeout %q is not the hook's own short timeout", h.id, call.VarStack["__call_timeout"])
				cs.badWay.CompareAndSwap(nil, &msg)
				d = time.Millisecond
			}
			time.Sleep(d)
			call.VarStack["__call_error"] = "context deadline exceeded"
			call.VarStack["__call_error_reason"] = "no answer within " + call.VarStack["__call_timeout"]
		case "":
			if fails {
				call.VarStack["__call_error"] = fmt.Sprintf("probe %d failed", h.id)
			}
		}
		exit()
		return ""
	}}
}
