// Package fw is the correspondence framework shared by all property harnesses.
//
// One property = one fw.Property value registered from an init() in
// harness/props/<cxx>. The framework
//   - collects inputs (known-finding witnesses, corpus, generated cases),
//   - runs the real implementation on each (RunImpl, in-process),
//   - pipes "input<TAB>implObs" lines through the compiled Lean driver, which
//     answers "modelObs<TAB>specOnImpl<TAB>hyp" per line,
//   - classifies every case (agree / known-finding class / spec failure /
//     disagreement), shrinks what fails, runs the wider search when the
//     correspondence broke, and writes a result JSON that /verif/check turns
//     into the verdict and the evidence file.
//
// Protocol fields returned by the driver for a case:
//
//	modelObs    the model's observation for this input, printed canonically
//	            (or ACCEPT / REJECT:<why> for monitor-style properties, where the
//	            implementation's recorded schedule is part of implObs)
//	specOnImpl  1/0: Spec.Cxx evaluated on (input, implObs) — the decidable
//	            predicate the theorems are about
//	hyp         "-" or the id of the excluded hypothesis of a …_partial theorem
//	            that this input violates (= id of a known finding)
package fw

import (
	"bufio"
	"encoding/json"
	"fmt"
	"os"
	"os/exec"
	"path/filepath"
	"runtime"
	"runtime/debug"
	"sort"
	"strings"
	"sync"
	"time"

	"verifharness/rng"
)

type Case struct {
	Input string
	Tags  []string
}

type Property struct {
	ID string
	// Generate returns this run's inputs for the tier ("quick"/"thorough").
	Generate func(tier string, r *rng.R) []Case
	// RunImpl runs the real code on one input and returns the canonical
	// observation. err != nil means the harness infrastructure failed
	// (inconclusive), never a verdict.
	RunImpl func(input string) (obs string, err error)
	// Nontrivial implements Rule on one executed case.
	Nontrivial func(input, obs string) bool
	Rule       string
	// Shrink proposes strictly smaller inputs (optional).
	Shrink func(input string) []string
	// Search generates the wider stream used only after a break (optional;
	// default: Generate("thorough") with a different seed).
	Search func(r *rng.R) []Case
	// Exhaustive reports whether Generate(tier) enumerates a finite domain completely.
	Exhaustive func(tier string) bool
	// ObsTags (optional) returns tags that depend on what the implementation did on the case
	// (counted in the evidence like Case.Tags; no influence on any verdict).
	ObsTags func(input, obs string) []string
	// Workers > 1 runs RunImpl concurrently (only for implementations without
	// process-global state).
	Workers int
	// Setup/Teardown run once around the run (simulators etc.).
	Setup    func(work string) error
	Teardown func()
	// Text for the evidence file.
	TrustedBase []string
	Assumptions []string
}

var registry = map[string]*Property{}

func Register(p *Property) { registry[p.ID] = p }
func Lookup(id string) *Property { return registry[id] }
func IDs() []string {
	var ids []string
	for k := range registry {
		ids = append(ids, k)
	}
	sort.Strings(ids)
	return ids
}

// ---- child-process entry points ----------------------------------------------------
//
// A property (or the whole-core simulator) that must run cases in a separate
// process (process-global singletons, panics, hangs) registers a child main;
// `vh` dispatches to it when VERIF_CHILD=<name> is set, before anything else.
// Start one with ChildCommand(name, args...).

var children = map[string]func(args []string){}

func RegisterChild(name string, main func(args []string)) { children[name] = main }

// DispatchChild runs the registered child main named by $VERIF_CHILD and exits; returns if unset.
func DispatchChild() {
	name := os.Getenv("VERIF_CHILD")
	if name == "" {
		return
	}
	f, ok := children[name]
	if !ok {
		fmt.Fprintf(os.Stderr, "vh: unknown child %q\n", name)
		os.Exit(2)
	}
	f(os.Args[1:])
	os.Exit(0)
}

// ChildCommand prepares a re-exec of the running binary as child `name`.
func ChildCommand(name string, args ...string) *exec.Cmd {
	self, err := os.Executable()
	if err != nil {
		self = os.Args[0]
	}
	cmd := exec.Command(self, args...)
	cmd.Env = append(os.Environ(), "VERIF_CHILD="+name)
	return cmd
}

// ---- generated Lean fragments ------------------------------------------------

type GenFile struct {
	Name string // file name under lean/ControlModel/Gen, e.g. "StateAlgebra.lean"
	Make func(repo string) (string, error)
}

var gens []GenFile

func RegisterGen(g GenFile) { gens = append(gens, g) }

// WriteGens regenerates every fragment; files whose content did not change are
// left untouched (so lake does not rebuild), stale files are removed.
// makeGuarded runs one generator with a ceiling and a recover: generators evaluate code of the tree (tabulation),
// and a broken tree can make that code hang or panic.
func makeGuarded(mk func(string) (string, error), repo string) (string, error) {
	type res struct {
		s   string
		err error
	}
	ch := make(chan res, 1)
	go func() {
		defer func() {
			if x := recover(); x != nil {
				ch <- res{"", fmt.Errorf("generator panicked: %v", x)}
			}
		}()
		s, err := mk(repo)
		ch <- res{s, err}
	}()
	ceiling := 180 * time.Second
	select {
	case r := <-ch:
		return r.s, r.err
	case <-time.After(ceiling):
		return "", fmt.Errorf("generator did not finish within %v (the code it evaluates hangs)", ceiling)
	}
}

func WriteGens(repo, dir string) error {
	if err := os.MkdirAll(dir, 0o755); err != nil {
		return err
	}
	want := map[string]bool{}
	sort.Slice(gens, func(i, j int) bool { return gens[i].Name < gens[j].Name })
	for _, g := range gens {
		want[g.Name] = true
		content, err := makeGuarded(g.Make, repo)
		if err != nil {
			// One fragment that cannot be produced (the extractor does not recognise the code any more, or the
			// code it evaluates hangs or panics) takes down the theorems that import it, not every property:
			// the file is written with an error in it, so that exactly its importers stop building.
			fmt.Printf("gen: FAILED %s: %v\n", g.Name, err)
			msg := strings.ReplaceAll(fmt.Sprintf("%v", err), "-/", "- /")
			if len(msg) > 1500 {
				msg = msg[:1500]
			}
			content = "/- `vh gen` could not produce this fragment from the tree:\n" + msg + "\n-/\n" +
				"#check (vh_gen_failed_for_this_fragment__see_the_comment_above : Nat)\n"
		}
		content = "-- GENERATED by `vh gen` from /repo's working tree. Do not edit.\n" + content
		path := filepath.Join(dir, g.Name)
		old, _ := os.ReadFile(path)
		if string(old) != content {
			if err := os.WriteFile(path, []byte(content), 0o644); err != nil {
				return err
			}
			fmt.Printf("gen: wrote %s\n", path)
		}
	}
	ents, _ := os.ReadDir(dir)
	for _, e := range ents {
		if strings.HasSuffix(e.Name(), ".lean") && !want[e.Name()] {
			os.Remove(filepath.Join(dir, e.Name()))
			fmt.Printf("gen: removed stale %s\n", e.Name())
		}
	}
	return nil
}

// ---- results -------------------------------------------------------------------

type CaseResult struct {
	Input  string `json:"input"`
	Impl   string `json:"impl"`
	Model  string `json:"model"`
	Spec   bool   `json:"spec_on_impl"`
	Hyp    string `json:"hyp"`
	Origin string `json:"origin"` // witness:<id> | corpus | gen | search | shrunk
}

type Result struct {
	Property           string         `json:"property"`
	Tier               string         `json:"tier"`
	Seed               uint64         `json:"seed"`
	Evaluations        int            `json:"evaluations"`
	DistinctNontrivial int            `json:"distinct_nontrivial"`
	Rule               string         `json:"rule"`
	Samples            []CaseResult   `json:"samples"`
	Tags               map[string]int `json:"tags"`
	Exhaustive         bool           `json:"exhaustive"`
	Inconclusive       int            `json:"inconclusive"`
	Unstarted          int            `json:"unstarted"` // cases not run because the run budget was used up (they are also counted in Inconclusive)
	InconclusiveWhy    []string       `json:"inconclusive_why,omitempty"`
	Disagreements      []CaseResult   `json:"disagreements"`
	SpecFailures       []CaseResult   `json:"spec_failures"` // agree, spec=0, hyp="-"
	KnownHits          map[string]int `json:"known_hits"`    // hyp id -> count (agree, spec=0)
	KnownExamples      map[string]CaseResult `json:"known_examples"`
	WitnessStillFails  map[string]bool `json:"witness_still_fails"` // finding id -> witness reproduces
	SearchRan          bool           `json:"search_ran"`
	SearchEvaluations  int            `json:"search_evaluations"`
	WallS              float64        `json:"wall_s"`
	TrustedBase        []string       `json:"trusted_base"`
	Assumptions        []string       `json:"assumptions"`
	DriverError        string         `json:"driver_error,omitempty"`
}

type Witness struct {
	ID    string
	Input string
}

type RunOpts struct {
	Tier      string
	Seed      uint64
	Driver    string // path of the compiled Lean driver
	Work      string // scratch dir
	CorpusDir string
	Witnesses []Witness
	MaxCases  int // 0 = no cap
}

type item struct {
	c      Case
	origin string
	obs    string
	err    error
}

// CaseCeiling: a single RunImpl that takes longer than this is a hang of the code under test (or of
// the harness); the process dumps all goroutines and exits with status 4, and /verif/check reports the
// input it was running. Generous on purpose: it is not a performance bound.
var CaseCeiling = 10 * time.Minute

func init() {
	if v := os.Getenv("VERIF_CASE_CEILING_S"); v != "" {
		if n, err := time.ParseDuration(v + "s"); err == nil {
			CaseCeiling = n
		}
	}
}

func watchdog(input string, done chan struct{}) {
	select {
	case <-done:
	case <-time.After(CaseCeiling):
		buf := make([]byte, 1<<20)
		n := runtime.Stack(buf, true)
		fmt.Fprintf(os.Stderr, "vh: RunImpl exceeded %s on input %s (goroutine dump in hang_dump.txt)\n", CaseCeiling, input)
		if currentCaseFile != "" {
			os.WriteFile(filepath.Join(filepath.Dir(currentCaseFile), "hang_dump.txt"), buf[:n], 0o644)
		}
		os.Exit(4)
	}
}

func safeRun(p *Property, input string) (obs string, err error) {
	done := make(chan struct{})
	go watchdog(input, done)
	defer close(done)
	defer func() {
		if r := recover(); r != nil {
			if os.Getenv("VERIF_DEBUG") != "" {
				fmt.Fprintf(os.Stderr, "panic in RunImpl(%s): %v\n%s\n", input, r, debug.Stack())
			}
			msg := fmt.Sprint(r)
			if len(msg) > 120 {
				msg = msg[:120]
			}
			msg = strings.Map(func(c rune) rune {
				if c == '\t' || c == '\n' || c == '(' || c == ')' || c == '"' || c == '\\' {
					return ' '
				}
				return c
			}, msg)
			obs = "(panic \"" + msg + "\")"
			err = nil
		}
	}()
	return p.RunImpl(input)
}

// currentCaseFile, when set, receives the input about to be executed (sequential runs only),
// so that /verif/check can attribute a crash of the whole process to a concrete input.
var currentCaseFile string

// RunBudget bounds the wall time of one correspondence run: cases not STARTED when it is used up are
// not run (inconclusive, counted in Result.Unstarted); the check reports a run that could not be
// completed as "correspondence no longer checks". A broken tree can make every case wait for its
// ceiling; without a budget such a run takes hours. Default: 20 min (quick), 4 h (thorough);
// VERIF_RUN_BUDGET_S overrides. On the unchanged tree a quick run takes 0.2–3 min.
var errBudget = fmt.Errorf("infrastructure: run budget used up before this case was started")

func runBudget(tier string) time.Duration {
	if v := os.Getenv("VERIF_RUN_BUDGET_S"); v != "" {
		if n, err := time.ParseDuration(v + "s"); err == nil {
			return n
		}
	}
	if tier == "thorough" {
		return 4 * time.Hour
	}
	return 20 * time.Minute
}

func runAll(p *Property, items []*item, deadline time.Time) (unstarted int) {
	w := p.Workers
	if os.Getenv("VERIF_SEQUENTIAL") != "" {
		// /verif/check re-runs a run whose process died with workers in parallel one case at a time,
		// so that the death can be attributed to an input (current_case.txt)
		w = 1
	}
	if w <= 1 {
		for _, it := range items {
			if time.Now().After(deadline) {
				it.err = errBudget
				unstarted++
				continue
			}
			if currentCaseFile != "" {
				os.WriteFile(currentCaseFile, []byte(it.c.Input), 0o644)
			}
			it.obs, it.err = safeRun(p, it.c.Input)
		}
		if currentCaseFile != "" {
			os.Remove(currentCaseFile)
		}
		return
	}
	var wg sync.WaitGroup
	ch := make(chan *item)
	for i := 0; i < w; i++ {
		wg.Add(1)
		go func() {
			defer wg.Done()
			for it := range ch {
				it.obs, it.err = safeRun(p, it.c.Input)
			}
		}()
	}
	for _, it := range items {
		if time.Now().After(deadline) {
			it.err = errBudget
			unstarted++
			continue
		}
		ch <- it
	}
	close(ch)
	wg.Wait()
	return
}

type driverAns struct {
	model string
	spec  bool
	hyp   string
}

// askDriver pipes the (input, implObs) pairs through the Lean driver.
func askDriver(driver, id, work string, items []*item) ([]driverAns, error) {
	if len(items) == 0 {
		return nil, nil
	}
	inPath := filepath.Join(work, "cases.tsv")
	f, err := os.Create(inPath)
	if err != nil {
		return nil, err
	}
	bw := bufio.NewWriterSize(f, 1<<20)
	for _, it := range items {
		if strings.ContainsAny(it.c.Input, "\t\n") || strings.ContainsAny(it.obs, "\t\n") {
			f.Close()
			return nil, fmt.Errorf("tab/newline inside a protocol field: %q / %q", it.c.Input, it.obs)
		}
		bw.WriteString(it.c.Input)
		bw.WriteByte('\t')
		bw.WriteString(it.obs)
		bw.WriteByte('\n')
	}
	bw.Flush()
	f.Close()
	in, _ := os.Open(inPath)
	defer in.Close()
	cmd := exec.Command(driver, id)
	cmd.Stdin = in
	cmd.Stderr = os.Stderr
	out, err := cmd.Output()
	if err != nil {
		return nil, fmt.Errorf("driver %s: %w", id, err)
	}
	lines := strings.Split(strings.TrimRight(string(out), "\n"), "\n")
	if len(lines) != len(items) {
		return nil, fmt.Errorf("driver answered %d lines for %d cases", len(lines), len(items))
	}
	ans := make([]driverAns, len(lines))
	for i, l := range lines {
		fs := strings.Split(l, "\t")
		if len(fs) != 3 {
			return nil, fmt.Errorf("driver line %d malformed: %q (input %q)", i, l, items[i].c.Input)
		}
		ans[i] = driverAns{model: fs[0], spec: fs[1] == "1", hyp: fs[2]}
	}
	return ans, nil
}

func agrees(model, impl string) bool {
	if model == "ACCEPT" {
		return true
	}
	if strings.HasPrefix(model, "REJECT") {
		return false
	}
	return model == impl
}

// evalOne runs one input through implementation and driver.
func evalOne(p *Property, o RunOpts, input, origin string) (CaseResult, error) {
	it := &item{c: Case{Input: input}, origin: origin}
	it.obs, it.err = safeRun(p, input)
	if it.err != nil {
		return CaseResult{}, it.err
	}
	ans, err := askDriver(o.Driver, p.ID, o.Work, []*item{it})
	if err != nil {
		return CaseResult{}, err
	}
	return CaseResult{Input: input, Impl: it.obs, Model: ans[0].model, Spec: ans[0].spec, Hyp: ans[0].hyp, Origin: origin}, nil
}

func bad(cr CaseResult) bool { return !agrees(cr.Model, cr.Impl) || (!cr.Spec && cr.Hyp == "-") }

// shrink greedily replaces a failing case by smaller failing candidates. A
// candidate must fail the same way (spec failure stays spec failure).
func shrink(p *Property, o RunOpts, cr CaseResult) CaseResult {
	if p.Shrink == nil {
		return cr
	}
	wantSpecFail := !cr.Spec
	wantDisagree := !agrees(cr.Model, cr.Impl)
	deadline := time.Now().Add(60 * time.Second)
	for rounds := 0; rounds < 200 && time.Now().Before(deadline); rounds++ {
		progressed := false
		for _, cand := range p.Shrink(cr.Input) {
			if cand == cr.Input || len(cand) >= len(cr.Input) {
				continue
			}
			if !time.Now().Before(deadline) {
				break
			}
			c2, err := evalOne(p, o, cand, "shrunk")
			if err != nil {
				continue
			}
			if bad(c2) && (!wantSpecFail || !c2.Spec) && (!wantDisagree || !agrees(c2.Model, c2.Impl)) {
				cr = c2
				progressed = true
				break
			}
		}
		if !progressed {
			break
		}
	}
	return cr
}

func Run(p *Property, o RunOpts) (*Result, error) {
	t0 := time.Now()
	if err := os.MkdirAll(o.Work, 0o755); err != nil {
		return nil, err
	}
	currentCaseFile = filepath.Join(o.Work, "current_case.txt")
	res := &Result{Property: p.ID, Tier: o.Tier, Seed: o.Seed, Rule: p.Rule,
		Tags: map[string]int{}, KnownHits: map[string]int{}, KnownExamples: map[string]CaseResult{},
		WitnessStillFails: map[string]bool{}, TrustedBase: p.TrustedBase, Assumptions: p.Assumptions,
		Disagreements: []CaseResult{}, SpecFailures: []CaseResult{}, Samples: []CaseResult{}}
	if p.Exhaustive != nil {
		res.Exhaustive = p.Exhaustive(o.Tier)
	}
	if p.Setup != nil {
		if err := p.Setup(o.Work); err != nil {
			return nil, fmt.Errorf("setup: %w", err)
		}
	}
	if p.Teardown != nil {
		defer p.Teardown()
	}

	var items []*item
	for _, w := range o.Witnesses {
		items = append(items, &item{c: Case{Input: w.Input, Tags: []string{"witness"}}, origin: "witness:" + w.ID})
	}
	if o.CorpusDir != "" {
		files, _ := filepath.Glob(filepath.Join(o.CorpusDir, "*.txt"))
		sort.Strings(files)
		for _, fn := range files {
			data, _ := os.ReadFile(fn)
			for _, l := range strings.Split(string(data), "\n") {
				l = strings.TrimSpace(l)
				if l == "" || strings.HasPrefix(l, "#") {
					continue
				}
				items = append(items, &item{c: Case{Input: l, Tags: []string{"corpus"}}, origin: "corpus"})
			}
		}
	}
	r := rng.New(o.Seed)
	for _, c := range p.Generate(o.Tier, r) {
		items = append(items, &item{c: c, origin: "gen"})
		if o.MaxCases > 0 && len(items) >= o.MaxCases {
			break
		}
	}

	res.Unstarted = runAll(p, items, t0.Add(runBudget(o.Tier)))
	var live []*item
	for _, it := range items {
		if it.err != nil {
			res.Inconclusive++
			if len(res.InconclusiveWhy) < 5 {
				res.InconclusiveWhy = append(res.InconclusiveWhy, it.err.Error())
			}
			continue
		}
		live = append(live, it)
	}
	ans, err := askDriver(o.Driver, p.ID, o.Work, live)
	if err != nil {
		res.DriverError = err.Error()
		res.WallS = time.Since(t0).Seconds()
		return res, nil
	}

	seen := map[string]bool{}
	broke := false
	for i, it := range live {
		a := ans[i]
		cr := CaseResult{Input: it.c.Input, Impl: it.obs, Model: a.model, Spec: a.spec, Hyp: a.hyp, Origin: it.origin}
		res.Evaluations++
		for _, t := range it.c.Tags {
			res.Tags[t]++
		}
		if p.ObsTags != nil {
			for _, t := range p.ObsTags(cr.Input, cr.Impl) {
				res.Tags[t]++
			}
		}
		if !seen[cr.Input] {
			seen[cr.Input] = true
			if p.Nontrivial == nil || p.Nontrivial(cr.Input, cr.Impl) {
				res.DistinctNontrivial++
			}
		}
		if len(res.Samples) < 3 && it.origin == "gen" {
			res.Samples = append(res.Samples, cr)
		}
		ag := agrees(a.model, it.obs)
		if strings.HasPrefix(it.origin, "witness:") {
			id := strings.TrimPrefix(it.origin, "witness:")
			res.WitnessStillFails[id] = ag && !a.spec && a.hyp == id
		}
		switch {
		case !ag:
			broke = true
			if len(res.Disagreements) < 20 {
				res.Disagreements = append(res.Disagreements, cr)
			}
		case !a.spec && a.hyp != "-":
			res.KnownHits[a.hyp]++
			if _, ok := res.KnownExamples[a.hyp]; !ok {
				res.KnownExamples[a.hyp] = cr
			}
		case !a.spec:
			if len(res.SpecFailures) < 20 {
				res.SpecFailures = append(res.SpecFailures, cr)
			}
		}
	}
	if len(res.Samples) == 0 && len(live) > 0 {
		it := live[0]
		res.Samples = append(res.Samples, CaseResult{Input: it.c.Input, Impl: it.obs, Model: ans[0].model, Spec: ans[0].spec, Hyp: ans[0].hyp, Origin: it.origin})
	}

	// shrink what failed
	for i := range res.Disagreements {
		if i < 3 {
			res.Disagreements[i] = shrink(p, o, res.Disagreements[i])
		}
	}
	for i := range res.SpecFailures {
		if i < 3 {
			res.SpecFailures[i] = shrink(p, o, res.SpecFailures[i])
		}
	}

	// The correspondence broke and no disagreeing case violates Spec yet: widen.
	if broke {
		found := false
		for _, d := range res.Disagreements {
			if !d.Spec {
				found = true
			}
		}
		if !found {
			res.SearchRan = true
			sr := rng.New(o.Seed ^ 0xA5A5A5A5DEADBEEF)
			var cs []Case
			if p.Search != nil {
				cs = p.Search(sr)
			} else {
				cs = p.Generate("thorough", sr)
			}
			if len(cs) > 20000 {
				cs = cs[:20000]
			}
			var sitems []*item
			for _, c := range cs {
				sitems = append(sitems, &item{c: c, origin: "search"})
			}
			runAll(p, sitems, time.Now().Add(10*time.Minute)) // the wider search has a budget of its own
			var slive []*item
			for _, it := range sitems {
				if it.err == nil {
					slive = append(slive, it)
				}
			}
			sans, err := askDriver(o.Driver, p.ID, o.Work, slive)
			if err == nil {
				res.SearchEvaluations = len(slive)
				for i, it := range slive {
					a := sans[i]
					if !a.spec && (a.hyp == "-" || !agrees(a.model, it.obs)) {
						cr := CaseResult{Input: it.c.Input, Impl: it.obs, Model: a.model, Spec: a.spec, Hyp: a.hyp, Origin: "search"}
						cr = shrink(p, o, cr)
						res.Disagreements = append([]CaseResult{cr}, res.Disagreements...)
						break
					}
				}
			}
		}
	}
	res.WallS = time.Since(t0).Seconds()
	return res, nil
}

// Replay re-runs one stored input and reports whether it still fails.
func Replay(p *Property, o RunOpts, input string) (CaseResult, bool, error) {
	if p.Setup != nil {
		if err := p.Setup(o.Work); err != nil {
			return CaseResult{}, false, err
		}
	}
	if p.Teardown != nil {
		defer p.Teardown()
	}
	os.MkdirAll(o.Work, 0o755)
	cr, err := evalOne(p, o, input, "replay")
	if err != nil {
		return cr, false, err
	}
	return cr, !agrees(cr.Model, cr.Impl) || !cr.Spec, nil
}

func WriteJSON(path string, v any) error {
	b, err := json.MarshalIndent(v, "", " ")
	if err != nil {
		return err
	}
	return os.WriteFile(path, b, 0o644)
}
