// Package idfacts: go/ast facts about who writes a task's Mesos identity (Task.agentId / Task.executorId) in package
// core/task, and how updateTaskStatus copies the two ids from a status update — shared by C04 and C18 (both blank-import it;
// the fragment Gen/TaskIdFacts.lean is registered once). Task.isLocked() needs both ids non-empty, so a writer that can
// store the empty string takes the lock off a task that a live environment owns.
//
//	agentIdCopy / executorIdCopy   how updateTaskStatus writes the id from the status:
//	    "guarded"    every assignment `<task>.<id> = status.Get<X>ID().GetValue()` (or `.Value`) of the function is a
//	                 statement of the body of an `if status.Get<X>ID() != nil { … }` without else (the same getter on the
//	                 same receiver) — an update that lacks the optional field leaves the stored id alone —, and there is one;
//	    "unguarded"  there is such an assignment that no such `if` encloses (the nil-safe getter chain yields "" for an
//	                 absent field: the stored id is blanked);
//	    "absent"     the function never writes the id; "other" = written from something else than the status.
//	copiesUnderRunningOnly         every such assignment stands in the clause `case mesos.TASK_RUNNING:` (alone in its case
//	                               list) of a switch over status.GetState()
//	idWriteSites                   every assignment to a selector `.agentId` / `.executorId` in the non-test, non-hook files
//	                               of core/task, as <function>:<field>:<kind>, kind = blank (the literal "") | status (a
//	                               getter chain on a parameter named status) | other; sorted. (The composite literal of
//	                               newTaskForMesosOffer is a construction, not a write to an existing task.)
package idfacts

import (
	"fmt"
	"go/ast"
	"go/parser"
	"go/token"
	"os"
	"path/filepath"
	"sort"
	"strings"

	"verifharness/fw"
)

type Facts struct {
	AgentIDCopy, ExecutorIDCopy string
	CopiesUnderRunningOnly      bool
	IDWriteSites                []string
}

func selName(e ast.Expr) (recv ast.Expr, name string) {
	if s, ok := e.(*ast.SelectorExpr); ok {
		return s.X, s.Sel.Name
	}
	return nil, ""
}

func ident(e ast.Expr) string {
	if id, ok := e.(*ast.Ident); ok {
		return id.Name
	}
	return ""
}

// getterOn: e is `<recv>.<getter>()`; returns the receiver's identifier.
func getterOn(e ast.Expr, getter string) (string, bool) {
	ce, ok := e.(*ast.CallExpr)
	if !ok || len(ce.Args) != 0 {
		return "", false
	}
	x, n := selName(ce.Fun)
	if n != getter {
		return "", false
	}
	return ident(x), ident(x) != ""
}

// fromStatus: e is `<recv>.<getter>().GetValue()` or `<recv>.<getter>().Value`.
func fromStatus(e ast.Expr, getter string) (string, bool) {
	if ce, ok := e.(*ast.CallExpr); ok && len(ce.Args) == 0 {
		x, n := selName(ce.Fun)
		if n == "GetValue" {
			return getterOn(x, getter)
		}
		return "", false
	}
	if x, n := selName(e); n == "Value" {
		return getterOn(x, getter)
	}
	return "", false
}

// nilGuard: cond is `<recv>.<getter>() != nil`.
func nilGuard(cond ast.Expr, getter string) (string, bool) {
	be, ok := cond.(*ast.BinaryExpr)
	if !ok || be.Op != token.NEQ || ident(be.Y) != "nil" {
		return "", false
	}
	return getterOn(be.X, getter)
}

var getterOf = map[string]string{"agentId": "GetAgentID", "executorId": "GetExecutorID"}

func kindOfRHS(e ast.Expr, field string) string {
	if bl, ok := e.(*ast.BasicLit); ok && bl.Kind == token.STRING && (bl.Value == `""` || bl.Value == "``") {
		return "blank"
	}
	if r, ok := fromStatus(e, getterOf[field]); ok && r == "status" {
		return "status"
	}
	return "other"
}

func Extract(repo string) (Facts, error) {
	var f Facts
	dir := filepath.Join(repo, "core/task")
	ents, err := os.ReadDir(dir)
	if err != nil {
		return f, err
	}
	fset := token.NewFileSet()
	var update *ast.FuncDecl
	for _, e := range ents {
		n := e.Name()
		if e.IsDir() || !strings.HasSuffix(n, ".go") || strings.HasSuffix(n, "_test.go") || strings.HasPrefix(n, "verif_") {
			continue
		}
		file, err := parser.ParseFile(fset, filepath.Join(dir, n), nil, 0)
		if err != nil {
			return f, err
		}
		for _, d := range file.Decls {
			fd, ok := d.(*ast.FuncDecl)
			if !ok || fd.Body == nil {
				continue
			}
			if fd.Name.Name == "updateTaskStatus" && fd.Recv != nil && n == "manager.go" {
				update = fd
			}
			ast.Inspect(fd.Body, func(x ast.Node) bool {
				as, ok := x.(*ast.AssignStmt)
				if !ok {
					return true
				}
				for i, l := range as.Lhs {
					if _, fld := selName(l); fld == "agentId" || fld == "executorId" {
						k := "other"
						if len(as.Lhs) == len(as.Rhs) && as.Tok == token.ASSIGN {
							k = kindOfRHS(as.Rhs[i], fld)
						}
						f.IDWriteSites = append(f.IDWriteSites, fmt.Sprintf("%s:%s:%s", fd.Name.Name, fld, k))
					}
				}
				return true
			})
		}
	}
	sort.Strings(f.IDWriteSites)
	if update == nil {
		return f, fmt.Errorf("core/task/manager.go: (*Manager).updateTaskStatus not found")
	}
	// walk updateTaskStatus with the enclosing statement: the directly enclosing `if` (assignment is a statement of its body)
	// and the enclosing case clause
	copyKind := map[string]string{"agentId": "absent", "executorId": "absent"}
	f.CopiesUnderRunningOnly = true
	type ctx struct {
		guardFor    map[string]bool // field -> the innermost enclosing block is the body of the right nil test
		underRun    bool
		switchOnSta bool
	}
	worse := func(field, k string) {
		rank := map[string]int{"absent": 0, "guarded": 1, "unguarded": 2, "other": 3}
		if rank[k] > rank[copyKind[field]] {
			copyKind[field] = k
		}
	}
	var walkStmts func(list []ast.Stmt, c ctx)
	var walk func(st ast.Stmt, c ctx)
	walkStmts = func(list []ast.Stmt, c ctx) {
		for _, st := range list {
			walk(st, c)
		}
	}
	walk = func(st ast.Stmt, c ctx) {
		inner := ctx{guardFor: map[string]bool{}, underRun: c.underRun, switchOnSta: c.switchOnSta}
		switch x := st.(type) {
		case nil:
		case *ast.AssignStmt:
			for i, l := range x.Lhs {
				_, fld := selName(l)
				if fld != "agentId" && fld != "executorId" {
					continue
				}
				k := "other"
				if len(x.Lhs) == len(x.Rhs) && x.Tok == token.ASSIGN && kindOfRHS(x.Rhs[i], fld) == "status" {
					if c.guardFor[fld] {
						k = "guarded"
					} else {
						k = "unguarded"
					}
				}
				worse(fld, k)
				if !c.underRun {
					f.CopiesUnderRunningOnly = false
				}
			}
		case *ast.BlockStmt:
			walkStmts(x.List, inner)
		case *ast.IfStmt:
			walk(x.Init, inner)
			body := ctx{guardFor: map[string]bool{}, underRun: c.underRun, switchOnSta: c.switchOnSta}
			if x.Else == nil && x.Init == nil {
				for fld, g := range getterOf {
					if r, ok := nilGuard(x.Cond, g); ok && r == "status" {
						body.guardFor[fld] = true
					}
				}
			}
			walkStmts(x.Body.List, body)
			if x.Else != nil {
				walk(x.Else, inner)
			}
		case *ast.SwitchStmt:
			walk(x.Init, inner)
			onState := false
			if x.Tag != nil {
				if r, ok := getterOn(x.Tag, "GetState"); ok && r == "status" {
					onState = true
				}
			}
			if as, ok := x.Init.(*ast.AssignStmt); ok && len(as.Rhs) == 1 && x.Tag != nil && len(as.Lhs) == 1 && ident(as.Lhs[0]) == ident(x.Tag) {
				if r, ok := getterOn(as.Rhs[0], "GetState"); ok && r == "status" {
					onState = true
				}
			}
			for _, cc := range x.Body.List {
				cl := cc.(*ast.CaseClause)
				cctx := ctx{guardFor: map[string]bool{}}
				if onState && len(cl.List) == 1 {
					if _, n := selName(cl.List[0]); n == "TASK_RUNNING" {
						cctx.underRun = true
					}
				}
				walkStmts(cl.Body, cctx)
			}
		case *ast.ForStmt:
			walkStmts(x.Body.List, inner)
		case *ast.RangeStmt:
			walkStmts(x.Body.List, inner)
		case *ast.TypeSwitchStmt:
			for _, cc := range x.Body.List {
				walkStmts(cc.(*ast.CaseClause).Body, inner)
			}
		case *ast.SelectStmt:
			for _, cc := range x.Body.List {
				walkStmts(cc.(*ast.CommClause).Body, inner)
			}
		case *ast.LabeledStmt:
			walk(x.Stmt, c)
		default:
			// expression statements, go / defer with function literals: an id written inside a closure is "other"
			ast.Inspect(st, func(n ast.Node) bool {
				if as, ok := n.(*ast.AssignStmt); ok {
					for _, l := range as.Lhs {
						if _, fld := selName(l); fld == "agentId" || fld == "executorId" {
							worse(fld, "other")
							f.CopiesUnderRunningOnly = false
						}
					}
				}
				return true
			})
		}
	}
	walkStmts(update.Body.List, ctx{guardFor: map[string]bool{}})
	f.AgentIDCopy, f.ExecutorIDCopy = copyKind["agentId"], copyKind["executorId"]
	return f, nil
}

func strList(xs []string) string {
	q := make([]string, len(xs))
	for i, x := range xs {
		q[i] = fmt.Sprintf("%q", x)
	}
	return "[" + strings.Join(q, ", ") + "]"
}

func gen(repo string) (string, error) {
	f, err := Extract(repo)
	if err != nil {
		return "", err
	}
	var b strings.Builder
	b.WriteString("namespace Gen.TaskIds\n\n")
	fmt.Fprintf(&b, "/-- go/ast, core/task/manager.go (*Manager).updateTaskStatus: how `agentId` of the roster task is written from the status update. \"guarded\" = every `<task>.agentId = status.GetAgentID().GetValue()` is a statement of the body of `if status.GetAgentID() != nil { … }` (no else) and there is one: an update that lacks the OPTIONAL field agent_id leaves the stored id alone; \"unguarded\" = such a copy without that test (the nil-safe getters yield \"\": the id is blanked, Task.isLocked() turns false); \"absent\" = never written; \"other\" -/\ndef agentIdCopy : String := %q\n\n", f.AgentIDCopy)
	fmt.Fprintf(&b, "/-- the same for `executorId` / status.GetExecutorID() -/\ndef executorIdCopy : String := %q\n\n", f.ExecutorIDCopy)
	fmt.Fprintf(&b, "/-- both copies stand in the clause `case mesos.TASK_RUNNING:` of the switch over status.GetState(): no other state writes the ids -/\ndef copiesUnderRunningOnly : Bool := %v\n\n", f.CopiesUnderRunningOnly)
	fmt.Fprintf(&b, "/-- go/ast, package core/task (non-test, non-hook files): every assignment to a selector `.agentId` / `.executorId`, as <function>:<field>:<kind> — blank = the literal \"\", status = a getter chain on the parameter `status`, other — sorted. (newTaskForMesosOffer fills both from the offer in a composite literal.) -/\ndef idWriteSites : List String := %s\n\n", strList(f.IDWriteSites))
	b.WriteString("end Gen.TaskIds\n")
	return b.String(), nil
}

func init() {
	fw.RegisterGen(fw.GenFile{Name: "TaskIdFacts.lean", Make: gen})
}
