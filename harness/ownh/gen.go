package ownh

import (
	"fmt"
	"strings"

	"verifharness/rng"
	"verifharness/sim"
	"verifharness/sx"
)

// RunRetry runs a scenario; infrastructure trouble (simulator start, a harness
// deadline, the deployment race of the simulated master) is retried once in a
// fresh world and then reported as inconclusive (DESIGN §2.3a).
func RunRetry(input string) (string, error) {
	obs, err := Run(input)
	if err != nil && sim.IsInfra(err) {
		obs, err = Run(input)
	}
	return obs, err
}

// ---- scenario construction helpers ------------------------------------------------

type B struct {
	Reuse  bool
	Envs   []*sx.Node
	Rounds []*sx.Node
}

// T builds a plain task role.
func T(cls, host int, launch, cfg, tr, kill string) *sx.Node {
	return sx.L(sx.A("T"), sx.I(cls), sx.I(host), sx.A(launch), sx.A(cfg), sx.A(tr), sx.A(kill))
}

// H builds a DESTROY (after: after_DESTROY) hook task role.
func H(cls, host, weight int, after bool, launch, hook string) *sx.Node {
	return sx.L(sx.A("H"), sx.I(cls), sx.I(host), sx.I(weight), sx.B(after), sx.A(launch), sx.A(hook))
}

func P() *sx.Node { return sx.L(sx.A("P")) }

func OKT(cls, host int) *sx.Node { return T(cls, host, "ok", "ok", "ok", "ok") }

// Env adds an environment and returns its index.
func (b *B) Env(bad string, flps []int, roles ...*sx.Node) int {
	f := sx.L()
	for _, h := range flps {
		f.Add(sx.I(h))
	}
	b.Envs = append(b.Envs, sx.L(sx.A(bad), f, sx.L(roles...)))
	return len(b.Envs) - 1
}

func (b *B) Round(ops ...*sx.Node) *B {
	b.Rounds = append(b.Rounds, sx.L(ops...))
	return b
}

func (b *B) envHas(k int) (hooks, fails bool) {
	if k < 0 || k >= len(b.Envs) {
		return
	}
	for _, r := range b.Envs[k].At(2).List {
		switch r.At(0).Str() {
		case "H":
			hooks = true
			if r.At(5).Str() != "ok" {
				fails = true
			}
		case "T":
			if r.At(3).Str() != "ok" || r.At(4).Str() != "ok" {
				fails = true
			}
		}
	}
	return
}

// SafeRound adds the operations as one concurrent round unless that would put a request
// inside the window of a teardown that runs DESTROY hooks: TeardownEnvironment releases the
// plain tasks, runs the hooks (the harness holds them at a gate) and only then releases hook
// tasks and deletes the environment, while the model tears down in one step. A destroy of an
// environment with hook tasks is therefore not paired with creations / cleanups, nor is the
// creation of an environment with hook tasks that is scripted to fail paired with anything;
// such operations get rounds of their own (same order).
func (b *B) SafeRound(ops ...*sx.Node) *B {
	split := false
	for _, o := range ops {
		switch o.At(0).Str() {
		case "destroy":
			if h, _ := b.envHas(o.At(1).Int()); h {
				for _, p := range ops {
					if k := p.At(0).Str(); k == "new" || k == "cleanup" || k == "killenv" {
						split = true
					}
				}
			}
		case "new":
			if h, f := b.envHas(o.At(1).Int()); h && f && len(ops) > 1 {
				split = true
			}
		}
	}
	if !split {
		return b.Round(ops...)
	}
	for _, o := range ops {
		b.Round(o)
	}
	return b
}

func New(k int) *sx.Node            { return sx.L(sx.A("new"), sx.I(k)) }
func Ctl(k int, ev string) *sx.Node { return sx.L(sx.A("ctl"), sx.I(k), sx.A(ev)) }
func Cleanup() *sx.Node             { return sx.L(sx.A("cleanup")) }
func KillEnv(k int) *sx.Node        { return sx.L(sx.A("killenv"), sx.I(k)) }
func Rel(k int) *sx.Node            { return sx.L(sx.A("rel"), sx.I(k)) }

// Upd: the master sends one status update (state RUNNING | STARTING) about the task of role j of environment k, lacking the
// optional fields named by omit (none | exec | agent | both), as a reconciliation answer (src recon) or an ordinary update (plain).
func Upd(k, j int, state, omit, src string) *sx.Node {
	return sx.L(sx.A("upd"), sx.I(k), sx.I(j), sx.A(state), sx.A(omit), sx.A(src))
}

// Idle: the harness lets ms milliseconds pass.
func Idle(ms int) *sx.Node { return sx.L(sx.A("idle"), sx.I(ms)) }

// XFail / AFail: the executor / the agent of the task of role j of environment k fails
// (upd: preceded by the terminal status updates of the tasks it ran).
func XFail(k, j int, upd bool) *sx.Node { return sx.L(sx.A("xfail"), sx.I(k), sx.I(j), sx.B(upd)) }
func AFail(k, j int, upd bool) *sx.Node { return sx.L(sx.A("afail"), sx.I(k), sx.I(j), sx.B(upd)) }

func Destroy(k int, force, allow, keep bool) *sx.Node {
	return sx.L(sx.A("destroy"), sx.I(k), sx.B(force), sx.B(allow), sx.B(keep))
}

// NewD: NewEnvironment k and, while its deployment is in flight, DestroyEnvironment on it.
func NewD(k int, force, allow, keep bool) *sx.Node {
	return sx.L(sx.A("newd"), sx.I(k), sx.B(force), sx.B(allow), sx.B(keep))
}

func (b *B) String() string {
	return sx.L(sx.B(b.Reuse), sx.L(b.Envs...), sx.L(b.Rounds...)).String()
}

// Cls is the class number of role j of environment k (unique per role).
func Cls(k, j int) int { return 10*k + j + 1 }

// RandEnv adds an environment with 1..3 task roles on random hosts (hosts are
// shared between environments), the occasional hook task, pending call and
// scripted failure. flps decide the detectors: h1,h2 ITS; h3 TPC; h4 TST.
type EnvOpts struct {
	FailP   int // ‰ of roles with a scripted launch/configure/transition failure
	HookP   int // ‰ of environments with DESTROY hooks
	CallP   int // ‰ of environments with a pending call
	Flps    []int
	SameCls bool // reuse scenarios: class numbers shared between environments
	NoHostP int  // ‰ of environments one of whose task roles is placed on an offer without hostname (LAUNCH nohost); 0 = never
}

func (b *B) RandEnv(r *rng.R, o EnvOpts) int {
	k := len(b.Envs)
	flps := o.Flps
	if flps == nil {
		flps = []int{r.Range(1, 4)}
		if r.P(1, 4) {
			h := r.Range(1, 4)
			if h != flps[0] {
				flps = append(flps, h)
			}
		}
	}
	var roles []*sx.Node
	n := r.Range(1, 3)
	for j := 0; j < n; j++ {
		cls := Cls(k, j)
		if o.SameCls {
			cls = j + 1
		}
		host := r.Range(1, 4)
		if o.SameCls {
			host = j%4 + 1
		}
		launch, cfg, tr, kill := "ok", "ok", "ok", rng.Pick(r, []string{"ok", "ok", "ok", "failed", "delay"})
		if !o.SameCls && r.P(o.FailP, 1000) {
			switch r.N(4) {
			case 0:
				launch = rng.Pick(r, []string{"die", "slow"})
			case 1:
				cfg = rng.Pick(r, []string{"stay", "err"})
			default:
				tr = rng.Pick(r, []string{"START", "STOP", "RESET"}) + ":" + rng.Pick(r, []string{"stay", "err"})
			}
		}
		roles = append(roles, T(cls, host, launch, cfg, tr, kill))
	}
	if !o.SameCls && r.P(o.HookP, 1000) {
		nh := r.Range(1, 3)
		for i := 0; i < nh; i++ {
			j := len(roles)
			roles = append(roles, H(Cls(k, j), r.Range(1, 4), rng.Pick(r, []int{-5, 0, 10, 10, 20}), r.P(1, 4), "ok", rng.Pick(r, []string{"ok", "ok", "ok", "fail"})))
		}
	}
	if !o.SameCls && r.P(o.CallP, 1000) {
		roles = append(roles, P())
	}
	if !o.SameCls && o.NoHostP > 0 && r.P(o.NoHostP, 1000) {
		// the offer for the host of one task role carries no hostname while this environment is created
		j := r.N(n)
		if roles[j].At(3).Str() == "ok" {
			roles[j] = T(roles[j].At(1).Int(), roles[j].At(2).Int(), "nohost", roles[j].At(4).Str(), roles[j].At(5).Str(), roles[j].At(6).Str())
		}
	}
	return b.Env("ok", flps, roles...)
}

// EnvNoHost: is one of the task / hook roles of environment k placed on an offer without hostname?
func (b *B) EnvNoHost(k int) bool {
	if k < 0 || k >= len(b.Envs) {
		return false
	}
	for _, r := range b.Envs[k].At(2).List {
		switch r.At(0).Str() {
		case "T":
			if r.At(3).Str() == "nohost" {
				return true
			}
		case "H":
			if r.At(5).Str() == "nohost" {
				return true
			}
		}
	}
	return false
}

// Rounds counts rounds / operations of an input (for Nontrivial rules).
func Shape(input string) (envs, rounds, ops, creates, destroys int) {
	sc, err := Parse(input)
	if err != nil {
		return
	}
	envs, rounds = len(sc.Envs), len(sc.Rounds)
	for _, rd := range sc.Rounds {
		for _, o := range rd {
			ops++
			switch o.Kind {
			case "new":
				creates++
			case "destroy":
				destroys++
			case "newd":
				creates++
				destroys++
			}
		}
	}
	return
}

// Shrink proposes smaller scenarios: drop the last round, drop one round, drop
// one operation of a multi-operation round. Candidates that are no longer
// well-formed are rejected by Parse (RunImpl error = skipped).
func Shrink(input string) []string {
	n, err := sx.Parse(input)
	if err != nil || n.Len() != 3 {
		return nil
	}
	rounds := n.At(2).List
	var out []string
	mk := func(rs []*sx.Node) {
		if len(rs) == 0 {
			return
		}
		s := sx.L(n.At(0), n.At(1), sx.L(rs...)).String()
		if _, err := Parse(s); err == nil {
			out = append(out, s)
		}
	}
	if len(rounds) > 1 {
		mk(rounds[:len(rounds)-1])
	}
	for i := range rounds {
		mk(append(append([]*sx.Node{}, rounds[:i]...), rounds[i+1:]...))
	}
	for i, rd := range rounds {
		if rd.Len() < 2 {
			continue
		}
		for j := range rd.List {
			nr := sx.L(append(append([]*sx.Node{}, rd.List[:j]...), rd.List[j+1:]...)...)
			rs := append(append(append([]*sx.Node{}, rounds[:i]...), nr), rounds[i+1:]...)
			mk(rs)
		}
	}
	return out
}

// OverlapTags reads the `(nd … OV)` results off an observation: one tag per newd operation saying whether the
// destroy provably waited behind a transition of the creation (overlap-real:<transition>) or was not delayed
// (overlap-sequential).
func OverlapTags(input, obs string) []string {
	n, err := sx.Parse(obs)
	if err != nil {
		return nil
	}
	var out []string
	for _, rd := range n.List {
		if rd.Len() < 1 {
			continue
		}
		for _, res := range rd.At(0).List {
			if res.Len() == 4 && res.At(0).Str() == "nd" {
				if ov := res.At(3).Str(); ov == "-" {
					out = append(out, "overlap-sequential")
				} else {
					out = append(out, "overlap-real:"+ov)
				}
			}
		}
	}
	return out
}

// Describe is used in tags.
func Describe(input string) string {
	e, r, o, _, _ := Shape(input)
	return fmt.Sprintf("envs=%d rounds=%d ops=%d", e, r, o)
}

var _ = strings.Join
