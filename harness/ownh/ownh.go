// Package ownh is the shared scenario engine of the ownership properties C04
// and C06: it runs one multi-environment scenario on the REAL core (whole-core
// simulator, one core child process per scenario) and returns a canonical
// observation for the Lean model `ControlModel.Model.Own`.
//
// Input (S-expression):
//
//	(REUSE (ENV*) (ROUND*))
//	REUSE := 0|1                                   core flag reuseUnlockedTasks
//	ENV   := (BAD (FLP*) (ROLE*))                  BAD := ok|nowf|noclass ; FLP := host number 1..4 (var `hosts`, decides the detectors)
//	ROLE  := (T CLS HOST LAUNCH CFG TR KILL)       a direct-control task of class c<CLS> pinned to host h<HOST> (9 = no such host)
//	       | (H CLS HOST W AFTER LAUNCH HOOK)      a basic task used as DESTROY (AFTER=1: after_DESTROY) hook at weight W
//	       | (P)                                   a call started at before_CONFIGURE and awaited at a trigger that never comes
//	LAUNCH := ok|die|slow|nohost   CFG := ok|stay|err   TR := ok|<EV>:stay|<EV>:err   KILL := ok|failed|delay|refuse   HOOK := ok|fail
//	                                               LAUNCH nohost: while the environment is being created the master's OFFER for the role's host carries
//	                                               NO HOSTNAME (mesos.Offer.Hostname is a plain string: it arrives empty; ids, attributes, resources as
//	                                               ever). The core places on machine_id and resources, so every task of the environment placed on that
//	                                               host is launched and comes up like any other — but its task record lacks the hostname and it cannot
//	                                               be locked (Task.isLocked): acquireTasks declares the deployment failed in its own tail, after
//	                                               EVERYTHING was launched. Not with REUSE; the creation is the only one of its round.
//	                                               KILL refuse: the master answers the FIRST KILL call that names a task of the class with an error
//	                                               (HTTP 503, a transient scheduler-API fault): the call fails at the core, the task keeps running, no
//	                                               KILL is counted for it. (mesos-go drops the subscription after any failed call: the KILL calls that
//	                                               follow in the same loop fail at the client until the controller has re-subscribed.)
//	ROUND := (OP+)                                 the operations of a round are issued concurrently; a round ends when all returned
//	OP    := (new K) | (ctl K EV) | (destroy K FORCE ALLOWRUNNING KEEP) | (cleanup) | (killenv K) | (rel K)
//	       | (newd K FORCE ALLOWRUNNING KEEP)      NewEnvironment K and, WHILE its deployment is in flight, DestroyEnvironment on it: the
//	                                               launch reaction of K's first task role is held at gate D<K> (a `slow` one stays at its gate
//	                                               L<K>: the deployment is open until its timeout); the harness learns the id from
//	                                               GetEnvironments (the environment is listed from the moment CreateEnvironment entered it in
//	                                               the map), issues the destroy once the listing shows a transition in progress, waits until the
//	                                               core has logged that the teardown waits behind that transition (or a call returned), and only
//	                                               then opens the gate. At most one creation per round that has a newd.
//	       | (xfail K J UPD) | (afail K J UPD)     the executor / the agent of the task launched for role J of environment K fails
//	                                               (Mesos FAILURE event; UPD=1: preceded by the terminal status updates of its tasks).
//	                                               In the round of `(new K)` (after it, once at most): the failure hits while the creation
//	                                               is inside CONFIGURE — the harness holds the CONFIGURE reaction of another task role
//	                                               of K (one scripted to fail, else the first) on another host until the failure is noted
//	       | (idle MS)                             the harness lets MS milliseconds pass (≤ 5000); nothing is concluded from it. (The core's scheduler
//	                                               controller re-subscribes at once after a dropped subscription only if its registration back-off
//	                                               token — one per second — is unspent: what happens after a failed Mesos call depends on how long
//	                                               the core has been connected.)
//	       | (upd K J STATE OMIT SRC)              the master sends the core ONE status update about the task launched for role J of environment K
//	                                               (the latest launch that has not ended and is in the core's roster; else nothing is sent):
//	                                               STATE := RUNNING | STARTING (a state updateTaskStatus has no case for), OMIT := none|exec|agent|both
//	                                               = which of the OPTIONAL fields executor_id / agent_id the update lacks (updates of the AliECS
//	                                               executor carry both, an update built by the master need not), SRC := recon (a reconciliation
//	                                               answer the master volunteers: SOURCE_MASTER, REASON_RECONCILIATION, no UUID) | plain (an ordinary
//	                                               update it relays: SOURCE_EXECUTOR, UUID). Returns when the core has handled it (positive evidence:
//	                                               the task event updateTaskStatus publishes last). Not in the round that creates K.
//	EV    := START | STOP | CONFIGURE | RESET
//
// Host h1,h2 belong to detector ITS, h3 to TPC, h4 to TST. Environment K is
// created at most once per scenario (by `(new K)`).
//
// Observation:
//
//	(ROUNDOBS*)
//	ROUNDOBS := ((RES*) SNAP (HK*))
//	RES  := (ok STATE) | (ok) | (ok N) | (err CLASS) | (hang) | (crash)
//	      | (nd RES RES OV)                        newd: the creation's answer, the destroy's answer, and OV = the transition the core logged
//	                                               the teardown to be waiting behind (DEPLOY, CONFIGURE, …: the destroy provably overlapped the
//	                                               creation) or `-` (the destroy was not delayed: a sequential case; nothing is concluded from timing)
//	      | (lost K*)                              xfail / afail: the environments whose watcher reacted ("one of the critical tasks went
//	                                               into ERROR state": GO_ERROR, STOP of the tasks still RUNNING), ascending
//	SNAP := crashed | wedged | ((ENVOBS*) (ROSTER*) (DET*) (MT*) (CALL*))
//	                                               wedged: a call did not return, the core no longer answers GetEnvironment(s), and its goroutine
//	                                               dump (SIGQUIT: the scenario ends here) shows the environment manager's mutex deadlocked —
//	                                               a TeardownEnvironment inside `envs.environment()` waiting for a read lock it already holds
//	                                               while another goroutine of the environment manager waits for the write lock
//	ENVOBS := (K STATE (DET*) (TN*))               listed environments: state, included detectors, referenced tasks
//	ROSTER := (TN OWNER LOCKED STATE)              GetTasks + GetTask: owner = environment index or "-", role state or "-"
//	MT   := (TN MSTATE KILLED)                     master's task table: staging|running|terminal, 1 iff a KILL call named it
//	CALL := (K STARTED CANCELLED)                  pending-call goroutines started / cancelled (core debug log)
//	HK   := (K J NLOCKED)                          while the hook task J of K held its TriggerHook: number of K's non-hook tasks still locked
//
// Task names TN are `K.J` (role J of the environment whose label the task was
// launched with), `K.J#n` for the n-th extra launch of the same role.
// A scenario ends after the round in which a call was seen to hang.
package ownh

import (
	"context"
	"encoding/json"
	"fmt"
	"os"
	"os/exec"
	"sort"
	"strings"
	"sync"
	"time"

	pb "github.com/AliceO2Group/Control/core/protos"
	mesos "github.com/mesos/mesos-go/api/v1/lib"
	"google.golang.org/grpc/codes"
	"google.golang.org/grpc/status"

	"verifharness/sim"
	"verifharness/sx"
)

// Ceiling is the harness deadline of any single wait / RPC. Reaching it makes
// the case INCONCLUSIVE, never a verdict.
const Ceiling = 30 * time.Second

// DeployTimeout is the `deploy_timeout` given to the core (its default is 90 s).
// A workflow with a role pinned to a host that does not exist gets 5 s, so that
// acquireTasks' three attempts (1 s apart) end before the deployment is given up.
const DeployTimeout = "2500ms"

// HangAfter: a NewEnvironment / DestroyEnvironment call that has not returned
// after this long (a normal one takes 0.05 … 5 s here) is examined: if the core
// itself shows the signature of its known wedge (the environment sits in
// transition DESTROY for ever) the result is recorded as `(hang)`; otherwise the
// case is inconclusive.
const HangAfter = 12 * time.Second

type Role struct {
	Kind   string // T H P
	Cls    int
	Host   int
	Launch string
	Cfg    string
	Tr     string
	Kill   string
	Weight int
	After  bool
	Hook   string
}

type Env struct {
	Bad   string
	Flps  []int
	Roles []Role
}

type Op struct {
	Kind  string
	K     int
	Ev    string
	Force bool
	Allow bool
	Keep  bool
	J     int  // xfail / afail / upd: role index
	Upd   bool // xfail / afail: with the terminal status updates
	State string         // upd: RUNNING | STARTING
	Omit  sim.StatusOmit // upd: the optional fields the update lacks
	Recon bool           // upd: sent as a reconciliation answer (else as an ordinary update)
}

type Scenario struct {
	Reuse  bool
	Envs   []Env
	Rounds [][]Op
	// CfgHold: environment -> task role whose CONFIGURE reaction is held at gate C<K> until the loss
	// operation issued in the round of the creation has been noted by the core.
	CfgHold map[int]int
	// During: environment created by a `newd` -> the task / hook role whose launch reaction is held (gate D<K>, or its own
	// gate L<K> if it is a `slow` one) while the destroy is issued.
	During map[int]int
}

func Parse(input string) (*Scenario, error) {
	n, err := sx.Parse(input)
	if err != nil {
		return nil, err
	}
	if n.Len() != 3 {
		return nil, fmt.Errorf("scenario needs 3 fields")
	}
	sc := &Scenario{Reuse: n.At(0).Bool(), CfgHold: map[int]int{}, During: map[int]int{}}
	for _, e := range n.At(1).List {
		if e.Len() != 3 {
			return nil, fmt.Errorf("bad env %s", e)
		}
		env := Env{Bad: e.At(0).Str()}
		for _, f := range e.At(1).List {
			env.Flps = append(env.Flps, f.Int())
		}
		for _, r := range e.At(2).List {
			switch r.At(0).Str() {
			case "T":
				if r.Len() != 7 {
					return nil, fmt.Errorf("bad role %s", r)
				}
				env.Roles = append(env.Roles, Role{Kind: "T", Cls: r.At(1).Int(), Host: r.At(2).Int(), Launch: r.At(3).Str(),
					Cfg: r.At(4).Str(), Tr: r.At(5).Str(), Kill: r.At(6).Str()})
			case "H":
				if r.Len() != 7 {
					return nil, fmt.Errorf("bad role %s", r)
				}
				env.Roles = append(env.Roles, Role{Kind: "H", Cls: r.At(1).Int(), Host: r.At(2).Int(), Weight: r.At(3).Int(),
					After: r.At(4).Bool(), Launch: r.At(5).Str(), Hook: r.At(6).Str(), Cfg: "ok", Tr: "ok", Kill: "ok"})
			case "P":
				env.Roles = append(env.Roles, Role{Kind: "P"})
			default:
				return nil, fmt.Errorf("bad role %s", r)
			}
		}
		if env.NoHostname() && sc.Reuse {
			return nil, fmt.Errorf("env %s: an offer without hostname is not scripted together with reuseUnlockedTasks", e)
		}
		sc.Envs = append(sc.Envs, env)
	}
	created := map[int]bool{}
	for _, rd := range n.At(2).List {
		var ops []Op
		newHere := map[int]bool{}
		for _, o := range rd.List {
			op := Op{Kind: o.At(0).Str()}
			switch op.Kind {
			case "new", "killenv", "rel":
				op.K = o.At(1).Int()
			case "ctl":
				op.K, op.Ev = o.At(1).Int(), o.At(2).Str()
			case "destroy", "newd":
				if o.Len() != 5 {
					return nil, fmt.Errorf("bad op %s", o)
				}
				op.K, op.Force, op.Allow, op.Keep = o.At(1).Int(), o.At(2).Bool(), o.At(3).Bool(), o.At(4).Bool()
			case "xfail", "afail":
				if o.Len() != 4 {
					return nil, fmt.Errorf("bad op %s", o)
				}
				op.K, op.J, op.Upd = o.At(1).Int(), o.At(2).Int(), o.At(3).Bool()
				if op.K >= 0 && op.K < len(sc.Envs) && (op.J < 0 || op.J >= len(sc.Envs[op.K].Roles) || sc.Envs[op.K].Roles[op.J].Kind == "P") {
					return nil, fmt.Errorf("op %s names no task role", o)
				}
			case "upd":
				if o.Len() != 6 {
					return nil, fmt.Errorf("bad op %s", o)
				}
				op.K, op.J, op.State = o.At(1).Int(), o.At(2).Int(), o.At(3).Str()
				om, ok := sim.ParseStatusOmit(o.At(4).Str())
				if !ok || (op.State != "RUNNING" && op.State != "STARTING") || (o.At(5).Str() != "recon" && o.At(5).Str() != "plain") {
					return nil, fmt.Errorf("bad op %s", o)
				}
				op.Omit, op.Recon = om, o.At(5).Str() == "recon"
				if op.K >= 0 && op.K < len(sc.Envs) && (op.J < 0 || op.J >= len(sc.Envs[op.K].Roles) || sc.Envs[op.K].Roles[op.J].Kind == "P") {
					return nil, fmt.Errorf("op %s names no task role", o)
				}
			case "cleanup":
			case "idle":
				if o.Len() != 2 || o.At(1).Int() < 0 || o.At(1).Int() > 5000 {
					return nil, fmt.Errorf("bad op %s", o)
				}
				op.J = o.At(1).Int()
			default:
				return nil, fmt.Errorf("bad op %s", o)
			}
			if op.Kind != "cleanup" && op.Kind != "idle" && (op.K < 0 || op.K >= len(sc.Envs)) {
				return nil, fmt.Errorf("op %s names no environment", o)
			}
			if op.Kind == "new" || op.Kind == "newd" {
				if created[op.K] {
					return nil, fmt.Errorf("environment %d created twice", op.K)
				}
				created[op.K] = true
				newHere[op.K] = true
				if op.Kind == "newd" {
					hold := -1
					for i, ro := range sc.Envs[op.K].Roles {
						if ro.Kind != "P" {
							hold = i
							break
						}
					}
					if hold < 0 {
						return nil, fmt.Errorf("op %s: no task role whose launch could hold the deployment open", o)
					}
					sc.During[op.K] = hold
				}
			} else if (op.Kind == "xfail" || op.Kind == "afail") && newHere[op.K] {
				// the loss hits the creation inside CONFIGURE: another task role on another host holds the configuration
				if _, dup := sc.CfgHold[op.K]; dup {
					return nil, fmt.Errorf("op %s: one loss per creation round", o)
				}
				if _, d := sc.During[op.K]; d {
					return nil, fmt.Errorf("op %s: no loss inside a creation that is destroyed in flight", o)
				}
				roles := sc.Envs[op.K].Roles
				hold := -1
				for i, ro := range roles {
					if ro.Kind == "T" && i != op.J && ro.Host != roles[op.J].Host && (hold < 0 || (roles[hold].Cfg == "ok" && ro.Cfg != "ok")) {
						hold = i
					}
				}
				if hold < 0 {
					return nil, fmt.Errorf("op %s: no task role on another host to hold the configuration", o)
				}
				sc.CfgHold[op.K] = hold
			} else if op.Kind != "cleanup" && op.Kind != "idle" && op.Kind != "rel" && (!created[op.K] || newHere[op.K]) {
				return nil, fmt.Errorf("op %s on an environment not created in an earlier round", o)
			}
			ops = append(ops, op)
		}
		if len(ops) == 0 {
			return nil, fmt.Errorf("empty round")
		}
		nNew, nDuring := 0, 0
		for _, op := range ops {
			switch op.Kind {
			case "new":
				nNew++
			case "newd":
				nNew++
				nDuring++
			}
		}
		if nDuring > 0 && nNew > 1 {
			// the environment in creation is recognised as THE id the harness has not been told yet
			return nil, fmt.Errorf("a round with a newd has no other creation")
		}
		if nNew > 1 {
			for _, op := range ops {
				if (op.Kind == "new" || op.Kind == "newd") && sc.Envs[op.K].NoHostname() {
					// which creation an offer goes to is the core's business: the offers without hostname are the ones of THIS creation only if it is alone
					return nil, fmt.Errorf("the creation of an environment placed on an offer without hostname is the only creation of its round")
				}
			}
		}
		sc.Rounds = append(sc.Rounds, ops)
	}
	return sc, nil
}

var hostDet = map[int]string{1: "ITS", 2: "ITS", 3: "TPC", 4: "TST"}

// NoHostnameHosts: the hosts whose OFFER carries no hostname while this environment is created (LAUNCH nohost of a role placed there).
func (e Env) NoHostnameHosts() []int {
	var out []int
	seen := map[int]bool{}
	for _, ro := range e.Roles {
		if ro.Kind != "P" && ro.Launch == "nohost" && validHost(ro.Host) && !seen[ro.Host] {
			seen[ro.Host] = true
			out = append(out, ro.Host)
		}
	}
	return out
}

func (e Env) NoHostname() bool { return len(e.NoHostnameHosts()) > 0 }

func clsName(c int) string { return fmt.Sprintf("c%d", c) }

func taskClassYAML(name, mode string) string {
	return fmt.Sprintf("name: %s\ncontrol:\n  mode: %s\nwants:\n  cpu: 0.1\n  memory: 64\ncommand:\n  shell: true\n  value: \"sleep 100000\"\n", name, mode)
}

func validHost(h int) bool { return h >= 1 && h <= 4 }

func workflowYAML(k int, e Env) string {
	var b strings.Builder
	fmt.Fprintf(&b, "name: wf%d\n", k)
	for _, r := range e.Roles {
		if r.Kind != "P" && !validHost(r.Host) {
			fmt.Fprintf(&b, "defaults:\n  deploy_timeout: 5s\n")
			break
		}
	}
	fmt.Fprintf(&b, "roles:\n")
	for j, r := range e.Roles {
		switch r.Kind {
		case "T":
			fmt.Fprintf(&b, "  - name: \"r%d\"\n    constraints:\n      - attribute: machine_id\n        value: \"h%d\"\n    task:\n      load: %s\n", j, r.Host, clsName(r.Cls))
		case "H":
			trig := "DESTROY"
			if r.After {
				trig = "after_DESTROY"
			}
			fmt.Fprintf(&b, "  - name: \"r%d\"\n    constraints:\n      - attribute: machine_id\n        value: \"h%d\"\n    task:\n      load: %s\n      trigger: %s%+d\n      timeout: 30s\n      critical: false\n",
				j, r.Host, clsName(r.Cls), trig, r.Weight)
		case "P":
			fmt.Fprintf(&b, "  - name: \"r%d\"\n    call:\n      func: testplugin.Test()\n      trigger: before_CONFIGURE\n      await: after_RECOVER\n      timeout: 1s\n      critical: false\n", j)
		}
	}
	if e.Bad == "noclass" {
		fmt.Fprintf(&b, "  - name: \"rbad\"\n    task:\n      load: nosuchclass%d\n", k)
	}
	return b.String()
}

type runner struct {
	sc       *Scenario
	w        *sim.World
	mu       sync.Mutex
	ids      map[string]int // environment id -> index
	idOf     map[int]string
	hk       []*sx.Node
	hasCalls bool
	dumped   bool
	hung     bool
	watchErr error
	wedgeOne sync.Once
	wedged   bool
}

func ctx() (context.Context, context.CancelFunc) {
	return context.WithTimeout(context.Background(), Ceiling)
}

// rpcInfra maps a failed RPC that says nothing about the property (deadline of
// the harness) to an InfraError.
func rpcInfra(err error) error {
	if err == nil {
		return nil
	}
	st, ok := status.FromError(err)
	if !ok {
		return &sim.InfraError{What: "rpc", Err: err}
	}
	switch st.Code() {
	case codes.DeadlineExceeded, codes.Canceled:
		return &sim.InfraError{What: "harness deadline reached inside an RPC", Err: err}
	}
	return nil
}

// debugDump (OWNH_DEBUG=dir): SIGQUIT the core child and keep its stderr and log for diagnosis.
func (r *runner) debugDump() {
	dir := os.Getenv("OWNH_DEBUG")
	if dir == "" {
		return
	}
	r.mu.Lock()
	defer r.mu.Unlock()
	if r.dumped {
		return
	}
	r.dumped = true
	exec.Command("pkill", "-QUIT", "-f", "coreWorkingDir="+r.w.Dir()+"/").Run()
	time.Sleep(500 * time.Millisecond)
	os.MkdirAll(dir, 0o755)
	for _, f := range []string{"core.1.stderr", "core.1.log"} {
		b, _ := os.ReadFile(r.w.Dir() + "/" + f)
		os.WriteFile(fmt.Sprintf("%s/%d-%s", dir, os.Getpid(), f), b, 0o644)
	}
}

func crashed(err error) bool {
	st, ok := status.FromError(err)
	return ok && st.Code() == codes.Unavailable
}

// Run executes one scenario and returns the canonical observation.
func Run(input string) (string, error) {
	sc, err := Parse(input)
	if err != nil {
		return "", err
	}
	hasCalls := false
	for _, e := range sc.Envs {
		for _, r := range e.Roles {
			if r.Kind == "P" {
				hasCalls = true
			}
		}
	}
	flags := map[string]string{}
	if sc.Reuse {
		flags["reuseUnlockedTasks"] = "true"
	}
	if hasCalls {
		flags["integrationPlugins"] = "testplugin"
	}
	w, err := sim.Start(sim.Config{Name: "own", Verbose: hasCalls, CoreFlags: flags, Defaults: map[string]string{"deploy_timeout": DeployTimeout}})
	if err != nil {
		return "", err
	}
	defer w.Stop()
	defer func() {
		if dir := os.Getenv("OWNH_TRACE"); dir != "" {
			// diagnosis only: the master's call/event trace and the core's log of this scenario
			os.MkdirAll(dir, 0o755)
			var tb strings.Builder
			for _, rec := range w.Trace() {
				fmt.Fprintf(&tb, "%s %d %s %s tasks=%v http=%d state=%s delivered=%v %s\n", rec.When.Format("15:04:05.000"), rec.Seq, rec.Dir, rec.Type, rec.TaskIDs, rec.HTTP, rec.State, rec.Delivered, rec.MsgDetail)
			}
			os.WriteFile(fmt.Sprintf("%s/%d.trace", dir, os.Getpid()), []byte(tb.String()), 0o644)
			b, _ := os.ReadFile(w.CoreLog())
			os.WriteFile(fmt.Sprintf("%s/%d.corelog", dir, os.Getpid()), b, 0o644)
		}
	}()
	for h := 1; h <= 4; h++ {
		w.AddAgent(sim.AgentSpec{Host: fmt.Sprintf("h%d", h), Detector: hostDet[h]})
	}
	r := &runner{sc: sc, w: w, ids: map[string]int{}, idOf: map[int]string{}, hasCalls: hasCalls}
	seenCls := map[int]bool{}
	for k, e := range sc.Envs {
		for j, ro := range e.Roles {
			if ro.Kind == "P" {
				continue
			}
			mode := "direct"
			if ro.Kind == "H" {
				mode = "basic"
			}
			if !seenCls[ro.Cls] {
				seenCls[ro.Cls] = true
				if err = w.SetTaskClass(clsName(ro.Cls), taskClassYAML(clsName(ro.Cls), mode)); err != nil {
					return "", &sim.InfraError{What: "task class", Err: err}
				}
			}
			sel := sim.Selector{Class: clsName(ro.Cls)}
			switch ro.Launch {
			case "die":
				w.SetOutcome(sel, sim.EvLaunch, sim.Outcome{Kind: sim.Die})
			case "slow":
				w.SetOutcome(sel, sim.EvLaunch, sim.Outcome{Kind: sim.OK, Gate: fmt.Sprintf("L%d", k)})
			}
			if h, ok := sc.During[k]; ok && h == j {
				// the deployment of a `newd` stays open until the harness has issued the destroy
				switch ro.Launch {
				case "die":
					w.SetOutcome(sel, sim.EvLaunch, sim.Outcome{Kind: sim.Die, Gate: fmt.Sprintf("D%d", k)})
				case "slow":
				default:
					w.SetOutcome(sel, sim.EvLaunch, sim.Outcome{Kind: sim.OK, Gate: fmt.Sprintf("D%d", k)})
				}
			}
			cfgGate := ""
			if h, ok := sc.CfgHold[k]; ok && h == j {
				cfgGate = fmt.Sprintf("C%d", k)
			}
			switch ro.Cfg {
			case "stay":
				w.SetOutcome(sel, "CONFIGURE", sim.Outcome{Kind: sim.FailStay, Gate: cfgGate})
			case "err":
				w.SetOutcome(sel, "CONFIGURE", sim.Outcome{Kind: sim.FailError, Gate: cfgGate})
			default:
				if cfgGate != "" {
					w.SetOutcome(sel, "CONFIGURE", sim.Outcome{Kind: sim.OK, Gate: cfgGate})
				}
			}
			if i := strings.Index(ro.Tr, ":"); i > 0 {
				kind := sim.FailStay
				if ro.Tr[i+1:] == "err" {
					kind = sim.FailError
				}
				w.SetOutcome(sel, ro.Tr[:i], sim.Outcome{Kind: kind})
			}
			switch ro.Kill {
			case "failed":
				w.SetOutcome(sel, sim.EvKill, sim.Outcome{Kind: sim.OK, MesosState: mesos.TASK_FAILED})
			case "delay":
				w.SetOutcome(sel, sim.EvKill, sim.Outcome{Kind: sim.OK, Delay: 40 * time.Millisecond})
			case "refuse":
				w.SetOutcome(sel, sim.EvKill, sim.Outcome{Kind: sim.Undeliverable, Times: 1})
			}
			if ro.Kind == "H" {
				kind := sim.OK
				if ro.Hook == "fail" {
					kind = sim.FailStay
				}
				w.SetOutcome(sel, sim.EvHook, sim.Outcome{Kind: kind, Gate: fmt.Sprintf("H%d.%d", k, j)})
			}
		}
		if e.Bad != "nowf" {
			if err = w.SetWorkflow(fmt.Sprintf("wf%d", k), workflowYAML(k, e)); err != nil {
				return "", &sim.InfraError{What: "workflow", Err: err}
			}
		}
	}

	stop := make(chan struct{})
	defer close(stop)
	go r.watchHooks(stop)

	obs := sx.L()
	for _, round := range sc.Rounds {
		// a Mesos call that failed at the core (a refused KILL, say) makes its scheduler client drop the subscription; the
		// controller re-subscribes by itself (registration back-off: at most about a second). A round is issued to a core that
		// is connected (reaching the ceiling = inconclusive).
		if !w.Master.Subscribed() {
			if err := sim.Poll("core's scheduler subscribed again", Ceiling, func() (bool, error) { return w.Master.Subscribed() || !w.CoreAlive(), nil }); err != nil {
				return "", err
			}
		}
		res := make([]*sx.Node, len(round))
		errs := make([]error, len(round))
		var wg sync.WaitGroup
		for i, op := range round {
			wg.Add(1)
			go func(i int, op Op) {
				defer wg.Done()
				res[i], errs[i] = r.do(op)
			}(i, op)
		}
		wg.Wait()
		for _, e := range errs {
			if e != nil {
				return "", e
			}
		}
		ro := sx.L(sx.L(res...))
		r.mu.Lock()
		wedged := r.wedged
		r.mu.Unlock()
		if wedged {
			ro.Add(sx.A("wedged"), sx.L())
			obs.Add(ro)
			break
		}
		if !w.CoreAlive() {
			keepCrashStderr(w)
			if dir := os.Getenv("OWNH_DEBUG"); dir != "" {
				os.MkdirAll(dir, 0o755)
				b, _ := os.ReadFile(w.Dir() + "/core.1.stderr")
				os.WriteFile(fmt.Sprintf("%s/crash-%d-%d.stderr", dir, os.Getpid(), time.Now().UnixNano()), b, 0o644)
			}
			ro.Add(sx.A("crashed"), sx.L())
			obs.Add(ro)
			break
		}
		snap, err := r.settledSnapshot()
		if err != nil {
			return "", err
		}
		r.mu.Lock()
		hk := sx.L(r.hk...)
		r.hk = nil
		hung := r.hung
		werr := r.watchErr
		r.mu.Unlock()
		if werr != nil {
			return "", werr
		}
		sortNodes(hk)
		ro.Add(snap, hk)
		obs.Add(ro)
		if hung {
			break // the environment's transition mutex / deployMu is held for ever: nothing more to learn
		}
	}
	return obs.String(), nil
}

func envIDFromError(err error) string {
	if st, ok := status.FromError(err); ok {
		for _, d := range st.Details() {
			if ei, ok := d.(*pb.EnvironmentInfo); ok {
				return ei.GetId()
			}
		}
	}
	return ""
}

func classifyNewErr(msg string) string {
	switch {
	case strings.Contains(msg, "cannot get newly created environment"):
		// CreateEnvironment succeeded and the environment was gone when the reply was put together
		return "gone"
	case strings.Contains(msg, "public info parsing failed"), strings.Contains(msg, "cannot load workflow template"):
		return "load"
	case strings.Contains(msg, "is already in use"):
		return "detector"
	case strings.Contains(msg, "deployment"), strings.Contains(msg, "undeployable"):
		return "deploy"
	}
	// what is left is the CONFIGURE transition (the text is the task's own error for a single target,
	// "CONFIGURE could not complete …" for several)
	return "configure"
}

// scriptedFailure: the creation is scripted to fail after the environment was entered in the map
// (deployment or configuration), i.e. its failure path with the forced teardown is expected to run.
func scriptedFailure(e Env) bool {
	if scriptedDeployFailure(e) {
		return true
	}
	for _, ro := range e.Roles {
		if ro.Kind != "P" && ro.Cfg != "ok" {
			return true
		}
	}
	return false
}

func scriptedDeployFailure(e Env) bool {
	for _, ro := range e.Roles {
		if ro.Kind != "P" && (ro.Launch != "ok" || !validHost(ro.Host)) {
			return true
		}
	}
	return false
}

func (r *runner) envID(k int) string {
	r.mu.Lock()
	defer r.mu.Unlock()
	return r.idOf[k]
}

func (r *runner) do(op Op) (*sx.Node, error) {
	c, cancel := ctx()
	defer cancel()
	cl := r.w.Client()
	fail := func(err error, class string) (*sx.Node, error) {
		if ie := rpcInfra(err); ie != nil {
			r.debugDump()
			return nil, &sim.InfraError{What: fmt.Sprintf("op %+v", op), Err: ie}
		}
		if crashed(err) {
			// give the child a moment to be reaped so that CoreAlive is accurate
			_ = sim.Poll("core exit", 5*time.Second, func() (bool, error) { return !r.w.CoreAlive(), nil })
			if !r.w.CoreAlive() {
				return sx.L(sx.A("crash")), nil
			}
			return nil, &sim.InfraError{What: "rpc unavailable while the core is alive", Err: err}
		}
		return sx.L(sx.A("err"), sx.A(class)), nil
	}
	switch op.Kind {
	case "new":
		e := r.sc.Envs[op.K]
		hosts := make([]string, len(e.Flps))
		for i, f := range e.Flps {
			hosts[i] = fmt.Sprintf("\"h%d\"", f)
		}
		type reply struct {
			rep *pb.NewEnvironmentReply
			err error
		}
		// LAUNCH nohost: the offers for these hosts carry no hostname from now until the creation has returned (it is the only
		// creation of its round; the core asks for offers — REVIVE — inside acquireTasks)
		for _, h := range e.NoHostnameHosts() {
			r.w.Master.BlankOfferHostname(fmt.Sprintf("h%d", h), true)
			defer r.w.Master.BlankOfferHostname(fmt.Sprintf("h%d", h), false)
		}
		ch := make(chan reply, 1)
		go func() {
			rep, err := cl.NewEnvironment(c, &pb.NewEnvironmentRequest{WorkflowTemplate: fmt.Sprintf("wf%d", op.K),
				Vars: map[string]string{"hosts": "[" + strings.Join(hosts, ",") + "]"}})
			ch <- reply{rep, err}
		}()
		var rp reply
		select {
		case rp = <-ch:
		case <-time.After(HangAfter):
			return r.diagnoseNewHang(op)
		}
		id := rp.rep.GetEnvironment().GetId()
		if rp.err != nil {
			id = envIDFromError(rp.err)
		}
		if id != "" {
			r.mu.Lock()
			r.ids[id] = op.K
			r.idOf[op.K] = id
			r.mu.Unlock()
		}
		if rp.err != nil {
			class := classifyNewErr(rp.err.Error())
			if class == "deploy" && !scriptedDeployFailure(e) && !(r.sc.Reuse && r.claimedFor(id)) {
				// resourceOffers notifies acquireTasks with a non-blocking send; the simulated master answers
				// REVIVE within microseconds, so now and then (~1/250 creations) the outcome is dropped before
				// acquireTasks listens, the deployment times out and deployMu stays taken. A real master offers
				// later. Outside the anchors of C04/C06: the scenario is not judged.
				// (With reuseUnlockedTasks a creation for which acquireTasks logged a claim times out for a reason
				// of the core's own — the claimed task's role never becomes ACTIVE — and IS judged.)
				return nil, &sim.InfraError{What: fmt.Sprintf("op %+v: deployment timed out with nothing scripted to fail (resourceOffers outcome dropped)", op)}
			}
			return fail(rp.err, class)
		}
		return sx.L(sx.A("ok"), sx.A(rp.rep.GetEnvironment().GetState())), nil
	case "ctl":
		typ := map[string]pb.ControlEnvironmentRequest_Optype{"START": pb.ControlEnvironmentRequest_START_ACTIVITY,
			"STOP": pb.ControlEnvironmentRequest_STOP_ACTIVITY, "CONFIGURE": pb.ControlEnvironmentRequest_CONFIGURE,
			"RESET": pb.ControlEnvironmentRequest_RESET}[op.Ev]
		rep, err := cl.ControlEnvironment(c, &pb.ControlEnvironmentRequest{Id: r.envID(op.K), Type: typ})
		if err != nil {
			if st, ok := status.FromError(err); ok && (st.Code() == codes.NotFound || st.Code() == codes.InvalidArgument) {
				return fail(err, "notfound")
			}
			return fail(err, "failed")
		}
		return sx.L(sx.A("ok"), sx.A(rep.GetState())), nil
	case "destroy":
		id := r.envID(op.K)
		done := make(chan error, 1)
		go func() {
			_, err := cl.DestroyEnvironment(c, &pb.DestroyEnvironmentRequest{Id: id, Force: op.Force, AllowInRunningState: op.Allow, KeepTasks: op.Keep})
			done <- err
		}()
		var err error
		select {
		case err = <-done:
		case <-time.After(HangAfter):
			return r.diagnoseDestroyHang(op, id)
		}
		if err != nil {
			msg := err.Error()
			st, _ := status.FromError(err)
			switch {
			case st != nil && (st.Code() == codes.NotFound || st.Code() == codes.InvalidArgument):
				return fail(err, "notfound")
			case strings.Contains(msg, "already in DONE"), strings.Contains(msg, "no environment with id"):
				return fail(err, "notfound")
			}
			return fail(err, "failed")
		}
		return sx.L(sx.A("ok")), nil
	case "cleanup", "killenv":
		req := &pb.CleanupTasksRequest{}
		if op.Kind == "killenv" {
			ids := r.envTaskIDs(op.K)
			if len(ids) == 0 {
				// an empty id list means "everything" to the core; name a task id that cannot exist instead
				ids = []string{"no-such-task"}
			}
			req.TaskIds = ids
		}
		rep, err := cl.CleanupTasks(c, req)
		if err != nil {
			return fail(err, "cleanup")
		}
		return sx.L(sx.A("ok"), sx.I(len(rep.GetKilledTasks()))), nil
	case "rel":
		r.w.Release(fmt.Sprintf("L%d", op.K))
		return sx.L(sx.A("ok")), nil
	case "idle":
		time.Sleep(time.Duration(op.J) * time.Millisecond)
		return sx.L(sx.A("ok")), nil
	case "xfail", "afail":
		return r.lose(op)
	case "upd":
		return r.statusUpd(op)
	case "newd":
		return r.newDuring(op)
	}
	return nil, fmt.Errorf("bad op")
}

// claimLine is what acquireTasks logs for every descriptor it satisfies with a roster task (reuseUnlockedTasks).
const claimLine = "claiming existing unlocked task for incoming descriptor"

// claimedFor: did acquireTasks claim a task for the environment with this id?
func (r *runner) claimedFor(id string) bool {
	if id == "" {
		return false
	}
	b, _ := os.ReadFile(r.w.CoreLog())
	for _, l := range strings.Split(string(b), "\n") {
		if strings.Contains(l, claimLine) && strings.Contains(l, "partition="+id) {
			return true
		}
	}
	return false
}

// watcherLine is what Environment.subscribeToWfState logs when the workflow of a
// successfully created environment reports ERROR for the first time (0.5 s later it
// sends GO_ERROR and STOPs the tasks that are still RUNNING).
const watcherLine = "one of the critical tasks went into ERROR state"

// watcherFired counts those lines per environment id in the core's log.
func (r *runner) watcherFired() map[string]int {
	out := map[string]int{}
	b, _ := os.ReadFile(r.w.CoreLog())
	for _, l := range strings.Split(string(b), "\n") {
		if !strings.Contains(l, watcherLine) {
			continue
		}
		i := strings.Index(l, "partition=")
		if i < 0 {
			continue
		}
		id := l[i+len("partition="):]
		if j := strings.IndexAny(id, " \t"); j >= 0 {
			id = id[:j]
		}
		out[strings.Trim(id, "\"")]++
	}
	return out
}

// lose: the executor (xfail) or the agent (afail) of the latest launch for role J
// of environment K that has not ended fails: FAILURE event, with Upd preceded by the
// terminal status updates of every task it ran. The core runs one executor per
// agent, so either way every task on that host is hit. Nothing is injected if
// there is no such task. The call returns when the core has taken note (every
// task it held locked on that executor / agent is reported unlocked) and — for every
// listed environment with a critical task among them whose workflow was not in
// ERROR before — when its watcher has reacted and the environment shows ERROR.
// Whether a watcher reacts is decided by the core; an expected reaction that does
// not come within the ceiling makes the case inconclusive.
func (r *runner) lose(op Op) (*sx.Node, error) {
	infra := func(what string, err error) (*sx.Node, error) {
		return nil, &sim.InfraError{What: fmt.Sprintf("op %+v: %s", op, what), Err: err}
	}
	inCreation := ""
	if r.envID(op.K) == "" {
		if _, ok := r.sc.CfgHold[op.K]; !ok {
			return sx.L(sx.A("lost")), nil // never created
		}
		// the creation is in flight in this round: wait until it is parked inside CONFIGURE and learn its id
		gate := fmt.Sprintf("C%d", op.K)
		if err := sim.Poll("creation parked at its CONFIGURE gate", Ceiling, func() (bool, error) { return r.w.Master.Held(gate) > 0, nil }); err != nil {
			r.w.Release(gate)
			return nil, err
		}
		defer r.w.Release(gate)
		c, cancel := ctx()
		er, err := r.w.Client().GetEnvironments(c, &pb.GetEnvironmentsRequest{ShowAll: true})
		cancel()
		if err != nil {
			return infra("GetEnvironments during a creation", err)
		}
		r.mu.Lock()
		var unknown []string
		for _, e := range er.GetEnvironments() {
			if _, ok := r.ids[e.GetId()]; !ok {
				unknown = append(unknown, e.GetId())
			}
		}
		if len(unknown) == 1 {
			r.ids[unknown[0]] = op.K
			r.idOf[op.K] = unknown[0]
			inCreation = unknown[0]
		}
		r.mu.Unlock()
		if inCreation == "" {
			return infra(fmt.Sprintf("%d unnamed environments listed during the creation", len(unknown)), nil)
		}
	}
	names := r.names()
	var vic *sim.TaskRecord
	for _, t := range r.w.Tasks() {
		if n, ok := names[t.TaskID]; ok && n.k == op.K && n.j == op.J && !t.Terminal {
			tt := t
			vic = &tt
		}
	}
	if vic == nil {
		return sx.L(sx.A("lost")), nil
	}
	c, cancel := ctx()
	defer cancel()
	cl := r.w.Client()
	hit := func(t *pb.ShortTaskInfo) bool {
		di := t.GetDeploymentInfo()
		if op.Kind == "xfail" {
			return di.GetAgentId() == vic.AgentID && di.GetExecutorId() == vic.ExecutorID
		}
		return di.GetAgentId() == vic.AgentID
	}
	tr, err := cl.GetTasks(c, &pb.GetTasksRequest{})
	if err != nil {
		return infra("GetTasks", err)
	}
	locked := map[string]bool{}
	expect := map[string]bool{} // environment ids whose watcher is expected to react
	for _, t := range tr.GetTasks() {
		if !hit(t) || !t.GetLocked() {
			continue
		}
		locked[t.GetTaskId()] = true
		if !t.GetCritical() {
			continue
		}
		g, err := cl.GetTask(c, &pb.GetTaskRequest{TaskId: t.GetTaskId()})
		if err != nil {
			return infra("GetTask", err)
		}
		eid := g.GetTask().GetEnvId()
		if eid == "" || expect[eid] || eid == inCreation { // a creation has not subscribed its watcher yet
			continue
		}
		ge, err := cl.GetEnvironment(c, &pb.GetEnvironmentRequest{Id: eid, ShowWorkflowTree: true})
		if err != nil {
			continue // not listed (any more): nobody watches
		}
		if ge.GetWorkflow().GetState() != "ERROR" && ge.GetEnvironment().GetCurrentTransition() == "" {
			expect[eid] = true
		}
	}
	before := r.watcherFired()
	if op.Kind == "xfail" {
		r.w.Master.InjectExecutorFailure(vic.AgentID, vic.ExecutorID, 9, op.Upd)
	} else {
		r.w.Master.InjectAgentFailure(vic.AgentID, op.Upd)
	}
	if err := sim.Poll("tasks of the failed executor/agent reported unlocked", Ceiling, func() (bool, error) {
		c, cancel := ctx()
		defer cancel()
		tr, err := cl.GetTasks(c, &pb.GetTasksRequest{})
		if err != nil {
			return false, &sim.InfraError{What: "GetTasks", Err: err}
		}
		for _, t := range tr.GetTasks() {
			if locked[t.GetTaskId()] && t.GetLocked() {
				return false, nil
			}
		}
		return true, nil
	}); err != nil {
		return nil, err
	}
	var ks []int
	for eid := range expect {
		eid := eid
		if err := sim.Poll("environment watcher reacts to the lost critical task", Ceiling, func() (bool, error) {
			if r.watcherFired()[eid] <= before[eid] {
				return false, nil
			}
			c, cancel := ctx()
			defer cancel()
			ge, err := cl.GetEnvironment(c, &pb.GetEnvironmentRequest{Id: eid})
			if err != nil {
				return true, nil // deleted meanwhile
			}
			return ge.GetEnvironment().GetState() == "ERROR", nil
		}); err != nil {
			return nil, err
		}
	}
	after := r.watcherFired()
	r.mu.Lock()
	for eid, n := range after {
		if k, ok := r.ids[eid]; ok && n > before[eid] {
			ks = append(ks, k)
		}
	}
	r.mu.Unlock()
	sort.Ints(ks)
	res := sx.L(sx.A("lost"))
	for _, k := range ks {
		res.Add(sx.I(k))
	}
	return res, nil
}

// taskEvents counts the task events the core has published for the task (updateTaskStatus ends with one, whatever the state).
func (r *runner) taskEvents(taskID string) int {
	n := 0
	for _, e := range r.w.CoreEvents() {
		if !strings.Contains(e.Type, "Ev_TaskEvent") {
			continue
		}
		var p struct {
			Taskid string `json:"taskid"`
		}
		if json.Unmarshal(e.Payload, &p) == nil && p.Taskid == taskID {
			n++
		}
	}
	return n
}

// statusUpd: the master sends one status update about the latest launch for role J of environment K that has not ended,
// with or without the optional identity fields (see the package comment). Nothing is sent if there is no such task or
// the core's roster does not hold it (an update about a task outside the roster is another story: dropped with a warning,
// or — labelled as a reconciliation answer — answered with a KILL). The call returns when the core has handled the update:
// updateTaskStatus publishes a task event as its last statement, after the fields of the task were written.
func (r *runner) statusUpd(op Op) (*sx.Node, error) {
	names := r.names()
	var vic *sim.TaskRecord
	for _, t := range r.w.Tasks() {
		if n, ok := names[t.TaskID]; ok && n.k == op.K && n.j == op.J && !t.Terminal {
			tt := t
			vic = &tt
		}
	}
	if vic == nil {
		return sx.L(sx.A("ok")), nil
	}
	c, cancel := ctx()
	defer cancel()
	tr, err := r.w.Client().GetTasks(c, &pb.GetTasksRequest{})
	if err != nil {
		return nil, &sim.InfraError{What: fmt.Sprintf("op %+v: GetTasks", op), Err: err}
	}
	known := false
	for _, t := range tr.GetTasks() {
		known = known || t.GetTaskId() == vic.TaskID
	}
	if !known {
		return sx.L(sx.A("ok")), nil
	}
	st := mesos.TASK_RUNNING
	if op.State == "STARTING" {
		st = mesos.TASK_STARTING
	}
	before := r.taskEvents(vic.TaskID)
	if err := r.w.Master.InjectTaskStatus(vic.TaskID, st, op.Recon, op.Omit, "upd "+op.Omit.String()); err != nil {
		return nil, &sim.InfraError{What: fmt.Sprintf("op %+v", op), Err: err}
	}
	if err := sim.Poll("the core has handled the status update (task event published)", Ceiling, func() (bool, error) {
		return r.taskEvents(vic.TaskID) > before || !r.w.CoreAlive(), nil
	}); err != nil {
		return nil, err
	}
	return sx.L(sx.A("ok")), nil
}

// envTaskIDs: ids of the tasks launched with the label of environment k (master's table).
func (r *runner) envTaskIDs(k int) []string {
	id := r.envID(k)
	var out []string
	for _, t := range r.w.Tasks() {
		if id != "" && t.EnvID == id {
			out = append(out, t.TaskID)
		}
	}
	return out
}

var errUnsettled = fmt.Errorf("unsettled")
var errHang = fmt.Errorf("call did not return")

// diagnoseDestroyHang: DestroyEnvironment did not return. It is recorded as a
// hang only if the core shows the environment still listed and inside
// transition DESTROY (TeardownEnvironment waits for a TasksReleasedEvent that
// was dropped); anything else is harness trouble.
func (r *runner) diagnoseDestroyHang(op Op, id string) (*sx.Node, error) {
	r.debugDump()
	c, cancel := context.WithTimeout(context.Background(), 10*time.Second)
	defer cancel()
	g, err := r.w.Client().GetEnvironment(c, &pb.GetEnvironmentRequest{Id: id})
	if err == nil && g.GetEnvironment().GetCurrentTransition() == "DESTROY" {
		r.mu.Lock()
		r.hung = true
		r.mu.Unlock()
		return sx.L(sx.A("hang")), nil
	}
	if err != nil && rpcInfra(err) != nil && r.managerWedged() {
		return sx.L(sx.A("hang")), nil
	}
	return nil, &sim.InfraError{What: fmt.Sprintf("op %+v did not return and the core does not show a teardown in progress (%v)", op, err)}
}

// diagnoseNewHang: NewEnvironment did not return. Known wedge: the failure
// path's forced teardown waits for ever (the creation is scripted to fail and an
// environment we have no id for is listed inside transition DESTROY). Anything
// else — e.g. an overloaded machine — is inconclusive.
func (r *runner) diagnoseNewHang(op Op) (*sx.Node, error) {
	r.debugDump()
	c, cancel := context.WithTimeout(context.Background(), 10*time.Second)
	defer cancel()
	er, err := r.w.Client().GetEnvironments(c, &pb.GetEnvironmentsRequest{ShowAll: true})
	if err != nil {
		if rpcInfra(err) != nil && r.managerWedged() {
			return sx.L(sx.A("hang")), nil
		}
		return nil, &sim.InfraError{What: "GetEnvironments after a creation that did not return", Err: err}
	}
	r.mu.Lock()
	defer r.mu.Unlock()
	var unknown []*pb.EnvironmentInfo
	for _, e := range er.GetEnvironments() {
		if _, ok := r.ids[e.GetId()]; !ok {
			unknown = append(unknown, e)
		}
	}
	switch {
	case len(unknown) == 1 && unknown[0].GetCurrentTransition() == "DESTROY" && scriptedFailure(r.sc.Envs[op.K]):
		r.ids[unknown[0].GetId()] = op.K
		r.idOf[op.K] = unknown[0].GetId()
		r.hung = true
		return sx.L(sx.A("hang")), nil
	}
	return nil, &sim.InfraError{What: fmt.Sprintf("op %+v did not return and the core shows no known wedge", op)}
}

// watchHooks runs for the whole scenario: whenever a hook task parks its
// TriggerHook reaction at its gate (a destroy, or the forced teardown of a failed
// creation, has reached its DESTROY hooks), it records how many non-hook tasks of
// that environment are still locked at that instant and releases the gate.
func (r *runner) watchHooks(stop chan struct{}) {
	type gate struct{ k, j int }
	var gates []gate
	for k, e := range r.sc.Envs {
		for j, ro := range e.Roles {
			if ro.Kind == "H" {
				gates = append(gates, gate{k, j})
			}
		}
	}
	if len(gates) == 0 {
		return
	}
	for {
		select {
		case <-stop:
			return
		default:
		}
		for _, g := range gates {
			name := fmt.Sprintf("H%d.%d", g.k, g.j)
			if r.w.Master.Held(name) > 0 {
				n, err := r.lockedNonHook(g.k)
				r.mu.Lock()
				if err != nil {
					r.watchErr = err
				} else {
					r.hk = append(r.hk, sx.L(sx.I(g.k), sx.I(g.j), sx.I(n)))
				}
				r.mu.Unlock()
				r.w.Release(name)
				// the gate stays open after Release: close it again for a later trigger by re-arming the outcome
				r.rearm(g.k, g.j)
			}
		}
		time.Sleep(2 * time.Millisecond)
	}
}

// rearm: a released gate lets later reactions through; each hook task is triggered
// at most once per environment life, so nothing needs to be re-armed.
func (r *runner) rearm(k, j int) {}

func (r *runner) lockedNonHook(k int) (int, error) {
	c, cancel := ctx()
	defer cancel()
	tr, err := r.w.Client().GetTasks(c, &pb.GetTasksRequest{})
	if err != nil {
		return 0, &sim.InfraError{What: "GetTasks at a hook gate", Err: err}
	}
	names := r.names()
	n := 0
	for _, t := range tr.GetTasks() {
		nm, ok := names[t.GetTaskId()]
		if !ok || nm.k != k || !t.GetLocked() {
			continue
		}
		if nm.j >= 0 && nm.j < len(r.sc.Envs[k].Roles) && r.sc.Envs[k].Roles[nm.j].Kind == "T" {
			n++
		}
	}
	return n, nil
}

type tname struct {
	k, j, n int
	s       string
}

// names maps task ids to canonical names, from the master's task table.
func (r *runner) names() map[string]tname {
	r.mu.Lock()
	ids := map[string]int{}
	for id, k := range r.ids {
		ids[id] = k
	}
	r.mu.Unlock()
	out := map[string]tname{}
	count := map[[2]int]int{}
	for _, t := range r.w.Tasks() {
		k, ok := ids[t.EnvID]
		if !ok {
			out[t.TaskID] = tname{k: -1, j: -1, s: "?" + t.Class}
			continue
		}
		j := -1
		for i, ro := range r.sc.Envs[k].Roles {
			if ro.Kind != "P" && clsName(ro.Cls) == t.Class {
				j = i
			}
		}
		n := count[[2]int{k, j}]
		count[[2]int{k, j}]++
		s := fmt.Sprintf("%d.%d", k, j)
		if n > 0 {
			s = fmt.Sprintf("%s#%d", s, n)
		}
		out[t.TaskID] = tname{k: k, j: j, n: n, s: s}
	}
	return out
}

func sortNodes(n *sx.Node) *sx.Node {
	sort.Slice(n.List, func(a, b int) bool { return n.List[a].String() < n.List[b].String() })
	return n
}

// snapshot reads the core's and the master's view once.
func (r *runner) snapshot() (*sx.Node, error) {
	c, cancel := ctx()
	defer cancel()
	cl := r.w.Client()
	infra := func(what string, err error) error { return &sim.InfraError{What: what, Err: err} }
	er, err := cl.GetEnvironments(c, &pb.GetEnvironmentsRequest{ShowAll: true, ShowTaskInfos: true})
	if err != nil {
		return nil, infra("GetEnvironments", err)
	}
	tr, err := cl.GetTasks(c, &pb.GetTasksRequest{})
	if err != nil {
		return nil, infra("GetTasks", err)
	}
	ad, err := cl.GetActiveDetectors(c, &pb.Empty{})
	if err != nil {
		return nil, infra("GetActiveDetectors", err)
	}
	names := r.names()
	r.mu.Lock()
	hung := r.hung
	ids := map[string]int{}
	for id, k := range r.ids {
		ids[id] = k
	}
	r.mu.Unlock()
	if !hung {
		for _, n := range names {
			if n.k < 0 {
				return nil, errUnsettled // a task labelled with an environment id we have not been told yet
			}
		}
	}
	nameOf := func(id string) string {
		if n, ok := names[id]; ok {
			return n.s
		}
		return "?"
	}
	envs := sx.L()
	for _, e := range er.GetEnvironments() {
		k, ok := ids[e.GetId()]
		if !ok {
			// an environment whose creation is still in flight (its id is not known yet) cannot be named: not settled
			return nil, errUnsettled
		}
		dets := append([]string(nil), e.GetIncludedDetectors()...)
		sort.Strings(dets)
		ts := sx.L()
		for _, t := range e.GetTasks() {
			ts.Add(sx.A(nameOf(t.GetTaskId())))
		}
		envs.Add(sx.L(sx.I(k), sx.A(e.GetState()), sx.Strs(dets), sortNodes(ts)))
	}
	sortNodes(envs)
	roster := sx.L()
	for _, t := range tr.GetTasks() {
		owner, state := "-", "-"
		g, err := cl.GetTask(c, &pb.GetTaskRequest{TaskId: t.GetTaskId()})
		if err != nil {
			if st, ok := status.FromError(err); ok && st.Code() == codes.NotFound {
				return nil, errUnsettled // removed between the two calls
			}
			return nil, infra("GetTask", err)
		}
		if eid := g.GetTask().GetEnvId(); eid != "" {
			if k, ok := ids[eid]; ok {
				owner = fmt.Sprint(k)
			} else {
				owner = "?"
			}
		}
		if t.GetLocked() {
			state = t.GetState()
		}
		roster.Add(sx.L(sx.A(nameOf(t.GetTaskId())), sx.A(owner), sx.B(t.GetLocked()), sx.A(state)))
	}
	sortNodes(roster)
	dets := append([]string(nil), ad.GetDetectors()...)
	sort.Strings(dets)
	mt := sx.L()
	for _, t := range r.w.Tasks() {
		ms := "running"
		switch {
		case t.Terminal:
			ms = "terminal"
		case t.MesosState == "TASK_STAGING" || t.MesosState == "TASK_STARTING":
			ms = "staging"
		}
		mt.Add(sx.L(sx.A(nameOf(t.TaskID)), sx.A(ms), sx.B(t.Kills > 0)))
	}
	sortNodes(mt)
	calls := sx.L()
	if r.hasCalls {
		started, cancelled := map[int]int{}, map[int]int{}
		b, _ := os.ReadFile(r.w.CoreLog())
		for _, l := range strings.Split(string(b), "\n") {
			i := strings.Index(l, "hook:before_CONFIGURE:wf")
			if i < 0 {
				continue
			}
			var k, j int
			var what string
			if _, err := fmt.Sscanf(l[i:], "hook:before_CONFIGURE:wf%d.r%d %s", &k, &j, &what); err != nil {
				continue
			}
			switch strings.Trim(what, "\"") {
			case "started":
				started[k]++
			case "cancelled":
				cancelled[k]++
			}
		}
		for k := range r.sc.Envs {
			if started[k] > 0 || cancelled[k] > 0 {
				calls.Add(sx.L(sx.I(k), sx.I(started[k]), sx.I(cancelled[k])))
			}
		}
	}
	return sx.L(envs, roster, sx.Strs(dets), mt, calls), nil
}

// settledSnapshot waits until every status update was acknowledged by the core
// and three consecutive snapshots 30 ms apart are equal.
func (r *runner) settledSnapshot() (*sx.Node, error) {
	deadline := time.Now().Add(Ceiling)
	var last string
	var lastN *sx.Node
	stable := 0
	for {
		if time.Now().After(deadline) {
			return nil, &sim.InfraError{What: "the world did not settle (snapshots keep changing)"}
		}
		if !r.acked() {
			time.Sleep(5 * time.Millisecond)
			stable, last = 0, ""
			continue
		}
		n, err := r.snapshot()
		if err == errUnsettled {
			time.Sleep(10 * time.Millisecond)
			stable, last = 0, ""
			continue
		}
		if err != nil {
			return nil, err
		}
		s := n.String()
		if s == last {
			stable++
			if stable >= 2 {
				return lastN, nil
			}
		} else {
			stable, last, lastN = 0, s, n
		}
		time.Sleep(30 * time.Millisecond)
	}
}

// acked: every delivered UPDATE carrying a UUID was acknowledged. (An acknowledgement that failed at the core —
// its scheduler client was disconnected, e.g. after a refused call — never reaches the master: the master sends the
// update again after the next SUBSCRIBE, so the counts of the trace no longer pair up; the master's own list of
// unacknowledged updates being empty says the same thing.)
func (r *runner) acked() bool {
	if r.w.Master.Unacked() == 0 {
		return true
	}
	ups, acks := 0, 0
	for _, rec := range r.w.Trace() {
		switch {
		case rec.Dir == "event" && rec.Type == "UPDATE" && rec.Delivered && rec.Reason != "REASON_RECONCILIATION":
			ups++
		case rec.Dir == "call" && rec.Type == "ACKNOWLEDGE":
			acks++
		}
	}
	return acks >= ups
}

// delayedLine is what TeardownEnvironment logs when it finds the environment's transition mutex taken:
// "environment teardown attempt delayed: transition 'DEPLOY' in progress. waiting for completion or failure".
const delayedLine = "environment teardown attempt delayed: transition '"

// teardownDelayedBehind: the transition the core logged a teardown of environment id to be waiting behind ("" if none was logged).
func (r *runner) teardownDelayedBehind(id string) string {
	if id == "" {
		return ""
	}
	b, _ := os.ReadFile(r.w.CoreLog())
	for _, l := range strings.Split(string(b), "\n") {
		i := strings.Index(l, delayedLine)
		if i < 0 || !strings.Contains(l, "partition="+id) {
			continue
		}
		rest := l[i+len(delayedLine):]
		if j := strings.Index(rest, "'"); j >= 0 {
			if rest[:j] == "" {
				return "?"
			}
			return rest[:j]
		}
	}
	return ""
}

// newDuring: NewEnvironment K and a DestroyEnvironment on it while its deployment is in flight.
// The launch reaction of one task role is held (gate D<K>; a `slow` role stays at L<K> and the
// deployment is open until its timeout). The environment is addressable from the moment
// CreateEnvironment entered it in the map: the harness learns its id from GetEnvironments (the one
// id it has not been told yet), waits until the listing shows a transition in progress, issues the
// destroy and waits until the core has logged that the teardown waits behind that transition — or
// until either call returned: nothing is concluded from timing, a destroy that was not delayed is
// recorded as such (OV = -) and is simply a sequential case. Then the gate is opened and both
// answers are collected.
func (r *runner) newDuring(op Op) (*sx.Node, error) {
	gate := fmt.Sprintf("D%d", op.K)
	defer r.w.Release(gate)
	type out struct {
		n   *sx.Node
		err error
	}
	newCh := make(chan out, 1)
	go func() {
		n, err := r.do(Op{Kind: "new", K: op.K})
		newCh <- out{n, err}
	}()
	var newRes *out
	newReturned := func() bool {
		if newRes != nil {
			return true
		}
		select {
		case o := <-newCh:
			newRes = &o
			return true
		default:
			return false
		}
	}
	cl := r.w.Client()
	id := ""
	deadline := time.Now().Add(Ceiling)
	for !newReturned() {
		if time.Now().After(deadline) {
			r.w.Release(gate)
			o := <-newCh
			if o.err != nil {
				return nil, o.err
			}
			return nil, &sim.InfraError{What: fmt.Sprintf("op %+v: the environment in creation was never listed inside a transition", op)}
		}
		c, cancel := ctx()
		er, err := cl.GetEnvironments(c, &pb.GetEnvironmentsRequest{ShowAll: true})
		cancel()
		if err != nil {
			if ie := rpcInfra(err); ie != nil || !crashed(err) {
				r.w.Release(gate)
				<-newCh
				return nil, &sim.InfraError{What: "GetEnvironments during a creation", Err: err}
			}
			time.Sleep(2 * time.Millisecond)
			continue
		}
		r.mu.Lock()
		var unknown []*pb.EnvironmentInfo
		for _, e := range er.GetEnvironments() {
			if k, ok := r.ids[e.GetId()]; !ok || k == op.K {
				unknown = append(unknown, e)
			}
		}
		if len(unknown) == 1 && unknown[0].GetCurrentTransition() != "" {
			id = unknown[0].GetId()
			r.ids[id] = op.K
			r.idOf[op.K] = id
		}
		r.mu.Unlock()
		if id != "" {
			break
		}
		time.Sleep(time.Millisecond)
	}
	if id == "" {
		id = r.envID(op.K) // the creation returned before it was seen in the listing (it may never have been entered)
	}
	if id == "" {
		// no id was ever handed out (cannot happen: every answer of NewEnvironment carries one)
		return nil, &sim.InfraError{What: fmt.Sprintf("op %+v: no environment id to destroy", op)}
	}
	dCh := make(chan out, 1)
	go func() {
		n, err := r.do(Op{Kind: "destroy", K: op.K, Force: op.Force, Allow: op.Allow, Keep: op.Keep})
		dCh <- out{n, err}
	}()
	var dRes *out
	deadline = time.Now().Add(Ceiling)
	for !newReturned() && dRes == nil && r.teardownDelayedBehind(id) == "" {
		select {
		case o := <-dCh:
			dRes = &o
		case <-time.After(time.Millisecond):
		}
		if time.Now().After(deadline) {
			break
		}
	}
	r.w.Release(gate)
	if newRes == nil {
		o := <-newCh
		newRes = &o
	}
	if dRes == nil {
		o := <-dCh
		dRes = &o
	}
	if newRes.err != nil {
		return nil, newRes.err
	}
	if dRes.err != nil {
		return nil, dRes.err
	}
	ov := r.teardownDelayedBehind(id)
	if ov == "" {
		ov = "-"
	}
	return sx.L(sx.A("nd"), newRes.n, dRes.n, sx.A(ov)), nil
}

// keepCrashStderr keeps the stderr of a core that died by itself (diagnosis of rare crashes; no influence on the observation).
func keepCrashStderr(w *sim.World) {
	b, err := os.ReadFile(w.Dir() + "/core.1.stderr")
	if err != nil || len(b) == 0 {
		return
	}
	if len(b) > 256<<10 {
		b = b[len(b)-(256<<10):]
	}
	dir := "/verif/.work/ownh-crashes"
	if os.MkdirAll(dir, 0o755) == nil {
		os.WriteFile(fmt.Sprintf("%s/crash-%d-%d.stderr", dir, time.Now().Unix(), os.Getpid()), b, 0o644)
	}
}

// managerWedged is called when a call has not returned AND the core no longer answers a listing
// request either. A deadline proves nothing, so the core is asked for positive evidence: SIGQUIT
// makes the Go runtime print every goroutine's stack and exit (the scenario ends here whatever
// the verdict). The verdict is true iff the dump shows the deadlock of the environment manager's
// RWMutex that TeardownEnvironment's nested read lock allows:
//   - a goroutine blocked in sync.RWMutex.RLock inside environment.(*Manager).environment called
//     from environment.(*Manager).TeardownEnvironment (which holds a read lock of the same mutex
//     around that call), and
//   - a goroutine blocked in sync.RWMutex.Lock in a method of environment.(*Manager) — the
//     pending writer that makes the second read lock wait, and that waits for the first;
//   - where both semaphore addresses can be read off the dump, they belong to one RWMutex
//     (writerSem and readerSem are adjacent words).
//
// Neither goroutine can ever proceed: this is a state, not a timing guess.
func (r *runner) managerWedged() bool {
	r.wedgeOne.Do(func() {
		exec.Command("pkill", "-QUIT", "-f", "coreWorkingDir="+r.w.Dir()+"/").Run()
		_ = sim.Poll("core exit after SIGQUIT", 10*time.Second, func() (bool, error) { return !r.w.CoreAlive(), nil })
		b, _ := os.ReadFile(r.w.Dir() + "/core.1.stderr")
		v := WedgeSignature(string(b))
		if dir := os.Getenv("OWNH_DEBUG"); dir != "" {
			os.MkdirAll(dir, 0o755)
			os.WriteFile(fmt.Sprintf("%s/wedge-%v-%d-%d.stderr", dir, v, os.Getpid(), time.Now().UnixNano()), b, 0o644)
		}
		r.mu.Lock()
		r.wedged = v
		if v {
			r.hung = true
		}
		r.mu.Unlock()
	})
	r.mu.Lock()
	defer r.mu.Unlock()
	return r.wedged
}

// WedgeSignature: see managerWedged.
func WedgeSignature(dump string) bool {
	semAddr := func(block string) string {
		i := strings.Index(block, "runtime.semacquire1(")
		if i < 0 {
			return ""
		}
		rest := block[i+len("runtime.semacquire1("):]
		if j := strings.IndexAny(rest, ",)"); j > 0 {
			return rest[:j]
		}
		return ""
	}
	var readers, writers []string
	for _, g := range strings.Split(dump, "\n\ngoroutine ") {
		nl := strings.Index(g, "\n")
		if nl < 0 {
			continue
		}
		head := g[:nl]
		switch {
		case strings.Contains(head, "[sync.RWMutex.RLock"):
			i := strings.Index(g, "core/environment.(*Manager).environment(")
			if i < 0 {
				continue
			}
			// the caller's frame follows the callee's
			rest := g[i:]
			frames := 0
			for _, l := range strings.Split(rest, "\n") {
				if strings.HasPrefix(l, "\t") || l == "" {
					continue
				}
				frames++
				if frames == 2 {
					if strings.Contains(l, "core/environment.(*Manager).TeardownEnvironment(") {
						readers = append(readers, semAddr(g))
					}
					break
				}
			}
		case strings.Contains(head, "[sync.RWMutex.Lock"):
			if strings.Contains(g, "core/environment.(*Manager).") {
				writers = append(writers, semAddr(g))
			}
		}
	}
	for _, ra := range readers {
		for _, wa := range writers {
			if ra == "" || wa == "" {
				return true
			}
			var a, b uint64
			if _, err := fmt.Sscanf(ra, "0x%x", &a); err != nil {
				return true
			}
			if _, err := fmt.Sscanf(wa, "0x%x", &b); err != nil {
				return true
			}
			if a == b+4 {
				return true
			}
		}
	}
	return false
}
