// Package c01: environment state graph, illegal requests inert, failed API requests end in ERROR.
// Real Environment / fsm / TryTransition / TeardownEnvironment through harness/envh.
package c01

import (
	"fmt"
	"strings"

	"verifharness/envh"
	"verifharness/fw"
	"verifharness/rng"
	"verifharness/sx"
)

var profile = envh.Profile{MaxHooks: 5, MaxReqs: 14, FailP: 120, BodyFailP: 150, IllegalP: 300, TaskHookP: 150, FloatP: 150,
	TeardownP: 80, ControlP: 600, DestroyHooks: true, OverlapP: 90}

// exhaustive part: every (state, event) cell reached by a fixed path, requested both ways
func cells() []fw.Case {
	path := map[string][][2]string{
		"STANDBY":    {},
		"DEPLOYED":   {{"T", "DEPLOY"}},
		"CONFIGURED": {{"T", "DEPLOY"}, {"T", "CONFIGURE"}},
		"RUNNING":    {{"T", "DEPLOY"}, {"T", "CONFIGURE"}, {"T", "START_ACTIVITY"}},
		"ERROR":      {{"T", "GO_ERROR"}},
		"DONE":       {{"T", "EXIT"}},
	}
	var cs []fw.Case
	for _, st := range []string{"STANDBY", "DEPLOYED", "CONFIGURED", "RUNNING", "ERROR", "DONE"} {
		for _, ev := range []string{"DEPLOY", "CONFIGURE", "RESET", "START_ACTIVITY", "STOP_ACTIVITY", "EXIT", "GO_ERROR", "RECOVER"} {
			for _, kind := range []string{"T", "C"} {
				for _, bodyOk := range []bool{true, false} {
					reqs := sx.L()
					for _, p := range path[st] {
						reqs.Add(sx.L(sx.A(p[0]), sx.A(p[1]), sx.B(true), sx.B(false)))
					}
					reqs.Add(sx.L(sx.A(kind), sx.A(ev), sx.B(bodyOk), sx.B(false)))
					// one hook at every moment of the requested event, so that "no hook ran" is observable
					hooks := sx.L(
						sx.L(sx.I(0), sx.A("call"), sx.B(true), sx.A("before_"+ev), sx.I(0), sx.A("before_"+ev), sx.I(0), sx.L()),
						sx.L(sx.I(1), sx.A("call"), sx.B(true), sx.A("leave_"+st), sx.I(0), sx.A("leave_"+st), sx.I(0), sx.L()),
						sx.L(sx.I(2), sx.A("task"), sx.B(true), sx.A("after_"+ev), sx.I(-1), sx.A("after_"+ev), sx.I(-1), sx.L()))
					cs = append(cs, fw.Case{Input: sx.L(hooks, reqs, sx.I(1)).String(), Tags: []string{"cell"}})
				}
			}
		}
	}
	return cs
}

// overlapping pairs, exhaustively: in every live state and in ERROR, a first request that gets as far as
// its critical section (every legal transition with a passing or failing body, a teardown) and, arriving
// while it is in there, every kind of second request (teardown with/without force, every API event
// through the glue and through TryTransition, GO_ERROR). The teardown + control pairs among them are the class
// of the repaired finding control_overlaps_teardown: the held control request finds the environment DONE,
// is refused and must leave it DONE (a DONE -> ERROR report is a plain violation now).
func overlapCells() []fw.Case {
	path := map[string][][2]string{
		"STANDBY":    {},
		"DEPLOYED":   {{"T", "DEPLOY"}},
		"CONFIGURED": {{"T", "DEPLOY"}, {"T", "CONFIGURE"}},
		"RUNNING":    {{"T", "DEPLOY"}, {"T", "CONFIGURE"}, {"T", "START_ACTIVITY"}},
		"ERROR":      {{"T", "GO_ERROR"}},
	}
	legal := map[string][]string{
		"STANDBY": {"DEPLOY", "GO_ERROR"}, "DEPLOYED": {"CONFIGURE", "GO_ERROR"}, "CONFIGURED": {"RESET", "START_ACTIVITY", "GO_ERROR"},
		"RUNNING": {"STOP_ACTIVITY", "GO_ERROR"}, "ERROR": {},
	}
	api := []string{"DEPLOY", "CONFIGURE", "RESET", "START_ACTIVITY", "STOP_ACTIVITY"}
	var cs []fw.Case
	for _, st := range []string{"STANDBY", "DEPLOYED", "CONFIGURED", "RUNNING", "ERROR"} {
		var firsts []*sx.Node
		for _, ev := range legal[st] {
			for _, ok := range []bool{true, false} {
				firsts = append(firsts, sx.L(sx.A("T"), sx.A(ev), sx.B(ok), sx.B(false)))
			}
		}
		for _, force := range []bool{true, false} {
			firsts = append(firsts, sx.L(sx.A("D"), sx.B(force), sx.B(true), sx.B(true)))
		}
		// a teardown that FAILS at its first or at its second release round: the environment lives on (still
		// listed, not DONE), and the request that queued behind it is carried out afterwards, on the state the
		// failed teardown left (tag overlap-failed-teardown)
		for _, force := range []bool{true, false} {
			if !force && st != "STANDBY" && st != "DEPLOYED" {
				continue // refused before it gets anywhere: nothing to overlap with
			}
			firsts = append(firsts, sx.L(sx.A("D"), sx.B(force), sx.B(false), sx.B(true)), sx.L(sx.A("D"), sx.B(force), sx.B(true), sx.B(false)))
		}
		var seconds []*sx.Node
		for _, force := range []bool{true, false} {
			seconds = append(seconds, sx.L(sx.A("D"), sx.B(force), sx.B(true), sx.B(true)))
		}
		for _, ev := range api {
			seconds = append(seconds, sx.L(sx.A("C"), sx.A(ev), sx.B(true), sx.B(false)), sx.L(sx.A("T"), sx.A(ev), sx.B(true), sx.B(false)))
		}
		seconds = append(seconds, sx.L(sx.A("T"), sx.A("GO_ERROR"), sx.B(true), sx.B(false)))
		for _, q1 := range firsts {
			for _, q2 := range seconds {
				reqs := sx.L()
				for _, p := range path[st] {
					reqs.Add(sx.L(sx.A(p[0]), sx.A(p[1]), sx.B(true), sx.B(false)))
				}
				reqs.Add(sx.L(sx.A("P"), q1, q2))
				// hooks that make "the second request executed something" observable
				hooks := sx.L(
					sx.L(sx.I(0), sx.A("call"), sx.B(false), sx.A("DESTROY"), sx.I(0), sx.A("DESTROY"), sx.I(0), sx.L()),
					sx.L(sx.I(1), sx.A("call"), sx.B(false), sx.A("leave_"+st), sx.I(0), sx.A("leave_"+st), sx.I(0), sx.L()),
					sx.L(sx.I(2), sx.A("call"), sx.B(false), sx.A("leave_DONE"), sx.I(0), sx.A("leave_DONE"), sx.I(0), sx.L()))
				if q2.At(0).Str() != "D" {
					ev := q2.At(1).Str()
					hooks.Add(sx.L(sx.I(3), sx.A("call"), sx.B(false), sx.A("before_"+ev), sx.I(0), sx.A("before_"+ev), sx.I(0), sx.L()))
				}
				tags := []string{"overlap-cell", "overlapping-requests"}
				if q1.At(0).Str() == "D" && !(q1.At(2).Bool() && q1.At(3).Bool()) {
					tags = append(tags, "overlap-failed-teardown")
				}
				cs = append(cs, fw.Case{Input: sx.L(hooks, reqs, sx.I(1)).String(), Tags: tags})
			}
		}
	}
	return cs
}

// slow task phases, exhaustively: in every live state a first request that gets as far as its task phase —
// the REAL body of every transition that has one (its command to the tasks held unanswered by the fake task
// manager; tasks that will comply, tasks that will refuse), the scripted body of DEPLOY / GO_ERROR, the first
// release round of a teardown — kept there for longer than ANYTHING the environment was configured with (the
// environment carries user variables with timeout-like names and small values: the table walks through the
// whole vocabulary), and, arriving meanwhile, every kind of second request (teardown with/without force, every
// API event through the glue and through TryTransition, scripted and real bodies, GO_ERROR). Before the
// tasks answer, both callers are sighted a second time (OW): the first must still be in there, the second
// must not have been let in, the state must not have moved, and no second command may have reached the tasks.
func holdCells(r *rng.R) []fw.Case {
	path := map[string][][2]string{
		"STANDBY":    {},
		"DEPLOYED":   {{"T", "DEPLOY"}},
		"CONFIGURED": {{"T", "DEPLOY"}, {"T", "CONFIGURE"}},
		"RUNNING":    {{"T", "DEPLOY"}, {"T", "CONFIGURE"}, {"T", "START_ACTIVITY"}},
	}
	realEv := map[string][]string{"STANDBY": {}, "DEPLOYED": {"CONFIGURE"}, "CONFIGURED": {"RESET", "START_ACTIVITY"}, "RUNNING": {"STOP_ACTIVITY"}}
	scripted := map[string][]string{"STANDBY": {"DEPLOY"}, "DEPLOYED": {"GO_ERROR"}, "CONFIGURED": {}, "RUNNING": {"GO_ERROR"}}
	api := []string{"DEPLOY", "CONFIGURE", "RESET", "START_ACTIVITY", "STOP_ACTIVITY"}
	realAll := []string{"CONFIGURE", "RESET", "START_ACTIVITY", "STOP_ACTIVITY"}
	names := envh.UVarNames()
	var cs []fw.Case
	k := 0
	for _, st := range []string{"STANDBY", "DEPLOYED", "CONFIGURED", "RUNNING"} {
		var firsts []*sx.Node
		for _, ev := range realEv[st] {
			for _, ok := range []bool{true, false} {
				firsts = append(firsts, sx.L(sx.A("TR"), sx.A(ev), sx.B(ok), sx.B(false)))
			}
		}
		for _, ev := range scripted[st] {
			firsts = append(firsts, sx.L(sx.A("T"), sx.A(ev), sx.B(true), sx.B(false)))
		}
		firsts = append(firsts, sx.L(sx.A("D"), sx.B(true), sx.B(true), sx.B(true)))
		for _, q1 := range firsts {
			var seconds []*sx.Node
			for _, force := range []bool{true, false} {
				seconds = append(seconds, sx.L(sx.A("D"), sx.B(force), sx.B(true), sx.B(true)))
			}
			for _, ev := range api {
				seconds = append(seconds, sx.L(sx.A("C"), sx.A(ev), sx.B(true), sx.B(false)), sx.L(sx.A("T"), sx.A(ev), sx.B(true), sx.B(false)))
			}
			seconds = append(seconds, sx.L(sx.A("T"), sx.A("GO_ERROR"), sx.B(true), sx.B(false)))
			if q1.At(0).Str() != "D" {
				// real bodies behind a teardown attempt are not run (see envh.Run)
				for _, ev := range realAll {
					seconds = append(seconds, sx.L(sx.A("CR"), sx.A(ev), sx.B(true), sx.B(false)), sx.L(sx.A("TR"), sx.A(ev), sx.B(true), sx.B(false)))
				}
			}
			for _, q2 := range seconds {
				reqs := sx.L()
				for _, p := range path[st] {
					reqs.Add(sx.L(sx.A(p[0]), sx.A(p[1]), sx.B(true), sx.B(false)))
				}
				var own []string
				for j := 0; j < 5; j++ {
					own = append(own, names[(5*k+j)%len(names)])
				}
				k++
				uvars := envh.GenUserVars(r, r.N(3), own...)
				reqs.Add(sx.L(sx.A("P"), q1, q2, sx.I(envh.HoldFor(uvars))))
				hooks := sx.L(
					sx.L(sx.I(0), sx.A("call"), sx.B(false), sx.A("DESTROY"), sx.I(0), sx.A("DESTROY"), sx.I(0), sx.L()),
					sx.L(sx.I(1), sx.A("call"), sx.B(false), sx.A("leave_"+st), sx.I(0), sx.A("leave_"+st), sx.I(0), sx.L()))
				if q2.At(0).Str() != "D" {
					ev := q2.At(1).Str()
					hooks.Add(sx.L(sx.I(2), sx.A("call"), sx.B(false), sx.A("before_"+ev), sx.I(0), sx.A("before_"+ev), sx.I(0), sx.L()))
				}
				tags := []string{"hold-cell", "overlapping-requests", "slow-task-phase", "user-vars"}
				if q1.At(0).Str() == "TR" {
					tags = append(tags, "real-bodies", "slow-real-body")
				}
				cs = append(cs, fw.Case{Input: sx.L(hooks, reqs, sx.I(1), uvars).String(), Tags: tags})
			}
		}
	}
	return cs
}

func generate(tier string, r *rng.R) []fw.Case {
	n := 250
	if tier == "thorough" {
		n = 4000
	}
	cs := append(cells(), overlapCells()...)
	cs = append(cs, holdCells(r.Fork())...)
	for i := 0; i < n; i++ {
		c := envh.GenCase(r.Fork(), profile)
		// half of the walks: user variables with timeout-like names, every overlapping pair with a slow task phase
		if r2 := r.Fork(); r2.P(1, 2) {
			c = envh.WithSlowTaskPhases(c, r2)
		}
		cs = append(cs, c)
	}
	return cs
}

func genFsm(string) (string, error) {
	rows, err := envh.TabulateFsm("/verif/.work/gen")
	if err != nil {
		return "", err
	}
	var b strings.Builder
	b.WriteString("namespace Gen\n\n/-- (event, source, destination) index triples of every transition the environment fsm.FSM accepts,\n    obtained by firing each event in each state on a real Environment. Indices follow envStates/envEvents. -/\ndef envFsm : List (Nat × Nat × Nat) := [")
	for i, r := range rows {
		if i > 0 {
			b.WriteString(", ")
		}
		fmt.Fprintf(&b, "(%d, %d, %d)", r[0], r[1], r[2])
	}
	b.WriteString("]\n\ndef envStates : List String := [")
	for i, s := range envh.StateNames() {
		if i > 0 {
			b.WriteString(", ")
		}
		fmt.Fprintf(&b, "%q", s)
	}
	b.WriteString("]\n\ndef envEvents : List String := [")
	for i, s := range envh.EventNames() {
		if i > 0 {
			b.WriteString(", ")
		}
		fmt.Fprintf(&b, "%q", s)
	}
	b.WriteString("]\n\nend Gen\n")
	return b.String(), nil
}

func init() {
	fw.RegisterGen(fw.GenFile{Name: "EnvFsm.lean", Make: genFsm})
	fw.Register(&fw.Property{
		ID:         "C01",
		Generate:   generate,
		RunImpl:    func(in string) (string, error) { return envh.Run(in, true) },
		Nontrivial: envh.Nontrivial,
		Rule: "all 6x8 (state,event) cells x {TryTransition, API glue} x {body ok, body fails} with hooks at the request's moments (exhaustive), then random " +
			"walks of 1..14 requests (30% arbitrary events, 60% through the ControlEnvironment glue, 8% teardowns with scripted release results) over 0..5 hooks " +
			"(call and task hooks, failing executions, floating awaits; 9% of the positions hold an overlapping pair), plus the exhaustive table of overlapping pairs " +
			"(5 states x every first request that reaches its critical section x 13 second requests, teardown + control pairs included, also behind a teardown that FAILS at its first or second release round); for every pair the trace records, while the first request is parked inside its critical section, what the second caller was seen doing (queued on transitionMutex / returned / elsewhere) and the state reported before and after; " +
			"plus the exhaustive table of SLOW TASK PHASES (4 live states x every first request that reaches its task phase — the REAL body of CONFIGURE / RESET / START_ACTIVITY / STOP_ACTIVITY with tasks that comply or refuse, its command held unanswered by the fake task manager; the scripted body of DEPLOY / GO_ERROR; a teardown's first release round — x 13..21 second requests incl. real bodies): the environment carries user-supplied workflow variables with timeout-like names and small values (the table walks through a vocabulary of 68 names; the model takes no such variable into account), the first request is kept in its task phase for longer than all of them, and both callers are sighted a second time before the tasks answer (first still inside / returned, second queued / returned / inside, state, a second command in flight); half of the random walks carry 1..6 such variables and give every overlapping pair a slow task phase (real bodies where no teardown was attempted before); non-trivial = >=2 hooks and >=3 requests; distinct by input text",
		Shrink:   envh.Shrink,
		Workers:  1,
		Setup:    envh.Setup,
		Teardown: envh.Teardown,
		TrustedBase: []string{
			"harness/envh: environment builder (YAML roles, NewTaskForVerif tasks, user variables on the root role), probe plugin, event capture, fake task manager answering ReleaseTasks and the ConfigureTasks / TransitionTasks commands of real transition bodies (it counts the commands in flight and can hold an answer back)",
			"the 6 lines of RpcServer.ControlEnvironment (failed transition => GO_ERROR => forced ERROR unless the condition written in the source spares the state) are replicated in the harness; the condition itself is read from core/server.go of the tree under test by go/ast (harness/envh/glue.go) and pinned by C01_glue_is_code; the real RPC is exercised by the whole-core simulator",
			"verif hooks in /repo: core/environment/verif_hooks.go, core/workflow/verif_hooks.go, core/the/verif_hooks.go, core/task/verif_hooks_task.go",
		},
		Assumptions: []string{
			"looplab/fsm v1.0.1 Event/Cancel semantics as modelled (sampled by every case)",
			"scripted task-level bodies stand in for the real transition bodies (Deploy/Configure/Start/Stop/Reset talk to the task manager) except in TR/CR requests, where the real body of CONFIGURE / RESET / START_ACTIVITY / STOP_ACTIVITY runs against the fake task manager; a slow task phase lasts 2 x the longest generated duration + 30 ms (a time limit the code might read from elsewhere, or one longer than that, is not exercised)",
			"transitionMutex serialises requests (sync.RWMutex trusted); overlap is arranged pairwise (first request parked inside its critical section; whether the second is then seen blocked on transitionMutex, or returns, or blocks elsewhere is part of the observation, read off a goroutine dump)",
		},
	})
}
