// Package c01: correspondence harness for property C01 (stub — registers nothing yet).
package c01
