package c01

import (
	"bytes"
	"fmt"
	"go/ast"
	"go/parser"
	"go/printer"
	"go/token"
	"path/filepath"
	"sort"
	"strings"

	"verifharness/envh"
	"verifharness/fw"
)

// go/ast facts about WHO may fire the environment FSM and WHO may write its state directly,
// and whether they do so while holding the environment's transitionMutex.

type site struct {
	fn    string
	arg   string
	under bool
}

func exprString(fset *token.FileSet, e ast.Expr) string {
	var b bytes.Buffer
	printer.Fprint(&b, fset, e)
	return b.String()
}

// holdsMutexBefore reports whether fn's body, before pos, takes transitionMutex and defers its release.
func holdsMutexBefore(fset *token.FileSet, body *ast.BlockStmt, pos token.Pos) bool {
	locked, deferred := false, false
	ast.Inspect(body, func(n ast.Node) bool {
		if n == nil || n.Pos() >= pos {
			return true
		}
		switch x := n.(type) {
		case *ast.DeferStmt:
			if strings.HasSuffix(exprString(fset, x.Call.Fun), "transitionMutex.Unlock") {
				deferred = true
			}
		case *ast.CallExpr:
			s := exprString(fset, x.Fun)
			if strings.HasSuffix(s, "transitionMutex.Lock") || strings.HasSuffix(s, "transitionMutex.TryLock") {
				locked = true
			}
		}
		return true
	})
	return locked && deferred
}

func collect(repo string) (events, writes []site, err error) {
	fset := token.NewFileSet()
	files, _ := filepath.Glob(filepath.Join(repo, "core/environment/*.go"))
	more, _ := filepath.Glob(filepath.Join(repo, "core/*.go"))
	files = append(files, more...)
	sort.Strings(files)
	for _, fn := range files {
		if strings.HasSuffix(fn, "_test.go") || strings.Contains(filepath.Base(fn), "verif_hook") {
			continue
		}
		f, perr := parser.ParseFile(fset, fn, nil, 0)
		if perr != nil {
			return nil, nil, perr
		}
		for _, d := range f.Decls {
			fd, ok := d.(*ast.FuncDecl)
			if !ok || fd.Body == nil {
				continue
			}
			name := fd.Name.Name
			ast.Inspect(fd.Body, func(n ast.Node) bool {
				ce, ok := n.(*ast.CallExpr)
				if !ok {
					return true
				}
				s := exprString(fset, ce.Fun)
				switch {
				case strings.HasSuffix(s, ".Sm.Event"):
					events = append(events, site{fn: name, under: holdsMutexBefore(fset, fd.Body, ce.Pos())})
				case strings.HasSuffix(s, ".Sm.SetState") || strings.HasSuffix(s, ".setState"):
					arg := "?"
					if len(ce.Args) == 1 {
						arg = strings.Trim(exprString(fset, ce.Args[0]), "\"")
					}
					writes = append(writes, site{fn: name, arg: arg, under: holdsMutexBefore(fset, fd.Body, ce.Pos())})
				}
				return true
			})
		}
	}
	return
}

// acquireSite: a function that takes transitionMutex. waits = it does so in the shape
//
//	if !<env>.transitionMutex.TryLock() { …; <env>.transitionMutex.Lock(); … }
//	defer <env>.transitionMutex.Unlock()
//
// as a top-level statement pair of the function body, where the if has no init and no else, its body contains
// no way out other than falling through to the statement after it (no return, goto, break, continue, panic or
// os.Exit, no function literal, no nested branching around the Lock) — a caller that finds the mutex busy
// ALWAYS queues for it and is carried out afterwards, whoever holds it — and nothing else in the function touches
// the mutex.
type acquireSite struct {
	fn    string
	waits bool
}

func isMutexCall(fset *token.FileSet, e ast.Expr, method string) bool {
	ce, ok := e.(*ast.CallExpr)
	return ok && len(ce.Args) == 0 && strings.HasSuffix(exprString(fset, ce.Fun), "transitionMutex."+method)
}

func acquireShape(fset *token.FileSet, body *ast.BlockStmt) bool {
	uses := 0
	ast.Inspect(body, func(n ast.Node) bool {
		if se, ok := n.(*ast.SelectorExpr); ok && se.Sel.Name == "transitionMutex" {
			uses++
		}
		return true
	})
	for i, st := range body.List {
		is, ok := st.(*ast.IfStmt)
		if !ok {
			continue
		}
		un, ok := is.Cond.(*ast.UnaryExpr)
		if !ok || un.Op != token.NOT || !isMutexCall(fset, un.X, "TryLock") {
			continue
		}
		if is.Init != nil || is.Else != nil || i+1 >= len(body.List) {
			return false
		}
		ds, ok := body.List[i+1].(*ast.DeferStmt)
		if !ok || !isMutexCall(fset, ds.Call, "Unlock") {
			return false
		}
		locks := 0
		for _, inner := range is.Body.List {
			es, ok := inner.(*ast.ExprStmt)
			if !ok {
				return false // only plain call statements (logging, Lock) in there
			}
			if isMutexCall(fset, es.X, "Lock") {
				locks++
			}
			escape := false
			ast.Inspect(es, func(n ast.Node) bool {
				switch x := n.(type) {
				case *ast.FuncLit:
					escape = true
				case *ast.CallExpr:
					if f := exprString(fset, x.Fun); f == "panic" || strings.HasSuffix(f, ".Exit") || strings.HasSuffix(f, ".Fatal") || strings.HasSuffix(f, ".Fatalf") || strings.HasSuffix(f, ".Panic") || strings.HasSuffix(f, ".Panicf") || strings.HasSuffix(f, ".Goexit") {
						escape = true
					}
				}
				return true
			})
			if escape {
				return false
			}
		}
		return locks == 1 && uses == 3 // TryLock, Lock, Unlock: nothing else touches the mutex
	}
	return false
}

func collectAcquires(repo string) ([]acquireSite, error) {
	fset := token.NewFileSet()
	files, _ := filepath.Glob(filepath.Join(repo, "core/environment/*.go"))
	more, _ := filepath.Glob(filepath.Join(repo, "core/*.go"))
	files = append(files, more...)
	sort.Strings(files)
	var out []acquireSite
	for _, fn := range files {
		if strings.HasSuffix(fn, "_test.go") || strings.Contains(filepath.Base(fn), "verif_hook") {
			continue
		}
		f, perr := parser.ParseFile(fset, fn, nil, 0)
		if perr != nil {
			return nil, perr
		}
		for _, d := range f.Decls {
			fd, ok := d.(*ast.FuncDecl)
			if !ok || fd.Body == nil {
				continue
			}
			touches := false
			ast.Inspect(fd.Body, func(n ast.Node) bool {
				if se, ok := n.(*ast.SelectorExpr); ok && se.Sel.Name == "transitionMutex" {
					touches = true
				}
				return true
			})
			if touches {
				out = append(out, acquireSite{fn: fd.Name.Name, waits: acquireShape(fset, fd.Body)})
			}
		}
	}
	return out, nil
}

// bodyCallSite: a function of core/environment that calls the task-level body of a transition,
// `<transition>.do(<env>)`. sync = it WAITS for it, for as long as it takes: the call is a plain call in the
// function's own flow (directly in the function, or in the function literal it returns — handlerFunc returns
// the leave_<state> helper) — not in a go or defer statement, not in any other function literal —, the function
// holds no go statement, no select statement and no timer / deadline (time.After, time.NewTimer, time.AfterFunc,
// time.Tick, time.NewTicker, context.WithTimeout, context.WithDeadline), and `do` is mentioned nowhere in
// the function except in such calls (no method value handed to somebody else).
type bodyCallSite struct {
	fn   string
	sync bool
}

func collectBodyCalls(repo string) ([]bodyCallSite, error) {
	fset := token.NewFileSet()
	files, _ := filepath.Glob(filepath.Join(repo, "core/environment/*.go"))
	sort.Strings(files)
	var out []bodyCallSite
	for _, fn := range files {
		if strings.HasSuffix(fn, "_test.go") || strings.Contains(filepath.Base(fn), "verif_hook") {
			continue
		}
		f, perr := parser.ParseFile(fset, fn, nil, 0)
		if perr != nil {
			return nil, perr
		}
		for _, d := range f.Decls {
			fd, ok := d.(*ast.FuncDecl)
			if !ok || fd.Body == nil {
				continue
			}
			mentions, calls, plain := 0, 0, 0
			concurrency := false
			var stack []ast.Node
			ast.Inspect(fd.Body, func(n ast.Node) bool {
				if n == nil {
					stack = stack[:len(stack)-1]
					return true
				}
				switch x := n.(type) {
				case *ast.GoStmt, *ast.SelectStmt:
					concurrency = true
				case *ast.SelectorExpr:
					if x.Sel.Name == "do" {
						mentions++
					}
				case *ast.CallExpr:
					switch exprString(fset, x.Fun) {
					case "time.After", "time.NewTimer", "time.AfterFunc", "time.Tick", "time.NewTicker", "context.WithTimeout", "context.WithDeadline":
						concurrency = true
					}
					if se, ok := x.Fun.(*ast.SelectorExpr); ok && se.Sel.Name == "do" && len(x.Args) == 1 {
						calls++
						ok := true
						for i, a := range stack {
							switch a.(type) {
							case *ast.GoStmt, *ast.DeferStmt:
								ok = false
							case *ast.FuncLit:
								// only the function literal the function returns
								if i == 0 {
									ok = false
								} else if _, ret := stack[i-1].(*ast.ReturnStmt); !ret {
									ok = false
								}
							}
						}
						if ok {
							plain++
						}
					}
				}
				stack = append(stack, n)
				return true
			})
			if calls > 0 {
				out = append(out, bodyCallSite{fn: fd.Name.Name, sync: !concurrency && plain == calls && mentions == calls})
			}
		}
	}
	return out, nil
}

func genLocks(repo string) (string, error) {
	events, writes, err := collect(repo)
	if err != nil {
		return "", err
	}
	acquires, err := collectAcquires(repo)
	if err != nil {
		return "", err
	}
	var b strings.Builder
	b.WriteString("namespace Gen\n\n/-- every call of `<env>.Sm.Event(…)` in core/ and core/environment/ (go/ast): (enclosing function, holds transitionMutex with a deferred unlock) -/\ndef smEventSites : List (String × Bool) := [")
	for i, s := range events {
		if i > 0 {
			b.WriteString(", ")
		}
		fmt.Fprintf(&b, "(%q, %v)", s.fn, s.under)
	}
	b.WriteString("]\n\n/-- every direct write of the FSM state (`Sm.SetState(x)` / `env.setState(x)`): (enclosing function, argument as written, holds transitionMutex) -/\ndef stateWriteSites : List (String × String × Bool) := [")
	for i, s := range writes {
		if i > 0 {
			b.WriteString(", ")
		}
		fmt.Fprintf(&b, "(%q, %q, %v)", s.fn, s.arg, s.under)
	}
	b.WriteString("]\n\n/-- every function of core/ and core/environment/ that touches `transitionMutex` (go/ast): (function, it acquires it as\n    `if !m.TryLock() { …; m.Lock(); … }; defer m.Unlock()` — the if-body being plain calls with no way out, so that a caller\n    who finds the mutex busy ALWAYS queues for it — and touches it nowhere else) -/\ndef mutexAcquireSites : List (String × Bool) := [")
	for i, s := range acquires {
		if i > 0 {
			b.WriteString(", ")
		}
		fmt.Fprintf(&b, "(%q, %v)", s.fn, s.waits)
	}
	bodyCalls, err := collectBodyCalls(repo)
	if err != nil {
		return "", err
	}
	b.WriteString("]\n\n/-- every function of core/environment/ that calls the task-level body of a transition, `<transition>.do(<env>)` (go/ast):\n    (function, it WAITS for it for as long as it takes — a plain call in the function's own flow or in the function literal it\n    returns, no go / defer / select statement, no timer or deadline in the function, `do` mentioned nowhere else in it) -/\ndef bodyCallSites : List (String × Bool) := [")
	for i, s := range bodyCalls {
		if i > 0 {
			b.WriteString(", ")
		}
		fmt.Fprintf(&b, "(%q, %v)", s.fn, s.sync)
	}
	b.WriteString("]\n\nend Gen\n")
	return b.String(), nil
}

// genGlue: the statement of RpcServer.ControlEnvironment that forces the state after a refused GO_ERROR
// (envh.GlueFacts; the same facts steer the harness's replica of those lines).
func genGlue(repo string) (string, error) {
	g, err := envh.GlueFacts(repo)
	if err != nil {
		return "", err
	}
	var b strings.Builder
	b.WriteString("namespace Gen\n\n/-- RpcServer.ControlEnvironment (core/server.go, go/ast): the `if` statement whose body forces the state with\n    `env.Sm.SetState(\"ERROR\")`. `glueRecognised`: there is exactly one, its init statement is the GO_ERROR fallback\n    `<err> := env.TryTransition(environment.NewGoErrorTransition(m.state.taskman))` and its condition is `<err> != nil`\n    followed only by conjuncts `env.CurrentState() != \"S\"`; `glueSpares`: those S, in order. -/\n")
	fmt.Fprintf(&b, "def glueRecognised : Bool := %v\n\ndef glueInit : String := %q\n\ndef glueCond : String := %q\n\ndef glueSpares : List String := [", g.Recognised, g.Init, g.Cond)
	for i, s := range g.Spares {
		if i > 0 {
			b.WriteString(", ")
		}
		fmt.Fprintf(&b, "%q", s)
	}
	b.WriteString("]\n\nend Gen\n")
	return b.String(), nil
}

func init() {
	fw.RegisterGen(fw.GenFile{Name: "EnvLocks.lean", Make: genLocks})
	fw.RegisterGen(fw.GenFile{Name: "EnvGlue.lean", Make: genGlue})
}
