package c01

import (
	"bytes"
	"fmt"
	"go/ast"
	"go/parser"
	"go/printer"
	"go/token"
	"path/filepath"
	"sort"
	"strings"

	"verifharness/envh"
	"verifharness/fw"
)

// go/ast facts about WHO may fire the environment FSM and WHO may write its state directly,
// and whether they do so while holding the environment's transitionMutex.

type site struct {
	fn    string
	arg   string
	under bool
}

func exprString(fset *token.FileSet, e ast.Expr) string {
	var b bytes.Buffer
	printer.Fprint(&b, fset, e)
	return b.String()
}

// holdsMutexBefore reports whether fn's body, before pos, takes transitionMutex and defers its release.
func holdsMutexBefore(fset *token.FileSet, body *ast.BlockStmt, pos token.Pos) bool {
	locked, deferred := false, false
	ast.Inspect(body, func(n ast.Node) bool {
		if n == nil || n.Pos() >= pos {
			return true
		}
		switch x := n.(type) {
		case *ast.DeferStmt:
			if strings.HasSuffix(exprString(fset, x.Call.Fun), "transitionMutex.Unlock") {
				deferred = true
			}
		case *ast.CallExpr:
			s := exprString(fset, x.Fun)
			if strings.HasSuffix(s, "transitionMutex.Lock") || strings.HasSuffix(s, "transitionMutex.TryLock") {
				locked = true
			}
		}
		return true
	})
	return locked && deferred
}

func collect(repo string) (events, writes []site, err error) {
	fset := token.NewFileSet()
	files, _ := filepath.Glob(filepath.Join(repo, "core/environment/*.go"))
	more, _ := filepath.Glob(filepath.Join(repo, "core/*.go"))
	files = append(files, more...)
	sort.Strings(files)
	for _, fn := range files {
		if strings.HasSuffix(fn, "_test.go") || strings.Contains(filepath.Base(fn), "verif_hook") {
			continue
		}
		f, perr := parser.ParseFile(fset, fn, nil, 0)
		if perr != nil {
			return nil, nil, perr
		}
		for _, d := range f.Decls {
			fd, ok := d.(*ast.FuncDecl)
			if !ok || fd.Body == nil {
				continue
			}
			name := fd.Name.Name
			ast.Inspect(fd.Body, func(n ast.Node) bool {
				ce, ok := n.(*ast.CallExpr)
				if !ok {
					return true
				}
				s := exprString(fset, ce.Fun)
				switch {
				case strings.HasSuffix(s, ".Sm.Event"):
					events = append(events, site{fn: name, under: holdsMutexBefore(fset, fd.Body, ce.Pos())})
				case strings.HasSuffix(s, ".Sm.SetState") || strings.HasSuffix(s, ".setState"):
					arg := "?"
					if len(ce.Args) == 1 {
						arg = strings.Trim(exprString(fset, ce.Args[0]), "\"")
					}
					writes = append(writes, site{fn: name, arg: arg, under: holdsMutexBefore(fset, fd.Body, ce.Pos())})
				}
				return true
			})
		}
	}
	return
}

func genLocks(repo string) (string, error) {
	events, writes, err := collect(repo)
	if err != nil {
		return "", err
	}
	var b strings.Builder
	b.WriteString("namespace Gen\n\n/-- every call of `<env>.Sm.Event(…)` in core/ and core/environment/ (go/ast): (enclosing function, holds transitionMutex with a deferred unlock) -/\ndef smEventSites : List (String × Bool) := [")
	for i, s := range events {
		if i > 0 {
			b.WriteString(", ")
		}
		fmt.Fprintf(&b, "(%q, %v)", s.fn, s.under)
	}
	b.WriteString("]\n\n/-- every direct write of the FSM state (`Sm.SetState(x)` / `env.setState(x)`): (enclosing function, argument as written, holds transitionMutex) -/\ndef stateWriteSites : List (String × String × Bool) := [")
	for i, s := range writes {
		if i > 0 {
			b.WriteString(", ")
		}
		fmt.Fprintf(&b, "(%q, %q, %v)", s.fn, s.arg, s.under)
	}
	b.WriteString("]\n\nend Gen\n")
	return b.String(), nil
}

// genGlue: the statement of RpcServer.ControlEnvironment that forces the state after a refused GO_ERROR
// (envh.GlueFacts; the same facts steer the harness's replica of those lines).
func genGlue(repo string) (string, error) {
	g, err := envh.GlueFacts(repo)
	if err != nil {
		return "", err
	}
	var b strings.Builder
	b.WriteString("namespace Gen\n\n/-- RpcServer.ControlEnvironment (core/server.go, go/ast): the `if` statement whose body forces the state with\n    `env.Sm.SetState(\"ERROR\")`. `glueRecognised`: there is exactly one, its init statement is the GO_ERROR fallback\n    `<err> := env.TryTransition(environment.NewGoErrorTransition(m.state.taskman))` and its condition is `<err> != nil`\n    followed only by conjuncts `env.CurrentState() != \"S\"`; `glueSpares`: those S, in order. -/\n")
	fmt.Fprintf(&b, "def glueRecognised : Bool := %v\n\ndef glueInit : String := %q\n\ndef glueCond : String := %q\n\ndef glueSpares : List String := [", g.Recognised, g.Init, g.Cond)
	for i, s := range g.Spares {
		if i > 0 {
			b.WriteString(", ")
		}
		fmt.Fprintf(&b, "%q", s)
	}
	b.WriteString("]\n\nend Gen\n")
	return b.String(), nil
}

func init() {
	fw.RegisterGen(fw.GenFile{Name: "EnvLocks.lean", Make: genLocks})
	fw.RegisterGen(fw.GenFile{Name: "EnvGlue.lean", Make: genGlue})
}
