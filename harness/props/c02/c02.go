// Package c02: correspondence harness for property C02 (stub — registers nothing yet).
package c02
