// Package c02: correspondence harness for property C02 — "a transition succeeds iff every critical task
// acknowledged it". The real core runs in a child process against the whole-core simulator (harness/sim);
// every case owns its world. Formats: see run.go.
package c02

import (
	"fmt"
	"strings"

	"verifharness/fw"
	"verifharness/rng"
	"verifharness/sx"
)

var fastOutcomes = []string{"ok", "stay", "err"}
var modes = []string{"direct", "basic", "fairmq"}
var hosts = []string{"h1", "h2"}

// legal successor events of an environment state
var nextEvents = map[string][]string{
	"CONFIGURED": {"START_ACTIVITY", "RESET"},
	"RUNNING":    {"STOP_ACTIVITY"},
	"DEPLOYED":   {"CONFIGURE"},
}

type genTask struct {
	crit   bool
	mode   string
	host   string
	launch string
}

func build(calls int, tasks []genTask, steps [][]string) string {
	wf := sx.L(sx.A("wf"), sx.I(calls))
	for _, t := range tasks {
		wf.Add(sx.L(sx.B(t.crit), sx.A(t.mode), sx.A(t.host), sx.A(t.launch)))
	}
	n := sx.L(wf)
	for _, s := range steps {
		l := sx.L()
		for _, a := range s {
			l.Add(sx.A(a))
		}
		n.Add(l)
	}
	return n.String()
}

func okStep(ev string, n int) []string {
	s := []string{ev}
	for i := 0; i < n; i++ {
		s = append(s, "ok")
	}
	return s
}

// path of all-ok steps that brings the environment to the point where `ev` can be requested for the k-th time
var pathTo = map[string][]string{
	"CONFIGURE@new":  {},
	"START_ACTIVITY": {"CONFIGURE"},
	"STOP_ACTIVITY":  {"CONFIGURE", "START_ACTIVITY"},
	"RESET":          {"CONFIGURE"},
	"CONFIGURE":      {"CONFIGURE", "RESET"},
}

var positions = []string{"CONFIGURE@new", "START_ACTIVITY", "STOP_ACTIVITY", "RESET", "CONFIGURE"}

// at builds: all-ok path to `pos`, then the step with the given outcomes, then `tail` all-ok steps if it can go on.
func at(pos string, tasks []genTask, outs []string, tail bool) string {
	var steps [][]string
	for _, ev := range pathTo[pos] {
		steps = append(steps, okStep(ev, len(tasks)))
	}
	ev := strings.TrimSuffix(pos, "@new")
	steps = append(steps, append([]string{ev}, outs...))
	if tail {
		st := map[string]string{"CONFIGURE": "CONFIGURED", "START_ACTIVITY": "RUNNING", "STOP_ACTIVITY": "CONFIGURED", "RESET": "DEPLOYED"}[ev]
		steps = append(steps, okStep(nextEvents[st][0], len(tasks)))
	}
	return build(0, tasks, steps)
}

// exhaustiveFast: 1..2 tasks x every critical mix x every assignment of {ok, stay, err} at each of the five positions.
func exhaustiveFast() []fw.Case {
	var cs []fw.Case
	for n := 1; n <= 2; n++ {
		for cm := 0; cm < 1<<n; cm++ {
			tasks := make([]genTask, n)
			for i := range tasks {
				tasks[i] = genTask{crit: cm>>i&1 == 1, mode: modes[(i+cm)%3], host: hosts[i%2], launch: "ok"}
			}
			total := 1
			for i := 0; i < n; i++ {
				total *= 3
			}
			for a := 0; a < total; a++ {
				outs := make([]string, n)
				x := a
				for i := range outs {
					outs[i] = fastOutcomes[x%3]
					x /= 3
				}
				for _, pos := range positions {
					cs = append(cs, fw.Case{Input: at(pos, tasks, outs, true), Tags: []string{"exhaustive-fast", "n=" + fmt.Sprint(n), pos}})
				}
			}
		}
	}
	return cs
}

// slowCases: one commanded task does not answer (silent / dies) or cannot be reached (undeliv); each costs the core's
// own response timeout (90 s, CONFIGURE 120 s) unless it is `undeliv` alone.
func slowCases(r *rng.R, n int) []fw.Case {
	var cs []fw.Case
	fixed := []struct {
		pos   string
		tasks []genTask
		outs  []string
		tail  bool
	}{
		// critical silent among others / non-critical silent among others
		{"START_ACTIVITY", []genTask{{true, "direct", "h1", "ok"}, {false, "basic", "h2", "ok"}}, []string{"silent", "ok"}, false},
		{"START_ACTIVITY", []genTask{{true, "direct", "h1", "ok"}, {false, "basic", "h2", "ok"}}, []string{"ok", "silent"}, true},
		{"STOP_ACTIVITY", []genTask{{true, "fairmq", "h1", "ok"}, {true, "direct", "h1", "ok"}, {false, "direct", "h2", "ok"}}, []string{"ok", "dies", "ok"}, false},
		{"RESET", []genTask{{true, "direct", "h1", "ok"}, {false, "direct", "h1", "ok"}}, []string{"ok", "dies"}, true},
		// alone
		{"START_ACTIVITY", []genTask{{false, "direct", "h1", "ok"}}, []string{"silent"}, false},
		{"STOP_ACTIVITY", []genTask{{true, "basic", "h2", "ok"}}, []string{"dies"}, false},
		// inside NewEnvironment (CONFIGURE: 120 s)
		{"CONFIGURE@new", []genTask{{true, "direct", "h1", "ok"}, {false, "basic", "h2", "ok"}}, []string{"ok", "silent"}, true},
		{"CONFIGURE@new", []genTask{{true, "direct", "h1", "ok"}, {false, "basic", "h2", "ok"}}, []string{"dies", "ok"}, false},
		// undeliverable: alone (fast), critical (fails anyway), non-critical with co-targets (their replies may be lost)
		{"START_ACTIVITY", []genTask{{true, "direct", "h1", "ok"}}, []string{"undeliv"}, false},
		{"START_ACTIVITY", []genTask{{false, "direct", "h1", "ok"}}, []string{"undeliv"}, false},
		{"RESET", []genTask{{true, "direct", "h1", "ok"}, {true, "direct", "h2", "ok"}}, []string{"undeliv", "ok"}, false},
		{"STOP_ACTIVITY", []genTask{{true, "direct", "h1", "ok"}, {false, "basic", "h2", "ok"}, {true, "fairmq", "h2", "ok"}}, []string{"ok", "undeliv", "ok"}, false},
		// the watcher race: a critical task reports ERROR at once while another keeps the command waiting
		{"START_ACTIVITY", []genTask{{true, "direct", "h1", "ok"}, {false, "direct", "h2", "ok"}}, []string{"err", "silent"}, false},
	}
	for i, f := range fixed {
		if i >= n {
			break
		}
		cs = append(cs, fw.Case{Input: at(f.pos, f.tasks, f.outs, f.tail), Tags: []string{"slow", f.pos}})
	}
	slow := []string{"silent", "dies", "undeliv"}
	for i := len(fixed); i < n; i++ {
		nt := r.Range(1, 4)
		tasks := randTasks(r, nt)
		outs := make([]string, nt)
		for j := range outs {
			outs[j] = "ok"
			if r.P(1, 4) {
				outs[j] = rng.Pick(r, fastOutcomes)
			}
		}
		outs[r.N(nt)] = rng.Pick(r, slow)
		pos := rng.Pick(r, positions[1:])
		cs = append(cs, fw.Case{Input: at(pos, tasks, outs, true), Tags: []string{"slow", pos}})
	}
	return cs
}

func randTasks(r *rng.R, n int) []genTask {
	tasks := make([]genTask, n)
	for i := range tasks {
		tasks[i] = genTask{crit: r.P(3, 5), mode: rng.Pick(r, modes), host: rng.Pick(r, hosts), launch: "ok"}
	}
	return tasks
}

// deployCases: what DEPLOY waits for.
func deployCases(r *rng.R, n int) []fw.Case {
	var cs []fw.Case
	add := func(calls int, tasks []genTask) {
		steps := [][]string{okStep("CONFIGURE", len(tasks)), okStep("START_ACTIVITY", len(tasks))}
		cs = append(cs, fw.Case{Input: build(calls, tasks, steps), Tags: []string{"deploy"}})
	}
	for _, l := range []string{"dies", "silent", "nohost"} {
		add(0, []genTask{{true, "direct", "h1", "ok"}, {false, "basic", "h2", l}})
		add(0, []genTask{{true, "direct", "h1", l}, {false, "basic", "h2", "ok"}})
	}
	add(0, nil)                                        // no role at all
	add(1, nil)                                        // call roles only: DEPLOY passes, CONFIGURE has nobody to talk to
	add(1, []genTask{{true, "direct", "h1", "ok"}})    // a call role next to a task
	add(0, []genTask{{false, "direct", "h1", "ok"}})   // only a non-critical task
	add(0, []genTask{{false, "direct", "h1", "dies"}}) // …which fails to start
	for len(cs) < n {
		nt := r.Range(1, 4)
		tasks := randTasks(r, nt)
		tasks[r.N(nt)].launch = rng.Pick(r, []string{"dies", "silent", "nohost"})
		add(r.N(2), tasks)
	}
	if len(cs) > n {
		cs = cs[:n]
	}
	return cs
}

// randomWalk: 1..4 tasks, a legal walk of up to maxSteps requests with fast outcomes and idle deaths of non-critical
// tasks; it ends at the first step in which a critical task is scripted to fail (the environment leaves the graph).
// When every task has died the walk goes on with commands that have no target (tag zero-target).
func randomWalk(r *rng.R, maxSteps int) fw.Case {
	nt := r.Range(1, 4)
	tasks := randTasks(r, nt)
	failP := r.Range(0, 3)
	var steps [][]string
	state := "DEPLOYED"
	alive := make([]bool, nt)
	for i := range alive {
		alive[i] = true
	}
	tags := []string{"walk", fmt.Sprintf("n=%d", nt)}
	ns := r.Range(1, maxSteps)
	zeroTagged := false
	for len(steps) < ns {
		if len(steps) > 0 && r.P(1, 8) {
			// idle death of some non-critical task
			s := []string{"DIE"}
			any := false
			for i := range tasks {
				if !tasks[i].crit && alive[i] && r.P(1, 2) {
					s = append(s, "dies")
					alive[i] = false
					any = true
				} else {
					s = append(s, "-")
				}
			}
			if any {
				steps = append(steps, s)
				continue
			}
		}
		ev := rng.Pick(r, nextEvents[state])
		if len(steps) == 0 {
			ev = "CONFIGURE"
		}
		s := []string{ev}
		critFail := false
		nAlive := 0
		for i := range tasks {
			o := "ok"
			if r.P(failP, 10) {
				o = rng.Pick(r, fastOutcomes[1:])
			}
			if alive[i] {
				nAlive++
				if o != "ok" && tasks[i].crit {
					critFail = true
				}
			}
			s = append(s, o)
		}
		steps = append(steps, s)
		if critFail {
			break // the model and the core both stop here: nothing more to learn from this world
		}
		if nAlive == 0 && !zeroTagged {
			// the walk goes on: commands to nobody succeed at once (the repaired zero-target behaviour)
			tags = append(tags, "zero-target")
			zeroTagged = true
		}
		state = map[string]string{"CONFIGURE": "CONFIGURED", "START_ACTIVITY": "RUNNING", "STOP_ACTIVITY": "CONFIGURED", "RESET": "DEPLOYED"}[ev]
	}
	return fw.Case{Input: build(0, tasks, steps), Tags: tags}
}

// repairedCases: inputs in the four corners that were repaired in /repo (notes/C02.fix-{1,2,3}.patch); they are always
// run, so that a return of one of the defects is a concrete failing input. (The single-target and failed-request corners
// are also covered by exhaustiveFast: n=1 non-critical, and every critical failure.)
func repairedCases() []fw.Case {
	nc := genTask{false, "direct", "h1", "ok"}
	mk := func(id string, calls int, tasks []genTask, steps ...[]string) fw.Case {
		return fw.Case{Input: build(calls, tasks, steps), Tags: []string{"repaired", "repaired:" + id}}
	}
	return []fw.Case{
		// nobody left to command: every transition of the cycle succeeds at once, CONFIGURE included
		mk("zero_targets_error", 0, []genTask{nc}, []string{"CONFIGURE", "ok"}, []string{"DIE", "dies"}, []string{"START_ACTIVITY", "-"},
			[]string{"STOP_ACTIVITY", "-"}, []string{"RESET", "-"}, []string{"CONFIGURE", "-"}, []string{"START_ACTIVITY", "-"}),
		mk("zero_targets_error", 0, []genTask{nc, {false, "basic", "h2", "ok"}}, []string{"CONFIGURE", "ok", "ok"}, []string{"START_ACTIVITY", "ok", "ok"},
			[]string{"DIE", "dies", "dies"}, []string{"STOP_ACTIVITY", "-", "-"}, []string{"RESET", "-", "-"}),
		mk("configure_nothing_hangs", 0, []genTask{nc}, []string{"CONFIGURE", "ok"}, []string{"START_ACTIVITY", "ok"}, []string{"STOP_ACTIVITY", "ok"},
			[]string{"RESET", "ok"}, []string{"DIE", "dies"}, []string{"CONFIGURE", "-"}, []string{"RESET", "-"}),
		// call roles only: NewEnvironment's CONFIGURE has nobody to talk to
		mk("configure_nothing_hangs", 2, nil, []string{"CONFIGURE"}, []string{"START_ACTIVITY"}, []string{"STOP_ACTIVITY"}, []string{"RESET"}, []string{"CONFIGURE"}),
		// a lone non-critical task that fails is only logged, at every position; the environment goes on
		mk("single_target_ignores_critical", 0, []genTask{nc}, []string{"CONFIGURE", "stay"}, []string{"START_ACTIVITY", "err"},
			[]string{"STOP_ACTIVITY", "stay"}, []string{"RESET", "err"}, []string{"CONFIGURE", "err"}),
		// one target left after an idle death, non-critical, fails
		mk("single_target_ignores_critical", 0, []genTask{nc, {false, "fairmq", "h2", "ok"}}, []string{"CONFIGURE", "ok", "ok"}, []string{"DIE", "-", "dies"},
			[]string{"START_ACTIVITY", "stay", "-"}, []string{"STOP_ACTIVITY", "ok", "-"}),
		// a failed request answers with an error status: single target, multi target
		mk("rpc_ok_on_failed_transition", 0, []genTask{{true, "direct", "h1", "ok"}, {false, "basic", "h1", "ok"}}, []string{"CONFIGURE", "ok", "ok"},
			[]string{"START_ACTIVITY", "err", "ok"}),
		mk("rpc_ok_on_failed_transition", 0, []genTask{{true, "basic", "h2", "ok"}}, []string{"CONFIGURE", "ok"}, []string{"START_ACTIVITY", "ok"},
			[]string{"STOP_ACTIVITY", "stay"}),
	}
}

func generate(tier string, r *rng.R) []fw.Case {
	nSlow, nDeploy, nWalk, maxSteps := 13, 11, 120, 6
	if tier == "thorough" {
		nSlow, nDeploy, nWalk, maxSteps = 70, 40, 1500, 9
	}
	var cs []fw.Case
	// slow ones first: they mostly sleep, the workers overlap them with everything else
	cs = append(cs, slowCases(r.Fork(), nSlow)...)
	cs = append(cs, deployCases(r.Fork(), nDeploy)...)
	cs = append(cs, repairedCases()...)
	cs = append(cs, exhaustiveFast()...)
	for i := 0; i < nWalk; i++ {
		cs = append(cs, randomWalk(r.Fork(), maxSteps))
	}
	return cs
}

// nontrivial: at least one task, and either two requests were answered or some scripted outcome is not `ok`.
func nontrivial(in, obs string) bool {
	sc, err := parseScenario(in)
	if err != nil || len(sc.tasks) == 0 {
		return false
	}
	o, err := sx.Parse(obs)
	if err != nil {
		return false
	}
	if o.Len() >= 2 {
		return true
	}
	for _, t := range sc.tasks {
		if t.launch != "ok" {
			return true
		}
	}
	for _, s := range sc.steps {
		for _, x := range s.outs {
			if x != "ok" && x != "-" {
				return true
			}
		}
	}
	return false
}

// shrink: drop the last step; drop one task (its column in every step).
func shrink(in string) []string {
	n, err := sx.Parse(in)
	if err != nil || n.Len() < 1 {
		return nil
	}
	var out []string
	if n.Len() > 2 {
		c := sx.L(n.List[:n.Len()-1]...)
		out = append(out, c.String())
	}
	wf := n.At(0)
	nt := wf.Len() - 2
	for k := 0; k < nt && nt > 1; k++ {
		w2 := sx.L(wf.List[:2]...)
		for i := 0; i < nt; i++ {
			if i != k {
				w2.Add(wf.At(2 + i))
			}
		}
		c := sx.L(w2)
		for s := 1; s < n.Len(); s++ {
			st := n.At(s)
			s2 := sx.L(st.At(0))
			for i := 0; i < nt; i++ {
				if i != k {
					s2.Add(st.At(1 + i))
				}
			}
			c.Add(s2)
		}
		out = append(out, c.String())
	}
	return out
}

func init() {
	fw.Register(&fw.Property{
		ID:       "C02",
		Generate: generate,
		RunImpl: func(in string) (string, error) {
			obs, err := runScenario(in)
			if err != nil {
				err = fmt.Errorf("%w [input %s]", err, in) // inconclusive either way; say which case
			}
			return obs, err
		},
		Nontrivial: nontrivial,
		Rule: "per case one simulated world (real core in a child process, simulated Mesos master/executors/Consul/git): " +
			"(a) 1..2 tasks x every critical mix x every assignment of {ok, error reply staying, error reply to ERROR} at each of 5 positions " +
			"(CONFIGURE inside NewEnvironment, START, STOP, RESET, CONFIGURE through ControlEnvironment) — exhaustive; " +
			"(b) random legal walks of up to 6 (thorough: 9) requests over 1..4 tasks on 1..2 hosts, modes direct/basic/fairmq, with idle deaths of non-critical tasks; " +
			"(c) DEPLOY cases (task dies at launch / stays staging / has no host, empty workflow, call roles only); " +
			"(d) a handful of cases with a silent / dying / unreachable task (each waits for the core's 90 s or 120 s response timeout); " +
			"(e) 8 fixed cases in the four repaired corners (commands with no target incl. CONFIGURE and a call-roles-only workflow, a lone non-critical task failing at every position, failed requests). " +
			"non-trivial = at least one task and (two answered requests or a scripted failure); distinct by input text",
		Shrink:  shrink,
		Workers: 40,
		TrustedBase: []string{
			"harness/sim: simulated Mesos master, agents, executors and tasks (scripted per command), Consul KV, git workflow repository; the core itself is the real one (core.RunForVerif in a child process, real gRPC API)",
			"harness/props/c02/run.go: request driver and observation (gRPC status, reply state, GetEnvironments afterwards, MESSAGE calls seen by the master)",
			"/repo/core/verif_hooks.go (core.RunForVerif) and the.SetEventWriterForVerif",
		},
		Assumptions: []string{
			"wall-clock: a task that never answers is observed through the core's own response timeout (90 s; CONFIGURE 120 s) and deploy_timeout (8 s here); 'never returns' is observed as 'no answer for 22 s while the core lists the transition as in progress' on a path without timers",
			"simulated executors stand in for o2-aliecs-executor (+ OCC/FairMQ tasks): they answer with the repository's own response types; fairmq-mode tasks are treated like direct ones",
			"after a failed MESSAGE call (undeliverable) replies of the other targets may or may not arrive (the scheduler client drops its subscription): the driver accepts either, each being an instance of the model with those targets silent",
			"who gets the transition mutex first after a failed slow transition (the environment's watcher or the RPC handler) decides the gRPC status: the driver accepts either where the model allows both",
		},
	})
}
