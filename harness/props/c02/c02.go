// Package c02: correspondence harness for property C02 — "a transition succeeds iff every critical task
// acknowledged it". The real core runs in a child process against the whole-core simulator (harness/sim);
// every case owns its world. Formats: see run.go.
package c02

import (
	"fmt"
	"strings"

	"verifharness/fw"
	"verifharness/rng"
	"verifharness/sx"
)

var fastOutcomes = []string{"ok", "stay", "err"}
var modes = []string{"direct", "basic", "fairmq"}
var hosts = []string{"h1", "h2"}

// legal successor events of an environment state
var nextEvents = map[string][]string{
	"CONFIGURED": {"START_ACTIVITY", "RESET"},
	"RUNNING":    {"STOP_ACTIVITY"},
	"DEPLOYED":   {"CONFIGURE"},
}

type genTask struct {
	crit   bool
	mode   string
	host   string
	launch string
}

func build(calls int, tasks []genTask, steps [][]string) string {
	wf := sx.L(sx.A("wf"), sx.I(calls))
	for _, t := range tasks {
		wf.Add(sx.L(sx.B(t.crit), sx.A(t.mode), sx.A(t.host), sx.A(t.launch)))
	}
	n := sx.L(wf)
	for _, s := range steps {
		l := sx.L()
		for _, a := range s {
			if strings.HasPrefix(a, "(") { // a loss mark: (xfail BASE WHEN UPD) / (afail …)
				l.Add(sx.MustParse(a))
			} else {
				l.Add(sx.A(a))
			}
		}
		n.Add(l)
	}
	return n.String()
}

func okStep(ev string, n int) []string {
	s := []string{ev}
	for i := 0; i < n; i++ {
		s = append(s, "ok")
	}
	return s
}

// path of all-ok steps that brings the environment to the point where `ev` can be requested for the k-th time
var pathTo = map[string][]string{
	"CONFIGURE@new":  {},
	"START_ACTIVITY": {"CONFIGURE"},
	"STOP_ACTIVITY":  {"CONFIGURE", "START_ACTIVITY"},
	"RESET":          {"CONFIGURE"},
	"CONFIGURE":      {"CONFIGURE", "RESET"},
}

var positions = []string{"CONFIGURE@new", "START_ACTIVITY", "STOP_ACTIVITY", "RESET", "CONFIGURE"}

// at builds: all-ok path to `pos`, then the step with the given outcomes, then `tail` all-ok steps if it can go on.
func at(pos string, tasks []genTask, outs []string, tail bool) string {
	var steps [][]string
	for _, ev := range pathTo[pos] {
		steps = append(steps, okStep(ev, len(tasks)))
	}
	ev := strings.TrimSuffix(pos, "@new")
	steps = append(steps, append([]string{ev}, outs...))
	if tail {
		st := map[string]string{"CONFIGURE": "CONFIGURED", "START_ACTIVITY": "RUNNING", "STOP_ACTIVITY": "CONFIGURED", "RESET": "DEPLOYED"}[ev]
		steps = append(steps, okStep(nextEvents[st][0], len(tasks)))
	}
	return build(0, tasks, steps)
}

// exhaustiveFast: 1..2 tasks x every critical mix x every assignment of {ok, stay, err} at each of the five positions.
func exhaustiveFast() []fw.Case {
	var cs []fw.Case
	for n := 1; n <= 2; n++ {
		for cm := 0; cm < 1<<n; cm++ {
			tasks := make([]genTask, n)
			for i := range tasks {
				tasks[i] = genTask{crit: cm>>i&1 == 1, mode: modes[(i+cm)%3], host: hosts[i%2], launch: "ok"}
			}
			total := 1
			for i := 0; i < n; i++ {
				total *= 3
			}
			for a := 0; a < total; a++ {
				outs := make([]string, n)
				x := a
				for i := range outs {
					outs[i] = fastOutcomes[x%3]
					x /= 3
				}
				for _, pos := range positions {
					cs = append(cs, fw.Case{Input: at(pos, tasks, outs, true), Tags: []string{"exhaustive-fast", "n=" + fmt.Sprint(n), pos}})
				}
			}
		}
	}
	return cs
}

// slowCases: one commanded task does not answer (silent / dies) or cannot be reached (undeliv); each costs the core's
// own response timeout (90 s, CONFIGURE 120 s) unless it is `undeliv` alone.
func slowCases(r *rng.R, n int) []fw.Case {
	var cs []fw.Case
	fixed := []struct {
		pos   string
		tasks []genTask
		outs  []string
		tail  bool
	}{
		// critical silent among others / non-critical silent among others
		{"START_ACTIVITY", []genTask{{true, "direct", "h1", "ok"}, {false, "basic", "h2", "ok"}}, []string{"silent", "ok"}, false},
		{"START_ACTIVITY", []genTask{{true, "direct", "h1", "ok"}, {false, "basic", "h2", "ok"}}, []string{"ok", "silent"}, true},
		{"STOP_ACTIVITY", []genTask{{true, "fairmq", "h1", "ok"}, {true, "direct", "h1", "ok"}, {false, "direct", "h2", "ok"}}, []string{"ok", "dies", "ok"}, false},
		{"RESET", []genTask{{true, "direct", "h1", "ok"}, {false, "direct", "h1", "ok"}}, []string{"ok", "dies"}, true},
		// alone
		{"START_ACTIVITY", []genTask{{false, "direct", "h1", "ok"}}, []string{"silent"}, false},
		{"STOP_ACTIVITY", []genTask{{true, "basic", "h2", "ok"}}, []string{"dies"}, false},
		// inside NewEnvironment (CONFIGURE: 120 s)
		{"CONFIGURE@new", []genTask{{true, "direct", "h1", "ok"}, {false, "basic", "h2", "ok"}}, []string{"ok", "silent"}, true},
		{"CONFIGURE@new", []genTask{{true, "direct", "h1", "ok"}, {false, "basic", "h2", "ok"}}, []string{"dies", "ok"}, false},
		// undeliverable: alone (fast), critical (fails anyway), non-critical with co-targets (their replies may be lost)
		{"START_ACTIVITY", []genTask{{true, "direct", "h1", "ok"}}, []string{"undeliv"}, false},
		{"START_ACTIVITY", []genTask{{false, "direct", "h1", "ok"}}, []string{"undeliv"}, false},
		{"RESET", []genTask{{true, "direct", "h1", "ok"}, {true, "direct", "h2", "ok"}}, []string{"undeliv", "ok"}, false},
		{"STOP_ACTIVITY", []genTask{{true, "direct", "h1", "ok"}, {false, "basic", "h2", "ok"}, {true, "fairmq", "h2", "ok"}}, []string{"ok", "undeliv", "ok"}, false},
		// the watcher race: a critical task reports ERROR at once while another keeps the command waiting
		{"START_ACTIVITY", []genTask{{true, "direct", "h1", "ok"}, {false, "direct", "h2", "ok"}}, []string{"err", "silent"}, false},
	}
	for i, f := range fixed {
		if i >= n {
			break
		}
		cs = append(cs, fw.Case{Input: at(f.pos, f.tasks, f.outs, f.tail), Tags: []string{"slow", f.pos}})
	}
	slow := []string{"silent", "dies", "undeliv"}
	for i := len(fixed); i < n; i++ {
		nt := r.Range(1, 4)
		tasks := randTasks(r, nt)
		outs := make([]string, nt)
		for j := range outs {
			outs[j] = "ok"
			if r.P(1, 4) {
				outs[j] = rng.Pick(r, fastOutcomes)
			}
		}
		outs[r.N(nt)] = rng.Pick(r, slow)
		pos := rng.Pick(r, positions[1:])
		cs = append(cs, fw.Case{Input: at(pos, tasks, outs, true), Tags: []string{"slow", pos}})
	}
	return cs
}

// ---- WHEN the answer comes: delayed answers around the time-out the transition gives its targets -----------------------

// The core's numbers, for choosing delays and for the tags only (the harness takes no verdict from them): the default
// response time-out and the one configureTasks puts on the CONFIGURE command.
const (
	defaultTimeoutS   = 90
	configureTimeoutS = 120
)

func lateStr(base string, seconds int) string { return fmt.Sprintf("(late %s %d)", base, seconds*1000) }

// lateCase: all-ok path to `pos`, then the request in which task `who` does `base` after `seconds` s (the others as in
// outs). It is the last step: the case is over when the request is answered, after min(seconds, time-out) s.
func lateCase(pos string, tasks []genTask, outs []string, who []int, base []string, seconds []int, extra ...string) fw.Case {
	outs = append([]string(nil), outs...)
	ev := strings.TrimSuffix(pos, "@new")
	allowed := defaultTimeoutS
	if ev == "CONFIGURE" {
		allowed = configureTimeoutS
	}
	tags := []string{"late", "slow", "late:" + pos}
	for k, i := range who {
		outs[i] = lateStr(base[k], seconds[k])
		if seconds[k] < allowed {
			tags = append(tags, "late:inside")
		} else {
			tags = append(tags, "late:outside")
		}
		if seconds[k] > defaultTimeoutS && seconds[k] < configureTimeoutS {
			tags = append(tags, "late:between-default-and-configure")
		}
		if tasks[i].crit {
			tags = append(tags, "late:critical")
		} else {
			tags = append(tags, "late:noncritical")
		}
		tags = append(tags, "late:"+base[k])
	}
	return fw.Case{Input: at(pos, tasks, outs, false), Tags: append(tags, extra...)}
}

// lateCases: answers just inside and just outside the time each kind of transition allows (at least 8 s away from either
// time-out: nearer, the reply and the core's timer race and the harness declares the run inconclusive). Every one sleeps
// for the delay or for the core's time-out, whichever is shorter: they belong to the first block of `generate`.
func lateCases(r *rng.R, n int) []fw.Case {
	c := func(crit bool, mode, host string) genTask { return genTask{crit, mode, host, "ok"} }
	two := []genTask{c(true, "direct", "h1"), c(false, "basic", "h2")}
	one := func(i int, b string, s int) ([]int, []string, []int) { return []int{i}, []string{b}, []int{s} }
	var cs []fw.Case
	add := func(pos string, tasks []genTask, outs []string, who []int, base []string, seconds []int) {
		cs = append(cs, lateCase(pos, tasks, outs, who, base, seconds, "late-fixed"))
	}
	{
		// CONFIGURE inside NewEnvironment: the critical task needs 100 s — more than the default, within CONFIGURE's 120 s
		w, b, s := one(0, "ok", 100)
		add("CONFIGURE@new", two, []string{"ok", "ok"}, w, b, s)
		// …and 130 s: too late even for CONFIGURE
		w, b, s = one(0, "ok", 130)
		add("CONFIGURE@new", two, []string{"ok", "ok"}, w, b, s)
		// START: 80 s is in time, 100 s is not (what CONFIGURE allows, START does not)
		w, b, s = one(0, "ok", 80)
		add("START_ACTIVITY", two, []string{"ok", "ok"}, w, b, s)
		w, b, s = one(0, "ok", 100)
		add("START_ACTIVITY", two, []string{"ok", "ok"}, w, b, s)
		// CONFIGURE through ControlEnvironment, two critical tasks on one host, both between the two time-outs
		add("CONFIGURE", []genTask{c(true, "fairmq", "h1"), c(true, "direct", "h1"), c(false, "basic", "h2")}, []string{"ok", "ok", "ok"},
			[]int{0, 1}, []string{"ok", "ok"}, []int{98, 110})
		// STOP: a NON-critical task is too late — the core waits its 90 s and goes on without it
		w, b, s = one(1, "stay", 100)
		add("STOP_ACTIVITY", two, []string{"ok", "ok"}, w, b, s)
		// RESET to a single critical task (single-response branch) that is too late
		w, b, s = one(0, "ok", 98)
		add("RESET", []genTask{c(true, "basic", "h2")}, []string{"ok"}, w, b, s)
		// an ERROR reply of a non-critical task that comes in time for CONFIGURE (and would not for anything else)
		w, b, s = one(1, "err", 105)
		add("CONFIGURE", two, []string{"ok", "ok"}, w, b, s)
		// a critical task's error reply just in time: the request fails when the reply comes, not at the time-out
		w, b, s = one(0, "stay", 82)
		add("START_ACTIVITY", two, []string{"ok", "ok"}, w, b, s)
	}
	if len(cs) > n {
		cs = cs[:n]
	}
	for len(cs) < n {
		cs = append(cs, randomLate(r.Fork()))
	}
	return cs
}

// randomLate: 1..3 tasks, one of them answers late at a random position; the delay is taken from the three bands around the
// two time-outs (below the default, between the two, above CONFIGURE's), 8 s clear of both.
func randomLate(r *rng.R) fw.Case {
	nt := r.Range(1, 3)
	tasks := randTasks(r, nt)
	outs := make([]string, nt)
	for i := range outs {
		outs[i] = "ok"
		if r.P(1, 5) {
			outs[i] = rng.Pick(r, fastOutcomes)
		}
	}
	who := r.N(nt)
	var d int
	switch r.N(4) {
	case 0:
		d = r.Range(70, defaultTimeoutS-8)
	case 1, 2:
		d = r.Range(defaultTimeoutS+8, configureTimeoutS-8)
	default:
		d = r.Range(configureTimeoutS+8, configureTimeoutS+15)
	}
	return lateCase(rng.Pick(r, positions), tasks, outs, []int{who}, []string{rng.Pick(r, fastOutcomes)}, []int{d}, "late-random")
}

// ---- executor / agent loss while a command is outstanding -------------------------------------------------------

func lossMarkStr(agent bool, base, when string, upd bool) string {
	k := "xfail"
	if agent {
		k = "afail"
	}
	u := "0"
	if upd {
		u = "1"
	}
	return fmt.Sprintf("(%s %s %s %s)", k, base, when, u)
}

var lossPositions = []string{"START_ACTIVITY", "STOP_ACTIVITY", "RESET", "CONFIGURE"}

// lossCase: all-ok path to `pos`, then the request during which the executor / agent of task `vic` is lost, then (if the
// environment can go on: no critical task is hit and none fails) `tail` further all-ok requests.
func lossCase(pos string, tasks []genTask, outs []string, vic int, agent bool, when string, upd bool, tail int, extra ...string) fw.Case {
	var steps [][]string
	for _, ev := range pathTo[pos] {
		steps = append(steps, okStep(ev, len(tasks)))
	}
	st := append([]string{pos}, outs...)
	st[1+vic] = lossMarkStr(agent, outs[vic], when, upd)
	steps = append(steps, st)
	tags := []string{"loss", "loss:" + pos, "loss:" + when}
	if agent {
		tags = append(tags, "loss:agent")
	} else {
		tags = append(tags, "loss:executor")
	}
	if upd {
		tags = append(tags, "loss:with-update")
	} else {
		tags = append(tags, "loss:no-update")
	}
	critHit, collateral, goesOn, silenced := false, false, true, false
	for i, t := range tasks {
		hit := t.host == tasks[vic].host
		if hit && i != vic {
			collateral = true
		}
		eff := outs[i]
		if hit && (eff == "silent" || (i == vic && when == "before")) {
			eff = "silent"
			silenced = true
		}
		if hit && t.crit {
			critHit = true
		}
		if t.crit && eff != "ok" {
			goesOn = false
		}
		if !hit && eff == "silent" {
			silenced = true
		}
	}
	if critHit {
		tags = append(tags, "loss:critical")
		goesOn = false
	} else {
		tags = append(tags, "loss:noncritical")
	}
	if collateral {
		tags = append(tags, "loss:collateral")
	}
	if silenced {
		tags = append(tags, "slow", "loss:silenced")
	}
	tags = append(tags, extra...)
	if goesOn {
		state := map[string]string{"CONFIGURE": "CONFIGURED", "START_ACTIVITY": "RUNNING", "STOP_ACTIVITY": "CONFIGURED", "RESET": "DEPLOYED"}[pos]
		for k := 0; k < tail; k++ {
			ev := nextEvents[state][0]
			steps = append(steps, okStep(ev, len(tasks)))
			state = map[string]string{"CONFIGURE": "CONFIGURED", "START_ACTIVITY": "RUNNING", "STOP_ACTIVITY": "CONFIGURED", "RESET": "DEPLOYED"}[ev]
		}
	}
	return fw.Case{Input: build(0, tasks, steps), Tags: tags}
}

// lossGrid: two tasks on two hosts (the other one keeps the command outstanding) x every critical mix x the victim's
// reply in {ok, error staying, error to ERROR} x the four positions; executor / agent and with / without the terminal
// status update: all four combinations per cell if `full`, otherwise cycling through them.
func lossGrid(full bool) []fw.Case {
	var cs []fw.Case
	k := 0
	for cm := 0; cm < 4; cm++ {
		for b, base := range fastOutcomes {
			for pi, pos := range lossPositions {
				tasks := []genTask{{cm&1 == 1, modes[(cm+b)%3], "h1", "ok"}, {cm&2 == 2, modes[(cm+pi)%3], "h2", "ok"}}
				for v := 0; v < 4; v++ {
					if !full && v != k%4 {
						continue
					}
					cs = append(cs, lossCase(pos, tasks, []string{base, "ok"}, 0, v&1 == 1, "after", v&2 == 2, 2, "loss-grid"))
				}
				k++
			}
		}
	}
	return cs
}

// lossFixed: shapes the grid does not have. The first `nSlow` slow ones (a victim's reply never leaves, or a victim
// that never answers keeps the command outstanding all by itself: each waits for the core's 90 s response time-out)
// are returned separately: they are started first.
func lossFixed() (slow, fast []fw.Case) {
	c := func(crit bool, mode, host string) genTask { return genTask{crit, mode, host, "ok"} }
	slow = []fw.Case{
		// the critical task's reply never leaves (its executor is gone first): the request fails at the time-out
		lossCase("START_ACTIVITY", []genTask{c(true, "direct", "h1"), c(false, "basic", "h2")}, []string{"ok", "ok"}, 0, false, "before", false, 0),
		// the same of a non-critical task: only logged, the environment goes on without it
		lossCase("STOP_ACTIVITY", []genTask{c(true, "direct", "h1"), c(false, "fairmq", "h2")}, []string{"ok", "ok"}, 1, true, "before", true, 2),
		// one host, no other target: the critical victim never answers and keeps the command outstanding by itself,
		// its non-critical neighbour on the same executor answers with an error before both are lost
		lossCase("START_ACTIVITY", []genTask{c(true, "direct", "h1"), c(false, "direct", "h1")}, []string{"silent", "err"}, 0, false, "after", true, 0),
	}
	fast = []fw.Case{
		// neighbours on the lost executor: the critical one had answered with an error / had acknowledged
		lossCase("START_ACTIVITY", []genTask{c(false, "direct", "h1"), c(true, "basic", "h1"), c(false, "direct", "h2")}, []string{"ok", "stay", "ok"}, 0, false, "after", false, 0),
		lossCase("RESET", []genTask{c(false, "direct", "h1"), c(true, "basic", "h1"), c(true, "direct", "h2")}, []string{"err", "ok", "ok"}, 0, true, "after", true, 0),
		// two non-critical tasks lost together, both having failed: only logged; the later commands go to the rest
		lossCase("START_ACTIVITY", []genTask{c(false, "fairmq", "h2"), c(true, "direct", "h1"), c(false, "basic", "h2")}, []string{"err", "ok", "stay"}, 2, false, "after", true, 3),
		lossCase("CONFIGURE", []genTask{c(true, "direct", "h1"), c(false, "basic", "h2"), c(true, "fairmq", "h1")}, []string{"ok", "err", "ok"}, 1, true, "after", false, 3),
		// the lost task fails, and so does a critical task elsewhere
		lossCase("STOP_ACTIVITY", []genTask{c(false, "direct", "h1"), c(true, "basic", "h2")}, []string{"stay", "err"}, 0, false, "after", false, 0),
		// four tasks, two critical ones of which the lost one failed
		lossCase("START_ACTIVITY", []genTask{c(true, "direct", "h1"), c(true, "fairmq", "h2"), c(false, "basic", "h2"), c(false, "direct", "h1")}, []string{"ok", "err", "ok", "stay"}, 1, true, "after", true, 0),
	}
	return
}

// randomLoss: 2..4 tasks on two hosts, one request with a loss at a random position; at least one target on the other
// host (it keeps the command outstanding) unless the case is allowed to be slow.
func randomLoss(r *rng.R, allowSlow bool) fw.Case {
	for {
		nt := r.Range(2, 4)
		tasks := randTasks(r, nt)
		vic := r.N(nt)
		other := false
		for i := range tasks {
			if tasks[i].host != tasks[vic].host {
				other = true
			}
		}
		when := "after"
		outs := make([]string, nt)
		for i := range outs {
			outs[i] = "ok"
			if r.P(2, 5) {
				outs[i] = rng.Pick(r, fastOutcomes)
			}
		}
		if allowSlow {
			if r.P(1, 2) {
				when = "before"
			} else {
				outs[vic] = "silent"
			}
		} else if !other {
			continue
		}
		return lossCase(rng.Pick(r, lossPositions), tasks, outs, vic, r.Bool(), when, r.Bool(), r.Range(1, 3), "loss-random")
	}
}

func randTasks(r *rng.R, n int) []genTask {
	tasks := make([]genTask, n)
	for i := range tasks {
		tasks[i] = genTask{crit: r.P(3, 5), mode: rng.Pick(r, modes), host: rng.Pick(r, hosts), launch: "ok"}
	}
	return tasks
}

// deployCases: what DEPLOY waits for.
func deployCases(r *rng.R, n int) []fw.Case {
	var cs []fw.Case
	add := func(calls int, tasks []genTask) {
		steps := [][]string{okStep("CONFIGURE", len(tasks)), okStep("START_ACTIVITY", len(tasks))}
		cs = append(cs, fw.Case{Input: build(calls, tasks, steps), Tags: []string{"deploy"}})
	}
	for _, l := range []string{"dies", "silent", "nohost"} {
		add(0, []genTask{{true, "direct", "h1", "ok"}, {false, "basic", "h2", l}})
		add(0, []genTask{{true, "direct", "h1", l}, {false, "basic", "h2", "ok"}})
	}
	add(0, nil)                                        // no role at all
	add(1, nil)                                        // call roles only: DEPLOY passes, CONFIGURE has nobody to talk to
	add(1, []genTask{{true, "direct", "h1", "ok"}})    // a call role next to a task
	add(0, []genTask{{false, "direct", "h1", "ok"}})   // only a non-critical task
	add(0, []genTask{{false, "direct", "h1", "dies"}}) // …which fails to start
	for len(cs) < n {
		nt := r.Range(1, 4)
		tasks := randTasks(r, nt)
		tasks[r.N(nt)].launch = rng.Pick(r, []string{"dies", "silent", "nohost"})
		add(r.N(2), tasks)
	}
	if len(cs) > n {
		cs = cs[:n]
	}
	return cs
}

// ---- offers that come late: the deployment attempts of DEPLOY ----------------------------------------------------------

// offersStr: `(offers (h…) (h…) …)`, one list per offers round with the hosts whose offer is missing from it.
func offersStr(rounds [][]string) string {
	n := sx.L(sx.A("offers"))
	for _, r := range rounds {
		n.Add(sx.Strs(r))
	}
	return n.String()
}

// buildOffers: as build, with the `offers` element after the workflow.
func buildOffers(calls int, tasks []genTask, rounds [][]string, steps [][]string) string {
	n := sx.MustParse(build(calls, tasks, steps))
	out := sx.L(n.At(0), sx.MustParse(offersStr(rounds)))
	out.Add(n.List[1:]...)
	return out.String()
}

const attemptLimit = 3 // MAX_ATTEMPTS_PER_DEPLOY_REQUEST, for the tags only

// offerTags says, from the input alone, which class the case is in: which attempt decides and how.
func offerTags(tasks []genTask, rounds [][]string, extra ...string) []string {
	tags := append([]string{"offers"}, extra...)
	missing := func(i int, t genTask) bool {
		if t.launch == "nohost" {
			return true
		}
		if i < len(rounds) {
			for _, h := range rounds[i] {
				if h == t.host {
					return true
				}
			}
		}
		return false
	}
	for i := 0; i < attemptLimit; i++ {
		crit, any := false, false
		for _, t := range tasks {
			if missing(i, t) {
				any = true
				crit = crit || t.crit
			}
		}
		if crit {
			continue
		}
		switch {
		case any:
			tags = append(tags, "offers:noncritical-missing", fmt.Sprintf("offers:decided-at=%d", i+1))
		case i == 0:
			tags = append(tags, "offers:first-attempt-complete")
		default:
			tags = append(tags, "offers:retry-succeeds", fmt.Sprintf("offers:decided-at=%d", i+1))
		}
		return tags
	}
	return append(tags, "offers:exhausted")
}

func offerCase(calls int, tasks []genTask, rounds [][]string, steps [][]string, extra ...string) fw.Case {
	return fw.Case{Input: buildOffers(calls, tasks, rounds, steps), Tags: offerTags(tasks, rounds, extra...)}
}

// lateBy: the offers of h1 / h2 are missing from the first k1 / k2 rounds.
func lateBy(k1, k2 int) [][]string {
	var rounds [][]string
	for i := 0; i < k1 || i < k2; i++ {
		var r []string
		if i < k1 {
			r = append(r, "h1")
		}
		if i < k2 {
			r = append(r, "h2")
		}
		rounds = append(rounds, r)
	}
	return rounds
}

// offerGrid: two tasks on two hosts x every critical mix x the offer of each host late by 0..3 rounds (3 = the attempt
// limit: never within it), followed by CONFIGURE and START to see that the environment is whole.
func offerGrid() []fw.Case {
	var cs []fw.Case
	for cm := 0; cm < 4; cm++ {
		for k1 := 0; k1 <= attemptLimit; k1++ {
			for k2 := 0; k2 <= attemptLimit; k2++ {
				tasks := []genTask{{cm&1 == 1, modes[(cm+k1)%3], "h1", "ok"}, {cm&2 == 2, modes[(cm+k2)%3], "h2", "ok"}}
				steps := [][]string{okStep("CONFIGURE", 2), okStep("START_ACTIVITY", 2)}
				cs = append(cs, offerCase(0, tasks, lateBy(k1, k2), steps, "offers-grid"))
			}
		}
	}
	return cs
}

// offerFixed: shapes the grid does not have.
func offerFixed() []fw.Case {
	c := func(crit bool, mode, host, launch string) genTask { return genTask{crit, mode, host, launch} }
	two := [][]string{okStep("CONFIGURE", 2), okStep("START_ACTIVITY", 2), okStep("STOP_ACTIVITY", 2)}
	three := [][]string{okStep("CONFIGURE", 3), okStep("START_ACTIVITY", 3)}
	return []fw.Case{
		// the machines of two critical tasks are missing in turn: only the third round has both
		offerCase(0, []genTask{c(true, "direct", "h1", "ok"), c(true, "basic", "h2", "ok")}, [][]string{{"h1"}, {"h2"}}, two, "offers-fixed"),
		// …and in turn for ever: never both within the limit
		offerCase(0, []genTask{c(true, "direct", "h1", "ok"), c(true, "basic", "h2", "ok")}, [][]string{{"h1"}, {"h2"}, {"h1"}, {}}, two, "offers-fixed"),
		// a later round lacks the machine again: nobody asks any more, the first attempt was complete
		offerCase(0, []genTask{c(true, "direct", "h1", "ok"), c(false, "basic", "h2", "ok")}, [][]string{{}, {"h1"}, {"h1"}}, two, "offers-fixed"),
		// every machine missing for two rounds (only the spare host is offered)
		offerCase(0, []genTask{c(true, "fairmq", "h1", "ok"), c(true, "direct", "h2", "ok")}, [][]string{{"h1", "h2"}, {"h1", "h2"}}, two, "offers-fixed"),
		// three tasks on the late host, one elsewhere; a call role next to them
		offerCase(1, []genTask{c(true, "direct", "h1", "ok"), c(false, "basic", "h1", "ok"), c(true, "direct", "h2", "ok")}, [][]string{{"h1"}}, three, "offers-fixed"),
		// the critical task comes late and then dies at launch / never leaves staging
		offerCase(0, []genTask{c(true, "direct", "h1", "dies"), c(false, "basic", "h2", "ok")}, [][]string{{"h1"}}, two[:1], "offers-fixed"),
		offerCase(0, []genTask{c(true, "direct", "h1", "silent"), c(false, "basic", "h2", "ok")}, [][]string{{"h1"}, {"h1"}}, two[:1], "offers-fixed"),
		// a non-critical role on a machine that no agent has, next to a critical task that comes late
		offerCase(0, []genTask{c(true, "direct", "h1", "ok"), c(false, "basic", "h2", "nohost")}, [][]string{{"h1"}}, two[:1], "offers-fixed"),
		// a critical role on a machine that no agent has: three attempts whatever is offered
		offerCase(0, []genTask{c(true, "direct", "h1", "nohost"), c(false, "basic", "h2", "ok")}, nil, two[:1], "offers-fixed"),
		// the non-critical task's machine comes one round after the critical task's: the loop does not wait for it
		offerCase(0, []genTask{c(true, "direct", "h1", "ok"), c(false, "basic", "h2", "ok")}, [][]string{{"h1", "h2"}, {"h2"}}, two, "offers-fixed"),
		// only non-critical tasks, one of them late
		offerCase(0, []genTask{c(false, "direct", "h1", "ok"), c(false, "basic", "h2", "ok")}, [][]string{{"h2"}}, two, "offers-fixed"),
		// late, and then a request fails in the usual way
		offerCase(0, []genTask{c(true, "direct", "h1", "ok"), c(false, "basic", "h2", "ok")}, [][]string{{"h1"}, {"h1"}},
			[][]string{okStep("CONFIGURE", 2), {"START_ACTIVITY", "stay", "ok"}}, "offers-fixed"),
	}
}

// randomOffers: 1..4 tasks on two hosts, 0..4 rounds from each of which each host is missing with probability 2/5 (any
// pattern, not only "late by k"), now and then a task that does not come up, then a short walk.
func randomOffers(r *rng.R) fw.Case {
	nt := r.Range(1, 4)
	tasks := randTasks(r, nt)
	if r.P(1, 6) {
		tasks[r.N(nt)].launch = rng.Pick(r, []string{"dies", "silent", "nohost"})
	}
	var rounds [][]string
	for i, n := 0, r.Range(0, 4); i < n; i++ {
		rd := []string{}
		for _, h := range hosts {
			if r.P(2, 5) {
				rd = append(rd, h)
			}
		}
		rounds = append(rounds, rd)
	}
	conf := []string{"CONFIGURE"}
	for range tasks {
		o := "ok"
		if r.P(1, 8) {
			o = rng.Pick(r, fastOutcomes[1:])
		}
		conf = append(conf, o)
	}
	steps := [][]string{conf}
	for _, ev := range [][]string{{"START_ACTIVITY"}, {"START_ACTIVITY", "STOP_ACTIVITY"}, {"RESET", "CONFIGURE"}}[r.N(3)] {
		steps = append(steps, okStep(ev, nt))
	}
	return offerCase(r.N(2), tasks, rounds, steps, "offers-random")
}

// randomWalk: 1..4 tasks, a legal walk of up to maxSteps requests with fast outcomes and idle deaths of non-critical
// tasks; it ends at the first step in which a critical task is scripted to fail (the environment leaves the graph).
// When every task has died the walk goes on with commands that have no target (tag zero-target).
func randomWalk(r *rng.R, maxSteps int) fw.Case {
	nt := r.Range(1, 4)
	tasks := randTasks(r, nt)
	failP := r.Range(0, 3)
	var steps [][]string
	state := "DEPLOYED"
	alive := make([]bool, nt)
	for i := range alive {
		alive[i] = true
	}
	tags := []string{"walk", fmt.Sprintf("n=%d", nt)}
	ns := r.Range(1, maxSteps)
	zeroTagged := false
	for len(steps) < ns {
		if len(steps) > 0 && r.P(1, 8) {
			// idle death of some non-critical task
			s := []string{"DIE"}
			any := false
			for i := range tasks {
				if !tasks[i].crit && alive[i] && r.P(1, 2) {
					s = append(s, "dies")
					alive[i] = false
					any = true
				} else {
					s = append(s, "-")
				}
			}
			if any {
				steps = append(steps, s)
				continue
			}
		}
		ev := rng.Pick(r, nextEvents[state])
		if len(steps) == 0 {
			ev = "CONFIGURE"
		}
		s := []string{ev}
		critFail := false
		nAlive := 0
		for i := range tasks {
			o := "ok"
			if r.P(failP, 10) {
				o = rng.Pick(r, fastOutcomes[1:])
			}
			if alive[i] {
				nAlive++
				if o != "ok" && tasks[i].crit {
					critFail = true
				}
			}
			s = append(s, o)
		}
		steps = append(steps, s)
		if critFail {
			break // the model and the core both stop here: nothing more to learn from this world
		}
		if nAlive == 0 && !zeroTagged {
			// the walk goes on: commands to nobody succeed at once (the repaired zero-target behaviour)
			tags = append(tags, "zero-target")
			zeroTagged = true
		}
		state = map[string]string{"CONFIGURE": "CONFIGURED", "START_ACTIVITY": "RUNNING", "STOP_ACTIVITY": "CONFIGURED", "RESET": "DEPLOYED"}[ev]
	}
	return fw.Case{Input: build(0, tasks, steps), Tags: tags}
}

// repairedCases: inputs in the corners that were repaired in /repo (notes/C02.fix-{1,2,3,4,5,6}.patch); they are always
// run, so that a return of one of the defects is a concrete failing input. (The single-target and failed-request corners
// are also covered by exhaustiveFast: n=1 non-critical, and every critical failure.)
func repairedCases() []fw.Case {
	nc := genTask{false, "direct", "h1", "ok"}
	mk := func(id string, calls int, tasks []genTask, steps ...[]string) fw.Case {
		return fw.Case{Input: build(calls, tasks, steps), Tags: []string{"repaired", "repaired:" + id}}
	}
	mkO := func(id string, tasks []genTask, rounds [][]string, steps ...[]string) fw.Case {
		return fw.Case{Input: buildOffers(0, tasks, rounds, steps), Tags: append(offerTags(tasks, rounds), "repaired", "repaired:"+id)}
	}
	return []fw.Case{
		// nobody left to command: every transition of the cycle succeeds at once, CONFIGURE included
		mk("zero_targets_error", 0, []genTask{nc}, []string{"CONFIGURE", "ok"}, []string{"DIE", "dies"}, []string{"START_ACTIVITY", "-"},
			[]string{"STOP_ACTIVITY", "-"}, []string{"RESET", "-"}, []string{"CONFIGURE", "-"}, []string{"START_ACTIVITY", "-"}),
		mk("zero_targets_error", 0, []genTask{nc, {false, "basic", "h2", "ok"}}, []string{"CONFIGURE", "ok", "ok"}, []string{"START_ACTIVITY", "ok", "ok"},
			[]string{"DIE", "dies", "dies"}, []string{"STOP_ACTIVITY", "-", "-"}, []string{"RESET", "-", "-"}),
		mk("configure_nothing_hangs", 0, []genTask{nc}, []string{"CONFIGURE", "ok"}, []string{"START_ACTIVITY", "ok"}, []string{"STOP_ACTIVITY", "ok"},
			[]string{"RESET", "ok"}, []string{"DIE", "dies"}, []string{"CONFIGURE", "-"}, []string{"RESET", "-"}),
		// call roles only: NewEnvironment's CONFIGURE has nobody to talk to
		mk("configure_nothing_hangs", 2, nil, []string{"CONFIGURE"}, []string{"START_ACTIVITY"}, []string{"STOP_ACTIVITY"}, []string{"RESET"}, []string{"CONFIGURE"}),
		// a lone non-critical task that fails is only logged, at every position; the environment goes on
		mk("single_target_ignores_critical", 0, []genTask{nc}, []string{"CONFIGURE", "stay"}, []string{"START_ACTIVITY", "err"},
			[]string{"STOP_ACTIVITY", "stay"}, []string{"RESET", "err"}, []string{"CONFIGURE", "err"}),
		// one target left after an idle death, non-critical, fails
		mk("single_target_ignores_critical", 0, []genTask{nc, {false, "fairmq", "h2", "ok"}}, []string{"CONFIGURE", "ok", "ok"}, []string{"DIE", "-", "dies"},
			[]string{"START_ACTIVITY", "stay", "-"}, []string{"STOP_ACTIVITY", "ok", "-"}),
		// a failed request answers with an error status: single target, multi target
		mk("rpc_ok_on_failed_transition", 0, []genTask{{true, "direct", "h1", "ok"}, {false, "basic", "h1", "ok"}}, []string{"CONFIGURE", "ok", "ok"},
			[]string{"START_ACTIVITY", "err", "ok"}),
		mk("rpc_ok_on_failed_transition", 0, []genTask{{true, "basic", "h2", "ok"}}, []string{"CONFIGURE", "ok"}, []string{"START_ACTIVITY", "ok"},
			[]string{"STOP_ACTIVITY", "stay"}),
		// the verdict of an offers round that is over before acquireTasks listens (an abandoned round is over at once) is
		// kept in the channel (notes/C02.fix-4.patch): the witness of the former finding deploy_verdict_lost — two abandoned
		// rounds, the third one complete — and a single abandoned round with both tasks critical
		mkO("deploy_verdict_lost", []genTask{{true, "direct", "h1", "ok"}, {false, "basic", "h2", "ok"}}, [][]string{{"h1"}, {"h1"}},
			okStep("CONFIGURE", 2), okStep("START_ACTIVITY", 2)),
		mkO("deploy_verdict_lost", []genTask{{true, "direct", "h1", "ok"}, {true, "fairmq", "h2", "ok"}}, [][]string{{"h2"}},
			okStep("CONFIGURE", 2), okStep("START_ACTIVITY", 2), okStep("STOP_ACTIVITY", 2)),
		// a workflow without a role (e.g. every role disabled): nothing to deploy, nothing to command — NewEnvironment and the
		// whole cycle succeed at once (notes/C02.fix-6.patch); the first is the witness of the former finding
		mk("deploy_empty_workflow", 0, nil),
		mk("deploy_empty_workflow", 0, nil, []string{"CONFIGURE"}, []string{"START_ACTIVITY"}, []string{"STOP_ACTIVITY"}, []string{"RESET"}, []string{"CONFIGURE"}),
		// "the root is ACTIVE" cannot be missed by the DEPLOY loop (notes/C02.fix-5.patch). Many roles becoming ACTIVE at
		// about the same time: call roles are set ACTIVE by a goroutine each, tasks by the scheduler's event loop — six call
		// roles next to two tasks, eight call roles alone, and the witness of deploy_misses_active (four tasks)
		mk("deploy_notification_lost", 6, []genTask{{true, "direct", "h1", "ok"}, {false, "basic", "h2", "ok"}}, okStep("CONFIGURE", 2), okStep("START_ACTIVITY", 2)),
		mk("deploy_notification_lost", 8, nil, []string{"CONFIGURE"}, []string{"START_ACTIVITY"}),
		mk("deploy_notification_lost", 0, []genTask{{true, "direct", "h2", "ok"}, {false, "direct", "h2", "ok"}, {true, "fairmq", "h2", "ok"}, {true, "direct", "h1", "ok"}},
			okStep("CONFIGURE", 4), okStep("RESET", 4)),
	}
}

func generate(tier string, r *rng.R) []fw.Case {
	nSlow, nDeploy, nWalk, maxSteps, nLoss, nLossSlow, nOffers, nLate := 13, 11, 120, 6, 30, 0, 36, 12
	if tier == "thorough" {
		nSlow, nDeploy, nWalk, maxSteps, nLoss, nLossSlow, nOffers, nLate = 70, 40, 1500, 9, 300, 20, 400, 40
	}
	var cs []fw.Case
	// slow ones first: they mostly sleep, the workers overlap them with everything else. EVERY case that runs into one
	// of the core's response time-outs (90 s, CONFIGURE 120 s) must be in this first block: one of them started late
	// is what the wall time of the whole run becomes.
	cs = append(cs, slowCases(r.Fork(), nSlow)...)
	lossSlow, lossFast := lossFixed()
	cs = append(cs, lossSlow...)
	lateAt := len(cs) // the cases with answers that come late go here (see the end)
	rl := r.Fork()
	for i := 0; i < nLossSlow; i++ {
		cs = append(cs, randomLoss(rl.Fork(), true))
	}
	cs = append(cs, deployCases(r.Fork(), nDeploy)...)
	// offers that come late: at most the attempt limit's pauses (1 s each) plus, where DEPLOY cannot succeed, deploy_timeout
	cs = append(cs, offerFixed()...)
	cs = append(cs, offerGrid()...)
	ro := r.Fork()
	for i := 0; i < nOffers; i++ {
		cs = append(cs, randomOffers(ro.Fork()))
	}
	cs = append(cs, repairedCases()...)
	cs = append(cs, lossFast...)
	cs = append(cs, lossGrid(tier == "thorough")...)
	for i := 0; i < nLoss; i++ {
		cs = append(cs, randomLoss(rl.Fork(), false))
	}
	cs = append(cs, exhaustiveFast()...)
	for i := 0; i < nWalk; i++ {
		cs = append(cs, randomWalk(r.Fork(), maxSteps))
	}
	// answers that come late: each sleeps for its delay or the core's time-out, so they go into the first block (quick tier:
	// 16 + 12 slow cases < 40 workers). Their generator is forked LAST, so that every other case is what it was before.
	late := lateCases(r.Fork(), nLate)
	cs = append(cs[:lateAt:lateAt], append(late, cs[lateAt:]...)...)
	return cs
}

// Generate and Workers are exported for the probe program (`c02probe -sched`: what a run's wall time is made of).
func Generate(tier string, r *rng.R) []fw.Case { return generate(tier, r) }

const Workers = 40

// nontrivial: at least one task, and either two requests were answered or some scripted outcome is not `ok`.
func nontrivial(in, obs string) bool {
	sc, err := parseScenario(in)
	if err != nil || len(sc.tasks) == 0 {
		return false
	}
	o, err := sx.Parse(obs)
	if err != nil {
		return false
	}
	if o.Len() >= 2 {
		return true
	}
	for _, t := range sc.tasks {
		if t.launch != "ok" {
			return true
		}
	}
	if sc.withholds() {
		return true
	}
	for _, s := range sc.steps {
		if s.delayed() {
			return true
		}
		for _, x := range s.outs {
			if x != "ok" && x != "-" {
				return true
			}
		}
	}
	return false
}

// shrink: drop the last step; drop the last offers round; drop one task (its column in every step).
func shrink(in string) []string {
	n, err := sx.Parse(in)
	if err != nil || n.Len() < 1 {
		return nil
	}
	var out []string
	first := 1 // index of the first step
	var offers *sx.Node
	if n.Len() > 1 && n.At(1).Len() >= 1 && !n.At(1).At(0).IsList && n.At(1).At(0).Str() == "offers" {
		offers = n.At(1)
		first = 2
	}
	if n.Len() > first+1 {
		c := sx.L(n.List[:n.Len()-1]...)
		out = append(out, c.String())
	}
	if offers != nil && offers.Len() > 1 {
		c := sx.L(n.At(0), sx.L(offers.List[:offers.Len()-1]...))
		c.Add(n.List[2:]...)
		out = append(out, c.String())
	}
	wf := n.At(0)
	nt := wf.Len() - 2
	for k := 0; k < nt && nt > 1; k++ {
		w2 := sx.L(wf.List[:2]...)
		for i := 0; i < nt; i++ {
			if i != k {
				w2.Add(wf.At(2 + i))
			}
		}
		c := sx.L(w2)
		if offers != nil {
			c.Add(offers)
		}
		for s := first; s < n.Len(); s++ {
			st := n.At(s)
			s2 := sx.L(st.At(0))
			for i := 0; i < nt; i++ {
				if i != k {
					s2.Add(st.At(1 + i))
				}
			}
			c.Add(s2)
		}
		out = append(out, c.String())
	}
	return out
}

func init() {
	fw.Register(&fw.Property{
		ID:       "C02",
		Generate: generate,
		RunImpl: func(in string) (string, error) {
			obs, err := runScenario(in)
			if err != nil {
				err = fmt.Errorf("%w [input %s]", err, in) // inconclusive either way; say which case
			}
			return obs, err
		},
		Nontrivial: nontrivial,
		Rule: "per case one simulated world (real core in a child process, simulated Mesos master/executors/Consul/git): " +
			"(a) 1..2 tasks x every critical mix x every assignment of {ok, error reply staying, error reply to ERROR} at each of 5 positions " +
			"(CONFIGURE inside NewEnvironment, START, STOP, RESET, CONFIGURE through ControlEnvironment) — exhaustive; " +
			"(b) random legal walks of up to 6 (thorough: 9) requests over 1..4 tasks on 1..2 hosts, modes direct/basic/fairmq, with idle deaths of non-critical tasks; " +
			"(c) DEPLOY cases (task dies at launch / stays staging / has no host, empty workflow, call roles only); " +
			"(d) a handful of cases with a silent / dying / unreachable task (each waits for the core's 90 s or 120 s response timeout); " +
			"(e) 15 fixed cases in the repaired corners (commands with no target incl. CONFIGURE and a call-roles-only workflow, a lone non-critical task failing at every position, failed requests, offers rounds that are abandoned at once — whose verdict used to get lost on its way to acquireTasks —, a workflow without any role through the whole cycle, many roles becoming ACTIVE at once — whose last notification the DEPLOY loop used to miss); whenever NewEnvironment fails although every task was running and acknowledged, the core's own time-out error says whether some role was not ACTIVE (the open finding deploy_misses_active) or none (`active-unseen`: the repaired notification loss, which the model never answers); " +
			"(f) executor / agent loss while a command is outstanding (Mesos FAILURE event injected after the victim's reply has left / before it leaves, with / without the terminal status updates, the other targets answering only after the core has handled the loss): " +
			"a grid of 2 tasks on 2 hosts x every critical mix x the victim's reply in {ok, error staying, error to ERROR} x START/STOP/RESET/CONFIGURE (48 cells; thorough: x executor/agent x with/without update = 192), 9 fixed shapes (neighbours on the lost executor, several tasks lost, a reply that never leaves, a silent victim that keeps the command outstanding by itself), 30 (thorough: 320) random ones over 2..4 tasks. " +
			"(g) offers that come late (the simulated master leaves the offer of a host out of scripted offers rounds after DEPLOY revived offers; one round per deployment attempt of Manager.acquireTasks; a third agent without tasks is always offered): a grid of 2 tasks on 2 hosts x every critical mix x each host late by 0..3 rounds (3 = the attempt limit) = 64 cells, 12 fixed shapes (machines missing in turn, a later round incomplete again, several tasks on the late host, late and then dying / staying in staging, machines that no agent has, a request failing after a late deployment), 36 (thorough: 400) random ones over 1..4 tasks with ANY pattern of missing offers over 0..4 rounds; the observation of NewEnvironment carries the tasks launched per attempt (REVIVE / ACCEPT calls seen by the master) and, whenever NewEnvironment failed with every task launched (with or without scripted offers), whether acquireTasks is still parked at the receive of a round's verdict (goroutine dump; the model of the repaired code has no such run, so it would be a disagreement). " +
			"(h) WHEN the answer comes: 12 (thorough: 40) cases in which a task does what it does only D seconds after the command (a timer inside the simulated task), D just inside / just outside the time the transition allows — below the 90 s default, between it and CONFIGURE's 120 s, above both, 8 s clear of either — at each of the 5 positions, critical and non-critical, acknowledgements and error replies (9 fixed shapes + random ones); each takes min(D, time-out) of real time. In EVERY case of (a)–(h) the observation of every request carries, per commanded task, the ResponseTimeout of the command the master saw go to it (the per-target copy the core's Servent waits for), which the model answers from CommandQueue.commit / MakeSingleTarget and Spec.C02 compares with the time the transition allows. " +
			"non-trivial = at least one task and (two answered requests or a scripted failure or a missing offer or a delayed answer); distinct by input text",
		Shrink:  shrink,
		Workers: Workers,
		TrustedBase: []string{
			"harness/sim: simulated Mesos master, agents, executors and tasks (scripted per command), Consul KV, git workflow repository; the core itself is the real one (core.RunForVerif in a child process, real gRPC API)",
			"harness/props/c02/run.go: request driver and observation (gRPC status, reply state, GetEnvironments afterwards, MESSAGE calls seen by the master and the ResponseTimeout their payload carries, decoded into the repository's own command type)",
			"/repo/core/verif_hooks.go (core.RunForVerif) and the.SetEventWriterForVerif",
		},
		Assumptions: []string{
			"wall-clock: a task that never answers is observed through the core's own response timeout (90 s; CONFIGURE 120 s) and deploy_timeout (8 s here); 'never returns' is observed as 'no answer for 22 s while the core lists the transition as in progress' on a path without timers",
			"delayed answers: the simulated task starts a timer of D when the command is delivered and reacts when it fires; the harness checks on the master's trace that the reply left D +- 4 s after the command (or that the request was answered before it was due), and declares the run inconclusive otherwise or when D is within 5 s of the time-out the command carried (the reply and the core's timer race); a delayed answer is scripted only in the last request of a scenario",
			"simulated executors stand in for o2-aliecs-executor (+ OCC/FairMQ tasks): they answer with the repository's own response types; fairmq-mode tasks are treated like direct ones",
			"after a failed MESSAGE call (undeliverable) replies of the other targets may or may not arrive (the scheduler client drops its subscription): the driver accepts either, each being an instance of the model with those targets silent",
			"who gets the transition mutex first after a failed slow transition (the environment's watcher or the RPC handler) decides the gRPC status: the driver accepts either where the model allows both",
			"offers that come late: the simulated master answers each REVIVE with one OFFERS event from which the scripted hosts are missing (checked against the trace in every such case; a mismatch is inconclusive); the core revives offers exactly once per deployment attempt and nowhere else, so the REVIVE calls delimit the attempts and the ACCEPT calls between them give the tasks launched; every role of the scenarios is bound to one machine (machine_id constraint) and the agents have room for every task, so a round either launches everything or — a machine missing — nothing",
			"executor / agent loss: the simulated master emits the FAILURE event (optionally preceded by the terminal status updates of the tasks hit) once the replies of the tasks hit have left it; the reactions of the other targets are held until the core reports every task hit as unlocked and not ACTIVE, and the case is inconclusive unless the request is still unanswered then; the core runs one executor per agent, so a loss hits every live task on the host (checked against the master's task table in every such case, and the set of tasks hit is part of the compared observation); when a critical task that had acknowledged is lost, the state in the reply of the (successful) request is the destination or already ERROR depending on whether the environment's watcher got the transition mutex before the handler read the state: the driver accepts either, and the harness waits for the environment to show ERROR before it reads the state afterwards",
		},
	})
}
