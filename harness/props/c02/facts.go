package c02

import (
	"bytes"
	"fmt"
	"go/ast"
	"go/parser"
	"go/printer"
	"go/token"
	"os"
	"path/filepath"
	"strings"

	"verifharness/fw"
)

// go/ast facts about the repaired places (notes/C02.fix-{1,2,3}.patch here; fix-4: outcomeChanCapacity below; fix-5, fix-6:
// facts_deploy.go): they pin the switches of the Lean model's
// `Trans.Cfg.code` to the source text (Props/C02.lean: C02_cfg_is_code), and about the look-up of the task behind a failed
// target and what an executor / agent loss writes (C02_lookup_is_code: the roster-level model `Trans.getTask`,
// `Trans.handleExecutorFailed`, `Trans.handleAgentFailed`). The behaviour itself is tied by the
// differential runs; these facts make a reverted repair break a theorem before the first world is started.

func exprStr(fset *token.FileSet, n ast.Node) string {
	var b bytes.Buffer
	printer.Fprint(&b, fset, n)
	return b.String()
}

func funcDecl(f *ast.File, recv, name string) *ast.FuncDecl {
	for _, d := range f.Decls {
		fd, ok := d.(*ast.FuncDecl)
		if !ok || fd.Body == nil || fd.Name.Name != name {
			continue
		}
		if recv == "" {
			return fd
		}
		if fd.Recv != nil && len(fd.Recv.List) == 1 {
			t := fd.Recv.List[0].Type
			if s, ok := t.(*ast.StarExpr); ok {
				t = s.X
			}
			if id, ok := t.(*ast.Ident); ok && id.Name == recv {
				return fd
			}
		}
	}
	return nil
}

func returnsNil(b *ast.BlockStmt) bool {
	if b == nil || len(b.List) == 0 {
		return false
	}
	r, ok := b.List[len(b.List)-1].(*ast.ReturnStmt)
	if !ok || len(r.Results) != 1 {
		return false
	}
	id, ok := r.Results[0].(*ast.Ident)
	return ok && id.Name == "nil"
}

// singleBranchAsksCritical: in fn, the `else` of `if response.IsMultiResponse()` contains an `if` whose condition calls
// isCriticalTarget and whose body ends in `return nil`, placed before the `return errors.New(…)` of that branch.
func singleBranchAsksCritical(fset *token.FileSet, fd *ast.FuncDecl) (found, asks bool) {
	ast.Inspect(fd.Body, func(n ast.Node) bool {
		is, ok := n.(*ast.IfStmt)
		if !ok || !strings.HasSuffix(exprStr(fset, is.Cond), "response.IsMultiResponse()") {
			return true
		}
		els, ok := is.Else.(*ast.BlockStmt)
		if !ok {
			return true
		}
		found = true
		var guard, ret token.Pos
		ast.Inspect(els, func(m ast.Node) bool {
			switch x := m.(type) {
			case *ast.IfStmt:
				if strings.Contains(exprStr(fset, x.Cond), "isCriticalTarget(") && returnsNil(x.Body) && guard == 0 {
					guard = x.Pos()
				}
			case *ast.ReturnStmt:
				if len(x.Results) == 1 && strings.HasPrefix(exprStr(fset, x.Results[0]), "errors.New(") && ret == 0 {
					ret = x.Pos()
				}
			}
			return true
		})
		asks = guard != 0 && ret != 0 && guard < ret
		return false
	})
	return
}

// isCriticalTargetReadsTraits: the helper exists and looks at the task's own and its parent's critical trait.
func isCriticalTargetReadsTraits(fset *token.FileSet, f *ast.File) bool {
	fd := funcDecl(f, "Manager", "isCriticalTarget")
	if fd == nil {
		return false
	}
	s := exprStr(fset, fd.Body)
	return strings.Contains(s, "GetTraits().Critical") && strings.Contains(s, "GetTaskTraits().Critical")
}

// emptyReturnsNil: the first statement of transitionTasks is `if len(tasks) == 0 { …; return nil }`.
func emptyReturnsNil(fset *token.FileSet, fd *ast.FuncDecl) bool {
	if len(fd.Body.List) == 0 {
		return false
	}
	is, ok := fd.Body.List[0].(*ast.IfStmt)
	return ok && is.Init == nil && is.Else == nil && exprStr(fset, is.Cond) == "len(tasks) == 0" && returnsNil(is.Body)
}

// waitsOnlyIfSent: in ConfigureTransition.do every receive from env.stateChangedCh lies inside the `if` block that
// sends the ConfigureTasks message (and there is such a receive).
func waitsOnlyIfSent(fset *token.FileSet, fd *ast.FuncDecl) (found, inside bool) {
	type span struct{ from, to token.Pos }
	var sends []span
	ast.Inspect(fd.Body, func(n ast.Node) bool {
		is, ok := n.(*ast.IfStmt)
		if !ok {
			return true
		}
		hasSend := false
		ast.Inspect(is.Body, func(m ast.Node) bool {
			if s, ok := m.(*ast.SendStmt); ok && strings.HasSuffix(exprStr(fset, s.Chan), "MessageChannel") {
				hasSend = true
			}
			return true
		})
		if hasSend {
			sends = append(sends, span{is.Body.Pos(), is.Body.End()})
		}
		return true
	})
	inside = true
	ast.Inspect(fd.Body, func(n ast.Node) bool {
		u, ok := n.(*ast.UnaryExpr)
		if !ok || u.Op != token.ARROW || !strings.HasSuffix(exprStr(fset, u.X), "stateChangedCh") {
			return true
		}
		found = true
		in := false
		for _, s := range sends {
			if s.from <= u.Pos() && u.End() <= s.to {
				in = true
			}
		}
		if !in {
			inside = false
		}
		return true
	})
	return found, found && inside
}

// goErrorKeepsErr: in ControlEnvironment the result of TryTransition(NewGoErrorTransition(…)) is not stored in `err`.
func goErrorKeepsErr(fset *token.FileSet, fd *ast.FuncDecl) (found, keeps bool) {
	keeps = true
	ast.Inspect(fd.Body, func(n ast.Node) bool {
		as, ok := n.(*ast.AssignStmt)
		if !ok || len(as.Rhs) != 1 || !strings.Contains(exprStr(fset, as.Rhs[0]), "NewGoErrorTransition(") {
			return true
		}
		found = true
		for _, l := range as.Lhs {
			if id, ok := l.(*ast.Ident); ok && id.Name == "err" {
				keeps = false
			}
		}
		return true
	})
	return found, found && keeps
}

// lookupByTaskId: in fn, inside the body of `if response.IsMultiResponse()`, the loop `for k, v := range response.Errors()`
// defines `task` exactly once, as `m.GetTask(k.TaskId.Value)` — the task behind a failed target is found by its task id
// alone, in the roster as it is when the responses are in.
func lookupByTaskId(fset *token.FileSet, fd *ast.FuncDecl) (found, byID bool) {
	ast.Inspect(fd.Body, func(n ast.Node) bool {
		is, ok := n.(*ast.IfStmt)
		if !ok || !strings.HasSuffix(exprStr(fset, is.Cond), "response.IsMultiResponse()") {
			return true
		}
		ast.Inspect(is.Body, func(m ast.Node) bool {
			rs, ok := m.(*ast.RangeStmt)
			if !ok || !strings.HasSuffix(exprStr(fset, rs.X), "response.Errors()") {
				return true
			}
			key, ok := rs.Key.(*ast.Ident)
			if !ok {
				return false
			}
			found = true
			defs, good := 0, 0
			ast.Inspect(rs.Body, func(x ast.Node) bool {
				as, ok := x.(*ast.AssignStmt)
				if !ok {
					return true
				}
				for i, l := range as.Lhs {
					if id, ok := l.(*ast.Ident); ok && id.Name == "task" {
						defs++
						if len(as.Rhs) == len(as.Lhs) && exprStr(fset, as.Rhs[i]) == "m.GetTask("+key.Name+".TaskId.Value)" {
							good++
						}
					}
				}
				return true
			})
			byID = defs == 1 && good == 1
			return false
		})
		return false
	})
	return
}

// getTaskComparesTaskIdOnly: Manager.GetTask returns the roster task whose taskId equals the argument; it does not look
// at agent or executor ids.
func getTaskComparesTaskIdOnly(fset *token.FileSet, f *ast.File) bool {
	fd := funcDecl(f, "Manager", "GetTask")
	if fd == nil || fd.Type.Params == nil || len(fd.Type.Params.List) != 1 || len(fd.Type.Params.List[0].Names) != 1 {
		return false
	}
	arg := fd.Type.Params.List[0].Names[0].Name
	s := exprStr(fset, fd.Body)
	return strings.Contains(s, ".taskId == "+arg) && strings.Contains(s, "m.roster.getTasks()") &&
		!strings.Contains(s, "agentId") && !strings.Contains(s, "executorId") && !strings.Contains(s, "GetMesosCommandTarget")
}

// lossOnlyBlanks: the handler of a FAILURE event (HandleExecutorFailed / HandleAgentFailed) writes, of the roster tasks,
// nothing but `field = ""` (and the status of the task in its goroutine); it does not take tasks out of the roster.
func lossOnlyBlanks(fset *token.FileSet, f *ast.File, name, field string) bool {
	fd := funcDecl(f, "Manager", name)
	if fd == nil {
		return false
	}
	blanks, ok := 0, true
	ast.Inspect(fd.Body, func(n ast.Node) bool {
		switch x := n.(type) {
		case *ast.AssignStmt:
			for i, l := range x.Lhs {
				sel, isSel := l.(*ast.SelectorExpr)
				if !isSel {
					continue
				}
				switch {
				case sel.Sel.Name == field && len(x.Rhs) == len(x.Lhs) && exprStr(fset, x.Rhs[i]) == `""`:
					blanks++
				case sel.Sel.Name == "status":
				default:
					ok = false
				}
			}
		case *ast.CallExpr:
			c := exprStr(fset, x.Fun)
			if strings.HasPrefix(c, "m.roster.") && c != "m.roster.filtered" {
				ok = false
			}
		}
		return true
	})
	return ok && blanks == 1
}

// ---- the attempt loop of acquireTasks (DEPLOYMENT_ATTEMPTS_LOOP) and the offers round it waits for ------------------

// attemptLoop finds the labelled `for` of acquireTasks.
func attemptLoop(fd *ast.FuncDecl) (loop *ast.ForStmt, parent *ast.BlockStmt, at int) {
	ast.Inspect(fd.Body, func(n ast.Node) bool {
		b, ok := n.(*ast.BlockStmt)
		if !ok {
			return true
		}
		for i, st := range b.List {
			if ls, ok := st.(*ast.LabeledStmt); ok && ls.Label.Name == "DEPLOYMENT_ATTEMPTS_LOOP" {
				if f, ok := ls.Stmt.(*ast.ForStmt); ok {
					loop, parent, at = f, b, i
				}
			}
		}
		return loop == nil
	})
	return
}

// maxAttempts: the loop is `for attemptCount := 0; attemptCount < MAX_ATTEMPTS_PER_DEPLOY_REQUEST; attemptCount++` and the
// constant is an integer literal in schedulerstate.go; anything else gives 0.
func maxAttempts(fset *token.FileSet, loop *ast.ForStmt, state *ast.File) int {
	if loop == nil || loop.Init == nil || loop.Cond == nil || loop.Post == nil {
		return 0
	}
	if exprStr(fset, loop.Init) != "attemptCount := 0" || exprStr(fset, loop.Cond) != "attemptCount < MAX_ATTEMPTS_PER_DEPLOY_REQUEST" ||
		exprStr(fset, loop.Post) != "attemptCount++" {
		return 0
	}
	val := 0
	ast.Inspect(state, func(n ast.Node) bool {
		vs, ok := n.(*ast.ValueSpec)
		if !ok {
			return true
		}
		for i, name := range vs.Names {
			if name.Name == "MAX_ATTEMPTS_PER_DEPLOY_REQUEST" && i < len(vs.Values) {
				if lit, ok := vs.Values[i].(*ast.BasicLit); ok && lit.Kind == token.INT {
					fmt.Sscanf(lit.Value, "%d", &val)
				}
			}
		}
		return true
	})
	return val
}

func isAssign(fset *token.FileSet, st ast.Stmt, lhs, rhs string) bool {
	as, ok := st.(*ast.AssignStmt)
	return ok && as.Tok == token.ASSIGN && len(as.Lhs) == 1 && len(as.Rhs) == 1 &&
		exprStr(fset, as.Lhs[0]) == lhs && exprStr(fset, as.Rhs[0]) == rhs
}

// attemptFacts reads the loop body:
//
//	resets      a top-level `deploymentSuccess = true` precedes the statement that hands the request to the scheduler
//	            (`m.tasksToDeploy <- …`): the verdict on an attempt starts afresh
//	onlyCrit    every `deploymentSuccess = false` before the `if deploymentSuccess` statement sits inside an `if` that
//	            asks `.Critical == true`
//	breaks      a top-level `if deploymentSuccess { …; break DEPLOYMENT_ATTEMPTS_LOOP }` (the break being its last
//	            statement) follows, and after it the loop body only logs and sleeps
func attemptFacts(fset *token.FileSet, loop *ast.ForStmt) (resets, onlyCrit, breaks bool) {
	if loop == nil {
		return
	}
	send, reset, ifAt := -1, -1, -1
	for i, st := range loop.Body.List {
		if s, ok := st.(*ast.SendStmt); ok && exprStr(fset, s.Chan) == "m.tasksToDeploy" && send < 0 {
			send = i
		}
		if isAssign(fset, st, "deploymentSuccess", "true") && reset < 0 {
			reset = i
		}
		if is, ok := st.(*ast.IfStmt); ok && is.Init == nil && exprStr(fset, is.Cond) == "deploymentSuccess" && ifAt < 0 {
			ifAt = i
			if n := len(is.Body.List); n > 0 {
				if br, ok := is.Body.List[n-1].(*ast.BranchStmt); ok && br.Tok == token.BREAK && br.Label != nil &&
					br.Label.Name == "DEPLOYMENT_ATTEMPTS_LOOP" {
					breaks = true
				}
			}
		}
	}
	resets = reset >= 0 && send >= 0 && reset < send
	if ifAt < 0 {
		return resets, false, false
	}
	for _, st := range loop.Body.List[ifAt+1:] {
		if _, ok := st.(*ast.ExprStmt); !ok { // log call, time.Sleep
			breaks = false
		}
	}
	onlyCrit = true
	for _, st := range loop.Body.List[:ifAt] {
		var guarded []ast.Node // bodies of `if … .Critical == true`
		ast.Inspect(st, func(n ast.Node) bool {
			if is, ok := n.(*ast.IfStmt); ok && strings.Contains(exprStr(fset, is.Cond), ".Critical == true") {
				guarded = append(guarded, is.Body)
			}
			return true
		})
		ast.Inspect(st, func(n ast.Node) bool {
			as, ok := n.(ast.Stmt)
			if !ok || !isAssign(fset, as, "deploymentSuccess", "false") {
				return true
			}
			in := false
			for _, g := range guarded {
				if g.Pos() <= as.Pos() && as.End() <= g.End() {
					in = true
				}
			}
			if !in {
				onlyCrit = false
			}
			return true
		})
	}
	return
}

// failureDetaches: after the loop, `if !deploymentSuccess { … taskPtr.SetParent(nil) … err = TasksDeploymentError{…} }`, and
// every `.SetTask(` of the function lies in an `if deploymentSuccess` block.
func failureDetaches(fset *token.FileSet, fd *ast.FuncDecl, parent *ast.BlockStmt) bool {
	if parent == nil {
		return false
	}
	detaches := false
	var okBlocks []ast.Node
	ast.Inspect(fd.Body, func(n ast.Node) bool {
		is, ok := n.(*ast.IfStmt)
		if !ok {
			return true
		}
		switch exprStr(fset, is.Cond) {
		case "!deploymentSuccess":
			b := exprStr(fset, is.Body)
			if strings.Contains(b, "taskPtr.SetParent(nil)") && strings.Contains(b, "err = TasksDeploymentError{") {
				detaches = true
			}
		case "deploymentSuccess":
			okBlocks = append(okBlocks, is.Body)
		}
		return true
	})
	guarded := true
	ast.Inspect(fd.Body, func(n ast.Node) bool {
		c, ok := n.(*ast.CallExpr)
		if !ok || !strings.HasSuffix(exprStr(fset, c.Fun), ".SetTask") {
			return true
		}
		in := false
		for _, b := range okBlocks {
			if b.Pos() <= c.Pos() && c.End() <= b.End() {
				in = true
			}
		}
		if !in {
			guarded = false
		}
		return true
	})
	return detaches && guarded
}

// roundAbandoned (scheduler.go): a descriptor whose machine has no offer is appended to descriptorsUndeployable in the
// pre-processing, and the loop over the offers (the one that ends in offerWaitGroup.Wait()) runs only
// `if len(descriptorsUndeployable) == 0`.
func roundAbandoned(fset *token.FileSet, sched *ast.File) bool {
	var guard *ast.IfStmt
	ast.Inspect(sched, func(n ast.Node) bool {
		is, ok := n.(*ast.IfStmt)
		if ok && guard == nil && exprStr(fset, is.Cond) == "len(descriptorsUndeployable) == 0" &&
			strings.Contains(exprStr(fset, is.Body), "offerWaitGroup.Wait()") {
			guard = is
		}
		return true
	})
	if guard == nil {
		return false
	}
	before := false
	ast.Inspect(sched, func(n ast.Node) bool {
		is, ok := n.(*ast.IfStmt)
		if !ok || exprStr(fset, is.Cond) != "found" || is.Else == nil || is.Pos() > guard.Pos() {
			return true
		}
		if strings.Contains(exprStr(fset, is.Else), "descriptorsUndeployable = append(descriptorsUndeployable, descriptor)") {
			before = true
		}
		return true
	})
	return before
}

// ---- the hand-over of a round's verdict (outcomeCh) -----------------------------------------------------------------

// astPath: the chain of nodes from root down to target (both included), nil if target is not below root.
func astPath(root, target ast.Node) []ast.Node {
	var stack, found []ast.Node
	ast.Inspect(root, func(n ast.Node) bool {
		if found != nil {
			return false
		}
		if n == nil {
			stack = stack[:len(stack)-1]
			return true
		}
		stack = append(stack, n)
		if n == target {
			found = append([]ast.Node(nil), stack...)
			return false
		}
		return true
	})
	return found
}

// outcomeChanCapacity (manager.go, acquireTasks): the loop body of DEPLOYMENT_ATTEMPTS_LOOP hands the scheduler a
// `&ResourceOffersDeploymentRequest{… outcomeCh: X …}` (top-level send on m.tasksToDeploy); X is defined exactly once in the
// function, by a top-level `X := make(chan ResourceOffersOutcome[, N])` of the loop body that precedes the send (a channel
// per attempt); X is received from exactly once in the function, at the top level of the loop body after the send. The
// answer is the integer literal N (no capacity argument: 0). Any other shape: 0.
func outcomeChanCapacity(fset *token.FileSet, fd *ast.FuncDecl, loop *ast.ForStmt) int {
	if fd == nil || loop == nil {
		return 0
	}
	sendAt, name := -1, ""
	for i, st := range loop.Body.List {
		s, ok := st.(*ast.SendStmt)
		if !ok || exprStr(fset, s.Chan) != "m.tasksToDeploy" {
			continue
		}
		if sendAt >= 0 {
			return 0 // two requests per attempt
		}
		sendAt = i
		u, ok := s.Value.(*ast.UnaryExpr)
		if !ok || u.Op != token.AND {
			return 0
		}
		cl, ok := u.X.(*ast.CompositeLit)
		if !ok || exprStr(fset, cl.Type) != "ResourceOffersDeploymentRequest" {
			return 0
		}
		for _, e := range cl.Elts {
			kv, ok := e.(*ast.KeyValueExpr)
			if !ok {
				return 0
			}
			if exprStr(fset, kv.Key) == "outcomeCh" {
				id, ok := kv.Value.(*ast.Ident)
				if !ok {
					return 0
				}
				name = id.Name
			}
		}
	}
	if sendAt < 0 || name == "" {
		return 0
	}
	// definitions of the channel variable in the whole function
	defs, capacity, defAt := 0, 0, -1
	ast.Inspect(fd.Body, func(n ast.Node) bool {
		as, ok := n.(*ast.AssignStmt)
		if !ok {
			return true
		}
		for _, l := range as.Lhs {
			if id, ok := l.(*ast.Ident); ok && id.Name == name {
				defs++
			}
		}
		return true
	})
	for i, st := range loop.Body.List[:sendAt] {
		as, ok := st.(*ast.AssignStmt)
		if !ok || as.Tok != token.DEFINE || len(as.Lhs) != 1 || len(as.Rhs) != 1 || exprStr(fset, as.Lhs[0]) != name {
			continue
		}
		call, ok := as.Rhs[0].(*ast.CallExpr)
		if !ok || exprStr(fset, call.Fun) != "make" || len(call.Args) < 1 || len(call.Args) > 2 ||
			exprStr(fset, call.Args[0]) != "chan ResourceOffersOutcome" {
			return 0
		}
		defAt = i
		if len(call.Args) == 2 {
			lit, ok := call.Args[1].(*ast.BasicLit)
			if !ok || lit.Kind != token.INT {
				return 0
			}
			fmt.Sscanf(lit.Value, "%d", &capacity)
		}
	}
	if defs != 1 || defAt < 0 {
		return 0
	}
	// receives from it: one, a top-level statement of the loop body after the send
	recvs, top := 0, 0
	ast.Inspect(fd.Body, func(n ast.Node) bool {
		if u, ok := n.(*ast.UnaryExpr); ok && u.Op == token.ARROW && exprStr(fset, u.X) == name {
			recvs++
		}
		return true
	})
	for _, st := range loop.Body.List[sendAt+1:] {
		if as, ok := st.(*ast.AssignStmt); ok && len(as.Rhs) == 1 && exprStr(fset, as.Rhs[0]) == "<-"+name {
			top++
		}
	}
	if recvs != 1 || top != 1 {
		return 0
	}
	return capacity
}

// oneVerdictPerRequest (all non-test files of core/task): there is exactly one send on an `outcomeCh` and exactly one
// receive from a `tasksToDeploy` in the package, both in the same function of scheduler.go (the handler of an OFFERS event);
// the receive is `deploymentRequestPayload = <-state.tasksToDeploy`, the only assignment to that variable in the function;
// the send is on `deploymentRequestPayload.outcomeCh`; neither lies in a loop of that function; the send's `select` is
// reached from the function body through blocks and the one `if deploymentRequestPayload != nil` only; and no `return` of
// that function lies between the two. So a request that is taken gets exactly one verdict sent.
func oneVerdictPerRequest(fset *token.FileSet, dir string) bool {
	pkgs, err := parser.ParseDir(fset, dir, func(fi os.FileInfo) bool { return !strings.HasSuffix(fi.Name(), "_test.go") }, 0)
	if err != nil {
		return false
	}
	var sends []*ast.SendStmt
	var recvs []*ast.UnaryExpr
	var sendFile, recvFile *ast.File
	for _, pkg := range pkgs {
		for _, f := range pkg.Files {
			f := f
			ast.Inspect(f, func(n ast.Node) bool {
				switch x := n.(type) {
				case *ast.SendStmt:
					c := exprStr(fset, x.Chan)
					if c == "outcomeCh" || strings.HasSuffix(c, ".outcomeCh") {
						sends = append(sends, x)
						sendFile = f
					}
				case *ast.UnaryExpr:
					if x.Op == token.ARROW {
						c := exprStr(fset, x.X)
						if c == "tasksToDeploy" || strings.HasSuffix(c, ".tasksToDeploy") {
							recvs = append(recvs, x)
							recvFile = f
						}
					}
				}
				return true
			})
		}
	}
	if len(sends) != 1 || len(recvs) != 1 || sendFile != recvFile ||
		filepath.Base(fset.Position(sendFile.Pos()).Filename) != "scheduler.go" {
		return false
	}
	send, recv := sends[0], recvs[0]
	if exprStr(fset, send.Chan) != "deploymentRequestPayload.outcomeCh" {
		return false
	}
	sp, rp := astPath(sendFile, send), astPath(sendFile, recv)
	innermostFunc := func(p []ast.Node) (int, ast.Node) {
		for i := len(p) - 1; i >= 0; i-- {
			switch p[i].(type) {
			case *ast.FuncLit, *ast.FuncDecl:
				return i, p[i]
			}
		}
		return -1, nil
	}
	si, sf := innermostFunc(sp)
	ri, rf := innermostFunc(rp)
	if sf == nil || sf != rf {
		return false
	}
	// the receive: `deploymentRequestPayload = <-….tasksToDeploy`, no loop above it
	okRecv := false
	for _, n := range rp[ri+1:] {
		switch x := n.(type) {
		case *ast.ForStmt, *ast.RangeStmt:
			return false
		case *ast.AssignStmt:
			if x.Tok == token.ASSIGN && len(x.Lhs) == 1 && len(x.Rhs) == 1 && exprStr(fset, x.Lhs[0]) == "deploymentRequestPayload" && x.Rhs[0] == ast.Expr(recv) {
				okRecv = true
			}
		}
	}
	if !okRecv {
		return false
	}
	// the send: function body → blocks, `if deploymentRequestPayload != nil`, select, comm clause → send
	ifs := 0
	for _, n := range sp[si+1 : len(sp)-1] {
		switch x := n.(type) {
		case *ast.BlockStmt, *ast.SelectStmt, *ast.CommClause:
		case *ast.IfStmt:
			if x.Init != nil || exprStr(fset, x.Cond) != "deploymentRequestPayload != nil" || !(x.Body.Pos() <= send.Pos() && send.End() <= x.Body.End()) {
				return false
			}
			ifs++
		default:
			return false
		}
	}
	if ifs != 1 {
		return false
	}
	// the function itself: one assignment to the variable, no return between the receive and the send
	var body *ast.BlockStmt
	switch x := sf.(type) {
	case *ast.FuncLit:
		body = x.Body
	case *ast.FuncDecl:
		body = x.Body
	}
	assigns, ok := 0, true
	ast.Inspect(body, func(n ast.Node) bool {
		switch x := n.(type) {
		case *ast.FuncLit:
			return false // another function's returns
		case *ast.AssignStmt:
			for _, l := range x.Lhs {
				if exprStr(fset, l) == "deploymentRequestPayload" {
					assigns++
				}
			}
		case *ast.ReturnStmt:
			if recv.End() < x.Pos() && x.Pos() < send.Pos() {
				ok = false
			}
		}
		return true
	})
	return ok && assigns == 1
}

// GenFacts is the exported entry point (probe program: `c02probe -facts <repo>`).
func GenFacts(repo string) (string, error) { return genFacts(repo) }

func genFacts(repo string) (string, error) {
	fset := token.NewFileSet()
	parse := func(rel string) (*ast.File, error) {
		return parser.ParseFile(fset, filepath.Join(repo, rel), nil, 0)
	}
	man, err := parse("core/task/manager.go")
	if err != nil {
		return "", err
	}
	conf, err := parse("core/environment/transition_configure.go")
	if err != nil {
		return "", err
	}
	srv, err := parse("core/server.go")
	if err != nil {
		return "", err
	}
	// the attempt loop: files that cannot be read give `false` / 0 facts, not an error
	var maxAtt int
	var attResets, attOnlyCrit, attBreaks, attDetaches, rndAbandoned bool
	outCap := 0
	if acq := funcDecl(man, "Manager", "acquireTasks"); acq != nil {
		loop, parent, _ := attemptLoop(acq)
		outCap = outcomeChanCapacity(fset, acq, loop)
		if state, e := parse("core/task/schedulerstate.go"); e == nil {
			maxAtt = maxAttempts(fset, loop, state)
		}
		attResets, attOnlyCrit, attBreaks = attemptFacts(fset, loop)
		attDetaches = failureDetaches(fset, acq, parent)
	}
	if sched, e := parse("core/task/scheduler.go"); e == nil {
		rndAbandoned = roundAbandoned(fset, sched)
	}
	tt, ct := funcDecl(man, "Manager", "transitionTasks"), funcDecl(man, "Manager", "configureTasks")
	do, ce := funcDecl(conf, "ConfigureTransition", "do"), funcDecl(srv, "RpcServer", "ControlEnvironment")
	// A shape that is not recognised yields `false` facts (C02's tie theorem breaks), never an error: an error here would
	// stop the regeneration of every other property's fragments.
	note := ""
	var a1, a2, in3, k4, e2, l1, l2 bool
	if tt == nil || ct == nil || do == nil || ce == nil {
		note = "transitionTasks / configureTasks / ConfigureTransition.do / ControlEnvironment not found"
	} else {
		var f1, f2, f3, f4 bool
		f1, a1 = singleBranchAsksCritical(fset, tt)
		f2, a2 = singleBranchAsksCritical(fset, ct)
		f3, in3 = waitsOnlyIfSent(fset, do)
		f4, k4 = goErrorKeepsErr(fset, ce)
		e2 = emptyReturnsNil(fset, tt)
		_, l1 = lookupByTaskId(fset, tt)
		_, l2 = lookupByTaskId(fset, ct)
		if !f1 || !f2 || !f3 || !f4 {
			note = fmt.Sprintf("shape not recognised (single-response branch %v %v, wait on stateChangedCh %v, GO_ERROR call %v)", f1, f2, f3, f4)
		}
	}
	var b strings.Builder
	if note != "" {
		fmt.Fprintf(&b, "-- NOTE: %s\n", note)
	}
	b.WriteString("namespace Gen.C02\n\n")
	fmt.Fprintf(&b, "/-- core/task/manager.go (go/ast): in transitionTasks AND configureTasks the single-response branch (`else` of\n    `response.IsMultiResponse()`) returns nil for a target that `isCriticalTarget` does not hold critical, before it\n    returns the raw error; `isCriticalTarget` reads the task's and its parent role's critical trait -/\ndef singleBranchAsksCritical : Bool := %v\n\n", a1 && a2 && isCriticalTargetReadsTraits(fset, man))
	fmt.Fprintf(&b, "/-- core/task/manager.go: transitionTasks starts with `if len(tasks) == 0 { return nil }` -/\ndef transitionEmptyReturnsNil : Bool := %v\n\n", e2)
	fmt.Fprintf(&b, "/-- core/environment/transition_configure.go: ConfigureTransition.do receives from env.stateChangedCh only inside the\n    `if` block that sends the ConfigureTasks message -/\ndef configureWaitsOnlyIfSent : Bool := %v\n\n", in3)
	fmt.Fprintf(&b, "/-- core/server.go: ControlEnvironment does not store the result of TryTransition(NewGoErrorTransition(…)) in `err` -/\ndef goErrorKeepsErr : Bool := %v\n\n", k4)
	fmt.Fprintf(&b, "/-- core/task/manager.go: in the multi-response branch of transitionTasks AND configureTasks the task behind a failed\n    target `k` is `m.GetTask(k.TaskId.Value)` (its only definition in the loop over `response.Errors()`), and\n    `Manager.GetTask` scans `m.roster.getTasks()` comparing `taskId` alone -/\ndef failedTargetLookupByTaskId : Bool := %v\n\n", l1 && l2 && getTaskComparesTaskIdOnly(fset, man))
	fmt.Fprintf(&b, "/-- core/task/manager.go: HandleExecutorFailed / HandleAgentFailed write nothing of the roster tasks but\n    `t.executorId = \"\"` / `t.agentId = \"\"` (and the task's status); they do not change the roster -/\ndef lossOnlyBlanksIds : Bool := %v\n\n", lossOnlyBlanks(fset, man, "HandleExecutorFailed", "executorId") && lossOnlyBlanks(fset, man, "HandleAgentFailed", "agentId"))
	fmt.Fprintf(&b, "/-- core/task/manager.go + schedulerstate.go: acquireTasks' loop is `for attemptCount := 0; attemptCount <\n    MAX_ATTEMPTS_PER_DEPLOY_REQUEST; attemptCount++` and the constant is this literal (0: shape not recognised) -/\ndef maxDeployAttempts : Nat := %d\n\n", maxAtt)
	fmt.Fprintf(&b, "/-- core/task/manager.go: the body of DEPLOYMENT_ATTEMPTS_LOOP sets `deploymentSuccess = true` before it hands the\n    request to the scheduler: the verdict on an attempt does not depend on earlier attempts -/\ndef attemptResetsVerdict : Bool := %v\n\n", attResets)
	fmt.Fprintf(&b, "/-- core/task/manager.go: inside the loop `deploymentSuccess = false` is only ever assigned under `.Critical == true` -/\ndef attemptFailsOnlyOnCritical : Bool := %v\n\n", attOnlyCrit)
	fmt.Fprintf(&b, "/-- core/task/manager.go: `if deploymentSuccess { …; break DEPLOYMENT_ATTEMPTS_LOOP }`, then only logging and the pause -/\ndef attemptLoopBreaksOnSuccess : Bool := %v\n\n", attBreaks)
	fmt.Fprintf(&b, "/-- core/task/manager.go: after the loop `if !deploymentSuccess` detaches the launched tasks (`SetParent(nil)`) and\n    returns a TasksDeploymentError; roles get their task (`SetTask`) only under `if deploymentSuccess` -/\ndef failedDeploymentDetaches : Bool := %v\n\n", attDetaches)
	fmt.Fprintf(&b, "/-- core/task/scheduler.go: a descriptor whose machine_id has no offer becomes undeployable in the pre-processing, and\n    the offers are processed (tasks launched) only `if len(descriptorsUndeployable) == 0` -/\ndef roundAbandonedWhenUndeployable : Bool := %v\n\n", rndAbandoned)
	fmt.Fprintf(&b, "/-- core/task/manager.go: the channel acquireTasks puts into the `outcomeCh` field of the request it hands to the scheduler\n    is made afresh in every pass of DEPLOYMENT_ATTEMPTS_LOOP by `make(chan ResourceOffersOutcome, N)`, acquireTasks receives\n    from it once per pass; this is N (0: no capacity argument = unbuffered, or shape not recognised) -/\ndef outcomeChanCapacity : Nat := %d\n\n", outCap)
	fmt.Fprintf(&b, "/-- core/task (every non-test file): exactly one send on an `outcomeCh` and one receive from `tasksToDeploy`, both in the\n    same function of scheduler.go (resourceOffers), outside every loop of it; the send is on the channel of the request\n    that was taken, under no condition but `deploymentRequestPayload != nil`, and no `return` lies between the two -/\ndef oneVerdictPerRequest : Bool := %v\n\n", oneVerdictPerRequest(fset, filepath.Join(repo, "core/task")))
	// the response time-out a transition gives its targets (facts_deadline.go)
	b.WriteString(deadlineFacts(repo))
	// the DEPLOY wait: hand-over of "the root is ACTIVE", and whether there is anything to wait for (facts_deploy.go)
	b.WriteString(deployWaitFacts(repo))
	b.WriteString("end Gen.C02\n")
	return b.String(), nil
}

func init() {
	fw.RegisterGen(fw.GenFile{Name: "C02Facts.lean", Make: genFacts})
}
