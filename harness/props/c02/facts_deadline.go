package c02

// Facts about the response time-out a transition gives its targets (Model/Deadline.lean, `Trans.DlCfg.code`;
// Props/C02.lean: C02_deadline_is_code, C02_single_target_deadline_is_code). Two kinds:
//
//   - go/ast: the default (`defaultResponseTimeout`), that the constructors stamp it, the value `configureTasks` puts on the
//     CONFIGURE command, that nothing else in core/ writes a command's `ResponseTimeout`, that `MakeSingleTarget` hands the
//     command's time-out on to the per-target copy, and that `CommandQueue.commit` / `Servent.RunCommand` send and wait for
//     that copy with the copy's time-out;
//   - differential: the LINKED constructors and the LINKED `MakeSingleTarget` (through the wrappers the core enqueues)
//     evaluated on commands with default and non-default time-outs: the time-out of what comes out.
//
// A shape that is not recognised gives `false` / 0 (the tie theorem breaks), never a generator error.

import (
	"fmt"
	"go/ast"
	"go/parser"
	"go/token"
	"os"
	"path/filepath"
	"strconv"
	"strings"
	"time"

	"github.com/AliceO2Group/Control/common/utils/uid"
	"github.com/AliceO2Group/Control/core/controlcommands"
	mesos "github.com/mesos/mesos-go/api/v1/lib"
)

// durationMs evaluates `N * time.Unit` / `time.Unit * N` / `time.Unit`; ok = false for anything else.
func durationMs(e ast.Expr) (int64, bool) {
	unit := func(x ast.Expr) (int64, bool) {
		s, ok := x.(*ast.SelectorExpr)
		if !ok {
			return 0, false
		}
		if id, ok := s.X.(*ast.Ident); !ok || id.Name != "time" {
			return 0, false
		}
		switch s.Sel.Name {
		case "Millisecond":
			return 1, true
		case "Second":
			return 1000, true
		case "Minute":
			return 60000, true
		case "Hour":
			return 3600000, true
		}
		return 0, false
	}
	lit := func(x ast.Expr) (int64, bool) {
		b, ok := x.(*ast.BasicLit)
		if !ok || b.Kind != token.INT {
			return 0, false
		}
		n, err := strconv.ParseInt(b.Value, 0, 64)
		return n, err == nil
	}
	if p, ok := e.(*ast.ParenExpr); ok {
		return durationMs(p.X)
	}
	if u, ok := unit(e); ok {
		return u, true
	}
	b, ok := e.(*ast.BinaryExpr)
	if !ok || b.Op != token.MUL {
		return 0, false
	}
	if n, ok := lit(b.X); ok {
		if u, ok := unit(b.Y); ok {
			return n * u, true
		}
	}
	if n, ok := lit(b.Y); ok {
		if u, ok := unit(b.X); ok {
			return n * u, true
		}
	}
	return 0, false
}

// defaultTimeoutMs: `const defaultResponseTimeout = N * time.Second` in mesoscommand.go.
func defaultTimeoutMs(f *ast.File) int64 {
	var v int64
	n := 0
	for _, d := range f.Decls {
		gd, ok := d.(*ast.GenDecl)
		if !ok || gd.Tok != token.CONST {
			continue
		}
		for _, s := range gd.Specs {
			vs := s.(*ast.ValueSpec)
			for i, nm := range vs.Names {
				if nm.Name == "defaultResponseTimeout" && i < len(vs.Values) {
					if ms, ok := durationMs(vs.Values[i]); ok {
						v = ms
						n++
					}
				}
			}
		}
	}
	if n != 1 {
		return 0
	}
	return v
}

// literalOf: the composite literal `&T{…}` / `T{…}` e is, if it is one of type name typ.
func literalOf(e ast.Expr, typ string) *ast.CompositeLit {
	if u, ok := e.(*ast.UnaryExpr); ok && u.Op == token.AND {
		e = u.X
	}
	cl, ok := e.(*ast.CompositeLit)
	if !ok {
		return nil
	}
	if id, ok := cl.Type.(*ast.Ident); !ok || id.Name != typ {
		return nil
	}
	return cl
}

func keyValue(cl *ast.CompositeLit, key string) ast.Expr {
	for _, el := range cl.Elts {
		kv, ok := el.(*ast.KeyValueExpr)
		if !ok {
			continue
		}
		if id, ok := kv.Key.(*ast.Ident); ok && id.Name == key {
			return kv.Value
		}
	}
	return nil
}

// constructorStampsDefault: NewMesosCommand returns `&MesosCommandBase{… ResponseTimeout: defaultResponseTimeout …}` (its
// only return), and the two wrappers build their base by `*NewMesosCommand(…)`.
func constructorStampsDefault(fset *token.FileSet, base, trans, hook *ast.File) bool {
	fd := funcDecl(base, "", "NewMesosCommand")
	if fd == nil {
		return false
	}
	rets := 0
	ok := true
	ast.Inspect(fd.Body, func(n ast.Node) bool {
		r, is := n.(*ast.ReturnStmt)
		if !is {
			return true
		}
		rets++
		if len(r.Results) != 1 {
			ok = false
			return true
		}
		cl := literalOf(r.Results[0], "MesosCommandBase")
		if cl == nil || keyValue(cl, "ResponseTimeout") == nil || exprStr(fset, keyValue(cl, "ResponseTimeout")) != "defaultResponseTimeout" {
			ok = false
		}
		return true
	})
	if rets != 1 || !ok {
		return false
	}
	wrapper := func(f *ast.File, name, typ string) bool {
		fd := funcDecl(f, "", name)
		if fd == nil || len(fd.Body.List) != 1 {
			return false
		}
		r, is := fd.Body.List[0].(*ast.ReturnStmt)
		if !is || len(r.Results) != 1 {
			return false
		}
		cl := literalOf(r.Results[0], typ)
		if cl == nil {
			return false
		}
		v := keyValue(cl, "MesosCommandBase")
		return v != nil && strings.HasPrefix(exprStr(fset, v), "*NewMesosCommand(")
	}
	return wrapper(trans, "NewMesosCommand_Transition", "MesosCommand_Transition") && wrapper(hook, "NewMesosCommand_TriggerHook", "MesosCommand_TriggerHook")
}

// configureTimeoutMs: in configureTasks the command is `X := controlcommands.NewMesosCommand_Transition(…)`, followed in the
// same block — before `m.cq.Enqueue(X, …)` — by exactly one `X.ResponseTimeout = <duration>`; that duration in ms.
func configureTimeoutMs(fset *token.FileSet, fd *ast.FuncDecl) int64 {
	if fd == nil {
		return 0
	}
	var res int64
	found := 0
	ast.Inspect(fd.Body, func(n ast.Node) bool {
		blk, ok := n.(*ast.BlockStmt)
		if !ok {
			return true
		}
		for i, st := range blk.List {
			as, ok := st.(*ast.AssignStmt)
			if !ok || as.Tok != token.DEFINE || len(as.Lhs) != 1 || len(as.Rhs) != 1 {
				continue
			}
			if !strings.HasPrefix(exprStr(fset, as.Rhs[0]), "controlcommands.NewMesosCommand_Transition(") {
				continue
			}
			x := exprStr(fset, as.Lhs[0])
			var val int64
			sets, enq := 0, false
			for _, later := range blk.List[i+1:] {
				s := exprStr(fset, later)
				if strings.Contains(s, "m.cq.Enqueue("+x+",") {
					enq = true
					break
				}
				if a2, ok := later.(*ast.AssignStmt); ok && a2.Tok == token.ASSIGN && len(a2.Lhs) == 1 && len(a2.Rhs) == 1 &&
					exprStr(fset, a2.Lhs[0]) == x+".ResponseTimeout" {
					if ms, ok := durationMs(a2.Rhs[0]); ok {
						val = ms
						sets++
					} else {
						sets += 2
					}
				}
			}
			if enq && sets == 1 {
				res = val
				found++
			}
		}
		return true
	})
	if found != 1 {
		return 0
	}
	return res
}

// timeoutWrites lists every place in the non-test, non-generated Go files under dir that writes a `ResponseTimeout`:
// assignments to a selector `….ResponseTimeout` and composite-literal keys `ResponseTimeout:`; "file:func" each.
func timeoutWrites(dir string) (assigns, keys []string) {
	filepath.Walk(dir, func(p string, info os.FileInfo, err error) error {
		if err != nil || info.IsDir() || !strings.HasSuffix(p, ".go") || strings.HasSuffix(p, "_test.go") || strings.HasSuffix(p, ".pb.go") {
			return nil
		}
		fset := token.NewFileSet()
		f, e := parser.ParseFile(fset, p, nil, 0)
		if e != nil {
			return nil
		}
		rel, _ := filepath.Rel(dir, p)
		for _, d := range f.Decls {
			fd, ok := d.(*ast.FuncDecl)
			if !ok || fd.Body == nil {
				continue
			}
			ast.Inspect(fd.Body, func(n ast.Node) bool {
				switch x := n.(type) {
				case *ast.AssignStmt:
					for _, l := range x.Lhs {
						if s, ok := l.(*ast.SelectorExpr); ok && s.Sel.Name == "ResponseTimeout" {
							assigns = append(assigns, rel+":"+fd.Name.Name)
						}
					}
				case *ast.IncDecStmt:
					if s, ok := x.X.(*ast.SelectorExpr); ok && s.Sel.Name == "ResponseTimeout" {
						assigns = append(assigns, rel+":"+fd.Name.Name)
					}
				case *ast.KeyValueExpr:
					if id, ok := x.Key.(*ast.Ident); ok && id.Name == "ResponseTimeout" {
						keys = append(keys, rel+":"+fd.Name.Name)
					}
				}
				return true
			})
		}
		return nil
	})
	return
}

// onlyConfigureOverrides: under core/ the only assignment to a `ResponseTimeout` is the one in configureTasks, and the only
// literals that set the field are those of NewMesosCommand and MakeSingleTarget at most.
func onlyConfigureOverrides(repo string) bool {
	assigns, keys := timeoutWrites(filepath.Join(repo, "core"))
	if len(assigns) != 1 || assigns[0] != filepath.Join("task", "manager.go")+":configureTasks" {
		return false
	}
	for _, k := range keys {
		if k != filepath.Join("controlcommands", "mesoscommand.go")+":NewMesosCommand" &&
			k != filepath.Join("controlcommands", "mesoscommand.go")+":MakeSingleTarget" {
			return false
		}
	}
	return true
}

// singleTargetCopiesTimeout: MesosCommandBase.MakeSingleTarget assigns its result exactly once, a literal
// `&MesosCommandBase{… ResponseTimeout: m.ResponseTimeout …}` (m = the receiver), and writes no `ResponseTimeout` elsewhere;
// the wrappers' MakeSingleTarget take `m.MesosCommandBase.MakeSingleTarget(target)` and embed it (`MesosCommandBase: *mcb`).
func singleTargetCopiesTimeout(fset *token.FileSet, base, trans, hook *ast.File) bool {
	fd := funcDecl(base, "MesosCommandBase", "MakeSingleTarget")
	if fd == nil || fd.Recv == nil || len(fd.Recv.List[0].Names) != 1 || fd.Type.Results == nil ||
		len(fd.Type.Results.List) != 1 || len(fd.Type.Results.List[0].Names) != 1 {
		return false
	}
	recv, res := fd.Recv.List[0].Names[0].Name, fd.Type.Results.List[0].Names[0].Name
	sets, good := 0, 0
	writes := 0
	ast.Inspect(fd.Body, func(n ast.Node) bool {
		switch x := n.(type) {
		case *ast.AssignStmt:
			for i, l := range x.Lhs {
				if id, ok := l.(*ast.Ident); ok && id.Name == res {
					sets++
					if i < len(x.Rhs) && len(x.Lhs) == len(x.Rhs) {
						if cl := literalOf(x.Rhs[i], "MesosCommandBase"); cl != nil {
							if v := keyValue(cl, "ResponseTimeout"); v != nil && exprStr(fset, v) == recv+".ResponseTimeout" {
								good++
							}
						}
					}
				}
				if s, ok := l.(*ast.SelectorExpr); ok && s.Sel.Name == "ResponseTimeout" {
					writes++
				}
			}
		case *ast.ReturnStmt:
			if len(x.Results) != 0 {
				sets += 2 // a value returned past the named result
			}
		}
		return true
	})
	if sets != 1 || good != 1 || writes != 0 {
		return false
	}
	wrapper := func(f *ast.File, typ string) bool {
		fd := funcDecl(f, typ, "MakeSingleTarget")
		if fd == nil || fd.Recv == nil || len(fd.Recv.List[0].Names) != 1 || len(fd.Type.Params.List) != 1 || len(fd.Type.Params.List[0].Names) != 1 {
			return false
		}
		recv, par := fd.Recv.List[0].Names[0].Name, fd.Type.Params.List[0].Names[0].Name
		src := exprStr(fset, fd.Body)
		okShape := strings.Contains(src, ":= "+recv+".MesosCommandBase.MakeSingleTarget("+par+")") && !strings.Contains(src, "ResponseTimeout")
		embeds := false
		ast.Inspect(fd.Body, func(n ast.Node) bool {
			if cl, ok := n.(*ast.CompositeLit); ok {
				if id, ok := cl.Type.(*ast.Ident); ok && id.Name == typ {
					if v := keyValue(cl, "MesosCommandBase"); v != nil && strings.HasPrefix(exprStr(fset, v), "*") {
						embeds = true
					}
				}
			}
			return true
		})
		return okShape && embeds
	}
	return wrapper(trans, "MesosCommand_Transition") && wrapper(hook, "MesosCommand_TriggerHook")
}

// serventWaitsCopyTimeout: `CommandQueue.commit` makes `X := command.MakeSingleTarget(receiver)` and calls
// `m.servent.RunCommand(X, receiver)` with it; `Servent.RunCommand(cmd, …)` hands `cmd` to `s.SendFunc` and blocks in a
// `select` whose timer is `time.After(cmd.GetResponseTimeout())` (the only time.After in it); the getter returns the field.
func serventWaitsCopyTimeout(fset *token.FileSet, queue, servent, base *ast.File) bool {
	cm := funcDecl(queue, "CommandQueue", "commit")
	rc := funcDecl(servent, "Servent", "RunCommand")
	get := funcDecl(base, "MesosCommandBase", "GetResponseTimeout")
	if cm == nil || rc == nil || get == nil || len(rc.Type.Params.List) < 1 || len(rc.Type.Params.List[0].Names) != 1 {
		return false
	}
	// commit
	single := ""
	makes, runs, runsSingle := 0, 0, 0
	ast.Inspect(cm.Body, func(n ast.Node) bool {
		switch x := n.(type) {
		case *ast.AssignStmt:
			if x.Tok == token.DEFINE && len(x.Lhs) == 1 && len(x.Rhs) == 1 && strings.HasPrefix(exprStr(fset, x.Rhs[0]), "command.MakeSingleTarget(") {
				single = exprStr(fset, x.Lhs[0])
				makes++
			}
		case *ast.CallExpr:
			if strings.HasSuffix(exprStr(fset, x.Fun), ".RunCommand") {
				runs++
				if len(x.Args) == 2 && single != "" && exprStr(fset, x.Args[0]) == single {
					runsSingle++
				}
			}
		}
		return true
	})
	if makes != 1 || runs != 1 || runsSingle != 1 {
		return false
	}
	// RunCommand
	cmd := rc.Type.Params.List[0].Names[0].Name
	afters, goodAfter, sends := 0, 0, 0
	ast.Inspect(rc.Body, func(n ast.Node) bool {
		switch x := n.(type) {
		case *ast.CallExpr:
			f := exprStr(fset, x.Fun)
			if f == "time.After" || f == "time.NewTimer" || f == "time.AfterFunc" || f == "context.WithTimeout" {
				afters++
			}
			if f == "s.SendFunc" && len(x.Args) >= 1 && exprStr(fset, x.Args[0]) == cmd {
				sends++
			}
		case *ast.CommClause:
			if es, ok := x.Comm.(*ast.ExprStmt); ok && exprStr(fset, es.X) == "<-time.After("+cmd+".GetResponseTimeout())" {
				goodAfter++
			}
		case *ast.AssignStmt:
			for _, l := range x.Lhs {
				if id, ok := l.(*ast.Ident); ok && id.Name == cmd {
					afters += 2 // the parameter is re-assigned
				}
			}
		}
		return true
	})
	if afters != 1 || goodAfter != 1 || sends != 1 {
		return false
	}
	// the getter: `if m != nil { return m.ResponseTimeout }`
	src := exprStr(fset, get.Body)
	return strings.Contains(src, "return m.ResponseTimeout") && strings.Count(src, "return") == 2 && strings.Contains(src, "return defaultResponseTimeout")
}

func dlTarget(i int) controlcommands.MesosCommandTarget {
	return controlcommands.MesosCommandTarget{
		AgentId:    mesos.AgentID{Value: fmt.Sprintf("agent-%d", i)},
		ExecutorId: mesos.ExecutorID{Value: fmt.Sprintf("exec-%d", i)},
		TaskId:     mesos.TaskID{Value: fmt.Sprintf("task-%d", i)},
	}
}

func msOf(d time.Duration) int64 {
	ms := int64(d / time.Millisecond)
	if d%time.Millisecond != 0 {
		ms++ // never equal to a whole number of ms by rounding
	}
	return ms
}

// timeoutTables evaluates the linked code: what the three constructors stamp, and what the per-target copy of a command
// with a given time-out (0 in the row = left as constructed) carries, for every target of a two-target command.
func timeoutTables() (constructed, single string) {
	env := uid.New()
	recv := []controlcommands.MesosCommandTarget{dlTarget(1), dlTarget(2)}
	type made struct {
		cmd  controlcommands.MesosCommand
		base *controlcommands.MesosCommandBase
	}
	mk := func(kind string) made {
		switch kind {
		case "transition":
			c := controlcommands.NewMesosCommand_Transition(env, recv, "SRC", "EV", "DST", controlcommands.PropertyMapsMap{})
			return made{c, &c.MesosCommandBase}
		case "triggerhook":
			c := controlcommands.NewMesosCommand_TriggerHook(env, recv)
			return made{c, &c.MesosCommandBase}
		}
		c := controlcommands.NewMesosCommand("MesosCommand_X", env, recv, controlcommands.PropertyMapsMap{})
		return made{c, c}
	}
	kinds := []string{"transition", "triggerhook", "base"}
	var cl, sl []string
	for _, k := range kinds {
		cl = append(cl, fmt.Sprintf("(%q, %d)", k, msOf(mk(k).cmd.GetResponseTimeout())))
	}
	tmos := []time.Duration{0, 120 * time.Second, 300 * time.Millisecond, 45 * time.Second, time.Hour, 1 * time.Millisecond}
	for _, k := range kinds {
		for _, tmo := range tmos {
			m := mk(k)
			if tmo != 0 {
				m.base.ResponseTimeout = tmo // the exported field, as core/task/manager.go sets it
			}
			for _, rc := range recv {
				out := int64(0)
				func() {
					defer func() {
						if recover() != nil {
							out = 0
						}
					}()
					if sc := m.cmd.MakeSingleTarget(rc); sc != nil {
						out = msOf(sc.GetResponseTimeout())
					}
				}()
				sl = append(sl, fmt.Sprintf("(%q, %d, %d)", k, msOf(m.cmd.GetResponseTimeout()), out))
			}
		}
	}
	return "[" + strings.Join(cl, ", ") + "]", "[\n  " + strings.Join(sl, ",\n  ") + "]"
}

// deadlineFacts: the Lean definitions (inside `namespace Gen.C02`).
func deadlineFacts(repo string) string {
	fset := token.NewFileSet()
	parse := func(rel string) *ast.File {
		f, err := parser.ParseFile(fset, filepath.Join(repo, rel), nil, 0)
		if err != nil {
			return nil
		}
		return f
	}
	base := parse("core/controlcommands/mesoscommand.go")
	trans := parse("core/controlcommands/mesoscommand_transition.go")
	hook := parse("core/controlcommands/mesoscommand_triggerhook.go")
	queue := parse("core/controlcommands/commandqueue.go")
	servent := parse("core/controlcommands/mesoscommandservent.go")
	man := parse("core/task/manager.go")
	var dflt, conf int64
	var stamps, only, copies, waits bool
	if base != nil && trans != nil && hook != nil && queue != nil && servent != nil && man != nil {
		dflt = defaultTimeoutMs(base)
		stamps = constructorStampsDefault(fset, base, trans, hook)
		conf = configureTimeoutMs(fset, funcDecl(man, "Manager", "configureTasks"))
		only = onlyConfigureOverrides(repo)
		copies = singleTargetCopiesTimeout(fset, base, trans, hook)
		waits = serventWaitsCopyTimeout(fset, queue, servent, base)
	}
	constructed, single := timeoutTables()
	var b strings.Builder
	fmt.Fprintf(&b, "/-- core/controlcommands/mesoscommand.go (go/ast): `const defaultResponseTimeout = …`, in ms (0: shape not recognised) -/\ndef defaultTimeoutMs : Nat := %d\n\n", dflt)
	fmt.Fprintf(&b, "/-- …mesoscommand.go, mesoscommand_transition.go, mesoscommand_triggerhook.go: NewMesosCommand's only return is a\n    `&MesosCommandBase{… ResponseTimeout: defaultResponseTimeout …}`, and the two wrappers' base is `*NewMesosCommand(…)` -/\ndef constructorStampsDefault : Bool := %v\n\n", stamps)
	fmt.Fprintf(&b, "/-- core/task/manager.go: configureTasks builds its command by `X := controlcommands.NewMesosCommand_Transition(…)` and,\n    before `m.cq.Enqueue(X, …)`, sets `X.ResponseTimeout = …` exactly once: that duration in ms (0: shape not recognised) -/\ndef configureTimeoutMs : Nat := %d\n\n", conf)
	fmt.Fprintf(&b, "/-- every non-test Go file under core/: the only assignment to a `….ResponseTimeout` is the one in configureTasks, and the\n    only composite literals with a `ResponseTimeout:` key are in NewMesosCommand and MakeSingleTarget (mesoscommand.go):\n    START / STOP / RESET and hook commands keep what the constructor stamped -/\ndef onlyConfigureOverridesTimeout : Bool := %v\n\n", only)
	fmt.Fprintf(&b, "/-- core/controlcommands: MesosCommandBase.MakeSingleTarget assigns its result once, a `&MesosCommandBase{… ResponseTimeout:\n    m.ResponseTimeout …}` of the receiver m, and the wrappers' MakeSingleTarget embed what it returns -/\ndef singleTargetCopiesTimeout : Bool := %v\n\n", copies)
	fmt.Fprintf(&b, "/-- core/controlcommands: CommandQueue.commit passes `command.MakeSingleTarget(receiver)` to Servent.RunCommand, which sends\n    THAT command and waits in a select whose only timer is `time.After(cmd.GetResponseTimeout())`; the getter returns the field -/\ndef serventWaitsCopyTimeout : Bool := %v\n\n", waits)
	fmt.Fprintf(&b, "/-- the LINKED constructors (NewMesosCommand_Transition, NewMesosCommand_TriggerHook, NewMesosCommand): GetResponseTimeout()\n    of what they return, ms -/\ndef constructedTimeoutsMs : List (String × Nat) := %s\n\n", constructed)
	fmt.Fprintf(&b, "/-- the LINKED MakeSingleTarget on two-target commands of the three kinds whose `ResponseTimeout` was left as constructed or\n    set (as configureTasks does) to 120 s, 300 ms, 45 s, 1 h, 1 ms — one row per receiver: (kind, time-out of the command,\n    time-out of the per-target copy; 0 = no copy), ms -/\ndef singleTargetTimeoutsMs : List (String × Nat × Nat) := %s\n\n", single)
	return b.String()
}
