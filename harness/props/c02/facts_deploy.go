package c02

import (
	"fmt"
	"go/ast"
	"go/parser"
	"go/token"
	"path/filepath"
	"strconv"
	"strings"
)

// go/ast facts about the DEPLOY wait (notes/C02.fix-{5,6}.patch): they pin `Trans.Cfg.code.deployKeepsNotification` and
// `.deployEmptyIsSuccess` to the source text (Props/C02.lean: C02_cfg_is_code).
//
//	fix-5  DeployTransition.do subscribes to the workflow's status changes with a channel that has room for a notification,
//	       and the case of WORKFLOW_ACTIVE_LOOP that is woken by it reads the workflow's status itself; the sender
//	       (aggregatorRole.updateStatus → ParentAdapter.updateStatus) stores the status before it notifies, non-blockingly.
//	fix-6  WORKFLOW_ACTIVE_LOOP is entered only if a task descriptor or a call role was asked to become active.
//
// A shape that is not recognised gives 0 / false (the tie theorem breaks), never an error.

// identName: the expression is the identifier `name` (name == "": any identifier; its name is returned).
func identName(e ast.Expr) string {
	if id, ok := e.(*ast.Ident); ok {
		return id.Name
	}
	return ""
}

// definedBy: the function has exactly one `X := <rhs>` for the variable X and no other assignment to X; returns the rhs.
func definedBy(fd *ast.FuncDecl, x string) ast.Expr {
	var rhs ast.Expr
	n := 0
	ast.Inspect(fd.Body, func(m ast.Node) bool {
		as, ok := m.(*ast.AssignStmt)
		if !ok {
			return true
		}
		for i, l := range as.Lhs {
			if identName(l) != x {
				continue
			}
			n++
			if as.Tok == token.DEFINE && len(as.Lhs) == len(as.Rhs) {
				rhs = as.Rhs[i]
			} else {
				rhs = nil
				n += 100
			}
		}
		return true
	})
	if n != 1 {
		return nil
	}
	return rhs
}

// lenNotZero: the expression is `len(X) != 0`; returns X's name.
func lenNotZero(fset *token.FileSet, e ast.Expr) string {
	b, ok := e.(*ast.BinaryExpr)
	if !ok || b.Op != token.NEQ || exprStr(fset, b.Y) != "0" {
		return ""
	}
	c, ok := b.X.(*ast.CallExpr)
	if !ok || identName(c.Fun) != "len" || len(c.Args) != 1 {
		return ""
	}
	return identName(c.Args[0])
}

// deployLoopFacts: see the head of the file.
func deployLoopFacts(fset *token.FileSet, do *ast.FuncDecl) (capacity int, rereads, onlyIfAwaited bool) {
	// the channel handed to SubscribeToStatusChange
	ch, subs := "", 0
	ast.Inspect(do.Body, func(n ast.Node) bool {
		c, ok := n.(*ast.CallExpr)
		if !ok {
			return true
		}
		if s, ok := c.Fun.(*ast.SelectorExpr); ok && s.Sel.Name == "SubscribeToStatusChange" && len(c.Args) == 2 {
			subs++
			ch = identName(c.Args[1])
		}
		return true
	})
	if subs != 1 || ch == "" {
		return
	}
	if mk, ok := definedBy(do, ch).(*ast.CallExpr); ok && identName(mk.Fun) == "make" && len(mk.Args) >= 1 &&
		exprStr(fset, mk.Args[0]) == "chan task.Status" {
		if len(mk.Args) == 2 {
			if lit, ok := mk.Args[1].(*ast.BasicLit); ok && lit.Kind == token.INT {
				capacity, _ = strconv.Atoi(lit.Value)
			}
		}
	}
	// the workflow variable: W := env.Workflow()
	wf := ""
	ast.Inspect(do.Body, func(n ast.Node) bool {
		as, ok := n.(*ast.AssignStmt)
		if ok && as.Tok == token.DEFINE && len(as.Lhs) == 1 && len(as.Rhs) == 1 && exprStr(fset, as.Rhs[0]) == "env.Workflow()" {
			wf = identName(as.Lhs[0])
		}
		return true
	})
	if wf == "" || definedBy(do, wf) == nil {
		return
	}
	// the loop, the `if` around it, the select in it
	var guard *ast.IfStmt
	var loop *ast.ForStmt
	ast.Inspect(do.Body, func(n ast.Node) bool {
		is, ok := n.(*ast.IfStmt)
		if !ok {
			return true
		}
		for _, st := range is.Body.List {
			if l, ok := st.(*ast.LabeledStmt); ok && l.Label.Name == "WORKFLOW_ACTIVE_LOOP" {
				if f, ok := l.Stmt.(*ast.ForStmt); ok && f.Init == nil && f.Cond == nil && f.Post == nil {
					guard, loop = is, f
				}
			}
		}
		return true
	})
	if loop == nil || len(loop.Body.List) != 1 {
		return
	}
	sel, ok := loop.Body.List[0].(*ast.SelectStmt)
	if !ok {
		return
	}
	// exactly one receive from the channel in the whole function, and it is the Comm of a case of that select
	recvs := 0
	ast.Inspect(do.Body, func(n ast.Node) bool {
		if u, ok := n.(*ast.UnaryExpr); ok && u.Op == token.ARROW && identName(u.X) == ch {
			recvs++
		}
		return true
	})
	var clause *ast.CommClause
	discards := false
	for _, c := range sel.Body.List {
		cc := c.(*ast.CommClause)
		switch x := cc.Comm.(type) {
		case *ast.ExprStmt: // case <-ch:
			if u, ok := x.X.(*ast.UnaryExpr); ok && u.Op == token.ARROW && identName(u.X) == ch {
				clause, discards = cc, true
			}
		case *ast.AssignStmt: // case v = <-ch:  /  case v := <-ch:
			if len(x.Rhs) == 1 {
				if u, ok := x.Rhs[0].(*ast.UnaryExpr); ok && u.Op == token.ARROW && identName(u.X) == ch {
					clause, discards = cc, false
				}
			}
		}
	}
	status := ""
	if recvs == 1 && clause != nil && discards && len(clause.Body) > 0 {
		// first statement: V = W.GetStatus(); then some `if V == task.ACTIVE {… break WORKFLOW_ACTIVE_LOOP }`
		if as, ok := clause.Body[0].(*ast.AssignStmt); ok && as.Tok == token.ASSIGN && len(as.Lhs) == 1 && len(as.Rhs) == 1 &&
			exprStr(fset, as.Rhs[0]) == wf+".GetStatus()" {
			status = identName(as.Lhs[0])
		}
		if status != "" {
			for _, st := range clause.Body[1:] {
				is, ok := st.(*ast.IfStmt)
				if !ok || exprStr(fset, is.Cond) != status+" == task.ACTIVE" {
					continue
				}
				for _, b := range is.Body.List {
					if br, ok := b.(*ast.BranchStmt); ok && br.Tok == token.BREAK && br.Label != nil && br.Label.Name == "WORKFLOW_ACTIVE_LOOP" {
						rereads = true
					}
				}
			}
		}
	}
	// the guard: V != task.ACTIVE && (len(D) != 0 || len(C) != 0)
	if c, ok := guard.Cond.(*ast.BinaryExpr); ok && c.Op == token.LAND && strings.HasSuffix(exprStr(fset, c.X), " != task.ACTIVE") {
		if p, ok := c.Y.(*ast.ParenExpr); ok {
			if or, ok := p.X.(*ast.BinaryExpr); ok && or.Op == token.LOR {
				d, calls := lenNotZero(fset, or.X), lenNotZero(fset, or.Y)
				if d != "" && calls != "" && d != calls {
					dOk := false
					if rhs := definedBy(do, d); rhs != nil && exprStr(fset, rhs) == wf+".GenerateTaskDescriptors()" {
						// …and D is what is handed to the task manager
						ast.Inspect(do.Body, func(n ast.Node) bool {
							if call, ok := n.(*ast.CallExpr); ok && strings.HasSuffix(exprStr(fset, call.Fun), "NewEnvironmentMessage") &&
								len(call.Args) > 0 && exprStr(fset, call.Args[0]) == "taskop.AcquireTasks" && identName(call.Args[len(call.Args)-1]) == d {
								dOk = true
							}
							return true
						})
					}
					cOk := false
					if rhs := definedBy(do, calls); rhs != nil && strings.HasSuffix(exprStr(fset, rhs), ".FilterCalls()") {
						// …and C are the hooks whose roles are set ACTIVE
						ast.Inspect(do.Body, func(n ast.Node) bool {
							if r, ok := n.(*ast.RangeStmt); ok && identName(r.X) == calls && strings.Contains(exprStr(fset, r.Body), "UpdateStatus(task.ACTIVE)") {
								cOk = true
							}
							return true
						})
					}
					onlyIfAwaited = dOk && cOk
				}
			}
		}
	}
	return
}

// statusStoredBeforeNotified: aggregatorRole.updateStatus merges the status (`r.status.merge(…)`) before it calls
// `r.parent.updateStatus(…)`; ParentAdapter.updateStatus ranges over p.statusSubscriptions and sends inside
// `select { case ch <- s: default: }`.
func statusStoredBeforeNotified(fset *token.FileSet, agg, adapter *ast.File) bool {
	up := funcDecl(agg, "aggregatorRole", "updateStatus")
	if up == nil {
		return false
	}
	var merge, notify token.Pos
	nNotify := 0
	ast.Inspect(up.Body, func(n ast.Node) bool {
		c, ok := n.(*ast.CallExpr)
		if !ok {
			return true
		}
		switch exprStr(fset, c.Fun) {
		case "r.status.merge":
			if merge == 0 {
				merge = c.Pos()
			}
		case "r.parent.updateStatus":
			nNotify++
			notify = c.Pos()
		}
		return true
	})
	if merge == 0 || nNotify != 1 || merge > notify {
		return false
	}
	pa := funcDecl(adapter, "ParentAdapter", "updateStatus")
	if pa == nil {
		return false
	}
	ok := false
	sends := 0
	ast.Inspect(pa.Body, func(n ast.Node) bool {
		if _, is := n.(*ast.SendStmt); is {
			sends++
		}
		r, is := n.(*ast.RangeStmt)
		if !is || exprStr(fset, r.X) != "p.statusSubscriptions" || len(r.Body.List) != 1 {
			return true
		}
		sel, is := r.Body.List[0].(*ast.SelectStmt)
		if !is || len(sel.Body.List) != 2 {
			return true
		}
		hasSend, hasDefault := false, false
		for _, c := range sel.Body.List {
			cc := c.(*ast.CommClause)
			if cc.Comm == nil {
				hasDefault = true
			} else if s, is := cc.Comm.(*ast.SendStmt); is && identName(s.Chan) == identName(r.Value) && identName(r.Value) != "" {
				hasSend = true
			}
		}
		ok = hasSend && hasDefault
		return true
	})
	return ok && sends == 1
}

func deployWaitFacts(repo string) string {
	fset := token.NewFileSet()
	capacity := 0
	var rereads, onlyIfAwaited, stored bool
	if f, err := parser.ParseFile(fset, filepath.Join(repo, "core/environment/transition_deploy.go"), nil, 0); err == nil {
		if do := funcDecl(f, "DeployTransition", "do"); do != nil {
			capacity, rereads, onlyIfAwaited = deployLoopFacts(fset, do)
		}
	}
	agg, e1 := parser.ParseFile(fset, filepath.Join(repo, "core/workflow/aggregatorrole.go"), nil, 0)
	ad, e2 := parser.ParseFile(fset, filepath.Join(repo, "core/workflow/parentadapter.go"), nil, 0)
	if e1 == nil && e2 == nil {
		stored = statusStoredBeforeNotified(fset, agg, ad)
	}
	var b strings.Builder
	fmt.Fprintf(&b, "/-- core/environment/transition_deploy.go (go/ast): the channel DeployTransition.do subscribes to the workflow's status\n    changes with is `X := make(chan task.Status, N)` (its only definition); this is N (0: unbuffered, or shape not recognised) -/\ndef deployStatusChanCapacity : Nat := %d\n\n", capacity)
	fmt.Fprintf(&b, "/-- core/environment/transition_deploy.go: the only receive from that channel is the case `<-X` of the `select` of\n    WORKFLOW_ACTIVE_LOOP; it discards the value received and starts with `wfStatus = wf.GetStatus()`, `wf` being\n    `env.Workflow()` and `wfStatus` the variable the case goes on to compare with task.ACTIVE to leave the loop -/\ndef deployLoopRereadsStatus : Bool := %v\n\n", rereads)
	fmt.Fprintf(&b, "/-- core/workflow/aggregatorrole.go + parentadapter.go: aggregatorRole.updateStatus calls `r.status.merge(…)` before\n    `r.parent.updateStatus(…)`, and ParentAdapter.updateStatus sends to every subscriber inside\n    `select { case ch <- s: default: }` -/\ndef statusStoredBeforeNotified : Bool := %v\n\n", stored)
	fmt.Fprintf(&b, "/-- core/environment/transition_deploy.go: WORKFLOW_ACTIVE_LOOP is inside `if wfStatus != task.ACTIVE && (len(D) != 0 ||\n    len(C) != 0)`, D being `wf.GenerateTaskDescriptors()` (what is handed to the task manager with AcquireTasks) and C the\n    call hooks (`….FilterCalls()`) whose roles are set ACTIVE -/\ndef deployWaitsOnlyIfAwaited : Bool := %v\n\n", onlyIfAwaited)
	return b.String()
}
