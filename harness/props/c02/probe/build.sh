#!/bin/sh
# Build the C02 probe with a private module file (harness/go.mod is rewritten by every build.sh run). Output: /verif/.work/bin/c02probe$SUFFIX
set -e
export GOFLAGS=-mod=mod GOPROXY=off GOSUMDB=off GOTOOLCHAIN=local
REPO="${VERIF_REPO:-/repo}"
cd /verif/harness
mkdir -p /verif/.work/bin /verif/.work/c02mod
MOD=/verif/.work/c02mod/go.mod
{
  echo "module verifharness"; echo; echo "go 1.22"; echo
  echo "require github.com/AliceO2Group/Control v0.0.0"
  echo "replace github.com/AliceO2Group/Control => $REPO"
  grep '^replace' "$REPO/go.mod" | grep -v 'AliceO2Group/Control '
} > "$MOD"
cp "$REPO/go.sum" /verif/.work/c02mod/go.sum
go build -modfile="$MOD" -tags verif -o /verif/.work/bin/c02probe${SUFFIX} ./props/c02/probe
go vet -modfile="$MOD" -tags verif ./props/c02/...
