// c02probe: run C02 scenarios by hand against the whole-core simulator.
//
//	c02probe [-v] '<scenario>' ...      (scenarios run in parallel, one world each)
//	c02probe -facts <repo>              (print Gen/C02Facts.lean as `vh gen` would write it for that tree)
package main

import (
	"fmt"
	"io"
	"os"
	"sync"
	"time"

	"github.com/sirupsen/logrus"

	"verifharness/fw"
	"verifharness/props/c02"
)

func main() {
	logrus.SetOutput(io.Discard)
	fw.DispatchChild()
	args := os.Args[1:]
	if len(args) == 2 && args[0] == "-facts" {
		s, err := c02.GenFacts(args[1])
		fmt.Print(s)
		if err != nil {
			fmt.Fprintln(os.Stderr, err)
			os.Exit(1)
		}
		return
	}
	if len(args) > 0 && args[0] == "-v" {
		args = args[1:]
		c02.Debug = func(s string) { fmt.Fprintln(os.Stderr, "  "+s) }
	}
	var wg sync.WaitGroup
	out := make([]string, len(args))
	for i, a := range args {
		wg.Add(1)
		go func(i int, a string) {
			defer wg.Done()
			t0 := time.Now()
			obs, err := c02.RunScenario(a)
			out[i] = fmt.Sprintf("%s\n  => %s   err=%v  (%.1fs)", a, obs, err, time.Since(t0).Seconds())
		}(i, a)
	}
	wg.Wait()
	for _, o := range out {
		fmt.Println(o)
	}
}
