// c02probe: run C02 scenarios by hand against the whole-core simulator.
//
//	c02probe [-v] '<scenario>' ...      (scenarios run in parallel, one world each)
//	c02probe -facts <repo>              (print Gen/C02Facts.lean as `vh gen` would write it for that tree)
package main

import (
	"bufio"
	"fmt"
	"io"
	"os"
	"sort"
	"strconv"
	"strings"
	"sync"
	"time"

	"github.com/sirupsen/logrus"

	"verifharness/fw"
	"verifharness/props/c02"
	"verifharness/rng"
)

// sched: run what `vh run C02 --tier T --seed S` would run (open witnesses and corpus first, then the generated cases, same
// order, same number of workers) and print when every case started and how long it took — to see what the wall time is made of.
//
//	c02probe -sched <tier> <seed> [extra-inputs-file|-] [tag]     (tag: only the generated cases with that tag)
//
// `input<TAB>observation` of every case that ran goes to /tmp/c02-sched.tsv (for the Lean driver).
func sched(tier string, seed uint64, extra, only string) {
	type it struct {
		in         string
		tags       []string
		start, dur float64
		obs        string
		err        error
	}
	var items []*it
	if extra != "" {
		f, err := os.Open(extra)
		if err == nil {
			sc := bufio.NewScanner(f)
			sc.Buffer(make([]byte, 1<<20), 1<<20)
			for sc.Scan() {
				l := strings.TrimSpace(sc.Text())
				if l != "" && !strings.HasPrefix(l, "#") {
					items = append(items, &it{in: l, tags: []string{"extra"}})
				}
			}
			f.Close()
		}
	}
	for _, c := range c02.Generate(tier, rng.New(seed)) {
		if only != "" {
			has := false
			for _, t := range c.Tags {
				has = has || t == only
			}
			if !has {
				continue
			}
		}
		items = append(items, &it{in: c.Input, tags: c.Tags})
	}
	t0 := time.Now()
	ch := make(chan *it)
	var wg sync.WaitGroup
	for i := 0; i < c02.Workers; i++ {
		wg.Add(1)
		go func() {
			defer wg.Done()
			for x := range ch {
				x.start = time.Since(t0).Seconds()
				x.obs, x.err = c02.RunScenario(x.in)
				x.dur = time.Since(t0).Seconds() - x.start
			}
		}()
	}
	for _, x := range items {
		ch <- x
	}
	close(ch)
	wg.Wait()
	fmt.Printf("total %d cases, wall %.1fs\n", len(items), time.Since(t0).Seconds())
	if f, err := os.Create("/tmp/c02-sched.tsv"); err == nil {
		for _, x := range items {
			if x.err == nil {
				fmt.Fprintf(f, "%s\t%s\n", x.in, x.obs)
			}
		}
		f.Close()
	}
	sort.SliceStable(items, func(i, j int) bool { return items[i].start+items[i].dur > items[j].start+items[j].dur })
	for i, x := range items {
		if i < 25 || x.dur > 15 || x.err != nil {
			e := ""
			if x.err != nil {
				e = " ERR " + x.err.Error()
			}
			fmt.Printf("start %6.1f dur %6.1f end %6.1f %v %s%s\n", x.start, x.dur, x.start+x.dur, x.tags, x.in, e)
		}
	}
}

func main() {
	logrus.SetOutput(io.Discard)
	fw.DispatchChild()
	args := os.Args[1:]
	if len(args) == 2 && args[0] == "-facts" {
		s, err := c02.GenFacts(args[1])
		fmt.Print(s)
		if err != nil {
			fmt.Fprintln(os.Stderr, err)
			os.Exit(1)
		}
		return
	}
	if len(args) >= 3 && args[0] == "-sched" {
		seed, _ := strconv.ParseUint(args[2], 10, 64)
		extra, only := "", ""
		if len(args) > 3 && args[3] != "-" {
			extra = args[3]
		}
		if len(args) > 4 {
			only = args[4]
		}
		sched(args[1], seed, extra, only)
		return
	}
	if len(args) > 1 && args[0] == "-ceiling" {
		n, _ := strconv.Atoi(args[1])
		c02.SetReqCeiling(time.Duration(n) * time.Second)
		args = args[2:]
	}
	if len(args) > 0 && args[0] == "-v" {
		args = args[1:]
		c02.Debug = func(s string) { fmt.Fprintln(os.Stderr, "  "+s) }
	}
	var wg sync.WaitGroup
	out := make([]string, len(args))
	for i, a := range args {
		wg.Add(1)
		go func(i int, a string) {
			defer wg.Done()
			t0 := time.Now()
			obs, err := c02.RunScenario(a)
			out[i] = fmt.Sprintf("%s\n  => %s   err=%v  (%.1fs)", a, obs, err, time.Since(t0).Seconds())
		}(i, a)
	}
	wg.Wait()
	for _, o := range out {
		fmt.Println(o)
	}
}
