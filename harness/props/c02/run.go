package c02

// Scenario runner: one input = one simulated world (own core child process).
//
// Input (S-expression):
//
//	((wf <calls> (<crit> <mode> <host> <launch>) ...) [(offers (<host> ...) ...)] (<EV> <o0> <o1> ...) ...)
//
//	calls   number of call roles (testplugin.Noop, trigger before_START_ACTIVITY) in the workflow
//	crit    1/0   task trait `critical`
//	mode    direct | basic | fairmq
//	host    h1 | h2
//	launch  ok | dies | silent | nohost        what happens at DEPLOY (nohost: the role is constrained to a
//	                                           machine no agent offers)
//	offers  (optional) offers that arrive late: the i-th list names the hosts whose offer is MISSING from the i-th offers
//	        round after NewEnvironment's DEPLOY revives offers (Manager.acquireTasks, DEPLOYMENT_ATTEMPTS_LOOP: one
//	        round per deployment attempt); rounds beyond the list are complete. `(offers)` = every round complete, but the
//	        attempts are observed. A third agent h0 that carries no task is always offered, so that every round takes place.
//	EV      CONFIGURE | START_ACTIVITY | STOP_ACTIVITY | RESET (environment events; the first step, if any, is the
//	        CONFIGURE that NewEnvironment performs after DEPLOY; the rest are ControlEnvironment requests)
//	oN      ok | stay | err | undeliv | silent | dies   outcome script of task N for this command
//	        (error reply staying in the source state / error reply with state ERROR / master answers 503 /
//	        never answers / terminal status update instead of a reply); `-` for "whatever"
//	        | (late BASE D)    (LAST step only, not together with loss marks) the task does BASE = ok | stay | err D ms
//	        after it got the command (a timer inside the simulated task). Whether that is an acknowledgement depends on
//	        the time-out the core waits for THIS target with: the `ResponseTimeout` of the per-target copy of the command
//	        (MakeSingleTarget), 90 s, CONFIGURE 120 s. Such a case takes min(D, time-out) of real time.
//	        | (xfail BASE WHEN UPD) | (afail BASE WHEN UPD)    (ControlEnvironment requests only)
//	        the executor (xfail) / the agent (afail) of task N is lost — Mesos FAILURE event — while the command is
//	        outstanding: BASE = ok | stay | err | silent is what the task does with the command; WHEN = after: the
//	        loss is injected once the task's reply has left, before: the reply is held back and then never leaves;
//	        UPD = 1: the terminal status updates of the tasks hit (TASK_FAILED / TASK_LOST) precede the FAILURE event.
//	        The core runs one executor per agent: every live task on the same host is hit (those without a mark of
//	        their own after their reply). The other targets answer only after the core has handled the loss (they
//	        keep the command outstanding); if there is none, a `before` / silent victim does (the core's time-out).
//
// Observation: one entry per request issued, in order
//
//	(new <rpc> <state> <after> (<i> ...) [running-acked | active-unseen | verdict-lost])   NewEnvironment  (DEPLOY +
//	                                               CONFIGURE); cmd = tasks the CONFIGURE went to; the three atoms only when
//	                                               DEPLOY failed although every task was scripted to start (see below):
//	                                               running-acked = every TASK_RUNNING was acknowledged by the core well before
//	                                               it gave up and its time-out error lists a role that was not ACTIVE;
//	                                               active-unseen = the same, but the error lists NO role that was not ACTIVE
//	                                               (the core gave up with every role ACTIVE: the model of the code as it is
//	                                               never answers it)
//	(new <rpc> <state> <after> (<i> ...) [running-acked | active-unseen] (att (<i> ...) ...) [verdict-lost])   …of a scenario with an
//	                                               `offers` element: one list per deployment attempt (REVIVE call seen by
//	                                               the master) with the tasks launched in it (ACCEPT calls up to the next
//	                                               REVIVE); verdict-lost: the request failed and a goroutine dump of the
//	                                               core shows acquireTasks still waiting for the verdict of its last round
//	                                               (cannot happen with the code as it is: the model never answers it)
//	(ctl <EV> <rpc> <state> <after> (<i> ...))     ControlEnvironment
//	(ctl <EV> <rpc> <state> <after> (<i> ...) (lost <i> ...))   …during which the executor / agent of the live tasks
//	                                               <i> … was lost (read off the master's task table)
//
//	Every entry ends in (dl <ms> ...): parallel to the command list, the ResponseTimeout (ms) carried by the command the
//	master saw go to each commanded task — the time-out the core's Servent waits for that target with (the command sent IS
//	the per-target copy whose time-out arms RunCommand's timer).
//
//	rpc    ok | err | hang      gRPC status (hang: no answer within hangCeiling while the core shows the transition in progress)
//	state  state in the reply, `-` if none
//	after  GetEnvironment state right afterwards, `gone` if the core no longer lists it
//
// The run stops after the first request that did not answer ok with its destination state, after a request
// in which a command was undeliverable (the core's scheduler client does not recover from a failed call: see notes),
// and after a request during which a critical live task was lost (the environment's watcher takes it to ERROR; the
// harness waits for that before it reads <after>).

import (
	"context"
	"fmt"
	"os"
	"os/exec"
	"path/filepath"
	"regexp"
	"sort"
	"strconv"
	"strings"
	"time"

	pb "github.com/AliceO2Group/Control/core/protos"
	mesos "github.com/mesos/mesos-go/api/v1/lib"
	"google.golang.org/grpc/codes"
	"google.golang.org/grpc/status"

	"verifharness/sim"
	"verifharness/sx"
)

const (
	deployTimeout = "8s"
	hangCeiling   = 20 * time.Second // a request that normally takes milliseconds and has no timer on its path
)

// reqCeiling: > CONFIGURE's 120 s response timeout; never a verdict (the probe program may shorten it)
var reqCeiling = 260 * time.Second

// SetReqCeiling is for the probe program.
func SetReqCeiling(d time.Duration) { reqCeiling = d }

type taskSpec struct {
	crit   bool
	mode   string
	host   string
	launch string
}

// lossMark: `(xfail BASE WHEN UPD)` / `(afail BASE WHEN UPD)` on a task's outcome.
type lossMark struct {
	agent  bool // afail
	before bool
	upd    bool
}

type stepSpec struct {
	ev     string
	outs   []string        // (base) outcome per task
	marks  []*lossMark     // per task, nil = no mark; nil slice = no mark in this step
	delays []time.Duration // per task, `(late BASE D)`; nil slice = no delayed answer in this step
}

func (st stepSpec) delayed() bool { return st.delays != nil }

func (st stepSpec) hasLoss() bool { return st.marks != nil }

type scenario struct {
	calls int
	tasks []taskSpec
	steps []stepSpec
	// late offers: hasOffers = the scenario has an `offers` element (the attempts are observed); offers[i] = hosts whose
	// offer is missing from the i-th round
	hasOffers bool
	offers    [][]string
}

// withholds: some round leaves a host out.
func (sc *scenario) withholds() bool {
	for _, r := range sc.offers {
		if len(r) > 0 {
			return true
		}
	}
	return false
}

func parseScenario(in string) (*scenario, error) {
	n, err := sx.Parse(in)
	if err != nil {
		return nil, err
	}
	if n.Len() >= 1 && !n.At(0).IsList && n.At(0).Str() == "legacy" {
		// `(legacy (wf …) …)`: the Lean driver evaluates the model of the code as it was before the three repairs
		// (by hand, against a tree without them); the generators never produce it
		n = sx.L(n.List[1:]...)
	}
	if n.Len() < 1 || n.At(0).Len() < 2 || n.At(0).At(0).Str() != "wf" {
		return nil, fmt.Errorf("bad scenario")
	}
	sc := &scenario{calls: n.At(0).At(1).Int()}
	for i := 2; i < n.At(0).Len(); i++ {
		t := n.At(0).At(i)
		if t.Len() != 4 {
			return nil, fmt.Errorf("bad task")
		}
		sc.tasks = append(sc.tasks, taskSpec{crit: t.At(0).Bool(), mode: t.At(1).Str(), host: t.At(2).Str(), launch: t.At(3).Str()})
	}
	first := 1
	if n.Len() > 1 && n.At(1).Len() >= 1 && !n.At(1).At(0).IsList && n.At(1).At(0).Str() == "offers" {
		sc.hasOffers = true
		first = 2
		for i := 1; i < n.At(1).Len(); i++ {
			r := n.At(1).At(i)
			if !r.IsList {
				return nil, fmt.Errorf("bad offers round")
			}
			var hs []string
			for j := 0; j < r.Len(); j++ {
				h := r.At(j)
				if h.IsList || (h.Str() != "h1" && h.Str() != "h2") {
					return nil, fmt.Errorf("bad host in offers round")
				}
				hs = append(hs, h.Str())
			}
			sc.offers = append(sc.offers, hs)
		}
	}
	for i := first; i < n.Len(); i++ {
		s := n.At(i)
		if s.Len() != 1+len(sc.tasks) {
			return nil, fmt.Errorf("bad step")
		}
		st := stepSpec{ev: s.At(0).Str()}
		for j := 1; j < s.Len(); j++ {
			o := s.At(j)
			if !o.IsList {
				st.outs = append(st.outs, o.Str())
				continue
			}
			if o.Len() == 3 && !o.At(0).IsList && o.At(0).Str() == "late" {
				// the answer comes after a delay
				base, d := o.At(1).Str(), o.At(2).Int()
				if st.ev == "DIE" || o.At(1).IsList || (base != "ok" && base != "stay" && base != "err") || d <= 0 {
					return nil, fmt.Errorf("bad late outcome")
				}
				if st.delays == nil {
					st.delays = make([]time.Duration, len(sc.tasks))
				}
				st.delays[j-1] = time.Duration(d) * time.Millisecond
				st.outs = append(st.outs, base)
				continue
			}
			// loss mark
			if o.Len() != 4 || i == first || st.ev == "DIE" {
				return nil, fmt.Errorf("bad loss mark")
			}
			k, base, when := o.At(0).Str(), o.At(1).Str(), o.At(2).Str()
			if (k != "xfail" && k != "afail") || (when != "before" && when != "after") ||
				(base != "ok" && base != "stay" && base != "err" && base != "silent") {
				return nil, fmt.Errorf("bad loss mark")
			}
			if st.marks == nil {
				st.marks = make([]*lossMark, len(sc.tasks))
			}
			st.marks[j-1] = &lossMark{agent: k == "afail", before: when == "before", upd: o.At(3).Bool()}
			st.outs = append(st.outs, base)
		}
		if st.delayed() && (st.hasLoss() || i != n.Len()-1) {
			// what a task that answers after the core gave up is worth to the next command is not modelled
			return nil, fmt.Errorf("a delayed answer outside the last step, or together with a loss")
		}
		if st.hasLoss() {
			for _, o := range st.outs {
				if o != "ok" && o != "stay" && o != "err" && o != "silent" && o != "-" {
					return nil, fmt.Errorf("outcome %q in a request with a loss", o)
				}
			}
		}
		sc.steps = append(sc.steps, st)
	}
	return sc, nil
}

func classYAML(name, mode string) string {
	return fmt.Sprintf(`name: %s
control:
  mode: %s
wants:
  cpu: 0.1
  memory: 64
command:
  shell: true
  value: "sleep 100000"
`, name, mode)
}

func (sc *scenario) workflowYAML() string {
	var b strings.Builder
	fmt.Fprintf(&b, "name: c02wf\ndefaults:\n  deploy_timeout: %s\nroles:\n", deployTimeout)
	for i, t := range sc.tasks {
		host := t.host
		if t.launch == "nohost" {
			host = "nowhere"
		}
		fmt.Fprintf(&b, "  - name: \"r%d\"\n    constraints:\n      - attribute: machine_id\n        value: \"%s\"\n    task:\n      load: tc%d\n      critical: %v\n", i, host, i, t.crit)
	}
	for i := 0; i < sc.calls; i++ {
		fmt.Fprintf(&b, "  - name: \"call%d\"\n    call:\n      func: testplugin.Noop()\n      trigger: before_START_ACTIVITY\n      timeout: 5s\n", i)
	}
	if len(sc.tasks) == 0 && sc.calls == 0 {
		b.WriteString("  []\n")
	}
	return b.String()
}

var simEvent = map[string]string{"CONFIGURE": "CONFIGURE", "START_ACTIVITY": "START", "STOP_ACTIVITY": "STOP", "RESET": "RESET"}
var optype = map[string]pb.ControlEnvironmentRequest_Optype{
	"CONFIGURE":      pb.ControlEnvironmentRequest_CONFIGURE,
	"START_ACTIVITY": pb.ControlEnvironmentRequest_START_ACTIVITY,
	"STOP_ACTIVITY":  pb.ControlEnvironmentRequest_STOP_ACTIVITY,
	"RESET":          pb.ControlEnvironmentRequest_RESET,
}
var dstOf = map[string]string{"CONFIGURE": "CONFIGURED", "START_ACTIVITY": "RUNNING", "STOP_ACTIVITY": "CONFIGURED", "RESET": "DEPLOYED"}

func outcomeOf(o string) (sim.Outcome, bool) {
	switch o {
	case "ok", "-":
		return sim.Outcome{Kind: sim.OK}, true
	case "stay":
		return sim.Outcome{Kind: sim.FailStay, Error: "scripted: stays"}, true
	case "err":
		return sim.Outcome{Kind: sim.FailError, Error: "scripted: error state"}, true
	case "undeliv":
		return sim.Outcome{Kind: sim.Undeliverable}, true
	case "silent":
		return sim.Outcome{Kind: sim.Silent}, true
	case "dies":
		return sim.Outcome{Kind: sim.Die}, true
	}
	return sim.Outcome{}, false
}

func script(w *sim.World, sc *scenario, st stepSpec) error {
	w.Master.ClearOutcomes()
	for i, o := range st.outs {
		out, ok := outcomeOf(o)
		if !ok {
			return fmt.Errorf("unknown outcome %q", o)
		}
		if st.delayed() {
			out.Delay = st.delays[i]
		}
		w.SetOutcome(sim.Selector{Class: fmt.Sprintf("tc%d", i)}, simEvent[st.ev], out)
	}
	return nil
}

func replies(o string) bool { return o == "ok" || o == "-" || o == "stay" || o == "err" }

// lossPlan: what is lost during one request, worked out before the request is sent.
type lossPlan struct {
	events     []lossEvent    // one FAILURE event per host with a mark
	victims    map[int]string // task index -> task id of every live task on such a host
	lost       []int          // the same, sorted
	critLost   bool
	awaitReply []string // task ids of the victims whose reply must have left before the loss
	gCo, gVB   string   // gate of the other targets / of the victims hit before their reply
	nCo, nVB   int
	silenced   bool // some victim's reply never leaves: the core waits for its response time-out
}

type lossEvent struct {
	agent, upd      bool
	agentID, execID string
}

// scriptLoss scripts the outcomes of a request with loss marks: victims marked `before` park their reply at gate gVB
// (it never leaves: the simulated task is gone when the gate opens), the other victims answer at once, every other
// target parks its reaction at gate gCo until the core has handled the loss.
func scriptLoss(w *sim.World, sc *scenario, st stepSpec, stepNo int) (*lossPlan, error) {
	live := map[int]sim.TaskRecord{}
	for _, t := range w.Tasks() {
		var i int
		if _, err := fmt.Sscanf(t.Class, "tc%d", &i); err == nil && !t.Terminal {
			live[i] = t
		}
	}
	p := &lossPlan{victims: map[int]string{}, gCo: fmt.Sprintf("co%d", stepNo), gVB: fmt.Sprintf("vb%d", stepNo)}
	byHost := map[string]*lossEvent{}
	for i, m := range st.marks {
		if m == nil {
			continue
		}
		t, ok := live[i]
		if !ok {
			return nil, fmt.Errorf("loss mark on task %d, which is not running", i)
		}
		h := sc.tasks[i].host
		if e, ok := byHost[h]; ok {
			if e.agent != m.agent || e.upd != m.upd {
				return nil, fmt.Errorf("two different losses on host %s in one request", h)
			}
			continue
		}
		byHost[h] = &lossEvent{agent: m.agent, upd: m.upd, agentID: t.AgentID, execID: t.ExecutorID}
		p.events = append(p.events, *byHost[h])
	}
	// the model's assumption (one executor per agent: a loss hits every live task on the host) against the master's table
	for i, t := range live {
		_, byModel := byHost[sc.tasks[i].host]
		byTable := false
		for _, e := range p.events {
			if t.AgentID == e.agentID && (e.agent || t.ExecutorID == e.execID) {
				byTable = true
			}
		}
		if byModel != byTable {
			return nil, &sim.InfraError{What: fmt.Sprintf("task %d on %s: executor %s/%s does not follow one-executor-per-host", i, sc.tasks[i].host, t.AgentID, t.ExecutorID)}
		}
		if byModel {
			p.victims[i] = t.TaskID
			p.lost = append(p.lost, i)
			if sc.tasks[i].crit {
				p.critLost = true
			}
		}
	}
	sort.Ints(p.lost)
	w.Master.ClearOutcomes()
	for i, o := range st.outs {
		out, ok := outcomeOf(o)
		if !ok {
			return nil, fmt.Errorf("unknown outcome %q", o)
		}
		if _, alive := live[i]; alive {
			if id, hit := p.victims[i]; hit {
				switch {
				case st.marks[i] != nil && st.marks[i].before && replies(o):
					out.Gate = p.gVB
					p.nVB++
					p.silenced = true
				case replies(o):
					p.awaitReply = append(p.awaitReply, id)
				default:
					p.silenced = true
				}
			} else {
				out.Gate = p.gCo
				p.nCo++
			}
		}
		w.SetOutcome(sim.Selector{Class: fmt.Sprintf("tc%d", i)}, simEvent[st.ev], out)
	}
	return p, nil
}

// loseDuring: the request has been sent. Wait until its command is parked as planned (the victims' replies have left
// the master, every other reaction is held), inject the FAILURE events, wait until the core has handled them (every task
// hit is reported unlocked and not ACTIVE), make sure the command is STILL outstanding, and let the other targets answer.
func loseDuring(w *sim.World, p *lossPlan, ch chan rpcResult, mark int) error {
	defer func() {
		w.Release(p.gCo)
		w.Release(p.gVB)
	}()
	if err := sim.Poll("command parked before the loss", 60*time.Second, func() (bool, error) {
		if len(ch) > 0 {
			return true, nil
		}
		if w.Master.Held(p.gCo) != p.nCo || w.Master.Held(p.gVB) != p.nVB {
			return false, nil
		}
		seen := map[string]bool{}
		for _, r := range w.Trace()[mark:] {
			if r.Dir == "event" && r.Type == "MESSAGE" && r.MsgType == "MesosCommandResponse" && r.Delivered {
				for _, id := range r.TaskIDs {
					seen[id] = true
				}
			}
		}
		for _, id := range p.awaitReply {
			if !seen[id] {
				return false, nil
			}
		}
		return true, nil
	}); err != nil {
		return err
	}
	if len(ch) > 0 {
		return fmt.Errorf("the request was answered before the loss could be injected")
	}
	for _, e := range p.events {
		if e.agent {
			w.Master.InjectAgentFailure(e.agentID, e.upd)
		} else {
			w.Master.InjectExecutorFailure(e.agentID, e.execID, 9, e.upd)
		}
	}
	ids := map[string]bool{}
	for _, id := range p.victims {
		ids[id] = true
	}
	if err := sim.Poll("tasks of the lost executor/agent reported unlocked and inactive", 60*time.Second, func() (bool, error) {
		ctx, cancel := context.WithTimeout(context.Background(), 30*time.Second)
		defer cancel()
		r, err := w.Client().GetTasks(ctx, &pb.GetTasksRequest{})
		if err != nil {
			return false, &sim.InfraError{What: "GetTasks", Err: err}
		}
		for _, t := range r.GetTasks() {
			if ids[t.GetTaskId()] && (t.GetLocked() || t.GetStatus() == "ACTIVE") {
				return false, nil
			}
		}
		return true, nil
	}); err != nil {
		return err
	}
	if len(ch) > 0 {
		// nothing kept the command outstanding (no other target, no silenced victim): outside the class of scenarios
		return fmt.Errorf("the request was answered before the core had handled the loss (nothing keeps the command outstanding)")
	}
	dbg("loss handled while the command is outstanding: tasks %v", p.lost)
	return nil
}

// deadlinesSince: `(dl ms …)`, parallel to commandsSince: the ResponseTimeout of the (first) transition command `ev` the
// master saw go to each commanded task after trace position mark, in ms (a fraction of a ms is rounded UP, so that it never
// equals a whole number by rounding).
func deadlinesSince(w *sim.World, mark int, ev string) *sx.Node {
	byID := map[string]int{}
	for _, t := range w.Tasks() {
		var i int
		if _, err := fmt.Sscanf(t.Class, "tc%d", &i); err == nil {
			byID[t.TaskID] = i
		}
	}
	first := map[int]int64{}
	for _, r := range w.Trace()[mark:] {
		if r.Dir == "call" && r.Type == "MESSAGE" && r.Cmd != nil && r.Cmd.Name == "MesosCommand_Transition" && r.Cmd.Event == ev {
			if i, ok := byID[r.Cmd.TaskID]; ok {
				if _, seen := first[i]; !seen {
					first[i] = r.Cmd.TimeoutNs
				}
			}
		}
	}
	var is []int
	for i := range first {
		is = append(is, i)
	}
	sort.Ints(is)
	l := sx.L(sx.A("dl"))
	for _, i := range is {
		ms := first[i] / int64(time.Millisecond)
		if first[i]%int64(time.Millisecond) != 0 {
			ms++
		}
		l.Add(sx.I(int(ms)))
	}
	return l
}

// delaysHeld: the scripted delays of a request took effect as scripted — never a verdict, only a guard. For every commanded
// task with a delayed answer: its reply left the master D ± delayTolerance after the master saw the command, or — the
// request having been answered before the reply was due — has not left at all; and D is not within raceMargin of the
// time-out the command carried (there the reply and the core's timer race: nothing to learn from such a run).
const (
	delayTolerance = 4 * time.Second
	raceMargin     = 5 * time.Second
)

func delaysHeld(w *sim.World, sc *scenario, st stepSpec, mark int, ev string, answered time.Time) error {
	if !st.delayed() {
		return nil
	}
	byID := map[string]int{}
	for _, t := range w.Tasks() {
		var i int
		if _, err := fmt.Sscanf(t.Class, "tc%d", &i); err == nil {
			byID[t.TaskID] = i
		}
	}
	type seen struct {
		called, replied time.Time
		tmo             time.Duration
	}
	by := map[int]*seen{}
	for _, r := range w.Trace()[mark:] {
		switch {
		case r.Dir == "call" && r.Type == "MESSAGE" && r.Cmd != nil && r.Cmd.Name == "MesosCommand_Transition" && r.Cmd.Event == ev:
			if i, ok := byID[r.Cmd.TaskID]; ok && by[i] == nil {
				by[i] = &seen{called: r.When, tmo: time.Duration(r.Cmd.TimeoutNs)}
			}
		case r.Dir == "event" && r.Type == "MESSAGE" && r.MsgType == "MesosCommandResponse":
			for _, id := range r.TaskIDs {
				if i, ok := byID[id]; ok && by[i] != nil && by[i].replied.IsZero() {
					by[i].replied = r.When
				}
			}
		}
	}
	for i, d := range st.delays {
		s := by[i]
		if d == 0 || s == nil {
			continue // answers at once, or was not commanded (not ACTIVE)
		}
		if diff := d - s.tmo; diff > -raceMargin && diff < raceMargin {
			return &sim.InfraError{What: fmt.Sprintf("task %d answers %s after a command that carries the time-out %s: a race, no verdict", i, d, s.tmo)}
		}
		if s.replied.IsZero() {
			if late := answered.Sub(s.called); late > d+delayTolerance {
				return &sim.InfraError{What: fmt.Sprintf("task %d: no reply %s after the command although one was scripted after %s", i, late, d)}
			}
			continue
		}
		if took := s.replied.Sub(s.called); took < d-delayTolerance || took > d+delayTolerance {
			return &sim.InfraError{What: fmt.Sprintf("task %d: the reply scripted after %s left after %s", i, d, took)}
		}
	}
	return nil
}

// commandsSince lists the indices of the tasks to which the core sent a transition command `ev` after trace position mark.
func commandsSince(w *sim.World, mark int, ev string) *sx.Node {
	byID := map[string]int{}
	for _, t := range w.Tasks() {
		var i int
		if _, err := fmt.Sscanf(t.Class, "tc%d", &i); err == nil {
			byID[t.TaskID] = i
		}
	}
	seen := map[int]bool{}
	tr := w.Trace()
	for _, r := range tr[mark:] {
		if r.Dir == "call" && r.Type == "MESSAGE" && r.Cmd != nil && r.Cmd.Name == "MesosCommand_Transition" && r.Cmd.Event == ev {
			if i, ok := byID[r.Cmd.TaskID]; ok {
				seen[i] = true
			}
		}
	}
	var is []int
	for i := range seen {
		is = append(is, i)
	}
	sort.Ints(is)
	l := sx.L()
	for _, i := range is {
		l.Add(sx.I(i))
	}
	return l
}

// idleDeaths: the non-critical tasks marked `dies` terminate (TASK_FAILED from their executor) while no transition
// is in progress; returns once the core reports them as not ACTIVE.
func idleDeaths(w *sim.World, sc *scenario, st stepSpec) error {
	victims := map[string]bool{}
	for _, t := range w.Tasks() {
		var i int
		if _, err := fmt.Sscanf(t.Class, "tc%d", &i); err != nil || i >= len(st.outs) || st.outs[i] != "dies" || t.Terminal {
			continue
		}
		if sc.tasks[i].crit {
			return fmt.Errorf("DIE of a critical task is outside this harness (C03)")
		}
		victims[t.TaskID] = true
		if err := w.Master.InjectStatus(t.TaskID, mesos.TASK_FAILED, "scripted idle death"); err != nil {
			return &sim.InfraError{What: "InjectStatus", Err: err}
		}
	}
	return sim.Poll("dead tasks reported inactive", 60*time.Second, func() (bool, error) {
		ctx, cancel := context.WithTimeout(context.Background(), 30*time.Second)
		defer cancel()
		r, err := w.Client().GetTasks(ctx, &pb.GetTasksRequest{})
		if err != nil {
			return false, &sim.InfraError{What: "GetTasks", Err: err}
		}
		for _, t := range r.GetTasks() {
			if victims[t.GetTaskId()] && t.GetStatus() == "ACTIVE" {
				return false, nil
			}
		}
		return true, nil
	})
}

// rolesNotActive reads the core's own account out of the error DEPLOY's time-out branch returns (transition_deploy.go:
// "workflow deployment timed out (…), aborting and cleaning up [N undeployable roles: …; M inactive roles: …]", the roles
// listed being every leaf role whose status is not ACTIVE when the loop gives up): N + M, and whether the text was found.
var deployTimedOutRe = regexp.MustCompile(`workflow deployment timed out \([^)]*\), aborting and cleaning up \[(\d+) undeployable roles: [^;]*; (\d+) inactive roles:`)

func rolesNotActive(err error) (n int, found bool) {
	if err == nil {
		return 0, false
	}
	m := deployTimedOutRe.FindStringSubmatch(err.Error())
	if m == nil {
		return 0, false
	}
	a, _ := strconv.Atoi(m[1])
	b, _ := strconv.Atoi(m[2])
	return a + b, true
}

func allLaunchOk(sc *scenario) bool {
	for _, t := range sc.tasks {
		if t.launch != "ok" {
			return false
		}
	}
	return true
}

// attempt: one deployment attempt as the master saw it.
type attempt struct {
	idx []int    // indices of the tasks launched in it, sorted
	ids []string // their task ids
}

// attemptsSince lists the deployment attempts since trace position mark: one per REVIVE call (Manager.acquireTasks revives
// offers once per attempt, and nothing else in the core does), with the tasks launched by the ACCEPT calls up to the next
// REVIVE. It also checks the master against the script: the i-th OFFERS event since mark must carry exactly the hosts that
// the i-th round does not withhold (anything else is trouble of the harness, not a verdict).
func attemptsSince(w *sim.World, sc *scenario, mark int) ([]attempt, error) {
	byID := map[string]int{}
	for _, t := range w.Tasks() {
		var i int
		if _, err := fmt.Sscanf(t.Class, "tc%d", &i); err == nil {
			byID[t.TaskID] = i
		}
	}
	var atts []attempt
	round := 0
	for _, r := range w.Trace()[mark:] {
		switch {
		case r.Dir == "call" && r.Type == "REVIVE":
			atts = append(atts, attempt{})
		case r.Dir == "call" && r.Type == "ACCEPT" && len(r.TaskIDs) > 0:
			if len(atts) == 0 {
				return nil, &sim.InfraError{What: "tasks launched before any REVIVE call"}
			}
			a := &atts[len(atts)-1]
			for _, id := range r.TaskIDs {
				i, ok := byID[id]
				if !ok {
					return nil, &sim.InfraError{What: "launched task " + id + " is not in the master's table"}
				}
				a.idx = append(a.idx, i)
				a.ids = append(a.ids, id)
			}
		case r.Dir == "event" && r.Type == "OFFERS":
			want := map[string]bool{"h0": true, "h1": true, "h2": true}
			if round < len(sc.offers) {
				for _, h := range sc.offers[round] {
					delete(want, h)
				}
			}
			round++
			got := map[string]bool{}
			for _, h := range r.Hosts {
				got[h] = true
			}
			same := len(got) == len(want)
			for h := range want {
				same = same && got[h]
			}
			if !same {
				return nil, &sim.InfraError{What: fmt.Sprintf("offers round %d carries %v, scripted: all but %v", round, r.Hosts, sc.offers)}
			}
		}
	}
	for i := range atts {
		sort.Ints(atts[i].idx)
	}
	return atts, nil
}

// acquireStuck: after a failed NewEnvironment, is Manager.acquireTasks still parked in a channel receive although the
// offers round it revived for is over (the master has seen the DECLINE / ACCEPT calls that end a round)? Then the verdict
// of that round never reached it: resourceOffers hands it over with a non-blocking send on an unbuffered channel
// (`select { case outcomeCh <- …: default: }`) and acquireTasks was not listening yet. The evidence is the goroutine
// dump the core writes on SIGQUIT (which ends it).
func acquireStuck(w *sim.World, mark int) (bool, error) {
	revived, over := false, false
	for _, r := range w.Trace()[mark:] {
		if r.Dir != "call" {
			continue
		}
		switch r.Type {
		case "REVIVE":
			revived, over = true, false
		case "DECLINE", "ACCEPT":
			over = revived
		}
	}
	if !over {
		return false, nil
	}
	exec.Command("pkill", "-QUIT", "-f", "coreWorkingDir="+w.Dir()+"/").Run()
	if err := sim.Poll("core exit after SIGQUIT", 15*time.Second, func() (bool, error) { return !w.CoreAlive(), nil }); err != nil {
		return false, err
	}
	b, err := os.ReadFile(w.Dir() + "/core.1.stderr")
	if err != nil {
		return false, &sim.InfraError{What: "goroutine dump of the core", Err: err}
	}
	if !strings.Contains(string(b), "\ngoroutine ") {
		return false, &sim.InfraError{What: "no goroutine dump in the core's stderr"}
	}
	return StuckSignature(string(b)), nil
}

// StuckSignature: the dump has a goroutine parked in a channel receive whose first frame outside the runtime is
// Manager.acquireTasks.
func StuckSignature(dump string) bool {
	for _, g := range strings.Split(dump, "\n\ngoroutine ") {
		nl := strings.Index(g, "\n")
		if nl < 0 || !strings.Contains(g[:nl], "[chan receive") {
			continue
		}
		for _, l := range strings.Split(g[nl+1:], "\n") {
			if l == "" || strings.HasPrefix(l, "\t") || strings.HasPrefix(l, "runtime.") {
				continue
			}
			if strings.Contains(l, "core/task.(*Manager).acquireTasks(") {
				return true
			}
			break
		}
	}
	return false
}

// runningAckedBy: n tasks (if `only` is given: n of those) were launched since mark, each reported TASK_RUNNING, and the
// core acknowledged each of those updates before `deadline`.
func runningAckedBy(w *sim.World, mark, n int, deadline time.Time, only map[string]bool) bool {
	running := map[string]bool{}
	acked := map[string]bool{}
	for _, r := range w.Trace()[mark:] {
		switch {
		case r.Dir == "event" && r.Type == "UPDATE" && r.State == "TASK_RUNNING" && r.Delivered:
			for _, id := range r.TaskIDs {
				if only == nil || only[id] {
					running[id] = true
				}
			}
		case r.Dir == "call" && r.Type == "ACKNOWLEDGE" && r.When.Before(deadline):
			for _, id := range r.TaskIDs {
				if running[id] {
					acked[id] = true
				}
			}
		}
	}
	return len(acked) == n
}

type rpcResult struct {
	state string
	id    string
	err   error
}

// envSnapshot: the environments the core lists (id, state, transition in progress).
func envSnapshot(w *sim.World) ([]*pb.EnvironmentInfo, error) {
	ctx, cancel := context.WithTimeout(context.Background(), 30*time.Second)
	defer cancel()
	r, err := w.Client().GetEnvironments(ctx, &pb.GetEnvironmentsRequest{ShowAll: true})
	if err != nil {
		return nil, &sim.InfraError{What: "GetEnvironments", Err: err}
	}
	return r.GetEnvironments(), nil
}

func afterState(w *sim.World, id string) (string, error) {
	envs, err := envSnapshot(w)
	if err != nil {
		return "", err
	}
	for _, e := range envs {
		if id == "" || e.GetId() == id {
			return e.GetState(), nil
		}
	}
	return "gone", nil
}

// await waits for the request. A request that is expected to take milliseconds and has not answered within hangCeiling
// is reported as a hang only if (a) the core itself lists the transition `tr` as in progress and (b) the master has seen
// no transition command of this request at all — i.e. the core is not waiting for anybody's answer, there is no timer on
// its path. If commands were sent, the core is waiting for its own response timeout: keep waiting (up to reqCeiling) and
// report what it finally answers. Everything else is infrastructure trouble (inconclusive).
//
// While waiting, the core is asked every 10 s what it is doing. An environment that sits in transition DESTROY on two
// consecutive looks is the teardown of a failed creation that never finishes: finding C06 `teardown_registration_race`
// (TeardownEnvironment waits for a TasksReleasedEvent that the event loop dropped; the more likely the busier the
// machine). It is not this property's business and never ends: the case is given up as inconclusive at once instead of
// at reqCeiling (it used to cost every run that met it 260 s of wall time).
func await(w *sim.World, ch chan rpcResult, expectFast bool, tr string, mark int, simEv string) (res rpcResult, hang bool, hangState string, err error) {
	t0 := time.Now()
	first := true
	inDestroy := 0
	for {
		wait := 10 * time.Second
		if first {
			wait = hangCeiling
		}
		if left := reqCeiling - time.Since(t0); left < wait {
			wait = left
		}
		select {
		case res = <-ch:
			return res, false, "", nil
		case <-time.After(wait):
		}
		if time.Since(t0) >= reqCeiling {
			break
		}
		envs, e := envSnapshot(w)
		if e != nil {
			return res, false, "", e
		}
		if len(envs) == 1 && envs[0].GetCurrentTransition() == "DESTROY" {
			if inDestroy++; inDestroy >= 2 {
				if Debug != nil {
					dumpCore(w)
				}
				return res, false, "", &sim.InfraError{What: "the core sits in the teardown of the environment (transition DESTROY) for more than 10 s: finding C06 teardown_registration_race, not a C02 verdict"}
			}
		} else {
			inDestroy = 0
		}
		if first && expectFast && commandsSince(w, mark, simEv).Len() == 0 {
			if len(envs) == 1 && envs[0].GetCurrentTransition() == tr {
				// one more look after a pause: still no answer, still nothing sent
				time.Sleep(2 * time.Second)
				select {
				case res = <-ch:
					return res, false, "", nil
				default:
				}
				if commandsSince(w, mark, simEv).Len() == 0 {
					return res, true, envs[0].GetState(), nil
				}
			} else {
				return res, false, "", &sim.InfraError{What: fmt.Sprintf("no answer within %s, nothing sent and the core does not show %s in progress", hangCeiling, tr)}
			}
		}
		first = false
	}
	if Debug != nil {
		dumpCore(w)
	}
	return res, false, "", &sim.InfraError{What: "request ceiling reached"}
}

// dumpCore (probe only): SIGQUIT to the core child, so that its goroutine dump lands in core.<n>.stderr (keep the
// directory with SIM_KEEP=1).
func dumpCore(w *sim.World) {
	exec.Command("pkill", "-QUIT", "-f", "coreWorkingDir="+w.Dir()+"/core").Run()
	time.Sleep(2 * time.Second)
	dst := "/tmp/c02-dump-" + filepath.Base(w.Dir())
	exec.Command("cp", "-r", w.Dir(), dst).Run()
	dbg("core dumped: %s", dst)
}

// isGrpc: err is an answer of the core (a gRPC status set by the handler), not transport/deadline trouble.
func isGrpc(err error) bool {
	st, ok := status.FromError(err)
	if !ok {
		return false
	}
	switch st.Code() {
	case codes.Unavailable, codes.DeadlineExceeded, codes.Canceled:
		return false
	}
	return true
}

// RunScenario is the exported entry point (probe program, RunImpl).
func RunScenario(in string) (string, error) { return runScenario(in) }

// slowStep: some commanded task makes the core wait for its response timeout.
func slow(outs []string) bool {
	for _, o := range outs {
		if o == "silent" || o == "dies" || o == "undeliv" {
			return true
		}
	}
	return false
}

func hasUndeliv(outs []string) bool {
	for _, o := range outs {
		if o == "undeliv" {
			return true
		}
	}
	return false
}

// Debug, if set, receives progress lines (probe program).
var Debug func(string)

func dbg(f string, a ...any) {
	if Debug != nil {
		Debug(fmt.Sprintf(f, a...))
	}
}

func runScenario(in string) (string, error) {
	sc, err := parseScenario(in)
	if err != nil {
		return "", err
	}
	w, err := sim.Start(sim.Config{Name: "c02", CoreFlags: map[string]string{"integrationPlugins": "testplugin"}, Verbose: Debug != nil})
	if err != nil {
		return "", err
	}
	defer w.Stop()
	w.AddAgent(sim.AgentSpec{Host: "h1", Detector: "TST"})
	w.AddAgent(sim.AgentSpec{Host: "h2", Detector: "TST"})
	if sc.hasOffers {
		// a host that carries no task and is never withheld: every offers round takes place (the master sends no empty
		// OFFERS event, and the core's attempt waits for one)
		w.AddAgent(sim.AgentSpec{Host: "h0", Detector: "TST"})
	}
	for i, t := range sc.tasks {
		if err = w.SetTaskClass(fmt.Sprintf("tc%d", i), classYAML(fmt.Sprintf("tc%d", i), t.mode)); err != nil {
			return "", &sim.InfraError{What: "task class", Err: err}
		}
		switch t.launch {
		case "dies":
			w.SetOutcome(sim.Selector{Class: fmt.Sprintf("tc%d", i)}, sim.EvLaunch, sim.Outcome{Kind: sim.Die})
		case "silent":
			w.SetOutcome(sim.Selector{Class: fmt.Sprintf("tc%d", i)}, sim.EvLaunch, sim.Outcome{Kind: sim.Silent})
		}
	}
	if err = w.SetWorkflow("c02wf", sc.workflowYAML()); err != nil {
		return "", &sim.InfraError{What: "workflow", Err: err}
	}
	obs := sx.L()

	// ---- NewEnvironment = DEPLOY + CONFIGURE
	var first stepSpec
	if len(sc.steps) > 0 {
		first = sc.steps[0]
		if first.ev != "CONFIGURE" {
			return "", fmt.Errorf("first step must be CONFIGURE")
		}
		// launch rules stay; add the CONFIGURE scripts on top
		for i, o := range first.outs {
			out, ok := outcomeOf(o)
			if !ok {
				return "", fmt.Errorf("unknown outcome %q", o)
			}
			if first.delayed() {
				out.Delay = first.delays[i]
			}
			w.SetOutcome(sim.Selector{Class: fmt.Sprintf("tc%d", i)}, "CONFIGURE", out)
		}
	}
	mark := len(w.Trace())
	if sc.withholds() {
		w.Master.WithholdOffers(sc.offers)
		defer w.Master.WithholdOffers(nil)
	}
	ch := make(chan rpcResult, 1)
	go func() {
		ctx, cancel := context.WithTimeout(context.Background(), reqCeiling+30*time.Second)
		defer cancel()
		r, err := w.Client().NewEnvironment(ctx, &pb.NewEnvironmentRequest{WorkflowTemplate: "c02wf", Vars: map[string]string{}})
		ch <- rpcResult{state: r.GetEnvironment().GetState(), id: r.GetEnvironment().GetId(), err: err}
	}()
	// DEPLOY waits (up to deploy_timeout, + retries for an unplaceable task) unless every task starts; CONFIGURE waits for
	// its response timeout if a commanded task is scripted not to answer. Otherwise the request takes milliseconds.
	expectFast := len(sc.steps) == 0 || !(slow(first.outs) || first.delayed())
	for _, t := range sc.tasks {
		if t.launch != "ok" {
			expectFast = false
		}
	}
	if len(sc.tasks) == 0 && sc.calls == 0 {
		expectFast = false
	}
	if sc.withholds() {
		expectFast = false // every attempt that finds a critical task's host missing costs the core's 1 s pause
	}
	var res rpcResult
	var hang bool
	var hangState string
	res, hang, hangState, err = await(w, ch, expectFast, "CONFIGURE", mark, "CONFIGURE")
	if err != nil {
		return "", err
	}
	if hang {
		obs.Add(sx.L(sx.A("new"), sx.A("hang"), sx.A("-"), sx.A(hangState), commandsSince(w, mark, "CONFIGURE"), deadlinesSince(w, mark, "CONFIGURE")))
		return obs.String(), nil
	}
	if res.err != nil && !isGrpc(res.err) {
		return "", &sim.InfraError{What: "NewEnvironment transport", Err: res.err}
	}
	replied := time.Now()
	dbg("NewEnvironment -> %q err %v", res.state, res.err)
	if len(sc.steps) > 0 {
		if err = delaysHeld(w, sc, first, mark, "CONFIGURE", replied); err != nil {
			return "", err
		}
	}
	if Debug != nil && res.err != nil && os.Getenv("C02_DUMP_NEW_ERR") != "" {
		dumpCore(w) // probe only: goroutine dump + copy of the world's directory when NewEnvironment failed
	}
	if Debug != nil && res.err != nil {
		for _, l := range strings.Split(w.CoreLog(), "\n") {
			if strings.Contains(l, "workflow status change") || strings.Contains(l, "for workflow to become active") || strings.Contains(l, "timed out") || strings.Contains(l, "TASK_RUNNING") {
				if len(l) > 300 {
					l = l[:300]
				}
				dbg("   core: %s", l)
			}
		}
	}
	id := res.id
	rpc, state := "ok", res.state
	if res.err != nil {
		rpc, state = "err", "-"
		id = ""
	}
	after, err := afterState(w, id)
	if err != nil {
		return "", err
	}
	newObs := sx.L(sx.A("new"), sx.A(rpc), sx.A(state), sx.A(after), commandsSince(w, mark, "CONFIGURE"))
	var atts []attempt
	if sc.hasOffers {
		w.Master.WithholdOffers(nil)
		if atts, err = attemptsSince(w, sc, mark); err != nil {
			return "", err
		}
	}
	// with late offers: the tasks that count are those of the last attempt (the ones the core keeps), and only if that
	// attempt launched every task
	launchedAll := !sc.hasOffers || (len(atts) > 0 && len(atts[len(atts)-1].idx) == len(sc.tasks))
	// DEPLOY failed although every task was scripted to start and was launched (the picture of deploy_misses_active)
	suspect := rpc == "err" && newObs.At(4).Len() == 0 && (len(sc.tasks) > 0 || sc.calls > 0) && allLaunchOk(sc) && launchedAll
	// A failed NewEnvironment: is acquireTasks still waiting for the verdict of its last offers round (the former finding
	// deploy_verdict_lost, repaired by `fix: acquireTasks cannot miss the verdict of its offers round`; the model of the code as
	// it is has no such run, so the atom below is a disagreement)? Proof by goroutine dump; the core does not survive it, and
	// the run ends here anyway. Asked with late offers whenever an attempt was made, and WITHOUT an `offers` element whenever the
	// failure would otherwise be put down to deploy_misses_active: a verdict dropped after a complete round launches every
	// task, attaches none and looks exactly like that finding from outside.
	stuck := false
	if rpc == "err" && len(sc.tasks) > 0 && ((sc.hasOffers && len(atts) > 0) || (!sc.hasOffers && suspect)) {
		if stuck, err = acquireStuck(w, mark); err != nil {
			return "", err
		}
	}
	if suspect && !stuck {
		// DEPLOY failed although every task was scripted to start. Either the harness machine was too slow (inconclusive)
		// or the core had everything it needed: every TASK_RUNNING update acknowledged long before it gave up.
		var only map[string]bool
		if sc.hasOffers && len(atts) > 0 {
			only = map[string]bool{}
			for _, id := range atts[len(atts)-1].ids {
				only[id] = true
			}
		}
		if !runningAckedBy(w, mark, len(sc.tasks), replied.Add(-3*time.Second), only) {
			return "", &sim.InfraError{What: "DEPLOY failed and the core had not acknowledged every TASK_RUNNING 3 s before"}
		}
		// Which of the two ways to miss a running workflow? The core says so itself: its time-out error lists every role
		// that was not ACTIVE when the loop gave up. Some role listed: a status update did not reach its role (the open
		// finding deploy_misses_active: TASK_RUNNING handled before the task was in the roster) — `running-acked`, the only
		// licence for that hypothesis. None listed: every role WAS active and the loop did not get to know (the former
		// mechanism (b) of that finding, repaired by `fix: DEPLOY cannot miss that the workflow became active`) —
		// `active-unseen`, which the model of the code as it is never answers.
		if n, found := rolesNotActive(res.err); found && n == 0 {
			newObs.Add(sx.A("active-unseen"))
		} else {
			newObs.Add(sx.A("running-acked"))
		}
	}
	if sc.hasOffers {
		a := sx.L(sx.A("att"))
		for _, at := range atts {
			l := sx.L()
			for _, i := range at.idx {
				l.Add(sx.I(i))
			}
			a.Add(l)
		}
		newObs.Add(a)
		if stuck {
			newObs.Add(sx.A("verdict-lost"))
		}
	} else if stuck {
		newObs.Add(sx.A("verdict-lost"))
	}
	newObs.Add(deadlinesSince(w, mark, "CONFIGURE"))
	obs.Add(newObs)
	if rpc != "ok" || state != "CONFIGURED" || len(sc.steps) == 0 || hasUndeliv(first.outs) {
		return obs.String(), nil
	}

	// ---- ControlEnvironment requests
	for stepNo, st := range sc.steps[1:] {
		if st.ev == "DIE" {
			if err = idleDeaths(w, sc, st); err != nil {
				return "", err
			}
			continue
		}
		op, ok := optype[st.ev]
		if !ok {
			return "", fmt.Errorf("unknown event %q", st.ev)
		}
		var plan *lossPlan
		if st.hasLoss() {
			if plan, err = scriptLoss(w, sc, st, stepNo+1); err != nil {
				return "", err
			}
		} else if err = script(w, sc, st); err != nil {
			return "", err
		}
		mark = len(w.Trace())
		ch := make(chan rpcResult, 1)
		go func() {
			ctx, cancel := context.WithTimeout(context.Background(), reqCeiling+30*time.Second)
			defer cancel()
			r, err := w.Client().ControlEnvironment(ctx, &pb.ControlEnvironmentRequest{Id: id, Type: op})
			ch <- rpcResult{state: r.GetState(), err: err}
		}()
		expectFast := !(slow(st.outs) || st.delayed())
		if plan != nil {
			if err = loseDuring(w, plan, ch, mark); err != nil {
				return "", err
			}
			if plan.silenced {
				expectFast = false
			}
		}
		res, hang, hangState, err = await(w, ch, expectFast, st.ev, mark, simEvent[st.ev])
		if err != nil {
			return "", err
		}
		if hang {
			obs.Add(sx.L(sx.A("ctl"), sx.A(st.ev), sx.A("hang"), sx.A("-"), sx.A(hangState), commandsSince(w, mark, simEvent[st.ev]), deadlinesSince(w, mark, simEvent[st.ev])))
			return obs.String(), nil
		}
		if res.err != nil && !isGrpc(res.err) {
			return "", &sim.InfraError{What: "ControlEnvironment transport", Err: res.err}
		}
		dbg("ControlEnvironment %s -> %q err %v", st.ev, res.state, res.err)
		if err = delaysHeld(w, sc, st, mark, simEvent[st.ev], time.Now()); err != nil {
			return "", err
		}
		rpc, state = "ok", res.state
		if res.err != nil {
			rpc, state = "err", "-"
		}
		critLost := plan != nil && plan.critLost
		if critLost && rpc == "ok" {
			// a critical task was lost and the transition succeeded all the same (the task had acknowledged): the
			// environment's watcher performs GO_ERROR as soon as it gets the transition mutex; wait for it
			if _, err = w.WaitEnvState(id, 60*time.Second, "ERROR"); err != nil {
				return "", err
			}
		}
		if after, err = afterState(w, id); err != nil {
			return "", err
		}
		o := sx.L(sx.A("ctl"), sx.A(st.ev), sx.A(rpc), sx.A(state), sx.A(after), commandsSince(w, mark, simEvent[st.ev]))
		if plan != nil && len(plan.lost) > 0 {
			l := sx.L(sx.A("lost"))
			for _, i := range plan.lost {
				l.Add(sx.I(i))
			}
			o.Add(l)
		}
		o.Add(deadlinesSince(w, mark, simEvent[st.ev]))
		obs.Add(o)
		if rpc != "ok" || state != dstOf[st.ev] || hasUndeliv(st.outs) || critLost {
			break
		}
	}
	return obs.String(), nil
}
