package c03

// Follow-up probe "is the environment still being watched?" — evidence for ONE class only.
//
// At instant burst the victim's own reply to the transition in flight and its failure reach the core back to back, by
// construction: the reply's `go updateTaskState(dst)` and the failure's update of the role (ERROR) are two unordered
// goroutines, neither atomic. If the reply's goroutine overwrites the role and recomputes the root between the
// failure's `root.merge(ERROR)` and its `parent.updateState(r.state.get())`, the value handed to the environment's
// watcher is the stale healthy one: the watcher never hears of the ERROR and stays in its loop (open finding
// stale_update_overwrites_error, mechanism "the two updates interleave inside aggregatorRole.updateState"; seen in
// 2–3 % of the TASK_INTERNAL_ERROR burst worlds, where the device event travels on a channel of its own and really is
// concurrent with the reply). The final picture — environment healthy, every role reporting the destination — is the
// SAME as that of a watcher that did receive the ERROR and then did nothing (e.g. a timer function that re-checks the
// root and gives up: seed C03-1), so the picture alone must stay a VIOLATION. What tells them apart is observable: in
// the first case the watcher is still there. So, only when a critical victim of a burst world did not take the
// environment to ERROR, ONE more failure is delivered, alone, after everything has settled: TASK_FAILED about the
// victim. The environment's state after the usual settle procedure goes into the observation as `(again ST TOLD)`.
// TOLD tells the class apart from a core that never told the role at all (e.g. a device event that is ignored in
// some environment state — the former finding internal_error_ignored_unless_running — has the same final picture and
// the same answer to the follow-up): 1 iff the core published, after the injection, a role event saying that the
// VICTIM'S ROLE went to ERROR (taskRole.updateState writes it when the role's state changes) — the update did happen
// and was overwritten afterwards. The model's variant "the failure's role update was overwritten before the root
// looked" (Failure.failOneLost) predicts `(again ERROR 1)`; anything else matches no variant: plain VIOLATION.

import (
	"encoding/json"
	"fmt"
	"strings"
	"time"

	mesos "github.com/mesos/mesos-go/api/v1/lib"

	"verifharness/sim"
)

func needAgain(s *scenario, o *observation) bool {
	if s.instant != "burst" || o.env == "ERROR" || o.env == "GONE" || len(o.victims) != 1 {
		return false
	}
	switch s.kind {
	case "INTERNAL", "FAILED", "LOST", "KILLED", "TERROR":
	default:
		return false
	}
	return s.tasks[s.victim].crit
}

// followUp: TASK_FAILED about the victim, then the settle procedure of the main injection (phase 1: the victim's role
// reports a status other than ACTIVE, or ERROR shows; phase 2: the settle window + 10 x the slowest round trip).
func followUp(w *sim.World, id string, s *scenario, taskID string) (string, error) {
	if err := w.Master.InjectStatus(taskID, mesos.TASK_FAILED, "simulated: follow-up FAILED"); err != nil {
		return "", &sim.InfraError{What: "inject follow-up", Err: err}
	}
	tS := time.Now()
	var tH time.Time
	var slowest time.Duration
	role := fmt.Sprintf("r%d", s.victim)
	for {
		t1 := time.Now()
		v, err := getEnv(w, id)
		if d := time.Since(t1); d > slowest {
			slowest = d
		}
		if err != nil {
			return "", err
		}
		if v.gone {
			return "GONE", nil
		}
		if v.state == "ERROR" {
			return "ERROR", nil
		}
		if tH.IsZero() && v.roles[role][1] != "ACTIVE" {
			tH = time.Now()
		}
		if tH.IsZero() {
			if time.Since(tS) > handledCeiling {
				return v.state, nil
			}
		} else if time.Since(tH) > settleWindow+10*slowest {
			return v.state, nil
		}
		time.Sleep(10 * time.Millisecond)
	}
}

// roleToldError: did the core publish, since event `mark`, a role event "role r<victim> of this environment: state ERROR"?
func roleToldError(w *sim.World, id string, s *scenario, mark int) bool {
	evs := w.CoreEvents()
	if mark > len(evs) {
		mark = len(evs)
	}
	role := fmt.Sprintf("r%d", s.victim)
	for _, e := range evs[mark:] {
		if !strings.HasSuffix(e.Type, "Ev_RoleEvent") {
			continue
		}
		var p struct {
			Name          string `json:"name"`
			State         string `json:"state"`
			EnvironmentId string `json:"environmentId"`
		}
		if json.Unmarshal(e.Payload, &p) == nil && p.Name == role && p.State == "ERROR" && (p.EnvironmentId == "" || p.EnvironmentId == id) {
			return true
		}
	}
	return false
}
