package c03

// Bystanders: roster tasks that are NOT tasks of the environment under observation but live on the same agents —
// the task manager's roster is one table for the whole core, and a lost agent / executor is handled by ONE walk over
// that table (HandleAgentFailed / HandleExecutorFailed: filter by agent / executor id, then a per-task body).
//
// Optional sixth field of a scenario: a list of groups `(pos own ((crit host)…))`
//
//	pos  before | after   the group's environment is created before / after the main one, so its tasks precede /
//	                      follow the main environment's tasks in the roster (checked against GetTasks, whose order is
//	                      the roster's)
//	own  loose            the group's environment is destroyed again with keepTasks once every environment of the
//	                      world exists (a later creation's pre-deployment Cleanup() would kill them): its tasks stay in
//	                      the roster, running on their agent, with NO parent role (they belong to no environment)
//	     env              the group's environment stays alive (CONFIGURED): a second live environment whose tasks
//	                      share agents (and executors: the core re-uses an agent's executor) with the main one
//
// Observation: `(by (G…))`, one entry per group in input order — `(loose (STATE…))` = each kept task's own state as the
// core's task events report it (GetTasks reads state and status from the parent role and says UNKNOWN for a task without
// one; the status of such a task is published only by updateTaskStatus, not by the failure walk, and is not observed):
// ERROR / DONE if any Ev_TaskEvent about the task since the injection says so, else STANDBY (where RESET left it);
// `(env STATE (root STATE STATUS) (roles ((STATE STATUS)…)))` = the second environment as
// GetEnvironment reports it after ITS settle window. The field is absent without groups (older observations unchanged).

import (
	"context"
	"encoding/json"
	"fmt"
	"strings"
	"time"

	pb "github.com/AliceO2Group/Control/core/protos"

	"verifharness/sim"
	"verifharness/sx"
)

type group struct {
	pos   string // before | after
	own   string // loose | env
	tasks []taskSpec
}

// what the world knows about a group once it has been created
type groupRT struct {
	envID string
	recs  []sim.TaskRecord
}

type groupObs struct {
	own    string
	loose  []string // loose: task.state of every kept task
	env    string
	root   string
	rootSu string
	roles  [][2]string
}

func parseGroups(n *sx.Node) ([]group, error) {
	if !n.IsList {
		return nil, fmt.Errorf("scenario: groups must be a list")
	}
	var out []group
	for _, g := range n.List {
		if !g.IsList || g.Len() != 3 || !g.At(2).IsList {
			return nil, fmt.Errorf("scenario: bad group")
		}
		x := group{pos: g.At(0).Str(), own: g.At(1).Str()}
		if x.pos != "before" && x.pos != "after" {
			return nil, fmt.Errorf("scenario: bad group position %q", x.pos)
		}
		if x.own != "loose" && x.own != "env" {
			return nil, fmt.Errorf("scenario: bad group owner %q", x.own)
		}
		for _, t := range g.At(2).List {
			if !t.IsList || t.Len() != 2 {
				return nil, fmt.Errorf("scenario: bad group task")
			}
			ts := taskSpec{crit: t.At(0).Bool(), host: t.At(1).Int()}
			if ts.host < 1 || ts.host > 2 {
				return nil, fmt.Errorf("scenario: bad group host")
			}
			x.tasks = append(x.tasks, ts)
		}
		if len(x.tasks) < 1 || len(x.tasks) > 3 {
			return nil, fmt.Errorf("scenario: a group has 1..3 tasks")
		}
		out = append(out, x)
	}
	if len(out) > 3 {
		return nil, fmt.Errorf("scenario: at most 3 groups")
	}
	return out, nil
}

func groupsSx(gs []group) *sx.Node {
	l := sx.L()
	for _, g := range gs {
		ts := sx.L()
		for _, t := range g.tasks {
			ts.Add(sx.L(sx.B(t.crit), sx.I(t.host)))
		}
		l.Add(sx.L(sx.A(g.pos), sx.A(g.own), ts))
	}
	return l
}

func groupObsSx(gs []groupObs) *sx.Node {
	l := sx.L()
	pairs := func(ps [][2]string) *sx.Node {
		r := sx.L()
		for _, p := range ps {
			r.Add(sx.L(sx.A(p[0]), sx.A(p[1])))
		}
		return r
	}
	for _, g := range gs {
		if g.own == "loose" {
			ls := sx.L()
			for _, x := range g.loose {
				ls.Add(sx.A(x))
			}
			l.Add(sx.L(sx.A("loose"), ls))
		} else {
			l.Add(sx.L(sx.A("env"), sx.A(g.env), sx.L(sx.A("root"), sx.A(g.root), sx.A(g.rootSu)), sx.L(sx.A("roles"), pairs(g.roles))))
		}
	}
	return l
}

func groupClass(g, i int) string { return fmt.Sprintf("g%dt%d", g, i) }
func groupWf(g int) string      { return fmt.Sprintf("c03by%d", g) }

func groupWorkflowYAML(g int, ts []taskSpec) string {
	var b strings.Builder
	fmt.Fprintf(&b, "name: %s\ndefaults:\n  deploy_timeout: 15s\nroles:\n", groupWf(g))
	for i, t := range ts {
		fmt.Fprintf(&b, "  - name: \"r%d\"\n    constraints:\n      - attribute: machine_id\n        value: \"host%d\"\n    task:\n      load: %s\n      critical: %v\n", i, t.host, groupClass(g, i), t.crit)
	}
	return b.String()
}

// the roster as the core reports it (GetTasks copies the roster in its own order)
func rosterView(w *sim.World) ([]*pb.ShortTaskInfo, error) {
	c, cancel := context.WithTimeout(context.Background(), 30*time.Second)
	defer cancel()
	cl := w.Client()
	if cl == nil {
		return nil, &sim.InfraError{What: "no core"}
	}
	r, err := cl.GetTasks(c, &pb.GetTasksRequest{})
	if err != nil {
		return nil, &sim.InfraError{What: "GetTasks", Err: err}
	}
	return r.GetTasks(), nil
}

// createGroup: the group's environment is created (CONFIGURED, every role reporting CONFIGURED — nothing of it is on its
// way any more). Every wait has the harness ceiling: trouble here is infrastructure, never a verdict.
func createGroup(w *sim.World, gi int, g group) (*groupRT, error) {
	c, cancel := gctx()
	r, err := w.Client().NewEnvironment(c, &pb.NewEnvironmentRequest{WorkflowTemplate: groupWf(gi), Vars: map[string]string{}})
	cancel()
	if err != nil {
		return nil, &sim.InfraError{What: "NewEnvironment (bystander group)", Err: err}
	}
	id := r.GetEnvironment().GetId()
	if st := r.GetEnvironment().GetState(); st != "CONFIGURED" {
		return nil, &sim.InfraError{What: "NewEnvironment left the bystander environment in " + st}
	}
	rt := &groupRT{envID: id, recs: make([]sim.TaskRecord, len(g.tasks))}
	for _, t := range w.Tasks() {
		var a, b int
		if _, e := fmt.Sscanf(t.Class, "g%dt%d", &a, &b); e == nil && a == gi && b < len(rt.recs) {
			rt.recs[b] = t
		}
	}
	for i, t := range rt.recs {
		if t.TaskID == "" {
			return nil, &sim.InfraError{What: fmt.Sprintf("bystander task %d/%d not launched", gi, i)}
		}
	}
	if err = sim.Poll("bystander environment's roles report CONFIGURED", ceiling, func() (bool, error) {
		v, e := getEnv(w, id)
		if e != nil {
			return false, e
		}
		if v.gone {
			return false, &sim.InfraError{What: "bystander environment vanished"}
		}
		for i := range g.tasks {
			if v.roles[fmt.Sprintf("r%d", i)] != [2]string{"CONFIGURED", "ACTIVE"} {
				return false, nil
			}
		}
		return v.state == "CONFIGURED", nil
	}); err != nil {
		return nil, err
	}
	return rt, nil
}

// releaseGroup: a loose group's environment is destroyed with keepTasks — AFTER every environment of the world has been
// created: CreateEnvironment begins with a pre-deployment Cleanup() that kills every unlocked task of the roster, so a
// kept task never survives a later creation. What remains is the everyday case: the older environment is given up
// (tasks kept for re-use) while a younger one is live. The kept tasks stay where they are in the roster.
func releaseGroup(w *sim.World, rt *groupRT) error {
	c, cancel := gctx()
	_, err := w.Client().DestroyEnvironment(c, &pb.DestroyEnvironmentRequest{Id: rt.envID, KeepTasks: true})
	cancel()
	if err != nil {
		return &sim.InfraError{What: "DestroyEnvironment keepTasks (bystander group)", Err: err}
	}
	rt.envID = ""
	want := map[string]bool{}
	for _, t := range rt.recs {
		want[t.TaskID] = true
	}
	lastSeen := ""
	if err = sim.Poll("kept tasks are in the roster, unlocked", ceiling, func() (bool, error) {
		ts, e := rosterView(w)
		if e != nil {
			return false, e
		}
		n := 0
		for _, t := range ts {
			if want[t.GetTaskId()] {
				lastSeen = fmt.Sprintf("locked=%v status=%s state=%s", t.GetLocked(), t.GetStatus(), t.GetState())
				if t.GetLocked() {
					return false, nil
				}
				n++
			}
		}
		if n != len(want) {
			return false, &sim.InfraError{What: "a kept task left the roster"}
		}
		return true, nil
	}); err != nil {
		return &sim.InfraError{What: "kept tasks: " + lastSeen, Err: err}
	}
	for _, t := range w.Tasks() {
		if want[t.TaskID] && t.Terminal {
			return &sim.InfraError{What: "a kept task was killed"}
		}
	}
	return nil
}

// rosterOrderOK: every `before` group's tasks precede, every `after` group's tasks follow the main environment's tasks
// in the roster.
func rosterOrderOK(w *sim.World, s *scenario, recs []sim.TaskRecord, grt []*groupRT) error {
	ts, err := rosterView(w)
	if err != nil {
		return err
	}
	pos := map[string]int{}
	for i, t := range ts {
		pos[t.GetTaskId()] = i
	}
	lo, hi := len(ts), -1
	for _, t := range recs {
		p, ok := pos[t.TaskID]
		if !ok {
			return &sim.InfraError{What: "a task of the environment is not in the roster"}
		}
		if p < lo {
			lo = p
		}
		if p > hi {
			hi = p
		}
	}
	for gi, g := range s.groups {
		for _, t := range grt[gi].recs {
			p, ok := pos[t.TaskID]
			if !ok {
				return &sim.InfraError{What: "a bystander task is not in the roster"}
			}
			if (g.pos == "before" && p > lo) || (g.pos == "after" && p < hi) {
				return &sim.InfraError{What: fmt.Sprintf("roster order is not the creation order: bystander %s at %d, environment at %d..%d", g.pos, p, lo, hi)}
			}
		}
	}
	return nil
}

// observeGroups: the picture of every group after the main environment has settled. A second live environment with
// victims of its own is given the same two-phase settle as the main one (handled, then the window; ERROR ends it); one
// without victims is looked at once the main environment has settled and not earlier than `quietFor` after the injection.
// `tInject`: when the settling of the main environment began — phase 1 ("the core has demonstrably handled the event")
// of every group shares the main environment's `handledCeiling`, counted from there.
func observeGroups(w *sim.World, s *scenario, grt []*groupRT, dead map[string]bool, tInject time.Time, evMark int) ([]groupObs, error) {
	const quietFor = 1500 * time.Millisecond
	out := make([]groupObs, len(s.groups))
	for gi, g := range s.groups {
		out[gi].own = g.own
		if g.own == "loose" {
			continue
		}
		id := grt[gi].envID
		var vic []int
		for i, t := range grt[gi].recs {
			if dead[t.TaskID] {
				vic = append(vic, i)
			}
		}
		var last *envView
		var err error
		if len(vic) == 0 {
			if d := quietFor - time.Since(tInject); d > 0 {
				time.Sleep(d)
			}
			if last, err = getEnv(w, id); err != nil {
				return nil, err
			}
		} else {
			var tHandled time.Time
			var slowest time.Duration
			for {
				t1 := time.Now()
				last, err = getEnv(w, id)
				if d := time.Since(t1); d > slowest {
					slowest = d
				}
				if err != nil {
					return nil, err
				}
				if last.gone || last.state == "ERROR" {
					break
				}
				if tHandled.IsZero() {
					h := true
					for _, i := range vic {
						h = h && last.roles[fmt.Sprintf("r%d", i)][1] != "ACTIVE"
					}
					if h {
						tHandled = time.Now()
					}
				}
				if tHandled.IsZero() {
					if time.Since(tInject) > handledCeiling {
						break
					}
				} else if time.Since(tHandled) > settleWindow+10*slowest {
					break
				}
				time.Sleep(10 * time.Millisecond)
			}
			if !last.gone && last.state == "ERROR" {
				// stable twice in a row
				_ = sim.Poll("quiet (bystander environment)", 1500*time.Millisecond, func() (bool, error) {
					time.Sleep(150 * time.Millisecond)
					v, e := getEnv(w, id)
					if e != nil {
						return false, e
					}
					same := !v.gone && v.root == last.root && fmt.Sprint(v.roles) == fmt.Sprint(last.roles) && v.state == last.state
					last = v
					return same, nil
				})
			}
		}
		if last.gone {
			out[gi].env = "GONE"
			continue
		}
		out[gi].env, out[gi].root, out[gi].rootSu = last.state, last.root, last.rootSu
		for i := range g.tasks {
			out[gi].roles = append(out[gi].roles, last.roles[fmt.Sprintf("r%d", i)])
		}
	}
	// the kept tasks, last: every goroutine of the failure walk has had the whole settle time; and, as for the main
	// environment, no picture is taken before the core has demonstrably handled the event for them (a task event about
	// each kept task that died) — or has shown no reaction `handledCeiling` after an event that was delivered
	looseDead := map[string]bool{}
	for gi, g := range s.groups {
		if g.own == "loose" {
			for _, t := range grt[gi].recs {
				if dead[t.TaskID] {
					looseDead[t.TaskID] = true
				}
			}
		}
	}
	type tev struct {
		Taskid string `json:"taskid"`
		State  string `json:"state"`
	}
	seen := func() map[string][]string {
		m := map[string][]string{}
		evs := w.CoreEvents()
		if evMark > len(evs) {
			return m
		}
		for _, e := range evs[evMark:] {
			if !strings.HasSuffix(e.Type, "Ev_TaskEvent") {
				continue
			}
			var p tev
			if json.Unmarshal(e.Payload, &p) == nil {
				m[p.Taskid] = append(m[p.Taskid], p.State)
			}
		}
		return m
	}
	var m map[string][]string
	for {
		m = seen()
		all := true
		for id := range looseDead {
			all = all && len(m[id]) > 0
		}
		if all || time.Since(tInject) > handledCeiling {
			break
		}
		time.Sleep(10 * time.Millisecond)
	}
	if len(looseDead) > 0 {
		time.Sleep(100 * time.Millisecond) // the state event and the status event of one task are two goroutines
		m = seen()
	}
	for gi, g := range s.groups {
		if g.own != "loose" {
			continue
		}
		for _, t := range grt[gi].recs {
			st := "STANDBY"
			for _, x := range m[t.TaskID] {
				if x == "ERROR" || x == "DONE" {
					st = x
				}
			}
			out[gi].loose = append(out[gi].loose, st)
		}
	}
	return out, nil
}
