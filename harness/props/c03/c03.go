// Package c03: correspondence harness for property C03 (stub — registers nothing yet).
package c03
