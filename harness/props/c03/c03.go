// Package c03: correspondence harness for property C03 — failure of a critical
// task drives a live environment to ERROR. Every case is one world of the
// whole-core simulator (verifharness/sim): the real core in a child process.
package c03

import (
	"encoding/json"
	"fmt"
	"os"
	"sort"
	"strings"

	"verifharness/fw"
	"verifharness/rng"
	"verifharness/sim"
	"verifharness/sx"
)

func runImpl(input string) (string, error) {
	s, err := parseScenario(input)
	if err != nil {
		return "(badinput)", nil
	}
	o, err := runScenario(s, false)
	// the deployment itself occasionally fails (a TASK_RUNNING update processed before the task is in the roster:
	// C02's finding deploy_running_update_dropped) — before anything of this property happened: one fresh world more
	for try := 0; err != nil && sim.IsInfra(err) && strings.Contains(err.Error(), "NewEnvironment") && try < 2; try++ {
		o, err = runScenario(s, false)
	}
	if err != nil {
		if sim.IsInfra(err) {
			stat.Lock()
			stat.inconclusiveNo++
			stat.Unlock()
		}
		return "", err
	}
	if o.pre != s.live {
		return "", &sim.InfraError{What: "environment was in " + o.pre + " instead of " + s.live + " before the injection"}
	}
	return o.sx(), nil
}

// ---- generator ---------------------------------------------------------------------------------

type layout struct {
	tasks  []taskSpec
	victim int
}

// every layout of 1..3 tasks on 1..2 hosts (host numbering canonical: the first task is on host 1)
func layouts() []layout {
	var out []layout
	hostSets := map[int][][]int{1: {{1}}, 2: {{1, 1}, {1, 2}}, 3: {{1, 1, 1}, {1, 2, 1}, {1, 1, 2}, {1, 2, 2}}}
	for n := 1; n <= 3; n++ {
		for _, hs := range hostSets[n] {
			for m := 0; m < 1<<n; m++ {
				ts := make([]taskSpec, n)
				for i := range ts {
					ts[i] = taskSpec{crit: m&(1<<i) != 0, host: hs[i]}
				}
				for v := 0; v < n; v++ {
					out = append(out, layout{ts, v})
				}
			}
		}
	}
	return out
}

func mk(live string, l layout, kind, instant string) *scenario {
	return &scenario{live: live, tasks: l.tasks, victim: l.victim, kind: kind, instant: instant}
}

func tagsOf(s *scenario) []string {
	crit := "victim-noncritical"
	if s.tasks[s.victim].crit {
		crit = "victim-critical"
	}
	hosts := map[int]bool{}
	for _, t := range s.tasks {
		hosts[t.host] = true
	}
	pos := "victim-middle"
	if s.victim == 0 {
		pos = "victim-first"
	}
	if s.victim == len(s.tasks)-1 {
		pos = "victim-last"
		if s.victim == 0 {
			pos = "victim-only"
		}
	}
	tags := []string{"live-" + s.live, "kind-" + s.kind, "instant-" + s.instant, crit, pos,
		fmt.Sprintf("tasks-%d", len(s.tasks)), fmt.Sprintf("hosts-%d", len(hosts))}
	if isReconKind(s.kind) {
		tags = append(tags, "via-reconciliation")
	} else {
		tags = append(tags, "via-direct")
	}
	return append(append(tags, groupTags(s)...), labelTags(s)...)
}

func valid(s *scenario) bool {
	// a terminal state learnt through reconciliation needs the core to have been cut off — and nothing else does
	if isReconKind(s.kind) != isDropInstant(s.instant) {
		return false
	}
	if s.instant == "race" || s.instant == "racelate" {
		if len(s.tasks) < 2 {
			return false
		}
		// the task whose reply is held back must survive an executor/agent loss: it has to be on another host
		switch s.kind {
		case "EXEC", "EXEC0", "AGENT", "AGENT0":
			other := false
			for _, t := range s.tasks {
				other = other || t.host != s.tasks[s.victim].host
			}
			if !other {
				return false
			}
		}
	}
	if s.instant == "raceself" {
		switch s.kind {
		case "FAILED", "LOST", "KILLED", "TERROR", "FINISHED":
		default:
			return false
		}
		if len(s.groups) > 0 {
			return false // 90 s worlds: not combined with bystanders
		}
	}
	if !labelValid(s) {
		return false
	}
	if len(s.groups) > 3 {
		return false
	}
	for _, g := range s.groups {
		if len(g.tasks) < 1 || len(g.tasks) > 3 {
			return false
		}
	}
	return true
}

func generate(tier string, r *rng.R) []fw.Case {
	ls := layouts()
	seen := map[string]bool{}
	var out []fw.Case
	add := func(s *scenario) {
		if !valid(s) {
			return
		}
		k := s.String()
		if seen[k] {
			return
		}
		seen[k] = true
		out = append(out, fw.Case{Input: k, Tags: tagsOf(s)})
	}
	pickLayout := func(wantCrit bool, live, k, inst string) layout {
		for {
			l := rng.Pick(r, ls)
			if l.tasks[l.victim].crit == wantCrit && valid(mk(live, l, k, inst)) {
				return l
			}
		}
	}
	// stratum: every (live, kind, instant) with a critical and a non-critical victim
	for _, live := range []string{"CONFIGURED", "RUNNING"} {
		for _, k := range kinds {
			for _, inst := range []string{"idle", "race", "racelate", "burst"} {
				add(mk(live, pickLayout(true, live, k, inst), k, inst))
				add(mk(live, pickLayout(false, live, k, inst), k, inst))
			}
		}
	}
	// the smallest worlds, always
	one := layout{[]taskSpec{{true, 1}}, 0}
	for _, live := range []string{"CONFIGURED", "RUNNING"} {
		for _, k := range kinds {
			add(mk(live, one, k, "idle"))
		}
	}
	// stratum: the task dies while the core is cut off from the master; the terminal state arrives only as the
	// master's reconciliation answer after the re-subscription — every (live, terminal state | whole agent) with a
	// critical and a non-critical victim on a random layout, the subscription ended cleanly or by a reset, + the
	// one-task worlds (added after the older strata: those are unchanged for a given seed)
	for _, live := range []string{"CONFIGURED", "RUNNING"} {
		for _, k := range reconKinds {
			add(mk(live, pickLayout(true, live, k, "drop"), k, rng.Pick(r, dropInstants)))
			add(mk(live, pickLayout(false, live, k, "drop"), k, rng.Pick(r, dropInstants)))
			add(mk(live, one, k, "drop"))
		}
	}
	// stratum: the roster is one table — tasks of nobody (kept by an environment destroyed with keepTasks) and tasks of
	// a second live environment on the victim's agent, older or younger than the victim, for every failure kind
	// (appended after the older strata: those are unchanged for a given seed)
	bystanderCases(r, ls, add)
	// stratum: the `environmentId` label of the messages about the victim names no environment (the executor was launched
	// for an earlier environment / sends no label) or another live one — every kind announced by one message of the
	// executor, TASK_INTERNAL_ERROR at every instant (appended after the older strata: those are unchanged for a given seed)
	labelCases(r, ls, add)
	if tier == "thorough" {
		// a handful of worlds that sit in the core's 90 s response timeout
		for _, sc := range []*scenario{
			mk("CONFIGURED", layout{[]taskSpec{{true, 1}, {true, 2}}, 0}, "FAILED", "raceself"),
			mk("RUNNING", layout{[]taskSpec{{true, 1}, {false, 2}}, 0}, "KILLED", "raceself"),
			mk("RUNNING", layout{[]taskSpec{{true, 1}, {false, 2}}, 1}, "LOST", "raceself"),
			mk("CONFIGURED", layout{[]taskSpec{{true, 1}}, 0}, "FAILED", "raceself"),
		} {
			add(sc)
		}
		for len(out) < 2300 {
			l := rng.Pick(r, ls)
			add(mk(rng.Pick(r, []string{"CONFIGURED", "RUNNING"}), l, rng.Pick(r, kinds), rng.Pick(r, []string{"idle", "race", "racelate", "burst", "burst"})))
		}
		for n := len(out) + 300; len(out) < n; {
			add(mk(rng.Pick(r, []string{"CONFIGURED", "RUNNING"}), rng.Pick(r, ls), rng.Pick(r, reconKinds), rng.Pick(r, dropInstants)))
		}
		for n := len(out) + 400; len(out) < n; {
			add(randomBystanderCase(r, ls))
		}
		for n := len(out) + 300; len(out) < n; {
			add(randomLabelCase(r, ls))
		}
	}
	return out
}

// search: the wider stream used after a break — a fresh random sample, kept small (every case is a world)
func search(r *rng.R) []fw.Case {
	ls := layouts()
	var out []fw.Case
	seen := map[string]bool{}
	for len(out) < 250 {
		s := mk(rng.Pick(r, []string{"CONFIGURED", "RUNNING"}), rng.Pick(r, ls), rng.Pick(r, kinds), rng.Pick(r, []string{"idle", "race", "racelate", "burst"}))
		if r.P(1, 4) {
			s.kind, s.instant = rng.Pick(r, reconKinds), rng.Pick(r, dropInstants)
		}
		if r.P(1, 4) {
			s = randomBystanderCase(r, ls)
		}
		if r.P(1, 5) {
			s = randomLabelCase(r, ls)
		}
		if !valid(s) || seen[s.String()] {
			continue
		}
		seen[s.String()] = true
		out = append(out, fw.Case{Input: s.String(), Tags: tagsOf(s)})
	}
	return out
}

func shrinkCands(input string) []string {
	s, err := parseScenario(input)
	if err != nil {
		return nil
	}
	var out []string
	push := func(c *scenario) {
		if valid(c) {
			out = append(out, c.String())
		}
	}
	// drop a task that is not the victim
	for i := range s.tasks {
		if i == s.victim {
			continue
		}
		c := *s
		c.tasks = append(append([]taskSpec{}, s.tasks[:i]...), s.tasks[i+1:]...)
		if i < s.victim {
			c.victim--
		}
		push(&c)
	}
	if s.instant != "idle" && !isDropInstant(s.instant) {
		c := *s
		c.instant = "idle"
		push(&c)
	}
	if s.instant == "dropabrupt" {
		c := *s
		c.instant = "drop"
		push(&c)
	}
	if s.kind == "RAGENT" {
		c := *s
		c.kind = "RLOST"
		push(&c)
	}
	for _, c := range shrinkGroups(s) {
		push(c)
	}
	for _, c := range shrinkLabel(s) {
		push(c)
	}
	return out
}

func nontrivial(input, obs string) bool {
	s, err := parseScenario(input)
	if err != nil {
		return false
	}
	n, err := sx.Parse(obs)
	if err != nil || !n.IsList {
		return false
	}
	return len(s.tasks) >= 2 || s.tasks[s.victim].crit
}

var assumptions = []string{
	"OBSERVED (filled at the end of the run; not proved): time from the injection to the first GetEnvironment that reports ERROR",
	"settle window: an environment that has not reported ERROR " + settleWindow.String() + " (+ 10 x the slowest GetEnvironment round trip seen meanwhile) after the core demonstrably handled the injected event (every victim's role reports a status other than ACTIVE; TASK_INTERNAL_ERROR, which never touches the status: after the injection) and after the racing transition returned is observed as 'did not leave its state'; the core's own delay is a 500 ms timer + GO_ERROR (no task command) + one STOP round trip to simulated executors that answer at once; a core that shows no reaction at all " + handledCeiling.String() + " after an event that was delivered on its stream is observed as it is",
	"instant idle = immediately after the last API call (NewEnvironment / START_ACTIVITY) returned: a role that does not yet report the live state at that moment (the reply's `go updateTaskState` has not run) is recorded in the observation as (pending (i…)) and is the ONLY licence for the model's stale-update schedules (finding stale_update_overwrites_error); without it the creation's updates are assumed applied and the watcher goroutine subscribed. Every other instant first waits until no such update is pending",
	"instant burst: the victim's own reply to the transition in flight and its failure reach the core back to back by construction, so the reply's `go updateTaskState` IS concurrent with the failure's update of the role (for TASK_INTERNAL_ERROR really so: the device event travels on a channel of its own). If a critical victim of a burst world did not take the environment to ERROR, ONE more failure is delivered alone once everything has settled (TASK_FAILED about the victim) and the observation gets (again ST TOLD): ST = the environment's state after that, TOLD = the core had published a role event 'victim's role: ERROR' after the main injection. (again ERROR 1) = the role was told, overwritten before the root handed the state on, and the watcher is still in its loop: the only licence for the model's lost-update variant (finding stale_update_overwrites_error, mechanism 'the two updates interleave inside aggregatorRole.updateState'; 2-3 % of the TASK_INTERNAL_ERROR burst worlds, more under load); a core whose watcher received the ERROR and did nothing, or that never told the role, answers otherwise and is a plain violation",
	"simulated executors: one executor per host and environment (the core re-uses the executor of an offer), tasks answer every command with success unless scripted; a task that announced TASK_INTERNAL_ERROR still answers STOP with success",
	"the core is not PARTITION_AWARE: TASK_DROPPED/UNREACHABLE/GONE are never sent by Mesos and are not generated",
	"wall-clock order assumed by the model's schedule: replies of the in-flight transition, its end, a STOP_ACTIVITY queued by handleDeviceEvent, then the watcher's 500 ms timer",
	"foreign labels (last input field `(label L)`): the simulated executor of the victim is told, right before the injection, to stamp its messages with another environment id (sim.RelabelTask) — what an executor launched for an earlier environment (task released with keepTasks, claimed by a later environment under reuseUnlockedTasks) or an executor that sends no label does; the claim itself is not made through the core: on the unchanged code a creation that claims a task never gets past DEPLOY (the claimed role's status is never set to ACTIVE), so a live environment with a claimed task cannot be produced end to end; a status update without label carries no labels at all, a device event an empty value (both parse to the nil id)",
	"bystander groups (sixth input field): one executor per agent (the core re-uses the executor id an offer lists; checked per world for the executor kinds, a world where it does not hold is inconclusive); roster order = creation order of the environments (checked per world against GetTasks); a kept task's own state is read off the core's task events (ERROR / DONE if any Ev_TaskEvent about it since the injection says so, else STANDBY), its status is not observed (HandleAgentFailed / HandleExecutorFailed publish no event after setting it); a bystander environment without victims is looked at once the main environment has settled and not earlier than 1.5 s after the injection; kept tasks exist only AFTER the last environment creation of a world (CreateEnvironment's pre-deployment Cleanup() kills every unlocked task)",
}

func teardown() {
	stat.Lock()
	defer stat.Unlock()
	avg := int64(0)
	if stat.reached > 0 {
		avg = stat.sumMs / int64(stat.reached)
	}
	msg := fmt.Sprintf("OBSERVED (not proved): %d worlds run, %d reached ERROR; time from the injection to the first GetEnvironment reporting ERROR: max %d ms (%s), mean %d ms; %d worlds inconclusive (infrastructure)",
		stat.n, stat.reached, stat.maxMs, stat.maxCase, avg, stat.inconclusiveNo)
	assumptions[0] = msg
	b, _ := json.MarshalIndent(map[string]any{"worlds": stat.n, "reached_error": stat.reached, "max_ms": stat.maxMs, "max_case": stat.maxCase,
		"mean_ms": avg, "inconclusive": stat.inconclusiveNo, "settle_window_ms": settleWindow.Milliseconds()}, "", " ")
	os.MkdirAll("/verif/.work/C03", 0o755)
	os.WriteFile("/verif/.work/C03/observed.json", b, 0o644)
}

func init() {
	fw.Register(&fw.Property{
		ID:         "C03",
		Generate:   generate,
		RunImpl:    runImpl,
		Nontrivial: nontrivial,
		Rule: "one simulated world per case: workflow of 1..3 task roles (critical or not) on 1..2 hosts, environment brought to CONFIGURED or RUNNING through the gRPC API, " +
			"one failure (TASK_FAILED/LOST/KILLED/ERROR/FINISHED status, executor FAILURE, agent FAILURE with or without task updates, TASK_INTERNAL_ERROR device event) of a chosen victim, " +
			"idle or while START_ACTIVITY/STOP_ACTIVITY is in flight (parked at another task's reply released at once / 900 ms later, all replies and the failure back to back, or parked at the victim's own reply), " +
			"or (kinds R…, instants drop/dropabrupt) the victim — or every task of its agent — dies while the core is cut off from the master (subscription ended cleanly or reset) and its terminal state " +
			"TASK_FAILED/LOST/KILLED/ERROR/FINISHED reaches the core only as the master's answer (REASON_RECONCILIATION) to the implicit RECONCILE of the re-subscription; " +
			"optionally (sixth field) 1..3 bystander groups of 1..3 tasks on the same agents: the tasks of another environment created before / after the main one (= before / after its tasks in the roster) " +
			"that is still alive (CONFIGURED) or was destroyed with keepTasks once every environment existed (tasks of nobody: in the roster, running, no parent role) — every walk kind (executor / agent FAILURE, agent lost while cut off) x live state x {before, after} x {nobody's, second environment's} with a critical victim and a bystander on its agent, every other kind with one random group, 14 multi-group worlds; " +
			"optionally (last field `(label L)`, kinds announced by ONE message of the task's executor: TASK_FAILED/LOST/KILLED/ERROR/FINISHED status, TASK_INTERNAL_ERROR device event) the `environmentId` label of the messages about the victim — " +
			"the environment the executor launched the task FOR, stamped once — names no environment (stale: a well-formed id nobody has = the task's first environment is gone; none: no usable label) or another live one (other: the first live bystander environment): " +
			"every such kind x live state x {stale, none} with a critical victim, TASK_INTERNAL_ERROR also while a transition is in flight / at burst, with a non-critical victim, with the label of an older / younger second environment, and with kept tasks of a destroyed environment in the roster; " +
			"observed after the settle window: environment state, state/status of the root and of every task role, run events, end-of-run stamps, STOP commands, result of the racing transition, " +
			"and per bystander group the second environment's state, root and roles resp. the kept tasks' own state as published in the core's task events; " +
			"quick = every (live state, kind, instant) with a critical and a non-critical victim on a random layout; non-trivial = >= 2 tasks or a critical victim; distinct by input text",
		Shrink:      shrinkCands,
		Search:      search,
		Exhaustive:  func(string) bool { return false },
		Workers:     16,
		Teardown:    teardown,
		TrustedBase: []string{"harness/sim (simulated Mesos master/agents/executors, Consul KV, git workflow repository) and /repo/core/verif_hooks.go (core.RunForVerif)", "harness/props/c03 (scenario script, settle window, observation)"},
		Assumptions: assumptions,
	})
	fw.RegisterChild("c03probe", probeMain)
}

// probeMain: VERIF_CHILD=c03probe vh [-n N] '<scenario>' … — runs scenarios verbosely (development aid;
// with -n N: N repetitions of each scenario in parallel batches, printing the distinct observations).
func probeMain(args []string) {
	reps := 1
	if len(args) >= 2 && args[0] == "-n" {
		fmt.Sscanf(args[1], "%d", &reps)
		args = args[2:]
	}
	for _, a := range args {
		s, err := parseScenario(a)
		if err != nil {
			fmt.Println("bad scenario:", err)
			continue
		}
		if reps > 1 {
			counts := map[string]int{}
			type res struct {
				o   string
				err error
			}
			ch := make(chan res)
			par := 16
			todo := reps
			for todo > 0 {
				n := par
				if todo < n {
					n = todo
				}
				for i := 0; i < n; i++ {
					go func() {
						o, err := runScenario(s, false)
						if err != nil {
							ch <- res{"", err}
							return
						}
						ch <- res{o.sx(), nil}
					}()
				}
				for i := 0; i < n; i++ {
					r := <-ch
					if r.err != nil {
						counts["ERR "+r.err.Error()]++
					} else {
						counts[r.o]++
					}
				}
				todo -= n
			}
			fmt.Println(a)
			var ks []string
			for k := range counts {
				ks = append(ks, k)
			}
			sort.Strings(ks)
			for _, k := range ks {
				fmt.Printf("  %5d × %s\n", counts[k], k)
			}
			continue
		}
		o, err := runScenario(s, true)
		switch {
		case err != nil && sim.IsInfra(err):
			fmt.Printf("%s\n  INCONCLUSIVE %v\n", a, err)
		case err != nil:
			fmt.Printf("%s\n  ERROR %v\n", a, err)
		default:
			fmt.Printf("%s\n  %s\n  kills=%v tError=%dms\n", a, o.sx(), o.kills, o.tErrorMs)
			if os.Getenv("C03_TRACE") != "" {
				fmt.Print(o.log)
			}
		}
	}
}

var _ = strings.TrimSpace
