package c03

// Development aid (not part of the property run): VERIF_CHILD=c03claim vh [N]
//
// Can a LIVE environment with a CLAIMED critical task be produced through the whole core on the unchanged code?
// Core with --reuseUnlockedTasks. Up to N tries in fresh worlds: environment A (one critical task of class t0) is created;
// then A is destroyed with keepTasks and, `d` later (d swept over the tries), environment B (same workflow) is created.
// B's CreateEnvironment begins with a pre-deployment Cleanup() that KILLS every unlocked task, so a claim needs A's
// release to fall between B's Cleanup and B's acquireTasks. The probe reports per try: whether acquireTasks logged
// "claiming existing unlocked task", how B's creation ended and after how long. Seen (see notes/C03.md): every creation
// that claimed ends with "workflow deployment timed out" (the claimed role's status is never set to ACTIVE: SetParent +
// SetTask only; a status update that would do it never comes for a task that is already running) — no live environment
// with a claimed task exists on this code base, which is why the class "messages labelled with another environment than
// the task's" is produced at the (simulated) executor (label.go).

import (
	"context"
	"fmt"
	"os"
	"strings"
	"time"

	pb "github.com/AliceO2Group/Control/core/protos"

	"verifharness/fw"
	"verifharness/sim"
)

func init() { fw.RegisterChild("c03claim", claimMain) }

func claimMain(args []string) {
	n := 24
	if len(args) > 0 {
		fmt.Sscanf(args[0], "%d", &n)
	}
	claims, live := 0, 0
	for i := 0; i < n; i++ {
		d := time.Duration(i%12) * 400 * time.Microsecond
		claimed, res, took, err := claimTry(d)
		if err != nil {
			fmt.Printf("try %2d d=%-5v INFRA %v\n", i, d, err)
			continue
		}
		if claimed {
			claims++
			if strings.HasPrefix(res, "state ") {
				live++
			}
		}
		fmt.Printf("try %2d d=%-5v claimed=%-5v B: %.160s (%.1fs)\n", i, d, claimed, res, took.Seconds())
	}
	fmt.Printf("%d tries, %d creations claimed a task, %d of them reached a state\n", n, claims, live)
}

func claimTry(d time.Duration) (claimed bool, res string, took time.Duration, err error) {
	w, err := sim.Start(sim.Config{Name: "c03claim", CoreFlags: map[string]string{"reuseUnlockedTasks": "true"}})
	if err != nil {
		return false, "", 0, err
	}
	defer w.Stop()
	w.AddAgent(sim.AgentSpec{Host: "host1", Detector: "TST"})
	ts := []taskSpec{{true, 1}}
	if err = w.SetTaskClass("t0", taskClassYAML("t0")); err != nil {
		return
	}
	if err = w.SetWorkflow("c03wf", workflowYAML(ts)); err != nil {
		return
	}
	c, cancel := gctx()
	r, e := w.Client().NewEnvironment(c, &pb.NewEnvironmentRequest{WorkflowTemplate: "c03wf", Vars: map[string]string{}})
	cancel()
	if e != nil {
		return false, "", 0, &sim.InfraError{What: "NewEnvironment A", Err: e}
	}
	idA := r.GetEnvironment().GetId()
	done := make(chan error, 1)
	go func() {
		c, cancel := gctx()
		defer cancel()
		_, e := w.Client().DestroyEnvironment(c, &pb.DestroyEnvironmentRequest{Id: idA, KeepTasks: true})
		done <- e
	}()
	time.Sleep(d)
	t0 := time.Now()
	c2, cancel2 := context.WithTimeout(context.Background(), 60*time.Second)
	rb, eb := w.Client().NewEnvironment(c2, &pb.NewEnvironmentRequest{WorkflowTemplate: "c03wf", Vars: map[string]string{}})
	cancel2()
	took = time.Since(t0)
	if e := <-done; e != nil {
		return false, "", took, &sim.InfraError{What: "DestroyEnvironment A keepTasks", Err: e}
	}
	if eb != nil {
		res = "error " + strings.ReplaceAll(eb.Error(), "\n", " ")
	} else {
		res = "state " + rb.GetEnvironment().GetState()
	}
	if b, e := os.ReadFile(w.CoreLog()); e == nil {
		claimed = strings.Contains(string(b), "claiming existing unlocked task for incoming descriptor")
	}
	return claimed, res, took, nil
}
