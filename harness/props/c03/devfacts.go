package c03

// go/ast facts about the TASK_INTERNAL_ERROR case of handleDeviceEvent (core/environment/manager.go):
// under which conditions is the task's role told ERROR, under which is STOP_ACTIVITY requested, and in which order.
//
// For each of the two calls
//     <parent role>.UpdateState(sm.ERROR)                      (the role update)
//     env.TryTransition(NewStopActivityTransition(…))          (the STOP request)
// the GUARD STACK is computed: the conditions of the enclosing `if`s (negated in an else branch) together with the
// negated conditions of the earlier statements `if C { …; return }` of every enclosing block (a `return` inside the
// function literal of `go func() { … }()` ends that goroutine, i.e. guards what follows it in the literal's body).
// Conditions are split at && (|| under a negation) and classified:
//     state    <x>.CurrentState() == "LIT", or an identifier defined ONCE in the clause by `v := <that comparison>`
//     crit     a selector ending in .Critical (optionally `== true`), or a call IsCritical()
//     nil      <identifier or call> ==/!= nil: presence tests (task found, environment found, parent role still there);
//              they say nothing about state or criticality and are ignored
//     other    anything else — also any loop / switch / select / non-invoked function literal on the way
// A fact is only `true` when the shape was recognised; an unrecognised shape yields `…Other = true`, which the Lean
// tie (C03_internal_effect_is_code) requires to be false.

import (
	"go/ast"
	"go/token"
)

type guardAtom struct {
	kind string // state | crit | nil | other
	lit  string // state: the literal
	pos  bool   // polarity
}

type devSite struct {
	n      int // how many such calls
	guards []guardAtom
	path   []int // statement indices from the clause body down; -1 = entered a function literal
}

type devFacts struct {
	guard            string // the one literal every state test of the clause compares with ("" if none or several)
	role, stop       devSite
	roleBeforeStop   bool
	roleNeedsRunning bool
	roleNeedsCrit    bool
	roleOther        bool
	stopNeedsRunning bool
	stopNeedsCrit    bool
	stopOther        bool
}

type devAnalysis struct {
	stateVars  map[string]string // identifier -> literal
	parentVars map[string]bool   // identifiers holding t.GetParent()
	lits       map[string]bool
	role, stop devSite
}

func isGetParentCall(e ast.Expr) bool {
	c, ok := e.(*ast.CallExpr)
	return ok && selName(c.Fun) == "GetParent" && len(c.Args) == 0
}

// stateCmp: <…CurrentState()> == "LIT"
func stateCmp(e ast.Expr) (string, bool) {
	be, ok := e.(*ast.BinaryExpr)
	if !ok || be.Op != token.EQL {
		return "", false
	}
	c, ok := be.X.(*ast.CallExpr)
	if !ok || selName(c.Fun) != "CurrentState" || len(c.Args) != 0 {
		return "", false
	}
	return strLit(be.Y)
}

func (a *devAnalysis) prescan(cc *ast.CaseClause) {
	a.stateVars = map[string]string{}
	a.parentVars = map[string]bool{}
	a.lits = map[string]bool{}
	assigned := map[string]int{}
	ast.Inspect(cc, func(x ast.Node) bool {
		switch s := x.(type) {
		case *ast.AssignStmt:
			for _, l := range s.Lhs {
				if id, ok := l.(*ast.Ident); ok {
					assigned[id.Name]++
				}
			}
			if s.Tok == token.DEFINE && len(s.Lhs) == 1 && len(s.Rhs) == 1 {
				if id, ok := s.Lhs[0].(*ast.Ident); ok {
					if lit, ok := stateCmp(s.Rhs[0]); ok {
						a.stateVars[id.Name] = lit
					}
					if isGetParentCall(s.Rhs[0]) {
						a.parentVars[id.Name] = true
					}
				}
			}
		case *ast.IncDecStmt:
			if id, ok := s.X.(*ast.Ident); ok {
				assigned[id.Name]++
			}
		case *ast.UnaryExpr:
			if s.Op == token.AND { // address taken: could be written through the pointer
				if id, ok := s.X.(*ast.Ident); ok {
					assigned[id.Name]++
				}
			}
		}
		return true
	})
	for v := range a.stateVars {
		if assigned[v] != 1 {
			delete(a.stateVars, v)
		}
	}
	for v := range a.parentVars {
		if assigned[v] != 1 {
			delete(a.parentVars, v)
		}
	}
}

// cond: the atoms that hold when `e` has the truth value `pos`
func (a *devAnalysis) cond(e ast.Expr, pos bool) []guardAtom {
	switch x := e.(type) {
	case *ast.ParenExpr:
		return a.cond(x.X, pos)
	case *ast.UnaryExpr:
		if x.Op == token.NOT {
			return a.cond(x.X, !pos)
		}
	case *ast.BinaryExpr:
		if (x.Op == token.LAND && pos) || (x.Op == token.LOR && !pos) {
			return append(a.cond(x.X, pos), a.cond(x.Y, pos)...)
		}
		if lit, ok := stateCmp(x); ok {
			a.lits[lit] = true
			return []guardAtom{{"state", lit, pos}}
		}
		if x.Op == token.EQL && selName(x.X) == "Critical" && selName(x.Y) == "true" {
			return []guardAtom{{"crit", "", pos}}
		}
		if x.Op == token.NEQ || x.Op == token.EQL {
			// presence tests (task found, environment found without error, parent role still there) say nothing
			// about the environment's state or the task's criticality
			if id, ok := x.Y.(*ast.Ident); ok && id.Name == "nil" {
				switch x.X.(type) {
				case *ast.Ident, *ast.CallExpr:
					return []guardAtom{{"nil", "", pos == (x.Op == token.NEQ)}}
				}
			}
		}
	case *ast.Ident:
		if lit, ok := a.stateVars[x.Name]; ok {
			a.lits[lit] = true
			return []guardAtom{{"state", lit, pos}}
		}
	case *ast.SelectorExpr:
		if x.Sel.Name == "Critical" {
			return []guardAtom{{"crit", "", pos}}
		}
	case *ast.CallExpr:
		if selName(x.Fun) == "IsCritical" && len(x.Args) == 0 {
			return []guardAtom{{"crit", "", pos}}
		}
	}
	return []guardAtom{{"other", "", pos}}
}

func endsWithReturn(b *ast.BlockStmt) bool {
	if len(b.List) == 0 {
		return false
	}
	r, ok := b.List[len(b.List)-1].(*ast.ReturnStmt)
	return ok && len(r.Results) == 0
}

func cp(gs []guardAtom, more ...guardAtom) []guardAtom {
	out := make([]guardAtom, 0, len(gs)+len(more))
	out = append(out, gs...)
	return append(out, more...)
}

func cpi(p []int, more ...int) []int {
	out := make([]int, 0, len(p)+len(more))
	out = append(out, p...)
	return append(out, more...)
}

func (a *devAnalysis) stmts(list []ast.Stmt, gs []guardAtom, path []int) {
	for i, st := range list {
		a.stmt(st, gs, cpi(path, i))
		// `if C { …; return }` guards everything that follows it in this block
		if ifs, ok := st.(*ast.IfStmt); ok && ifs.Else == nil && endsWithReturn(ifs.Body) {
			gs = cp(gs, a.cond(ifs.Cond, false)...)
		} else if containsLeave(st) {
			// any other way out of the block (return / break / continue / goto somewhere inside): not a recognised shape
			gs = cp(gs, guardAtom{"other", "", true})
		}
	}
}

// containsLeave: a return / branch statement anywhere inside (function literals not entered)
func containsLeave(st ast.Stmt) bool {
	found := false
	ast.Inspect(st, func(x ast.Node) bool {
		switch x.(type) {
		case *ast.FuncLit:
			return false
		case *ast.ReturnStmt, *ast.BranchStmt:
			found = true
		}
		return !found
	})
	return found
}

func (a *devAnalysis) stmt(st ast.Stmt, gs []guardAtom, path []int) {
	switch x := st.(type) {
	case nil:
	case *ast.IfStmt:
		if x.Init != nil {
			a.stmt(x.Init, gs, cpi(path, 0))
		}
		a.expr(x.Cond, gs, path)
		a.stmts(x.Body.List, cp(gs, a.cond(x.Cond, true)...), cpi(path, 1))
		switch e := x.Else.(type) {
		case *ast.BlockStmt:
			a.stmts(e.List, cp(gs, a.cond(x.Cond, false)...), cpi(path, 2))
		case *ast.IfStmt:
			a.stmt(e, cp(gs, a.cond(x.Cond, false)...), cpi(path, 2))
		}
	case *ast.BlockStmt:
		a.stmts(x.List, gs, path)
	case *ast.GoStmt:
		a.expr(x.Call, gs, path)
	case *ast.ExprStmt:
		a.expr(x.X, gs, path)
	case *ast.AssignStmt:
		for _, r := range x.Rhs {
			a.expr(r, gs, path)
		}
	case *ast.DeclStmt, *ast.ReturnStmt, *ast.DeferStmt, *ast.BranchStmt, *ast.EmptyStmt, *ast.IncDecStmt:
		ast.Inspect(st, func(n ast.Node) bool {
			if e, ok := n.(ast.Expr); ok {
				a.expr(e, cp(gs, guardAtom{"other", "", true}), path)
				return false
			}
			return true
		})
	default:
		// loops, switches, selects, labelled statements …: whatever is found inside is under an unrecognised guard
		ast.Inspect(st, func(n ast.Node) bool {
			if n == st {
				return true
			}
			if s, ok := n.(ast.Stmt); ok {
				a.stmt(s, cp(gs, guardAtom{"other", "", true}), path)
				return false
			}
			return true
		})
	}
}

func (a *devAnalysis) record(site *devSite, gs []guardAtom, path []int) {
	site.n++
	site.guards = cp(gs)
	site.path = cpi(path)
}

// expr: look for the two calls in an expression evaluated under `gs`; an immediately invoked function literal's body
// runs under the same guards, any other function literal under an unrecognised one
func (a *devAnalysis) expr(e ast.Expr, gs []guardAtom, path []int) {
	if e == nil {
		return
	}
	invoked := map[*ast.FuncLit]bool{}
	ast.Inspect(e, func(n ast.Node) bool {
		switch x := n.(type) {
		case *ast.CallExpr:
			if fl, ok := x.Fun.(*ast.FuncLit); ok {
				invoked[fl] = true
			}
			if selName(x.Fun) == "UpdateState" && len(x.Args) == 1 && selName(x.Args[0]) == "ERROR" {
				if se, ok := x.Fun.(*ast.SelectorExpr); ok {
					onParent := isGetParentCall(se.X)
					if id, ok := se.X.(*ast.Ident); ok && a.parentVars[id.Name] {
						onParent = true
					}
					if onParent {
						a.record(&a.role, gs, path)
					}
				}
			}
			if selName(x.Fun) == "TryTransition" && len(x.Args) == 1 && len(callsNamed(x.Args[0], "NewStopActivityTransition")) > 0 {
				a.record(&a.stop, gs, path)
			}
		case *ast.FuncLit:
			if invoked[x] {
				a.stmts(x.Body.List, gs, cpi(path, -1))
			} else {
				a.stmts(x.Body.List, cp(gs, guardAtom{"other", "", true}), cpi(path, -1))
			}
			return false
		}
		return true
	})
}

func deviceFacts(cc *ast.CaseClause) devFacts {
	a := &devAnalysis{}
	a.prescan(cc)
	a.stmts(cc.Body, nil, nil)
	df := devFacts{role: a.role, stop: a.stop}
	if len(a.lits) == 1 {
		for l := range a.lits {
			df.guard = l
		}
	}
	classify := func(s devSite) (running, crit, other bool) {
		for _, g := range s.guards {
			switch {
			case g.kind == "state" && g.pos:
				running = true
			case g.kind == "crit" && g.pos:
				crit = true
			case g.kind == "nil":
			default:
				other = true
			}
		}
		if s.n != 1 {
			other = true
		}
		return
	}
	df.roleNeedsRunning, df.roleNeedsCrit, df.roleOther = classify(a.role)
	df.stopNeedsRunning, df.stopNeedsCrit, df.stopOther = classify(a.stop)
	// order: same goroutine (no further function literal entered after the common prefix), role update first
	if a.role.n == 1 && a.stop.n == 1 {
		i := 0
		for i < len(a.role.path) && i < len(a.stop.path) && a.role.path[i] == a.stop.path[i] {
			i++
		}
		same := true
		for _, p := range [][]int{a.role.path[i:], a.stop.path[i:]} {
			for _, v := range p {
				if v == -1 {
					same = false
				}
			}
		}
		df.roleBeforeStop = same && i < len(a.role.path) && i < len(a.stop.path) && a.role.path[i] < a.stop.path[i]
	}
	return df
}
