package c03

// go/ast facts about WHICH ENVIRONMENT the TASK_INTERNAL_ERROR case of handleDeviceEvent
// (core/environment/manager.go) handles the event in.
//
// Two ids are at hand in that function:
//     envId := common.GetEnvironmentIdFromLabelerType(evt)     the `environmentId` label of the event = the environment
//                                                              the executor launched the task FOR (stamped once; used
//                                                              for the "partition" log fields)
//     t.GetEnvironmentId()                                     the environment of the task's parent role: the
//                                                              environment the task belongs to NOW
// They agree as long as a task stays with the environment it was launched for; for a task released by that environment
// (keepTasks) and claimed by a later one, or an executor that sends no label, the first names no environment (or another
// one). The model (`Failure.Cfg.envByTask`, Model/FailureRoster `resolveEnv`) says the lookup goes through the task.
//
// Facts (all conservative: `true` only for a recognised shape):
//     lookups        number of calls `<x>.environment(ARG)` in the case clause (function literals included)
//     byTask         exactly one lookup, and ARG is `<t>.GetEnvironmentId()` where <t> is an identifier defined ONCE in the
//                    clause, by `<t> := ….GetTask(…)`
//     byLabel        ARG of some lookup is derived from the event's labels: it is / contains a call
//                    GetEnvironmentIdFromLabelerType(…) / GetLabels(), or an identifier that is assigned ANYWHERE in the
//                    function from an expression containing such a call
//     envIsUsed      that lookup defines (`env, err := …`, once) the identifier that is the receiver of EVERY
//                    `.CurrentState()` and `.TryTransition(…)` call of the clause (the state that is tested and the
//                    environment that is stopped are the looked-up one)
//     roleOfSameTask every `UpdateState(sm.ERROR)` of the clause is called on `<t>.GetParent()` — directly or through an
//                    identifier defined once by `p := <t>.GetParent()` — of the SAME <t>

import (
	"go/ast"
	"go/token"
)

type envFacts struct {
	lookups        int
	byTask         bool
	byLabel        bool
	envIsUsed      bool
	roleOfSameTask bool
}

func labelDerivedCall(e ast.Node) bool {
	found := false
	ast.Inspect(e, func(x ast.Node) bool {
		if c, ok := x.(*ast.CallExpr); ok {
			switch selName(c.Fun) {
			case "GetEnvironmentIdFromLabelerType", "GetLabels", "GetValueFromLabelerType":
				found = true
			}
		}
		return !found
	})
	return found
}

func envLookupFacts(fd *ast.FuncDecl, cc *ast.CaseClause) envFacts {
	var ef envFacts
	// identifiers of the whole function that (may) hold something read off the event's labels
	labelVars := map[string]bool{}
	for changed := true; changed; {
		changed = false
		ast.Inspect(fd, func(x ast.Node) bool {
			as, ok := x.(*ast.AssignStmt)
			if !ok {
				return true
			}
			tainted := false
			for _, r := range as.Rhs {
				if labelDerivedCall(r) {
					tainted = true
				}
				ast.Inspect(r, func(y ast.Node) bool {
					if id, ok := y.(*ast.Ident); ok && labelVars[id.Name] {
						tainted = true
					}
					return true
				})
			}
			if tainted {
				for _, l := range as.Lhs {
					if id, ok := l.(*ast.Ident); ok && id.Name != "_" && !labelVars[id.Name] {
						labelVars[id.Name] = true
						changed = true
					}
				}
			}
			return true
		})
	}
	// definitions inside the clause
	assigned := map[string]int{}
	taskVars := map[string]bool{}   // <t> := ….GetTask(…)
	parentOf := map[string]string{} // p := <t>.GetParent()  ↦ t
	lookupVar := map[*ast.CallExpr]string{}
	ast.Inspect(cc, func(x ast.Node) bool {
		switch s := x.(type) {
		case *ast.AssignStmt:
			for _, l := range s.Lhs {
				if id, ok := l.(*ast.Ident); ok {
					assigned[id.Name]++
				}
			}
			if s.Tok == token.DEFINE && len(s.Rhs) == 1 {
				if c, ok := s.Rhs[0].(*ast.CallExpr); ok {
					if id, ok := s.Lhs[0].(*ast.Ident); ok {
						switch {
						case selName(c.Fun) == "GetTask" && len(s.Lhs) == 1:
							taskVars[id.Name] = true
						case selName(c.Fun) == "GetParent" && len(c.Args) == 0 && len(s.Lhs) == 1:
							if se, ok := c.Fun.(*ast.SelectorExpr); ok {
								if t, ok := se.X.(*ast.Ident); ok {
									parentOf[id.Name] = t.Name
								}
							}
						case selName(c.Fun) == "environment":
							lookupVar[c] = id.Name
						}
					}
				}
			}
		case *ast.IncDecStmt:
			if id, ok := s.X.(*ast.Ident); ok {
				assigned[id.Name]++
			}
		case *ast.UnaryExpr:
			if s.Op == token.AND {
				if id, ok := s.X.(*ast.Ident); ok {
					assigned[id.Name]++
				}
			}
		}
		return true
	})
	once := func(v string) bool { return assigned[v] == 1 }
	// the lookups
	var theTask, theEnv string
	for _, c := range callsNamed(cc, "environment") {
		if _, ok := c.Fun.(*ast.SelectorExpr); !ok || len(c.Args) != 1 {
			continue
		}
		ef.lookups++
		arg := c.Args[0]
		if labelDerivedCall(arg) {
			ef.byLabel = true
		}
		ast.Inspect(arg, func(y ast.Node) bool {
			if id, ok := y.(*ast.Ident); ok && labelVars[id.Name] {
				ef.byLabel = true
			}
			return true
		})
		if ac, ok := arg.(*ast.CallExpr); ok && selName(ac.Fun) == "GetEnvironmentId" && len(ac.Args) == 0 {
			if se, ok := ac.Fun.(*ast.SelectorExpr); ok {
				if t, ok := se.X.(*ast.Ident); ok && taskVars[t.Name] && once(t.Name) && !labelVars[t.Name] {
					theTask = t.Name
				}
			}
		}
		theEnv = lookupVar[c]
	}
	ef.byTask = ef.lookups == 1 && theTask != "" && !ef.byLabel
	// the looked-up environment is the one whose state is tested and that is stopped
	if ef.lookups == 1 && theEnv != "" && once(theEnv) {
		ef.envIsUsed = true
		n := 0
		for _, name := range []string{"CurrentState", "TryTransition"} {
			for _, c := range callsNamed(cc, name) {
				n++
				se, ok := c.Fun.(*ast.SelectorExpr)
				if !ok {
					ef.envIsUsed = false
					continue
				}
				if id, ok := se.X.(*ast.Ident); !ok || id.Name != theEnv {
					ef.envIsUsed = false
				}
			}
		}
		if n == 0 {
			ef.envIsUsed = false
		}
	}
	// the role that is told is the parent of the task the lookup went through
	if theTask != "" {
		n := 0
		ef.roleOfSameTask = true
		for _, c := range callsNamed(cc, "UpdateState") {
			if len(c.Args) != 1 || selName(c.Args[0]) != "ERROR" {
				continue
			}
			n++
			se, ok := c.Fun.(*ast.SelectorExpr)
			if !ok {
				ef.roleOfSameTask = false
				continue
			}
			switch r := se.X.(type) {
			case *ast.Ident:
				if parentOf[r.Name] != theTask || !once(r.Name) {
					ef.roleOfSameTask = false
				}
			case *ast.CallExpr:
				rs, ok := r.Fun.(*ast.SelectorExpr)
				if !ok || rs.Sel.Name != "GetParent" || len(r.Args) != 0 {
					ef.roleOfSameTask = false
					break
				}
				if t, ok := rs.X.(*ast.Ident); !ok || t.Name != theTask {
					ef.roleOfSameTask = false
				}
			default:
				ef.roleOfSameTask = false
			}
		}
		if n == 0 {
			ef.roleOfSameTask = false
		}
	}
	return ef
}
