package c03

// Development / evidence aid: with C03_KEEP=<dir> every world in which a critical victim of a kind that drives the
// environment did NOT end in ERROR leaves a text file there — scenario, observation, the role and task events the core
// published around the injection (in the order the core wrote them: Ev_RoleEvent is written by whichever goroutine
// changes a role's state) and the core's log without the RPC chatter. Never part of a verdict.

import (
	"fmt"
	"os"
	"path/filepath"
	"strings"
	"sync/atomic"

	"verifharness/sim"
)

var keepSeq atomic.Int64

func suspicious(s *scenario, o *observation) bool {
	if o.env == "ERROR" || o.env == "GONE" {
		return false
	}
	switch s.kind {
	case "FINISHED", "RFINISHED":
		return false
	}
	for _, v := range o.victims {
		if v >= 0 && v < len(s.tasks) && s.tasks[v].crit {
			return true
		}
	}
	return false
}

func keepEvidence(w *sim.World, s *scenario, o *observation, evMark int) {
	dir := os.Getenv("C03_KEEP")
	if dir == "" || !suspicious(s, o) {
		return
	}
	os.MkdirAll(dir, 0o755)
	var b strings.Builder
	fmt.Fprintf(&b, "%s\n%s\ntErrorMs=%d\n\n== core events (role/task/environment), '>' = after the injection mark ==\n", s.String(), o.sx(), o.tErrorMs)
	for i, e := range w.CoreEvents() {
		if !(strings.Contains(e.Type, "Role") || strings.Contains(e.Type, "Task") || strings.Contains(e.Type, "Environment")) {
			continue
		}
		m := " "
		if i >= evMark {
			m = ">"
		}
		p := string(e.Payload)
		if len(p) > 300 {
			p = p[:300]
		}
		fmt.Fprintf(&b, "%s #%d %s %s\n", m, e.Seq, e.Type, p)
	}
	b.WriteString("\n== master trace ==\n")
	for _, r := range w.Trace() {
		if r.Type == "ACKNOWLEDGE" {
			continue
		}
		b.WriteString(r.When.Format("15:04:05.000000") + " " + r.String() + "\n")
	}
	b.WriteString("\n== core log (without rpcserver lines) ==\n")
	if lb, e := os.ReadFile(w.CoreLog()); e == nil {
		for _, l := range strings.Split(string(lb), "\n") {
			if strings.Contains(l, "prefix=rpcserver") {
				continue
			}
			if len(l) > 400 {
				l = l[:400]
			}
			b.WriteString(l + "\n")
		}
	}
	os.WriteFile(filepath.Join(dir, fmt.Sprintf("%d-%d.txt", os.Getpid(), keepSeq.Add(1))), []byte(b.String()), 0o644)
}
