package c03

// go/ast facts about the anchored code, regenerated on every run into
// lean/ControlModel/Gen/FailureFacts.lean; Props/C03.lean identifies the model's
// `effect` / `notify` / `Watch` with them (C03_*_is_code), so a change of one of
// these spots breaks a theorem before any world is started.

import (
	"fmt"
	"go/ast"
	"go/parser"
	"go/token"
	"sort"
	"strconv"
	"strings"

	"verifharness/fw"
)

func parseFile(path string) (*ast.File, error) {
	return parser.ParseFile(token.NewFileSet(), path, nil, 0)
}

func funcDecl(f *ast.File, recv, name string) *ast.FuncDecl {
	for _, d := range f.Decls {
		fd, ok := d.(*ast.FuncDecl)
		if !ok || fd.Name.Name != name {
			continue
		}
		if recv == "" {
			if fd.Recv == nil {
				return fd
			}
			continue
		}
		if fd.Recv == nil || len(fd.Recv.List) == 0 {
			continue
		}
		t := fd.Recv.List[0].Type
		if st, ok := t.(*ast.StarExpr); ok {
			t = st.X
		}
		if id, ok := t.(*ast.Ident); ok && id.Name == recv {
			return fd
		}
	}
	return nil
}

func selName(e ast.Expr) string {
	if s, ok := e.(*ast.SelectorExpr); ok {
		return s.Sel.Name
	}
	if id, ok := e.(*ast.Ident); ok {
		return id.Name
	}
	return ""
}

func strLit(e ast.Expr) (string, bool) {
	if b, ok := e.(*ast.BasicLit); ok && b.Kind == token.STRING {
		s, err := strconv.Unquote(b.Value)
		return s, err == nil
	}
	return "", false
}

func callsNamed(n ast.Node, name string) []*ast.CallExpr {
	var out []*ast.CallExpr
	ast.Inspect(n, func(x ast.Node) bool {
		if c, ok := x.(*ast.CallExpr); ok && selName(c.Fun) == name {
			out = append(out, c)
		}
		return true
	})
	return out
}

func mentions(n ast.Node, name string) bool {
	found := false
	ast.Inspect(n, func(x ast.Node) bool {
		if id, ok := x.(*ast.Ident); ok && id.Name == name {
			found = true
		}
		return !found
	})
	return found
}

// straightLine: an assignment, declaration or call statement without a function literal — control cannot leave
// the enclosing clause from inside it
func straightLine(st ast.Stmt) bool {
	switch st.(type) {
	case *ast.AssignStmt, *ast.DeclStmt, *ast.ExprStmt:
	default:
		return false
	}
	ok := true
	ast.Inspect(st, func(x ast.Node) bool {
		if _, is := x.(*ast.FuncLit); is {
			ok = false
		}
		return ok
	})
	return ok
}

// leaves: does the statement contain anything that can take control out of the enclosing case clause other than by
// falling off its end — return, goto, continue, a labelled break, or an unlabelled break that is not inside a
// switch/select/for of its own (depth 0 = directly in the clause)
func leaves(st ast.Stmt) bool {
	found := false
	var walk func(n ast.Node, depth int)
	walk = func(n ast.Node, depth int) {
		if n == nil || found {
			return
		}
		switch x := n.(type) {
		case *ast.ReturnStmt:
			found = true
			return
		case *ast.BranchStmt:
			if x.Tok != token.BREAK || x.Label != nil || depth == 0 {
				found = true
			}
			return
		case *ast.FuncLit:
			return
		}
		d := depth
		switch n.(type) {
		case *ast.SwitchStmt, *ast.TypeSwitchStmt, *ast.SelectStmt, *ast.ForStmt, *ast.RangeStmt:
			d++
		}
		ast.Inspect(n, func(c ast.Node) bool {
			if c == n {
				return true
			}
			if c != nil {
				walk(c, d)
			}
			return false
		})
	}
	walk(st, 0)
	return found
}

func mentionsReason(n ast.Node) bool {
	found := false
	ast.Inspect(n, func(x ast.Node) bool {
		switch y := x.(type) {
		case *ast.SelectorExpr:
			if y.Sel.Name == "GetReason" || y.Sel.Name == "Reason" {
				found = true
			}
		case *ast.Ident:
			if strings.HasPrefix(y.Name, "REASON_") || strings.Contains(strings.ToLower(y.Name), "reason") {
				found = true
			}
		case *ast.BasicLit:
			if strings.Contains(y.Value, "REASON_") {
				found = true
			}
		}
		return !found
	})
	return found
}

// statusClauseShape looks at the body of `case taskop.TaskStatusMessage:` in handleMessage.
//
// reasonBlind: the `switch mesosState` is a statement of the clause body itself; everything before it is straight-line
// code (so it is reached for EVERY status update); it has no init statement, and inside the case clauses that call
// updateTaskState no `if` condition, case expression or switch tag mentions the update's reason: which state literal a
// terminal Mesos state is turned into does not depend on why Mesos sent the update (direct, or the answer to a
// reconciliation request).
//
// forRoster: the call of updateTaskStatus is a statement of the clause body (plain or `go`), or sits in the else branch
// (no else-if) of an `if` of the clause body whose condition is a conjunction with the conjunct `m.GetTask(…) == nil`
// — so the branch is taken whenever the task IS in the roster —, and everything before it in the clause body is
// straight-line code or a statement that cannot leave the clause (no return/goto/continue/labelled break/break of the
// clause itself): every update about a roster task reaches updateTaskStatus, whatever its reason.
func statusClauseShape(cc *ast.CaseClause) (reasonBlind, forRoster bool) {
	for i, st := range cc.Body {
		sw, ok := st.(*ast.SwitchStmt)
		if !ok || selName(sw.Tag) != "mesosState" {
			continue
		}
		reasonBlind = sw.Init == nil
		for _, b := range cc.Body[:i] {
			if !straightLine(b) {
				reasonBlind = false
			}
		}
		for _, c := range sw.Body.List {
			c2 := c.(*ast.CaseClause)
			if len(callsNamed(c2, "updateTaskState")) == 0 {
				continue
			}
			for _, e := range c2.List {
				if mentionsReason(e) {
					reasonBlind = false
				}
			}
			ast.Inspect(c2, func(y ast.Node) bool {
				switch z := y.(type) {
				case *ast.IfStmt:
					if mentionsReason(z.Cond) || (z.Init != nil && mentionsReason(z.Init)) {
						reasonBlind = false
					}
				case *ast.SwitchStmt:
					if z.Tag != nil && mentionsReason(z.Tag) {
						reasonBlind = false
					}
				}
				return true
			})
		}
		break
	}
	isStatusCall := func(st ast.Stmt) bool {
		switch x := st.(type) {
		case *ast.GoStmt:
			return selName(x.Call.Fun) == "updateTaskStatus"
		case *ast.ExprStmt:
			c, ok := x.X.(*ast.CallExpr)
			return ok && selName(c.Fun) == "updateTaskStatus"
		}
		return false
	}
	var conjuncts func(e ast.Expr) []ast.Expr
	conjuncts = func(e ast.Expr) []ast.Expr {
		if p, ok := e.(*ast.ParenExpr); ok {
			return conjuncts(p.X)
		}
		if be, ok := e.(*ast.BinaryExpr); ok && be.Op == token.LAND {
			return append(conjuncts(be.X), conjuncts(be.Y)...)
		}
		return []ast.Expr{e}
	}
	notInRoster := func(e ast.Expr) bool {
		be, ok := e.(*ast.BinaryExpr)
		if !ok || be.Op != token.EQL {
			return false
		}
		id, ok := be.Y.(*ast.Ident)
		if !ok || id.Name != "nil" {
			return false
		}
		c, ok := be.X.(*ast.CallExpr)
		return ok && selName(c.Fun) == "GetTask"
	}
	for i, st := range cc.Body {
		reached := false
		if isStatusCall(st) {
			reached = true
		} else if ifs, ok := st.(*ast.IfStmt); ok && ifs.Init == nil && ifs.Else != nil {
			if eb, ok := ifs.Else.(*ast.BlockStmt); ok {
				inElse := false
				for _, b := range eb.List {
					inElse = inElse || isStatusCall(b)
				}
				guard := false
				for _, c := range conjuncts(ifs.Cond) {
					guard = guard || notInRoster(c)
				}
				reached = inElse && guard
			}
		}
		if !reached {
			continue
		}
		forRoster = true
		for _, b := range cc.Body[:i] {
			if !straightLine(b) && leaves(b) {
				forRoster = false
			}
		}
		break
	}
	return
}

type statusRow struct {
	mesos, state string
	locked       bool
}

type facts struct {
	statusState        []statusRow // handleMessage: terminal Mesos state -> updateTaskState literal, guarded by IsLocked
	statusReasonBlind  bool        // …and that switch is reached and taken whatever the update's reason is (see extract)
	statusForRoster    bool        // updateTaskStatus is reached for every update about a task that is in the roster (see extract)
	inactiveOn         []string    // updateTaskStatus: states that set INACTIVE
	execState          string
	execInactive       bool
	agentState         string
	agentInactive      bool
	execWalkPerTask    bool // HandleExecutorFailed: every entry of the snapshot gets its body (walkfacts.go)
	agentWalkPerTask   bool // HandleAgentFailed: the same
	internalGuard      string // literal compared with env.CurrentState() in the TASK_INTERNAL_ERROR case
	internalUpdates    bool   // UpdateState(sm.ERROR) on the task's parent role
	internalStops      bool   // TryTransition(NewStopActivityTransition…)
	internalCritTested bool   // does that branch look at Critical at all?
	dev                devFacts // guard stacks of the role update and of the STOP request in that case (devfacts.go)
	env                envFacts // which environment that case handles the event in: the task's or the label's (envfacts.go)
	notifyNonBlocking  bool
	forwardIffCritical bool
	timerMs            int
	watcherOneShot     bool
	watcherOnError     bool // the loop reacts to sm.ERROR
	watcherLeavesDone  bool // …and leaves on sm.DONE
	forcedError        bool // setState(...) when GO_ERROR is refused and the state is not ERROR
	notifyChanCap      int  // capacity of the channel the watcher subscribes with (0: unbuffered; -1: not found / not a literal)
	watcherRereads     bool // after the receive and before acting: root role in ERROR overrides the received value
}

func extract(repo string) (*facts, error) {
	ft := &facts{}
	// ---- core/task/manager.go
	mf, err := parseFile(repo + "/core/task/manager.go")
	if err != nil {
		return nil, err
	}
	hm := funcDecl(mf, "Manager", "handleMessage")
	if hm == nil {
		return nil, fmt.Errorf("handleMessage not found")
	}
	ast.Inspect(hm, func(x ast.Node) bool {
		cc, ok := x.(*ast.CaseClause)
		if !ok {
			return true
		}
		isStatus := false
		for _, e := range cc.List {
			if selName(e) == "TaskStatusMessage" {
				isStatus = true
			}
		}
		if !isStatus {
			return true
		}
		ft.statusReasonBlind, ft.statusForRoster = statusClauseShape(cc)
		for _, st := range cc.Body {
			sw, ok := st.(*ast.SwitchStmt)
			if !ok || selName(sw.Tag) != "mesosState" {
				continue
			}
			for _, c := range sw.Body.List {
				c2 := c.(*ast.CaseClause)
				calls := callsNamed(c2, "updateTaskState")
				if len(calls) != 1 || len(calls[0].Args) != 2 {
					continue
				}
				lit, ok := strLit(calls[0].Args[1])
				if !ok {
					continue
				}
				locked := false
				ast.Inspect(c2, func(y ast.Node) bool {
					if is, ok := y.(*ast.IfStmt); ok && len(callsNamed(is.Cond, "IsLocked")) > 0 && len(callsNamed(is.Body, "updateTaskState")) > 0 {
						locked = true
					}
					return true
				})
				for _, e := range c2.List {
					ft.statusState = append(ft.statusState, statusRow{selName(e), lit, locked})
				}
			}
		}
		return false
	})
	sort.Slice(ft.statusState, func(i, j int) bool { return ft.statusState[i].mesos < ft.statusState[j].mesos })
	us := funcDecl(mf, "Manager", "updateTaskStatus")
	if us == nil {
		return nil, fmt.Errorf("updateTaskStatus not found")
	}
	ast.Inspect(us, func(x ast.Node) bool {
		cc, ok := x.(*ast.CaseClause)
		if !ok {
			return true
		}
		sets := false
		ast.Inspect(cc, func(y ast.Node) bool {
			if as, ok := y.(*ast.AssignStmt); ok && len(as.Lhs) == 1 && len(as.Rhs) == 1 && selName(as.Lhs[0]) == "status" && selName(as.Rhs[0]) == "INACTIVE" {
				sets = true
			}
			return true
		})
		if sets && len(callsNamed(cc, "UpdateStatus")) > 0 {
			for _, e := range cc.List {
				ft.inactiveOn = append(ft.inactiveOn, selName(e))
			}
		}
		return true
	})
	sort.Strings(ft.inactiveOn)
	lost := func(name string) (string, bool, error) {
		fd := funcDecl(mf, "Manager", name)
		if fd == nil {
			return "", false, fmt.Errorf("%s not found", name)
		}
		st := ""
		for _, c := range callsNamed(fd, "updateTaskState") {
			if len(c.Args) == 2 {
				if l, ok := strLit(c.Args[1]); ok {
					st = l
				}
			}
		}
		inact := false
		for _, c := range callsNamed(fd, "UpdateStatus") {
			if len(c.Args) == 1 && selName(c.Args[0]) == "INACTIVE" {
				inact = true
			}
		}
		return st, inact, nil
	}
	if ft.execState, ft.execInactive, err = lost("HandleExecutorFailed"); err != nil {
		return nil, err
	}
	if ft.agentState, ft.agentInactive, err = lost("HandleAgentFailed"); err != nil {
		return nil, err
	}
	ft.execWalkPerTask = walkPerTask(funcDecl(mf, "Manager", "HandleExecutorFailed"))
	ft.agentWalkPerTask = walkPerTask(funcDecl(mf, "Manager", "HandleAgentFailed"))
	// ---- core/environment/manager.go handleDeviceEvent
	ef, err := parseFile(repo + "/core/environment/manager.go")
	if err != nil {
		return nil, err
	}
	hd := funcDecl(ef, "Manager", "handleDeviceEvent")
	if hd == nil {
		return nil, fmt.Errorf("handleDeviceEvent not found")
	}
	ast.Inspect(hd, func(x ast.Node) bool {
		cc, ok := x.(*ast.CaseClause)
		if !ok {
			return true
		}
		is := false
		for _, e := range cc.List {
			if selName(e) == "DeviceEventType_TASK_INTERNAL_ERROR" {
				is = true
			}
		}
		if !is {
			return true
		}
		ft.internalCritTested = mentions(cc, "Critical") || len(callsNamed(cc, "IsCritical")) > 0
		ft.dev = deviceFacts(cc)
		ft.env = envLookupFacts(hd, cc)
		ft.internalGuard = ft.dev.guard
		ft.internalUpdates = ft.dev.role.n == 1
		ft.internalStops = ft.dev.stop.n == 1
		return false
	})
	// ---- core/workflow/parentadapter.go updateState
	pf, err := parseFile(repo + "/core/workflow/parentadapter.go")
	if err != nil {
		return nil, err
	}
	pu := funcDecl(pf, "ParentAdapter", "updateState")
	if pu == nil {
		return nil, fmt.Errorf("ParentAdapter.updateState not found")
	}
	ast.Inspect(pu, func(x ast.Node) bool {
		sel, ok := x.(*ast.SelectStmt)
		if !ok {
			return true
		}
		hasSend, hasDefault := false, false
		for _, c := range sel.Body.List {
			cc := c.(*ast.CommClause)
			if cc.Comm == nil {
				hasDefault = true
			} else if _, ok := cc.Comm.(*ast.SendStmt); ok {
				hasSend = true
			}
		}
		ft.notifyNonBlocking = hasSend && hasDefault
		return true
	})
	// ---- core/workflow/taskrole.go updateState
	tf, err := parseFile(repo + "/core/workflow/taskrole.go")
	if err != nil {
		return nil, err
	}
	tu := funcDecl(tf, "taskRole", "updateState")
	if tu == nil {
		return nil, fmt.Errorf("taskRole.updateState not found")
	}
	total := len(callsNamed(tu, "updateState"))
	guarded := 0
	for _, st := range tu.Body.List {
		ifs, ok := st.(*ast.IfStmt)
		if !ok || ifs.Else != nil {
			continue
		}
		be, ok := ifs.Cond.(*ast.BinaryExpr)
		if !ok || be.Op != token.EQL || selName(be.X) != "Critical" || selName(be.Y) != "true" {
			continue
		}
		guarded += len(callsNamed(ifs.Body, "updateState"))
	}
	ft.forwardIffCritical = total == 1 && guarded == 1
	// ---- core/environment/environment.go subscribeToWfState
	nf, err := parseFile(repo + "/core/environment/environment.go")
	if err != nil {
		return nil, err
	}
	sw := funcDecl(nf, "Environment", "subscribeToWfState")
	if sw == nil {
		return nil, fmt.Errorf("subscribeToWfState not found")
	}
	for _, c := range callsNamed(sw, "AfterFunc") {
		if len(c.Args) == 2 {
			if be, ok := c.Args[0].(*ast.BinaryExpr); ok && be.Op == token.MUL && selName(be.Y) == "Millisecond" {
				if b, ok := be.X.(*ast.BasicLit); ok {
					ft.timerMs, _ = strconv.Atoi(b.Value)
				}
			}
			ft.forcedError = len(callsNamed(c.Args[1], "setState")) > 0 && len(callsNamed(c.Args[1], "NewGoErrorTransition")) > 0
		}
	}
	// the channel handed to SubscribeToStateChange: `notify := make(chan sm.State[, <n>])`
	ft.notifyChanCap = -1
	subscribed := ""
	for _, c := range callsNamed(sw, "SubscribeToStateChange") {
		if len(c.Args) == 2 {
			subscribed = selName(c.Args[1])
		}
	}
	wfIsWorkflow := false // `wf := env.Workflow()`
	ast.Inspect(sw, func(x ast.Node) bool {
		as, ok := x.(*ast.AssignStmt)
		if !ok || len(as.Lhs) != 1 || len(as.Rhs) != 1 {
			return true
		}
		if selName(as.Lhs[0]) == "wf" && len(callsNamed(as.Rhs[0], "Workflow")) == 1 {
			wfIsWorkflow = true
		}
		if subscribed == "" || selName(as.Lhs[0]) != subscribed {
			return true
		}
		mk, ok := as.Rhs[0].(*ast.CallExpr)
		if !ok || selName(mk.Fun) != "make" || len(mk.Args) == 0 {
			return true
		}
		if _, ok := mk.Args[0].(*ast.ChanType); !ok {
			return true
		}
		switch len(mk.Args) {
		case 1:
			ft.notifyChanCap = 0
		case 2:
			if b, ok := mk.Args[1].(*ast.BasicLit); ok && b.Kind == token.INT {
				if n, err := strconv.Atoi(b.Value); err == nil {
					ft.notifyChanCap = n
				}
			}
		}
		return true
	})
	// the receive clause `case wfState = <-notify:`: an `if … wf.GetState() == sm.ERROR … { wfState = sm.ERROR }`
	// (optionally `wfState != sm.ERROR && …`) that comes BEFORE the `if wfState == sm.ERROR` the watcher acts on
	isErrCmp := func(e ast.Expr, op token.Token, lhs func(ast.Expr) bool) bool {
		be, ok := e.(*ast.BinaryExpr)
		return ok && be.Op == op && lhs(be.X) && selName(be.Y) == "ERROR"
	}
	isWfState := func(e ast.Expr) bool { id, ok := e.(*ast.Ident); return ok && id.Name == "wfState" }
	isRootState := func(e ast.Expr) bool {
		c, ok := e.(*ast.CallExpr)
		if !ok || len(c.Args) != 0 {
			return false
		}
		se, ok := c.Fun.(*ast.SelectorExpr)
		return ok && se.Sel.Name == "GetState" && selName(se.X) == "wf" && wfIsWorkflow
	}
	ast.Inspect(sw, func(x ast.Node) bool {
		cc, ok := x.(*ast.CommClause)
		if !ok || cc.Comm == nil {
			return true
		}
		as, ok := cc.Comm.(*ast.AssignStmt)
		if !ok || len(as.Lhs) != 1 || len(as.Rhs) != 1 || !isWfState(as.Lhs[0]) {
			return true
		}
		if u, ok := as.Rhs[0].(*ast.UnaryExpr); !ok || u.Op != token.ARROW || selName(u.X) != subscribed {
			return true
		}
		for _, st := range cc.Body {
			ifs, ok := st.(*ast.IfStmt)
			if !ok {
				continue
			}
			if isErrCmp(ifs.Cond, token.EQL, isWfState) {
				break // the reaction: a re-read after it would be too late
			}
			cond := ifs.Cond
			if be, ok := cond.(*ast.BinaryExpr); ok && be.Op == token.LAND && isErrCmp(be.X, token.NEQ, isWfState) {
				cond = be.Y
			}
			if !isErrCmp(cond, token.EQL, isRootState) || ifs.Else != nil {
				continue
			}
			for _, b := range ifs.Body.List {
				if a, ok := b.(*ast.AssignStmt); ok && a.Tok == token.ASSIGN && len(a.Lhs) == 1 && len(a.Rhs) == 1 && isWfState(a.Lhs[0]) && selName(a.Rhs[0]) == "ERROR" {
					ft.watcherRereads = true
				}
			}
		}
		return true
	})
	ast.Inspect(sw, func(x ast.Node) bool {
		ifs, ok := x.(*ast.IfStmt)
		if !ok {
			return true
		}
		be, ok := ifs.Cond.(*ast.BinaryExpr)
		if ok && be.Op == token.EQL && selName(be.X) == "wfState" && selName(be.Y) == "ERROR" {
			ft.watcherOnError = true
			// inside: if !handlingError { …; break WORKFLOW_STATE_LOOP }
			ast.Inspect(ifs.Body, func(y ast.Node) bool {
				if in, ok := y.(*ast.IfStmt); ok {
					if u, ok := in.Cond.(*ast.UnaryExpr); ok && u.Op == token.NOT && selName(u.X) == "handlingError" {
						for _, st := range in.Body.List {
							if br, ok := st.(*ast.BranchStmt); ok && br.Tok == token.BREAK && br.Label != nil {
								ft.watcherOneShot = true
							}
						}
					}
				}
				return true
			})
		}
		if ok && be.Op == token.EQL && selName(be.X) == "wfState" && selName(be.Y) == "DONE" {
			for _, st := range ifs.Body.List {
				if br, ok := st.(*ast.BranchStmt); ok && br.Tok == token.BREAK && br.Label != nil {
					ft.watcherLeavesDone = true
				}
			}
		}
		return true
	})
	return ft, nil
}

func genFacts(repo string) (string, error) {
	ft, err := extract(repo)
	if err != nil {
		return "", err
	}
	var b strings.Builder
	b.WriteString("namespace Gen.C03\n\n")
	b.WriteString("/-- go/ast, task.Manager.handleMessage(TaskStatusMessage): Mesos state ↦ (literal passed to updateTaskState, only under `t.IsLocked()`), sorted by name -/\ndef statusState : List (String × String × Bool) := [")
	for i, r := range ft.statusState {
		if i > 0 {
			b.WriteString(", ")
		}
		fmt.Fprintf(&b, "(%q, %q, %v)", r.mesos, r.state, r.locked)
	}
	b.WriteString("]\n\n")
	fmt.Fprintf(&b, "/-- go/ast, handleMessage(TaskStatusMessage): the `switch mesosState` is a statement of the clause body, preceded by straight-line code only, and no condition on the way to an updateTaskState call mentions the update's reason -/\ndef statusStateReasonBlind : Bool := %v\n\n", ft.statusReasonBlind)
	fmt.Fprintf(&b, "/-- go/ast, handleMessage(TaskStatusMessage): updateTaskStatus is called from the clause body itself or from the else branch of an `if … m.GetTask(…) == nil …`, and nothing before it can leave the clause: reached for every update about a task in the roster -/\ndef statusUpdateReachesRosterTasks : Bool := %v\n\n", ft.statusForRoster)
	b.WriteString("/-- go/ast, task.Manager.updateTaskStatus: Mesos states whose case sets status INACTIVE and calls UpdateStatus -/\ndef inactiveOn : List String := [")
	for i, r := range ft.inactiveOn {
		if i > 0 {
			b.WriteString(", ")
		}
		fmt.Fprintf(&b, "%q", r)
	}
	b.WriteString("]\n\n")
	w := func(doc, name, typ, val string) {
		fmt.Fprintf(&b, "/-- %s -/\ndef %s : %s := %s\n\n", doc, name, typ, val)
	}
	bs := func(v bool) string { return fmt.Sprint(v) }
	w("go/ast, HandleExecutorFailed: literal passed to updateTaskState", "execState", "String", strconv.Quote(ft.execState))
	w("go/ast, HandleExecutorFailed: UpdateStatus(INACTIVE) on the parent role", "execInactive", "Bool", bs(ft.execInactive))
	w("go/ast, HandleAgentFailed: literal passed to updateTaskState", "agentState", "String", strconv.Quote(ft.agentState))
	w("go/ast, HandleAgentFailed: UpdateStatus(INACTIVE) on the parent role", "agentInactive", "Bool", bs(ft.agentInactive))
	w("go/ast, HandleExecutorFailed: updateTaskState and UpdateStatus(INACTIVE) sit, unconditionally (the latter under one `!= nil` test of the parent), in the body of a `range` loop over the snapshot `m.roster.filtered(…)`, and no statement of that body (function literals not entered) can leave the iteration: every entry of the snapshot gets its body", "execWalkPerTask", "Bool", bs(ft.execWalkPerTask))
	w("go/ast, HandleAgentFailed: the same shape", "agentWalkPerTask", "Bool", bs(ft.agentWalkPerTask))
	w("go/ast, handleDeviceEvent case TASK_INTERNAL_ERROR: the literal env.CurrentState() is compared with", "internalGuard", "String", strconv.Quote(ft.internalGuard))
	w("go/ast, same case: exactly one call <parent role of the task>.UpdateState(sm.ERROR)", "internalUpdatesRole", "Bool", bs(ft.internalUpdates))
	w("go/ast, same case: exactly one call env.TryTransition(NewStopActivityTransition(…))", "internalStops", "Bool", bs(ft.internalStops))
	w("go/ast, same case: is the task's criticality looked at anywhere?", "internalLooksAtCritical", "Bool", bs(ft.internalCritTested))
	w("go/ast, same case, guard stack of the role update (conditions of the enclosing ifs and negated conditions of earlier `if C { …; return }` statements, split at &&): contains the test of the environment's state against that literal (directly, or through a variable defined once by `v := env.CurrentState() == …`)", "internalRoleNeedsRunning", "Bool", bs(ft.dev.roleNeedsRunning))
	w("go/ast, …: contains a test of the task's criticality", "internalRoleNeedsCritical", "Bool", bs(ft.dev.roleNeedsCrit))
	w("go/ast, …: contains anything else than state test, criticality test and nil tests (or the call is not unique / sits in a loop, switch, select or a function literal that is not invoked on the spot)", "internalRoleOther", "Bool", bs(ft.dev.roleOther))
	w("go/ast, same case, guard stack of the STOP request: contains the state test", "internalStopNeedsRunning", "Bool", bs(ft.dev.stopNeedsRunning))
	w("go/ast, …: contains a POSITIVE test of the task's criticality (`if !t.GetTraits().Critical { return }` before it, or an enclosing `if ….Critical`)", "internalStopNeedsCritical", "Bool", bs(ft.dev.stopNeedsCrit))
	w("go/ast, …: contains anything else (as above; also a criticality test of the wrong polarity)", "internalStopOther", "Bool", bs(ft.dev.stopOther))
	w("go/ast, same case: role update and STOP request run in the same goroutine, the role update first", "internalRoleBeforeStop", "Bool", bs(ft.dev.roleBeforeStop))
	w("go/ast, same case: number of calls <x>.environment(ARG) (the lookup of the environment the event is handled in)", "internalEnvLookups", "Nat", fmt.Sprint(ft.env.lookups))
	w("go/ast, same case: exactly one such lookup and ARG is `<t>.GetEnvironmentId()` with <t> defined once by `<t> := ….GetTask(…)` — the environment of the task's parent role, i.e. the one the task belongs to NOW — and nothing of ARG is derived from the event's labels", "internalEnvByTask", "Bool", bs(ft.env.byTask))
	w("go/ast, same case: ARG of a lookup is derived from the event's labels (GetEnvironmentIdFromLabelerType / GetLabels, directly or through an identifier assigned from them anywhere in handleDeviceEvent): the environment the executor launched the task FOR", "internalEnvByLabel", "Bool", bs(ft.env.byLabel))
	w("go/ast, same case: the identifier that lookup defines (once) is the receiver of every CurrentState() and TryTransition(…) call of the case", "internalEnvIsTheOneUsed", "Bool", bs(ft.env.envIsUsed))
	w("go/ast, same case: every UpdateState(sm.ERROR) is called on <t>.GetParent() (directly or through an identifier defined once by it) of the same <t> the lookup went through", "internalRoleOfSameTask", "Bool", bs(ft.env.roleOfSameTask))
	w("go/ast, ParentAdapter.updateState: the send sits in a select with a default clause", "notifyNonBlocking", "Bool", bs(ft.notifyNonBlocking))
	w("go/ast, taskRole.updateState: exactly one parent.updateState call, inside `if t.Critical == true` without else", "forwardIffCritical", "Bool", bs(ft.forwardIffCritical))
	w("go/ast, subscribeToWfState: time.AfterFunc(<n>*time.Millisecond, …)", "timerMs", "Nat", fmt.Sprint(ft.timerMs))
	w("go/ast, subscribeToWfState: `if wfState == sm.ERROR` exists", "watcherOnError", "Bool", bs(ft.watcherOnError))
	w("go/ast, subscribeToWfState: under `if !handlingError` the loop is left with a labelled break", "watcherOneShot", "Bool", bs(ft.watcherOneShot))
	w("go/ast, subscribeToWfState: `if wfState == sm.DONE { break LOOP }`", "watcherLeavesOnDone", "Bool", bs(ft.watcherLeavesDone))
	w("go/ast, the timer function calls NewGoErrorTransition and env.setState (forced ERROR)", "forcedError", "Bool", bs(ft.forcedError))
	w("go/ast, subscribeToWfState: capacity of the channel passed to SubscribeToStateChange (`make(chan sm.State)` = 0; 1000000 = not found)", "notifyChanCap", "Nat", fmt.Sprint(map[bool]int{true: ft.notifyChanCap, false: 1000000}[ft.notifyChanCap >= 0]))
	w("go/ast, subscribeToWfState: in `case wfState = <-notify:`, before `if wfState == sm.ERROR`, an `if [wfState != sm.ERROR &&] wf.GetState() == sm.ERROR { wfState = sm.ERROR }` with wf := env.Workflow()", "watcherRereadsRoot", "Bool", bs(ft.watcherRereads))
	b.WriteString("end Gen.C03\n")
	return b.String(), nil
}

func init() {
	fw.RegisterGen(fw.GenFile{Name: "FailureFacts.lean", Make: genFacts})
}
