package c03

// Generator for the class "the roster is one table": besides the tasks of the environment under observation the
// agents host tasks that belong to NO environment (kept by an older / younger environment destroyed with keepTasks)
// or to ANOTHER live environment, standing before or after the victim in the roster — for every failure kind.

import (
	"fmt"

	"verifharness/fw"
	"verifharness/rng"
)

func groupTags(s *scenario) []string {
	if len(s.groups) == 0 {
		return nil
	}
	tags := []string{"class=roster-bystanders", fmt.Sprintf("bystander-groups-%d", len(s.groups))}
	seen := map[string]bool{}
	vh := s.tasks[s.victim].host
	shared := false
	for _, g := range s.groups {
		t := "bystander-" + g.own + "-" + g.pos
		if !seen[t] {
			seen[t] = true
			tags = append(tags, t)
		}
		for _, x := range g.tasks {
			shared = shared || x.host == vh
		}
	}
	if shared {
		tags = append(tags, "bystander-on-victims-agent")
	} else {
		tags = append(tags, "bystander-elsewhere")
	}
	return tags
}

// a group of 1..2 tasks; `on` > 0: its first task is on that host (so that it shares the victim's agent)
func randGroup(r *rng.R, pos, own string, on int) group {
	g := group{pos: pos, own: own}
	n := 1
	if r.P(1, 3) {
		n = 2
	}
	for i := 0; i < n; i++ {
		h := 1 + r.N(2)
		if i == 0 && on > 0 {
			h = on
		}
		g.tasks = append(g.tasks, taskSpec{crit: r.P(1, 2), host: h})
	}
	return g
}

var groupShapes = [][2]string{{"before", "loose"}, {"after", "loose"}, {"before", "env"}, {"after", "env"}}

// the kinds whose event is about a whole executor / agent: ONE walk over the roster
var walkKinds = []string{"EXEC", "EXEC0", "AGENT", "AGENT0", "RAGENT"}

func instantFor(r *rng.R, k string) string {
	if isReconKind(k) {
		return rng.Pick(r, dropInstants)
	}
	return "idle"
}

// bystanderCases: the quick stratum (also part of thorough), `add` de-duplicates and validates
func bystanderCases(r *rng.R, ls []layout, add func(*scenario)) {
	small := func(wantCrit bool) layout {
		for {
			l := rng.Pick(r, ls)
			if len(l.tasks) <= 2 && l.tasks[l.victim].crit == wantCrit {
				return l
			}
		}
	}
	with := func(s *scenario, gs ...group) *scenario {
		s.groups = gs
		return s
	}
	// the smallest worlds, always: one critical task, one task of nobody / of a second environment on its agent,
	// older or younger, the bare agent FAILURE and the bare executor FAILURE
	one := layout{[]taskSpec{{true, 1}}, 0}
	for _, sh := range groupShapes {
		for _, k := range []string{"AGENT0", "EXEC0"} {
			add(with(mk("CONFIGURED", one, k, "idle"), group{pos: sh[0], own: sh[1], tasks: []taskSpec{{false, 1}}}))
		}
	}
	// every walk kind x live state x group shape: critical victim, a bystander on the victim's agent
	for _, live := range []string{"CONFIGURED", "RUNNING"} {
		for _, k := range walkKinds {
			for _, sh := range groupShapes {
				l := small(true)
				add(with(mk(live, l, k, instantFor(r, k)), randGroup(r, sh[0], sh[1], l.tasks[l.victim].host)))
			}
		}
	}
	// every other kind (the event is about ONE task: no bystander may notice), a random shape
	for _, k := range append(append([]string{}, kinds...), reconKinds...) {
		isWalk := false
		for _, w := range walkKinds {
			isWalk = isWalk || w == k
		}
		if isWalk {
			continue
		}
		l := small(true)
		sh := rng.Pick(r, groupShapes)
		add(with(mk(rng.Pick(r, []string{"CONFIGURED", "RUNNING"}), l, k, instantFor(r, k)), randGroup(r, sh[0], sh[1], l.tasks[l.victim].host)))
	}
	// several groups at once, non-critical victims too, also while a transition of the main environment is in flight
	for i := 0; i < 14; i++ {
		l := small(r.P(2, 3))
		k := rng.Pick(r, walkKinds)
		if r.P(1, 4) {
			k = rng.Pick(r, kinds)
		}
		inst := instantFor(r, k)
		if !isReconKind(k) && r.P(1, 3) {
			inst = rng.Pick(r, []string{"race", "burst"})
		}
		vh := l.tasks[l.victim].host
		a, b := rng.Pick(r, groupShapes), rng.Pick(r, groupShapes)
		gs := []group{randGroup(r, a[0], a[1], vh), randGroup(r, b[0], b[1], 0)}
		if r.P(1, 3) {
			c := rng.Pick(r, groupShapes)
			gs = append(gs, randGroup(r, c[0], c[1], vh))
		}
		add(with(mk(rng.Pick(r, []string{"CONFIGURED", "RUNNING"}), l, k, inst), gs...))
	}
}

func randomBystanderCase(r *rng.R, ls []layout) *scenario {
	l := rng.Pick(r, ls)
	k := rng.Pick(r, append(append([]string{}, kinds...), reconKinds...))
	if r.P(1, 2) {
		k = rng.Pick(r, walkKinds)
	}
	inst := instantFor(r, k)
	if !isReconKind(k) && r.P(1, 3) {
		inst = rng.Pick(r, []string{"race", "racelate", "burst"})
	}
	s := mk(rng.Pick(r, []string{"CONFIGURED", "RUNNING"}), l, k, inst)
	n := 1 + r.N(2)
	for i := 0; i < n; i++ {
		sh := rng.Pick(r, groupShapes)
		on := 0
		if i == 0 {
			on = l.tasks[l.victim].host
		}
		s.groups = append(s.groups, randGroup(r, sh[0], sh[1], on))
	}
	return s
}

// shrink candidates that concern the groups: fewer groups, fewer tasks in a group
func shrinkGroups(s *scenario) []*scenario {
	var out []*scenario
	for i := range s.groups {
		c := *s
		c.groups = append(append([]group{}, s.groups[:i]...), s.groups[i+1:]...)
		out = append(out, &c)
	}
	for i, g := range s.groups {
		if len(g.tasks) < 2 {
			continue
		}
		for j := range g.tasks {
			c := *s
			c.groups = append([]group{}, s.groups...)
			ng := g
			ng.tasks = append(append([]taskSpec{}, g.tasks[:j]...), g.tasks[j+1:]...)
			c.groups[i] = ng
			out = append(out, &c)
		}
	}
	return out
}

var _ = fw.Case{}
