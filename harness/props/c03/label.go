package c03

// Foreign labels: what the `environmentId` label of the messages about the victim names.
//
// Every message an executor sends about a task (status update, device event) carries the environment id the executor was
// given when the task was LAUNCHED; it is never updated. The core knows the environment a task belongs to NOW through
// the task's parent role. The two agree in every world in which a task stays with the environment it was launched for —
// i.e. in every world the older strata build. They differ for a task that was released by its first environment
// (destroyed with keepTasks) and claimed by a later one (core run with reuseUnlockedTasks), and for an executor that
// sends no (usable) label.
//
// Through the whole core the first case is not reachable as a LIVE environment on the unchanged code: a creation's
// pre-deployment Cleanup() kills every unlocked task, so a claim needs a keepTasks destroy inside the creation's window
// between Cleanup and acquireTasks, and a creation that claimed a task never gets past DEPLOY (acquireTasks sets parent
// and task, nothing ever sets the claimed role's status to ACTIVE: "workflow deployment timed out"; C04_full_claim_times_out,
// notes/C06.md; probe `VERIF_CHILD=c03claim`, claimprobe.go). So the class is produced where it arises — at the executor:
// sim.RelabelTask makes the victim's (simulated) executor stamp its messages with another id, exactly what an executor
// launched for an earlier environment does.
//
// Optional LAST input field `(label L)`:
//
//	stale   a well-formed id that no environment has (the environment the task was launched for is gone)
//	none    no usable label at all
//	other   the id of the first live bystander environment (needs a group with own = env)
//
// absent = the victim's own environment (every older input is unchanged byte for byte). Only for the kinds that are
// announced by ONE message of the task's executor: FAILED LOST KILLED TERROR FINISHED (status update) and INTERNAL
// (device event). The observation has no new field: the property — and the model of the code as it is
// (C03_label_irrelevant_code) — say that the label changes nothing.

import (
	"fmt"

	"github.com/AliceO2Group/Control/common/utils/uid"

	"verifharness/rng"
	"verifharness/sim"
	"verifharness/sx"
)

var labelValues = []string{"stale", "none", "other"}

// the kinds whose (one) message carries the label of the victim's executor
var labelKinds = []string{"FAILED", "LOST", "KILLED", "TERROR", "FINISHED", "INTERNAL"}

func isLabelKind(k string) bool {
	for _, x := range labelKinds {
		if x == k {
			return true
		}
	}
	return false
}

// parseLabelField: `(label L)`; ok = the node has that shape
func parseLabelField(n *sx.Node) (string, bool, error) {
	if !n.IsList || n.Len() != 2 || n.At(0).IsList || n.At(0).Str() != "label" {
		return "", false, nil
	}
	l := n.At(1).Str()
	for _, v := range labelValues {
		if v == l {
			return l, true, nil
		}
	}
	return "", true, fmt.Errorf("scenario: bad label %q", l)
}

func labelValid(s *scenario) bool {
	if s.label == "" {
		return true
	}
	if !isLabelKind(s.kind) || s.instant == "raceself" {
		return false
	}
	if s.label == "other" {
		for _, g := range s.groups {
			if g.own == "env" {
				return true
			}
		}
		return false
	}
	return true
}

func labelTags(s *scenario) []string {
	if s.label == "" {
		return nil
	}
	return []string{"class=foreign-label", "label-" + s.label}
}

// relabelVictim: right before the injection the victim's executor is made to believe what the scenario says
func relabelVictim(w *sim.World, s *scenario, taskID string, grt []*groupRT) error {
	var id string
	switch s.label {
	case "":
		return nil
	case "stale":
		id = uid.New().String()
	case "none":
		id = ""
	case "other":
		for gi, g := range s.groups {
			if g.own == "env" && id == "" {
				id = grt[gi].envID
			}
		}
		if id == "" {
			return &sim.InfraError{What: "label other: no live bystander environment"}
		}
	}
	if err := w.Master.RelabelTask(taskID, id); err != nil {
		return &sim.InfraError{What: "relabel", Err: err}
	}
	return nil
}

// labelCases: the quick stratum of the class (also part of thorough), appended after the older strata
func labelCases(r *rng.R, ls []layout, add func(*scenario)) {
	with := func(s *scenario, label string, gs ...group) *scenario {
		s.label, s.groups = label, gs
		return s
	}
	small := func(wantCrit bool) layout {
		for {
			l := rng.Pick(r, ls)
			if len(l.tasks) <= 2 && l.tasks[l.victim].crit == wantCrit {
				return l
			}
		}
	}
	two := func(wantCrit bool) layout {
		for {
			l := rng.Pick(r, ls)
			if len(l.tasks) == 2 && l.tasks[l.victim].crit == wantCrit {
				return l
			}
		}
	}
	lives := []string{"CONFIGURED", "RUNNING"}
	plain := []string{"stale", "none"}
	// the smallest worlds, always: one critical task whose messages name no environment
	one := layout{[]taskSpec{{true, 1}}, 0}
	for _, live := range lives {
		for _, lab := range plain {
			add(with(mk(live, one, "INTERNAL", "idle"), lab))
		}
		add(with(mk(live, one, "FAILED", "idle"), rng.Pick(r, plain)))
	}
	// every kind that carries the label x live state x {stale, none}: critical victim on a small random layout
	for _, live := range lives {
		for _, k := range labelKinds {
			for _, lab := range plain {
				add(with(mk(live, small(true), k, "idle"), lab))
			}
		}
	}
	// the device event while a transition is in flight / back to back with the victim's own reply
	for _, live := range lives {
		for _, inst := range []string{"race", "racelate", "burst"} {
			add(with(mk(live, two(true), "INTERNAL", inst), rng.Pick(r, plain)))
		}
	}
	// a non-critical victim: nothing may happen, whatever the label
	for _, live := range lives {
		add(with(mk(live, two(false), "INTERNAL", "idle"), rng.Pick(r, plain)))
		add(with(mk(live, two(false), rng.Pick(r, labelKinds), "idle"), rng.Pick(r, plain)))
	}
	// the label names ANOTHER live environment (older / younger than the victim's), with a task on the victim's agent
	for _, live := range lives {
		for _, pos := range []string{"before", "after"} {
			l := small(true)
			add(with(mk(live, l, "INTERNAL", "idle"), "other", randGroup(r, pos, "env", l.tasks[l.victim].host)))
		}
		l := small(true)
		add(with(mk(live, l, rng.Pick(r, labelKinds[:5]), "idle"), "other", randGroup(r, rng.Pick(r, []string{"before", "after"}), "env", l.tasks[l.victim].host)))
	}
	// the task was launched for an environment that is gone and whose OTHER tasks are still in the roster (kept)
	for _, live := range lives {
		l := small(true)
		add(with(mk(live, l, "INTERNAL", "idle"), "stale", randGroup(r, "before", "loose", l.tasks[l.victim].host)))
	}
}

func randomLabelCase(r *rng.R, ls []layout) *scenario {
	l := rng.Pick(r, ls)
	k := rng.Pick(r, labelKinds)
	if r.P(1, 2) {
		k = "INTERNAL"
	}
	s := mk(rng.Pick(r, []string{"CONFIGURED", "RUNNING"}), l, k, rng.Pick(r, []string{"idle", "idle", "race", "racelate", "burst"}))
	s.label = rng.Pick(r, []string{"stale", "none"})
	if r.P(1, 4) {
		sh := rng.Pick(r, groupShapes)
		s.groups = []group{randGroup(r, sh[0], sh[1], l.tasks[l.victim].host)}
		if sh[1] == "env" && r.P(1, 2) {
			s.label = "other"
		}
	}
	return s
}

// shrink candidates that concern the label: other → stale → (none stays: it is a different message)
func shrinkLabel(s *scenario) []*scenario {
	var out []*scenario
	if s.label == "other" {
		c := *s
		c.label = "stale"
		out = append(out, &c)
	}
	return out
}
