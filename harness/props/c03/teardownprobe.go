package c03

// Development aid (not part of the property run): VERIF_CHILD=c03teardown vh N
// N create/destroy cycles of a 3-critical-task environment in ONE core, looking for the
// TasksReleasedEvent branch of environment.Manager's event loop that sends on a nil channel.

import (
	"context"
	"fmt"
	"os"
	"os/exec"
	"strings"
	"time"

	pb "github.com/AliceO2Group/Control/core/protos"
	mesos "github.com/mesos/mesos-go/api/v1/lib"

	"verifharness/fw"
	"verifharness/sim"
)

func init() { fw.RegisterChild("c03teardown", teardownMain) }

func teardownMain(args []string) {
	n := 100
	if len(args) > 0 {
		fmt.Sscanf(args[0], "%d", &n)
	}
	w, err := sim.Start(sim.Config{Name: "c03td"})
	if err != nil {
		fmt.Println("start:", err)
		return
	}
	defer w.Stop()
	w.AddAgent(sim.AgentSpec{Host: "host1", Detector: "TST"})
	ts := []taskSpec{{true, 1}, {true, 1}, {true, 1}}
	for i := range ts {
		w.SetTaskClass(fmt.Sprintf("t%d", i), taskClassYAML(fmt.Sprintf("t%d", i)))
	}
	w.SetWorkflow("c03wf", workflowYAML(ts))
	hangs, fails := 0, 0
	t0 := time.Now()
	for i := 0; i < n; i++ {
		c, cancel := context.WithTimeout(context.Background(), 40*time.Second)
		r, err := w.Client().NewEnvironment(c, &pb.NewEnvironmentRequest{WorkflowTemplate: "c03wf", Vars: map[string]string{}})
		cancel()
		if err != nil {
			fails++
			fmt.Printf("cycle %d: NewEnvironment: %.200s\n", i, err.Error())
			if strings.Contains(err.Error(), "DeadlineExceeded") || strings.Contains(err.Error(), "deadline") {
				// the core hangs: dump its goroutines into its log and keep the log
				exec.Command("pkill", "-QUIT", "-f", "coreWorkingDir="+w.Dir()).Run()
				time.Sleep(2 * time.Second)
				if b, e := os.ReadFile(w.CoreLog()); e == nil {
					os.WriteFile("/verif/.work/C03/hang-core.log", b, 0o644)
				}
				fmt.Println("core log with goroutine dump saved to /verif/.work/C03/hang-core.log")
				break
			}
			continue
		}
		id := r.GetEnvironment().GetId()
		if i%2 == 1 {
			// a critical task dies on its own first: the environment goes to ERROR, nothing is released
			for _, t := range w.Tasks() {
				if !t.Terminal && t.EnvID == id && t.Class == "t0" {
					w.Master.InjectStatus(t.TaskID, mesos.TASK_FAILED, "dies")
				}
			}
			w.WaitEnvState(id, 20*time.Second, "ERROR")
		}
		c, cancel = context.WithTimeout(context.Background(), 20*time.Second)
		_, err = w.Client().DestroyEnvironment(c, &pb.DestroyEnvironmentRequest{Id: id, Force: true, AllowInRunningState: true})
		cancel()
		if err != nil {
			fmt.Printf("cycle %d: DestroyEnvironment: %v\n", i, err)
			hangs++
			if hangs > 2 {
				break
			}
		}
	}
	fmt.Printf("%d cycles in %.1fs: %d create failures, %d destroy errors/hangs\n", n, time.Since(t0).Seconds(), fails, hangs)
}
