package c03

// go/ast shape of the walk in task.Manager.HandleExecutorFailed / HandleAgentFailed (model: Failure.Walk.perTask).
//
// "Every entry of the snapshot gets its body, whatever the other entries are" holds for a function of the shape
//
//	V := m.roster.filtered(…)
//	… for _, t := range V { …per-entry body… } …            (possibly inside `go func() { … }()`)
//
// iff
//   (a) the updateTaskState call sits inside a `range V` loop L over the snapshot variable V (the variable assigned
//       from the `filtered` call), and the way from the function body to L leads through blocks, go/defer/expression
//       statements, calls and function literals only (L itself is not under a condition);
//   (b) no statement of L's body — function literals not entered: a `return` there ends one entry's goroutine only —
//       can take control out of the iteration: no return, goto, continue, labelled break, break of L;
//   (c) inside L the way to the call leads through blocks, go/defer/expression statements, calls and function
//       literals only (the call is not under a condition of its own), and in every block on that way no statement
//       before the one that leads on can leave (return &c.).
//
// The same for the `UpdateStatus(INACTIVE)` of the parent role, except that (c) allows ONE enclosing `if` whose
// condition tests the parent against nil (`taskParent != nil`, with or without an init statement) and has no else.
// Conservative: a shape that is not recognised yields false (and the theorem C03_lost_walk_is_code fails: look at it).

import (
	"go/ast"
	"go/token"
)

// pathTo: the chain of nodes from root (exclusive) down to target (inclusive); nil if target is not below root
func pathTo(root, target ast.Node) []ast.Node {
	var stack, found []ast.Node
	ast.Inspect(root, func(n ast.Node) bool {
		if found != nil {
			return false
		}
		if n == nil {
			stack = stack[:len(stack)-1]
			return false
		}
		stack = append(stack, n)
		if n == target {
			found = append([]ast.Node{}, stack[1:]...)
			return false
		}
		return true
	})
	return found
}

func snapshotVar(fd *ast.FuncDecl) string {
	name := ""
	ast.Inspect(fd, func(n ast.Node) bool {
		as, ok := n.(*ast.AssignStmt)
		if !ok || len(as.Lhs) != 1 || len(as.Rhs) != 1 {
			return true
		}
		if c, ok := as.Rhs[0].(*ast.CallExpr); ok && selName(c.Fun) == "filtered" {
			if id, ok := as.Lhs[0].(*ast.Ident); ok && name == "" {
				name = id.Name
			}
		}
		return true
	})
	return name
}

func nilTest(e ast.Expr) bool {
	b, ok := e.(*ast.BinaryExpr)
	if !ok || b.Op != token.NEQ {
		return false
	}
	isNil := func(x ast.Expr) bool { id, ok := x.(*ast.Ident); return ok && id.Name == "nil" }
	return isNil(b.X) != isNil(b.Y)
}

// unconditional: the chain leads through blocks, go/defer/expression statements, calls, function literals (and
// parenthesised / selector expressions) only; in every block on the way no earlier statement can leave.
// allowNilIf: one `if x != nil { … }` without else may be on the way (taken through its body).
func unconditional(chain []ast.Node, allowNilIf bool) bool {
	ifs := 0
	for i, n := range chain {
		switch x := n.(type) {
		case *ast.BlockStmt:
			if i+1 < len(chain) {
				for _, st := range x.List {
					if ast.Node(st) == chain[i+1] {
						break
					}
					if leaves(st) {
						return false
					}
				}
			}
		case *ast.GoStmt, *ast.DeferStmt, *ast.ExprStmt, *ast.CallExpr, *ast.FuncLit, *ast.ParenExpr, *ast.SelectorExpr, *ast.RangeStmt:
		case *ast.IfStmt:
			if !allowNilIf || x.Else != nil || !nilTest(x.Cond) || i+1 >= len(chain) || chain[i+1] != ast.Node(x.Body) {
				return false
			}
			ifs++
			if ifs > 1 {
				return false
			}
		default:
			return false
		}
	}
	return true
}

// walkPerTask: see the head of the file
func walkPerTask(fd *ast.FuncDecl) bool {
	v := snapshotVar(fd)
	if v == "" || fd.Body == nil {
		return false
	}
	check := func(call *ast.CallExpr, allowNilIf bool) bool {
		chain := pathTo(fd.Body, call)
		if chain == nil {
			return false
		}
		li := -1
		for i, n := range chain {
			if r, ok := n.(*ast.RangeStmt); ok {
				if id, ok := r.X.(*ast.Ident); ok && id.Name == v {
					li = i
				}
			}
		}
		if li < 0 {
			return false
		}
		loop := chain[li].(*ast.RangeStmt)
		// (a)
		if !unconditional(chain[:li], false) {
			return false
		}
		// (b)
		for _, st := range loop.Body.List {
			if leaves(st) {
				return false
			}
		}
		// (c)
		return unconditional(chain[li+1:], allowNilIf)
	}
	states := callsNamed(fd, "updateTaskState")
	if len(states) != 1 || !check(states[0], false) {
		return false
	}
	n := 0
	for _, c := range callsNamed(fd, "UpdateStatus") {
		if len(c.Args) == 1 && selName(c.Args[0]) == "INACTIVE" {
			n++
			if !check(c, true) {
				return false
			}
		}
	}
	return n == 1
}
