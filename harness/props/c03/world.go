package c03

// One C03 world: the real core (child process) against the simulators of
// verifharness/sim, one environment brought to the live state, one injected
// failure, then the settled picture the core reports.

import (
	"context"
	"encoding/json"
	"fmt"
	"os"
	"sort"
	"strings"
	"sync"
	"time"

	pb "github.com/AliceO2Group/Control/core/protos"
	epb "github.com/AliceO2Group/Control/executor/protos"
	mesos "github.com/mesos/mesos-go/api/v1/lib"

	"verifharness/sim"
	"verifharness/sx"
)

// ---- input ---------------------------------------------------------------------------------

type taskSpec struct {
	crit bool
	host int // 1 or 2
}

// scenario = (live ((crit host)…) victim kind instant)
type scenario struct {
	live   string // CONFIGURED | RUNNING
	tasks  []taskSpec
	victim int
	// FAILED LOST KILLED TERROR FINISHED EXEC EXEC0 AGENT AGENT0 INTERNAL — delivered while the core is connected;
	// RFAILED RLOST RKILLED RTERROR RFINISHED RAGENT — the task(s) die while the core is cut off from the master
	// (instant drop / dropabrupt): the only thing the core ever hears is the master's answer to the implicit
	// RECONCILE of the re-subscription: the terminal state with REASON_RECONCILIATION (RAGENT: TASK_LOST for every
	// task of the victim's agent)
	kind string
	// idle | race, racelate (a transition of the environment is in flight, parked at ANOTHER task's reply, which is
	// released right after the injection / 900 ms later) | raceself (parked at the victim's own reply, which never
	// comes: the core's 90 s response timeout) | burst (all replies of the transition and the failure arrive back to back)
	// | drop, dropabrupt (R… kinds only: environment idle, the master ends the subscription cleanly / resets the connection)
	instant string
	// optional sixth field: bystander groups — roster tasks on the same agents that belong to no environment (kept by
	// an environment destroyed with keepTasks) or to a second live environment, created before / after the main
	// environment (= before / after its tasks in the roster); see bystanders.go
	groups []group
	// optional last field `(label L)`: what the `environmentId` label of the messages about the victim names — stale (an
	// id no environment has), none (no usable label), other (the first live bystander environment); "" = the victim's own
	// environment (field absent); see label.go
	label string
}

var kinds = []string{"FAILED", "LOST", "KILLED", "TERROR", "FINISHED", "EXEC", "EXEC0", "AGENT", "AGENT0", "INTERNAL"}

// terminal states learnt ONLY through the reconciliation answer after a re-subscription
var reconKinds = []string{"RFAILED", "RLOST", "RKILLED", "RTERROR", "RFINISHED", "RAGENT"}
var dropInstants = []string{"drop", "dropabrupt"}
var instants = []string{"idle", "race", "racelate", "burst", "raceself", "drop", "dropabrupt"}

func isReconKind(k string) bool {
	for _, r := range reconKinds {
		if r == k {
			return true
		}
	}
	return false
}

func isDropInstant(i string) bool { return i == "drop" || i == "dropabrupt" }

func parseScenario(in string) (*scenario, error) {
	n, err := sx.Parse(in)
	if err != nil {
		return nil, err
	}
	if !n.IsList || n.Len() < 5 || n.Len() > 7 {
		return nil, fmt.Errorf("scenario: want 5 to 7 fields")
	}
	s := &scenario{live: n.At(0).Str(), victim: n.At(2).Int(), kind: n.At(3).Str(), instant: n.At(4).Str()}
	nf := n.Len()
	// the optional last field (label L)
	if nf > 5 {
		l, is, e := parseLabelField(n.At(nf - 1))
		if e != nil {
			return nil, e
		}
		if is {
			s.label = l
			nf--
		}
	}
	if nf == 7 {
		return nil, fmt.Errorf("scenario: the seventh field must be (label L)")
	}
	if nf == 6 {
		if s.groups, err = parseGroups(n.At(5)); err != nil {
			return nil, err
		}
		if len(s.groups) == 0 {
			return nil, fmt.Errorf("scenario: an empty group list is written as no sixth field")
		}
	}
	for _, t := range n.At(1).List {
		if !t.IsList || t.Len() != 2 {
			return nil, fmt.Errorf("scenario: bad task")
		}
		s.tasks = append(s.tasks, taskSpec{crit: t.At(0).Bool(), host: t.At(1).Int()})
	}
	if s.live != "CONFIGURED" && s.live != "RUNNING" {
		return nil, fmt.Errorf("scenario: bad live state %q", s.live)
	}
	if len(s.tasks) < 1 || len(s.tasks) > 4 || s.victim < 0 || s.victim >= len(s.tasks) {
		return nil, fmt.Errorf("scenario: bad tasks/victim")
	}
	for _, t := range s.tasks {
		if t.host < 1 || t.host > 2 {
			return nil, fmt.Errorf("scenario: bad host")
		}
	}
	ok := false
	for _, k := range kinds {
		ok = ok || k == s.kind
	}
	ok = ok || isReconKind(s.kind)
	if !ok {
		return nil, fmt.Errorf("scenario: bad kind %q", s.kind)
	}
	if isReconKind(s.kind) != isDropInstant(s.instant) {
		return nil, fmt.Errorf("scenario: kind %q does not go with instant %q", s.kind, s.instant)
	}
	if !labelValid(s) {
		return nil, fmt.Errorf("scenario: label %q does not go with kind %q / the groups", s.label, s.kind)
	}
	switch s.instant {
	case "idle", "burst", "raceself", "drop", "dropabrupt":
	case "race", "racelate":
		if len(s.tasks) < 2 {
			return nil, fmt.Errorf("scenario: race needs a second task")
		}
	default:
		return nil, fmt.Errorf("scenario: bad instant %q", s.instant)
	}
	return s, nil
}

func (s *scenario) String() string {
	ts := sx.L()
	for _, t := range s.tasks {
		ts.Add(sx.L(sx.B(t.crit), sx.I(t.host)))
	}
	l := sx.L(sx.A(s.live), ts, sx.I(s.victim), sx.A(s.kind), sx.A(s.instant))
	if len(s.groups) > 0 {
		l.Add(groupsSx(s.groups))
	}
	if s.label != "" {
		l.Add(sx.L(sx.A("label"), sx.A(s.label)))
	}
	return l.String()
}

// ---- the world -----------------------------------------------------------------------------

const (
	ceiling = 150 * time.Second // harness deadline of any single infrastructure wait: never a verdict
	// settle window: how long AFTER THE CORE HAS DEMONSTRABLY HANDLED THE INJECTED EVENT (every victim's role reports a
	// status other than ACTIVE) — and after the racing transition returned — the environment is given to leave its
	// healthy state. The core's own delay is a 500 ms timer plus a transition without task commands (GO_ERROR) plus
	// one STOP round trip (simulated executors answer at once). The window grows with the slowest GetEnvironment round
	// trip seen while waiting (a starved core answers slowly: 10 x that latency is added).
	settleWindow = 4 * time.Second
	// how long the core is given to show ANY reaction to an event that was delivered on its event stream. Not a
	// verdict about C03's timing: a core that has not even marked the task INACTIVE after this is observed as it is.
	handledCeiling = 30 * time.Second
)

func taskClassYAML(name string) string {
	return fmt.Sprintf(`name: %s
control:
  mode: direct
wants:
  cpu: 0.1
  memory: 64
command:
  shell: true
  value: "sleep 100000"
`, name)
}

func workflowYAML(ts []taskSpec) string {
	var b strings.Builder
	b.WriteString("name: c03wf\ndefaults:\n  deploy_timeout: 15s\nroles:\n")
	for i, t := range ts {
		fmt.Fprintf(&b, "  - name: \"r%d\"\n    constraints:\n      - attribute: machine_id\n        value: \"host%d\"\n    task:\n      load: t%d\n      critical: %v\n", i, t.host, i, t.crit)
	}
	return b.String()
}

type observation struct {
	pre string
	// tasks whose role did NOT yet report the state their last command reply announced when the world was looked at
	// immediately before the injection: at instant idle the live state (the `go updateTaskState` of the reply that ended
	// the last transition had not run yet although the API call had returned), at race / racelate / raceself the
	// destination of the transition in flight (tasks that are not held; their reply was on the stream already) — direct
	// evidence of the schedule the model's stale-update variants assume
	pending   []int
	victims   []int
	env       string
	root      string
	rootSu    string
	roles     [][2]string
	run       [][2]string
	soeor     bool
	eoeor     bool
	stops     []int
	kills     []int
	trans     string
	tErrorMs  int64 // -1: ERROR not reached within the window
	log       string
	by        []groupObs // bystander groups (only with a sixth input field)
	again     string     // follow-up probe (again.go): the environment's state after one more failure; "" = not probed
	againTold bool       // …and whether the victim's role had published ERROR after the main injection
}

func (o *observation) sx() string {
	iv := func(xs []int) *sx.Node {
		l := sx.L()
		for _, x := range xs {
			l.Add(sx.I(x))
		}
		return l
	}
	roles := sx.L()
	for _, r := range o.roles {
		roles.Add(sx.L(sx.A(r[0]), sx.A(r[1])))
	}
	run := sx.L()
	for _, r := range o.run {
		run.Add(sx.L(sx.A(r[0]), sx.A(r[1])))
	}
	l := sx.L(sx.L(sx.A("pre"), sx.A(o.pre)))
	if len(o.pending) > 0 {
		l.Add(sx.L(sx.A("pending"), iv(o.pending)))
	}
	for _, f := range []*sx.Node{
		sx.L(sx.A("victims"), iv(o.victims)),
		sx.L(sx.A("env"), sx.A(o.env)),
		sx.L(sx.A("root"), sx.A(o.root), sx.A(o.rootSu)),
		sx.L(sx.A("roles"), roles),
		sx.L(sx.A("run"), run),
		sx.L(sx.A("stamps"), sx.B(o.soeor), sx.B(o.eoeor)),
		sx.L(sx.A("stops"), iv(o.stops)),
		sx.L(sx.A("trans"), sx.A(o.trans)),
	} {
		l.Add(f)
	}
	if len(o.by) > 0 {
		l.Add(sx.L(sx.A("by"), groupObsSx(o.by)))
	}
	if o.again != "" {
		l.Add(sx.L(sx.A("again"), sx.A(o.again), sx.B(o.againTold)))
	}
	return l.String()
}

func gctx() (context.Context, context.CancelFunc) {
	return context.WithTimeout(context.Background(), ceiling)
}

func control(w *sim.World, id string, op pb.ControlEnvironmentRequest_Optype) (string, error) {
	c, cancel := gctx()
	defer cancel()
	r, err := w.Client().ControlEnvironment(c, &pb.ControlEnvironmentRequest{Id: id, Type: op})
	if err != nil {
		return "", err
	}
	return r.GetState(), nil
}

type envView struct {
	state    string
	root     string
	rootSu   string
	roles    map[string][2]string // role name -> state,status
	userVars map[string]string
	gone     bool
}

func getEnv(w *sim.World, id string) (*envView, error) {
	c, cancel := context.WithTimeout(context.Background(), 30*time.Second)
	defer cancel()
	cl := w.Client()
	if cl == nil {
		return nil, &sim.InfraError{What: "no core"}
	}
	r, err := cl.GetEnvironment(c, &pb.GetEnvironmentRequest{Id: id, ShowWorkflowTree: true})
	if err != nil {
		if strings.Contains(err.Error(), "no environment with id") || strings.Contains(err.Error(), "not found") {
			return &envView{gone: true}, nil
		}
		return nil, &sim.InfraError{What: "GetEnvironment", Err: err}
	}
	v := &envView{state: r.GetEnvironment().GetState(), roles: map[string][2]string{}, userVars: r.GetEnvironment().GetUserVars()}
	if wf := r.GetWorkflow(); wf != nil {
		v.root, v.rootSu = wf.GetState(), wf.GetStatus()
		for _, c := range wf.GetRoles() {
			v.roles[c.GetName()] = [2]string{c.GetState(), c.GetStatus()}
		}
	}
	return v, nil
}

var mesosOf = map[string]mesos.TaskState{
	"FAILED": mesos.TASK_FAILED, "LOST": mesos.TASK_LOST, "KILLED": mesos.TASK_KILLED, "TERROR": mesos.TASK_ERROR,
	"FINISHED": mesos.TASK_FINISHED,
	"RFAILED":  mesos.TASK_FAILED, "RLOST": mesos.TASK_LOST, "RKILLED": mesos.TASK_KILLED, "RTERROR": mesos.TASK_ERROR,
	"RFINISHED": mesos.TASK_FINISHED, "RAGENT": mesos.TASK_LOST,
}

// timing statistics of one vh process (reported in the evidence, never a verdict)
var stat struct {
	sync.Mutex
	n, reached     int
	maxMs, sumMs   int64
	maxCase        string
	droppedSeen    int
	inconclusiveNo int
}

// dieWhileCutOff: the given tasks die while the core is cut off from the master. What the master will answer about
// them is fixed, the subscription ends (cleanly, or with a connection reset); the master's one-shot status update has
// nobody to go to and is never repeated (nothing is put on the list of unacknowledged updates: those WOULD be sent
// again, with their original reason) — and when the core has re-subscribed, the master's answer to its implicit
// RECONCILE reports them in the terminal state `st` with REASON_RECONCILIATION, SOURCE_MASTER, no UUID. Returns when
// every answer is on the new stream. Every wait has the harness ceiling; a mesos-go client that lost the disconnect
// (notes/C18.md) is recognised from the core's log: both are infrastructure trouble, never a verdict.
func dieWhileCutOff(w *sim.World, dead []sim.TaskRecord, st mesos.TaskState, abrupt bool) error {
	lastSeq := func() int {
		tr := w.Trace()
		if len(tr) == 0 {
			return 0
		}
		return tr[len(tr)-1].Seq
	}
	// a subscription that ends while a call of the core is in flight can leave its mesos-go client deaf for ever:
	// drop only after the master has not seen a call for 150 ms
	if err := sim.Poll("no call in flight before the drop", ceiling, func() (bool, error) {
		tr := w.Trace()
		for j := len(tr) - 1; j >= 0; j-- {
			if tr[j].Dir == "call" {
				return time.Since(tr[j].When) > 150*time.Millisecond, nil
			}
		}
		return true, nil
	}); err != nil {
		return err
	}
	if !w.Master.Subscribed() {
		return &sim.InfraError{What: "the core is not subscribed before the drop"}
	}
	// What the master will say about the dying tasks when it is next asked is fixed first: it has no effect before a
	// RECONCILE call arrives, and the core makes that call only on SUBSCRIBED — i.e. after the drop. (Fixing it after
	// the drop would race with the re-subscription; for the core the two orders are indistinguishable.)
	for _, t := range dead {
		w.Master.SetReconcileAnswer(t.TaskID, &st)
	}
	n := lastSeq()
	logPath := w.CoreLog()
	w.DropStream(abrupt)
	want := map[string]bool{}
	for _, t := range dead {
		want[t.TaskID] = true
	}
	return sim.Poll("the core re-subscribes and the master answers its reconciliation", ceiling, func() (bool, error) {
		tr := w.Trace()
		subd := false
		got := map[string]bool{}
		for _, r := range tr {
			if r.Seq <= n {
				continue
			}
			if r.Dir == "event" && r.Type == "SUBSCRIBED" {
				subd = true
			}
			if subd && r.Dir == "event" && r.Type == "UPDATE" && r.Delivered && r.Reason == "REASON_RECONCILIATION" && r.State == st.String() &&
				len(r.TaskIDs) == 1 && want[r.TaskIDs[0]] {
				got[r.TaskIDs[0]] = true
			}
			if r.Dir == "event" && r.Type == "UPDATE" && len(r.TaskIDs) == 1 && want[r.TaskIDs[0]] && r.Reason != "REASON_RECONCILIATION" {
				return false, &sim.InfraError{What: "a directly delivered update about a task that was to die unheard: " + r.String()}
			}
		}
		if len(got) == len(want) {
			return true, nil
		}
		if b, e := os.ReadFile(logPath); e == nil && strings.Contains(string(b), "already subscribed, cannot re-issue a SUBSCRIBE call") {
			return false, &sim.InfraError{What: "the core's mesos-go client lost the disconnect (\"already subscribed, cannot re-issue a SUBSCRIBE call\"): it never re-subscribes"}
		}
		return false, nil
	})
}

func runScenario(s *scenario, verbose bool) (*observation, error) {
	w, err := sim.Start(sim.Config{Name: "c03", Verbose: verbose})
	if err != nil {
		return nil, err
	}
	defer w.Stop()
	hosts := map[int]bool{}
	for _, t := range s.tasks {
		hosts[t.host] = true
	}
	for _, g := range s.groups {
		for _, t := range g.tasks {
			hosts[t.host] = true
		}
	}
	for h := 1; h <= 2; h++ {
		if hosts[h] {
			w.AddAgent(sim.AgentSpec{Host: fmt.Sprintf("host%d", h), Detector: "TST"})
		}
	}
	for i := range s.tasks {
		n := fmt.Sprintf("t%d", i)
		if err = w.SetTaskClass(n, taskClassYAML(n)); err != nil {
			return nil, &sim.InfraError{What: "task class", Err: err}
		}
	}
	if err = w.SetWorkflow("c03wf", workflowYAML(s.tasks)); err != nil {
		return nil, &sim.InfraError{What: "workflow", Err: err}
	}
	for gi, g := range s.groups {
		for i := range g.tasks {
			if err = w.SetTaskClass(groupClass(gi, i), taskClassYAML(groupClass(gi, i))); err != nil {
				return nil, &sim.InfraError{What: "task class", Err: err}
			}
		}
		if err = w.SetWorkflow(groupWf(gi), groupWorkflowYAML(gi, g.tasks)); err != nil {
			return nil, &sim.InfraError{What: "workflow", Err: err}
		}
	}
	// bystander groups that precede the environment in the roster
	grt := make([]*groupRT, len(s.groups))
	for gi, g := range s.groups {
		if g.pos == "before" {
			if grt[gi], err = createGroup(w, gi, g); err != nil {
				return nil, err
			}
		}
	}
	c, cancel := gctx()
	r, err := w.Client().NewEnvironment(c, &pb.NewEnvironmentRequest{WorkflowTemplate: "c03wf", Vars: map[string]string{}})
	cancel()
	if err != nil {
		return nil, &sim.InfraError{What: "NewEnvironment", Err: err}
	}
	id := r.GetEnvironment().GetId()
	if st := r.GetEnvironment().GetState(); st != "CONFIGURED" {
		return nil, &sim.InfraError{What: "NewEnvironment left the environment in " + st}
	}
	if s.live == "RUNNING" {
		st, e := control(w, id, pb.ControlEnvironmentRequest_START_ACTIVITY)
		if e != nil || st != "RUNNING" {
			return nil, &sim.InfraError{What: "START_ACTIVITY -> " + st, Err: e}
		}
	}
	// the simulated tasks, by index
	recs := make([]sim.TaskRecord, len(s.tasks))
	idx := map[string]int{}
	for _, t := range w.Tasks() {
		var i int
		if _, e := fmt.Sscanf(t.Class, "t%d", &i); e == nil && i < len(recs) {
			recs[i] = t
			idx[t.TaskID] = i
		}
	}
	for i, t := range recs {
		if t.TaskID == "" {
			return nil, &sim.InfraError{What: fmt.Sprintf("task %d not launched", i)}
		}
	}
	// bystander groups that follow the environment in the roster
	for gi, g := range s.groups {
		if g.pos == "after" {
			if grt[gi], err = createGroup(w, gi, g); err != nil {
				return nil, err
			}
		}
	}
	for gi, g := range s.groups {
		if g.own == "loose" {
			if err = releaseGroup(w, grt[gi]); err != nil {
				return nil, err
			}
		}
	}
	if len(s.groups) > 0 {
		if err = rosterOrderOK(w, s, recs, grt); err != nil {
			return nil, err
		}
	}
	o := &observation{trans: "-", tErrorMs: -1}
	v0, err := getEnv(w, id)
	if err != nil {
		return nil, err
	}
	o.pre = v0.state
	// Is a state update of the transition that has just ended (the creation's CONFIGURE, START_ACTIVITY) still on its
	// way? The API call returns when the replies have been COUNTED; each reply's `go updateTaskState` is an independent
	// goroutine. Instant idle = "right after the last API call returned": the injection follows at once and what was
	// seen is part of the observation. Every other instant starts from a world in which nothing is on its way: wait.
	pendingOf := func(v *envView) []int {
		var p []int
		for i := range s.tasks {
			if v.roles[fmt.Sprintf("r%d", i)][0] != s.live {
				p = append(p, i)
			}
		}
		return p
	}
	o.pending = pendingOf(v0)
	if s.instant != "idle" && len(o.pending) > 0 {
		if err = sim.Poll("state updates of the last transition applied", ceiling, func() (bool, error) {
			v, e := getEnv(w, id)
			if e != nil {
				return false, e
			}
			return !v.gone && len(pendingOf(v)) == 0, nil
		}); err != nil {
			return nil, err
		}
		o.pending = nil
	}

	// a transition in flight, parked at a task's reply
	type tres struct {
		st  string
		err error
	}
	var transCh chan tres
	racing := s.instant != "idle" && !isDropInstant(s.instant)
	if racing {
		holder := -1
		if s.instant == "raceself" {
			holder = s.victim
		} else if s.instant == "race" || s.instant == "racelate" {
			// some other task, preferring one on another host (so that an executor/agent loss leaves it alive)
			for i, t := range s.tasks {
				if i != s.victim && t.host != s.tasks[s.victim].host {
					holder = i
				}
			}
			if holder < 0 {
				for i := range s.tasks {
					if i != s.victim {
						holder = i
					}
				}
			}
			if holder < 0 {
				return nil, fmt.Errorf("scenario: race needs a second task")
			}
		}
		op, ev := pb.ControlEnvironmentRequest_START_ACTIVITY, "START"
		if s.live == "RUNNING" {
			op, ev = pb.ControlEnvironmentRequest_STOP_ACTIVITY, "STOP"
		}
		held := 1
		if s.instant == "burst" {
			held = len(s.tasks)
			for _, t := range recs {
				w.SetOutcome(sim.Selector{TaskID: t.TaskID}, ev, sim.Outcome{Kind: sim.OK, Gate: "g", Times: 1})
			}
		} else {
			w.SetOutcome(sim.Selector{TaskID: recs[holder].TaskID}, ev, sim.Outcome{Kind: sim.OK, Gate: "g", Times: 1})
		}
		transCh = make(chan tres, 1)
		go func() {
			st, e := control(w, id, op)
			transCh <- tres{st, e}
		}()
		if err = sim.Poll("transition parked at the gate", ceiling, func() (bool, error) { return w.Master.Held("g") == held, nil }); err != nil {
			return nil, err
		}
		// every other task has answered (their replies were enqueued before the gate was reached or are on their way): wait
		// until the master has seen all the commands of this transition
		// every command of the transition has been received AND every task that is not held has sent its reply
		// (a reply is enqueued after the 202 of the call: injecting before that would silence the task for good)
		if err = w.Master.Wait("all commands of the transition delivered and answered", ceiling, func(v *sim.View) bool {
			n, a := 0, 0
			for _, r := range v.Trace {
				if r.Dir == "call" && r.Type == "MESSAGE" && r.Cmd != nil && r.Cmd.Event == ev {
					n++
				}
				if r.Dir == "event" && r.Type == "MESSAGE" && r.MsgType == "MesosCommandResponse" && strings.Contains(r.MsgDetail, "MesosCommand_Transition "+ev+" ") {
					a++
				}
			}
			return n >= len(s.tasks) && a >= len(s.tasks)-held
		}); err != nil {
			return nil, err
		}
		// The replies of the tasks that are not held have been SENT to the core; whether each reply's `go updateTaskState`
		// has already run is the core's schedule. Look right before the injection: a task that is not held and whose role
		// does not yet report the transition's destination has its update still on its way — recorded in the observation
		// (same licence as at instant idle: only then may the model apply that update AFTER the failure).
		if s.instant == "race" || s.instant == "racelate" || s.instant == "raceself" {
			dst := "RUNNING"
			if s.live == "RUNNING" {
				dst = "CONFIGURED"
			}
			vp, e := getEnv(w, id)
			if e != nil {
				return nil, e
			}
			for i := range s.tasks {
				if i != holder && vp.roles[fmt.Sprintf("r%d", i)][0] != dst {
					o.pending = append(o.pending, i)
				}
			}
		}
	}

	// what the victim's executor believes the task's environment to be (label.go): from now on its messages say so
	if err = relabelVictim(w, s, recs[s.victim].TaskID, grt); err != nil {
		return nil, err
	}
	mark := len(w.Trace())
	evMark := len(w.CoreEvents())
	if s.instant == "burst" {
		w.Release("g") // every reply is enqueued before this returns; the failure follows immediately
	}
	t0 := time.Now()
	vic := recs[s.victim]
	switch {
	case isReconKind(s.kind):
		var dead []sim.TaskRecord
		for _, t := range recs {
			if t.TaskID == vic.TaskID || (s.kind == "RAGENT" && t.AgentID == vic.AgentID) {
				dead = append(dead, t)
			}
		}
		for _, g := range grt {
			for _, t := range g.recs {
				if s.kind == "RAGENT" && t.AgentID == vic.AgentID {
					dead = append(dead, t)
				}
			}
		}
		if err = dieWhileCutOff(w, dead, mesosOf[s.kind], s.instant == "dropabrupt"); err != nil {
			return nil, err
		}
		t0 = time.Now() // the core has been told (the answers are on the new stream) just now
	}
	switch s.kind {
	case "RFAILED", "RLOST", "RKILLED", "RTERROR", "RFINISHED", "RAGENT":
	case "EXEC", "EXEC0":
		w.Master.InjectExecutorFailure(vic.AgentID, vic.ExecutorID, 9, s.kind == "EXEC")
	case "AGENT", "AGENT0":
		w.Master.InjectAgentFailure(vic.AgentID, s.kind == "AGENT")
	case "INTERNAL":
		err = w.Master.InjectDeviceEvent(vic.TaskID, epb.DeviceEventType_TASK_INTERNAL_ERROR, 0)
	default:
		err = w.Master.InjectStatus(vic.TaskID, mesosOf[s.kind], "simulated: "+s.kind)
	}
	if err != nil {
		return nil, &sim.InfraError{What: "inject", Err: err}
	}
	// who died
	switch s.kind {
	case "EXEC", "EXEC0":
		for i, t := range recs {
			if t.AgentID == vic.AgentID && t.ExecutorID == vic.ExecutorID {
				o.victims = append(o.victims, i)
			}
		}
	case "AGENT", "AGENT0", "RAGENT":
		for i, t := range recs {
			if t.AgentID == vic.AgentID {
				o.victims = append(o.victims, i)
			}
		}
	default:
		o.victims = []int{s.victim}
	}
	// every task that died, bystanders included (the roster is one table: the walk over it does not stop at the
	// environment's border). The model assumes one executor per agent (the core re-uses the executor an offer lists).
	deadAll := map[string]bool{}
	for _, i := range o.victims {
		deadAll[recs[i].TaskID] = true
	}
	for _, g := range grt {
		for _, t := range g.recs {
			if (s.kind == "EXEC" || s.kind == "EXEC0") && t.AgentID == vic.AgentID && t.ExecutorID != vic.ExecutorID {
				return nil, &sim.InfraError{What: "two executors on one agent: the model's assumption (the core re-uses the agent's executor) does not hold in this world"}
			}
			switch s.kind {
			case "EXEC", "EXEC0", "AGENT", "AGENT0", "RAGENT":
				if t.AgentID == vic.AgentID {
					deadAll[t.TaskID] = true
				}
			}
		}
	}

	if racing {
		if s.instant == "racelate" {
			time.Sleep(900 * time.Millisecond) // the watcher's 500 ms timer has fired: its GO_ERROR queues behind the transition
		}
		if s.instant == "race" || s.instant == "racelate" {
			w.Release("g")
		}
		select {
		case tr := <-transCh:
			// (the state in the reply is read after the mutex is released: it may already be the watcher's ERROR)
			if tr.err != nil {
				o.trans = "err"
			} else {
				o.trans = "ok"
			}
		case <-time.After(ceiling):
			return nil, &sim.InfraError{What: "racing transition did not return"}
		}
	}

	// an event that never got onto a stream was not injected at all
	for _, r := range w.Trace()[mark:] {
		if r.Dir == "event" && !r.Delivered && !isReconKind(s.kind) {
			return nil, &sim.InfraError{What: "injected event was not delivered (no event stream): " + r.String()}
		}
	}
	// settle. Phase 1: until the core has demonstrably handled the event — every victim's role reports a status other
	// than ACTIVE (all kinds but TASK_INTERNAL_ERROR, which never touches the status and may legitimately change
	// nothing at all) — or ERROR is reported. Phase 2: from then (and from the return of the racing transition) the
	// settle window. No verdict is taken from a moment at which the core may simply not have got round to the event.
	tSettle := time.Now()
	handled := func(v *envView) bool {
		if s.kind == "INTERNAL" {
			return true
		}
		for _, i := range o.victims {
			if v.roles[fmt.Sprintf("r%d", i)][1] == "ACTIVE" {
				return false
			}
		}
		return true
	}
	var tHandled time.Time
	var slowest time.Duration
	var last *envView
	for {
		t1 := time.Now()
		last, err = getEnv(w, id)
		if d := time.Since(t1); d > slowest {
			slowest = d
		}
		if err != nil {
			return nil, err
		}
		if last.gone {
			break
		}
		if last.state == "ERROR" && o.tErrorMs < 0 {
			o.tErrorMs = time.Since(t0).Milliseconds()
			break
		}
		if tHandled.IsZero() && handled(last) {
			tHandled = time.Now()
		}
		if tHandled.IsZero() {
			if time.Since(tSettle) > handledCeiling {
				break // delivered, and no reaction whatsoever: observed as it is
			}
		} else if time.Since(tHandled) > settleWindow+10*slowest {
			break
		}
		time.Sleep(10 * time.Millisecond)
	}
	if last.state == "ERROR" {
		// the watcher stops the surviving RUNNING tasks after the transition: wait for the role picture to become stable.
		// Under load that STOP round trip (command, reply, the reply's `go updateTaskState`) can outlast the stability test
		// below (seen at load ≈ 33: `(stops (2))` with role 2 still RUNNING ACTIVE): a picture that still shows a RUNNING /
		// ACTIVE role is first given the settle window to change — a wait, never a verdict: afterwards it is observed as it is
		_ = sim.Poll("STOP round trip of the surviving tasks", settleWindow+10*slowest, func() (bool, error) {
			v, e := getEnv(w, id)
			if e != nil {
				return false, e
			}
			if v.gone {
				return true, nil
			}
			last = v
			for i := range s.tasks {
				if r := v.roles[fmt.Sprintf("r%d", i)]; r[0] == "RUNNING" && r[1] == "ACTIVE" {
					return false, nil
				}
			}
			return true, nil
		})
		_ = sim.Poll("quiet", 1500*time.Millisecond, func() (bool, error) {
			v, e := getEnv(w, id)
			if e != nil {
				return false, e
			}
			same := !v.gone && v.root == last.root && fmt.Sprint(v.roles) == fmt.Sprint(last.roles) && v.state == last.state
			last = v
			if !same {
				return false, nil
			}
			// stable twice in a row 150 ms apart
			time.Sleep(150 * time.Millisecond)
			v2, e := getEnv(w, id)
			if e != nil {
				return false, e
			}
			ok := !v2.gone && v2.root == v.root && fmt.Sprint(v2.roles) == fmt.Sprint(v.roles) && v2.state == v.state
			last = v2
			return ok, nil
		})
	}
	if last.gone {
		o.env = "GONE"
	} else {
		o.env, o.root, o.rootSu = last.state, last.root, last.rootSu
		for i := range s.tasks {
			o.roles = append(o.roles, last.roles[fmt.Sprintf("r%d", i)])
		}
		o.soeor = last.userVars["run_end_time_ms"] != ""
		o.eoeor = last.userVars["run_end_completion_time_ms"] != ""
	}
	// run events published since the injection
	evs := w.CoreEvents()
	if evMark > len(evs) {
		evMark = len(evs)
	}
	for _, e := range evs[evMark:] {
		if !strings.HasSuffix(e.Type, "Ev_RunEvent") {
			continue
		}
		var p struct {
			Transition       string `json:"transition"`
			TransitionStatus any    `json:"transitionStatus"`
			EnvironmentId    string `json:"environmentId"`
		}
		if json.Unmarshal(e.Payload, &p) == nil {
			if len(s.groups) > 0 && p.EnvironmentId != "" && p.EnvironmentId != id {
				continue // a second environment's run events are not this environment's
			}
			o.run = append(o.run, [2]string{p.Transition, fmt.Sprint(p.TransitionStatus)})
		}
	}
	if len(s.groups) > 0 {
		if o.by, err = observeGroups(w, s, grt, deadAll, tSettle, evMark); err != nil {
			return nil, err
		}
	}
	// STOP commands / KILLs after the injection
	seenStop, seenKill := map[int]bool{}, map[int]bool{}
	for _, r := range w.Trace()[mark:] {
		if r.Dir != "call" {
			continue
		}
		if r.Type == "MESSAGE" && r.Cmd != nil && r.Cmd.Event == "STOP" {
			if i, ok := idx[r.Cmd.TaskID]; ok {
				seenStop[i] = true
			}
		}
		if r.Type == "KILL" {
			for _, t := range r.TaskIDs {
				if i, ok := idx[t]; ok {
					seenKill[i] = true
				}
			}
		}
	}
	for i := range seenStop {
		o.stops = append(o.stops, i)
	}
	for i := range seenKill {
		o.kills = append(o.kills, i)
	}
	sort.Ints(o.stops)
	sort.Ints(o.kills)
	sort.Ints(o.victims)
	// a critical victim of a burst world that did not take the environment to ERROR: is the environment still watched?
	if needAgain(s, o) {
		told := roleToldError(w, id, s, evMark) // before the follow-up, which tells the role ERROR itself
		if o.again, err = followUp(w, id, s, vic.TaskID); err != nil {
			return nil, err
		}
		o.againTold = told
	}
	if verbose {
		var b strings.Builder
		for _, r := range w.Trace()[mark:] {
			if r.Type == "ACKNOWLEDGE" {
				continue
			}
			b.WriteString("    " + r.String() + "\n")
		}
		o.log = b.String()
		if os.Getenv("C03_CORELOG") != "" {
			if b, e := os.ReadFile(w.CoreLog()); e == nil {
				o.log += string(b)
			}
		}
	}
	keepEvidence(w, s, o, evMark)
	stat.Lock()
	stat.n++
	if o.tErrorMs >= 0 {
		stat.reached++
		stat.sumMs += o.tErrorMs
		if o.tErrorMs > stat.maxMs {
			stat.maxMs, stat.maxCase = o.tErrorMs, s.String()
		}
	}
	stat.Unlock()
	return o, nil
}
