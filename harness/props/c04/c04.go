// Package c04: correspondence harness for property C04 (stub — registers nothing yet).
package c04
