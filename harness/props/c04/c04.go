// Package c04: a task or detector belongs to at most one environment.
//
// Scenarios (harness/ownh input format) with 2–4 environments that share hosts
// and detectors run on the REAL core through the whole-core simulator: rounds of
// 1–3 concurrently issued create / control / destroy / cleanup requests. After
// every round the core's GetEnvironments / GetTasks / GetTask / GetActiveDetectors
// and the simulated master's task table (KILL calls) are recorded; the Lean
// monitor (Driver/OwnCommon over Model/Own) must explain every round by some
// interleaving of the operations' atomic parts, and Spec.C04 is evaluated on the
// observed views.
package c04

import (
	"fmt"

	"verifharness/fw"
	_ "verifharness/idfacts" // Gen/TaskIdFacts.lean: who writes a task's agentId / executorId, and under which nil tests
	"verifharness/ownh"
	"verifharness/rng"
	"verifharness/sx"
)

// fixed scenarios run on every check: the refused creation, the concurrent
// creations that race for a detector, cleanup requests naming owned tasks.
func fixed() []fw.Case {
	var cs []fw.Case
	add := func(tag string, b *ownh.B) { cs = append(cs, fw.Case{Input: b.String(), Tags: []string{tag}}) }

	// sequential conflict: the second creation is refused and disturbs nothing
	for _, st := range []string{"", "START"} {
		b := &ownh.B{}
		a := b.Env("ok", []int{1}, ownh.OKT(1, 1), ownh.OKT(2, 3))
		c := b.Env("ok", []int{2, 3}, ownh.OKT(11, 1), ownh.OKT(12, 2))
		d := b.Env("ok", []int{3}, ownh.OKT(21, 1))
		b.Round(ownh.New(a))
		if st != "" {
			b.Round(ownh.Ctl(a, st))
		}
		b.Round(ownh.New(c)).Round(ownh.New(d)).Round(ownh.Destroy(a, false, true, false)).Round(ownh.New(c + 2))
		b.Env("ok", []int{2}, ownh.OKT(31, 1))
		add("fixed-conflict", b)
	}
	// concurrent creations needing the same detector (ITS through h1 and h2)
	for n := 2; n <= 3; n++ {
		b := &ownh.B{}
		var ops []*sx.Node
		for i := 0; i < n; i++ {
			k := b.Env("ok", []int{1 + i%2}, ownh.OKT(ownh.Cls(i, 0), 1+i), ownh.OKT(ownh.Cls(i, 1), 4))
			ops = append(ops, ownh.New(k))
		}
		b.Round(ops...).Round(ownh.Cleanup()).Round(ownh.Destroy(0, true, false, false), ownh.Destroy(1, false, false, false))
		add("fixed-create-race", b)
	}
	// cleanup / kill requests naming tasks of live environments; control of one while the other is destroyed
	{
		b := &ownh.B{}
		a := b.Env("ok", []int{1}, ownh.OKT(1, 1), ownh.OKT(2, 2))
		c := b.Env("ok", []int{3}, ownh.OKT(11, 1), ownh.OKT(12, 2))
		b.Round(ownh.New(a), ownh.New(c)).Round(ownh.KillEnv(a), ownh.Cleanup(), ownh.KillEnv(c)).
			Round(ownh.Ctl(a, "START"), ownh.Destroy(c, false, false, true)).
			Round(ownh.KillEnv(a), ownh.Cleanup()).Round(ownh.Ctl(a, "STOP")).Round(ownh.Destroy(a, false, false, false))
		add("fixed-cleanup", b)
	}
	// reuseUnlockedTasks: an environment is destroyed with keepTasks (after the STOP / RESET the destroy issues
	// itself, which makes it slow enough) while another one, wanting the same task classes on the same hosts, is
	// being created: in most runs the claimable tasks appear between the creation's pre-deployment Cleanup and
	// its acquireTasks — a deployment with nothing to run (complete claim: finding reuse_full_claim_crash,
	// fixed) or with one task to run (partial claim). Either way the claimed roles never become ACTIVE and the
	// creation is given up at the deploy timeout; a later creation of the same shape finds nothing to claim.
	for v := 0; v < 4; v++ {
		b := &ownh.B{Reuse: true}
		var a, c, d int
		prep := "START"
		switch v {
		case 0, 3: // one task, wanted again: complete claim
			a = b.Env("ok", []int{1}, ownh.OKT(1, 1))
			c = b.Env("ok", []int{3}, ownh.OKT(1, 1))
			d = b.Env("ok", []int{4}, ownh.OKT(1, 1))
			if v == 3 {
				prep = "" // destroyed from CONFIGURED: RESET, then the teardown
			}
		case 1: // two tasks, both wanted again plus a third class: partial claim
			a = b.Env("ok", []int{1}, ownh.OKT(1, 1), ownh.OKT(2, 2))
			c = b.Env("ok", []int{3}, ownh.OKT(1, 1), ownh.OKT(2, 2), ownh.OKT(3, 3))
			d = b.Env("ok", []int{4}, ownh.OKT(1, 1), ownh.OKT(2, 2), ownh.OKT(3, 3))
		default: // two tasks, both wanted again: complete claim of two
			a = b.Env("ok", []int{1}, ownh.OKT(1, 1), ownh.OKT(2, 2))
			c = b.Env("ok", []int{3}, ownh.OKT(1, 1), ownh.OKT(2, 2))
			d = b.Env("ok", []int{4}, ownh.OKT(1, 1), ownh.OKT(2, 2))
		}
		b.Round(ownh.New(a))
		if prep != "" {
			b.Round(ownh.Ctl(a, prep))
		}
		b.Round(ownh.New(c), ownh.Destroy(a, false, true, true)).
			Round(ownh.Cleanup()).Round(ownh.New(d)).Round(ownh.Destroy(c, false, true, false), ownh.Destroy(d, false, true, false)).Round(ownh.Cleanup())
		add("fixed-reuse-claim", b)
	}
	// reuseUnlockedTasks: TWO creations overlap the keepTasks destroy and want the task it leaves behind: both may earmark it
	// (acquireTasks' reuse loop holds no lock); the first one's deployment fails for another role (its task dies at launch: three
	// attempts, a second apart), the second one is satisfied by reuse alone or — variant — launches a further task. Whoever
	// claimed the task times out at DEPLOY; the failing acquisition must leave the parent of the earmarked task alone (it
	// un-parents only what it launched: go/ast fact failedAcquireUnparentsOnlyDeployed). Every outcome is judged by the monitor.
	for v := 0; v < 2; v++ {
		b := &ownh.B{Reuse: true}
		a := b.Env("ok", []int{1}, ownh.OKT(1, 1))
		c := b.Env("ok", []int{3}, ownh.OKT(1, 1), ownh.T(5, 2, "die", "ok", "ok", "ok"))
		var d int
		if v == 0 {
			d = b.Env("ok", []int{4}, ownh.OKT(1, 1))
		} else {
			d = b.Env("ok", []int{4}, ownh.OKT(1, 1), ownh.OKT(6, 3))
		}
		b.Round(ownh.New(a)).Round(ownh.Ctl(a, "START")).Round(ownh.New(c), ownh.New(d), ownh.Destroy(a, false, true, true)).
			Round(ownh.Cleanup()).Round(ownh.Destroy(d, false, true, false)).Round(ownh.Cleanup())
		add("fixed-reuse-claim-overlap", b)
	}
	return cs
}

// sparseFixed: status updates whose OPTIONAL fields are absent. A task belongs to its environment until it is released,
// whatever the master tells the core about it in between: after a status update about a task of a live environment —
// TASK_RUNNING or a state updateTaskStatus has no case for, with or without executor_id / agent_id, labelled as a
// reconciliation answer or as an ordinary update — the environment and its tasks are exactly as before (Spec frame clause:
// the update is not a request on the environment), and the requests that follow FROM ELSEWHERE must not touch the task: the
// pre-deployment Cleanup of another creation, CleanupTasks for everything, CleanupTasks naming the task, with
// reuseUnlockedTasks another creation that wants a task of the same class on the same host. Then the owner still controls
// and destroys it.
func sparseFixed() []fw.Case {
	var cs []fw.Case
	add := func(b *ownh.B, tags ...string) {
		cs = append(cs, fw.Case{Input: b.String(), Tags: append([]string{"sparse-status", "fixed-sparse-status"}, tags...)})
	}
	for _, om := range []string{"exec", "agent", "both", "none"} {
		for _, src := range []string{"recon", "plain"} {
			if om == "none" && src == "plain" {
				continue
			}
			// CONFIGURED environment; then another creation (its pre-deployment Cleanup), a sweep, a kill request naming the task
			b := &ownh.B{}
			a := b.Env("ok", []int{1}, ownh.OKT(1, 1), ownh.OKT(2, 2))
			c := b.Env("ok", []int{3}, ownh.OKT(11, 3))
			b.Round(ownh.New(a)).Round(ownh.Upd(a, 0, "RUNNING", om, src)).Round(ownh.New(c)).
				Round(ownh.Cleanup()).Round(ownh.KillEnv(a)).Round(ownh.Ctl(a, "START")).
				Round(ownh.Upd(a, 1, "RUNNING", om, src), ownh.Cleanup()).Round(ownh.Ctl(a, "STOP")).
				Round(ownh.Destroy(a, false, false, false)).Round(ownh.Cleanup())
			add(b, "omit:"+om, "src:"+src, "then:create+cleanup+kill")
		}
	}
	// a RUNNING environment: both of its tasks get a sparse update in one round with a sweep
	{
		b := &ownh.B{}
		a := b.Env("ok", []int{1}, ownh.OKT(1, 1), ownh.OKT(2, 2))
		c := b.Env("ok", []int{4}, ownh.OKT(11, 4), ownh.OKT(12, 1))
		b.Round(ownh.New(a)).Round(ownh.Ctl(a, "START")).
			Round(ownh.Upd(a, 0, "RUNNING", "exec", "recon"), ownh.Upd(a, 1, "RUNNING", "agent", "recon"), ownh.Cleanup()).
			Round(ownh.New(c), ownh.KillEnv(a)).Round(ownh.Ctl(a, "STOP"), ownh.Ctl(c, "START")).
			Round(ownh.Destroy(a, false, false, false), ownh.Cleanup())
		add(b, "omit:exec", "omit:agent", "src:recon", "running-env")
	}
	// a state updateTaskStatus has no case for: nothing may be written at all
	{
		b := &ownh.B{}
		a := b.Env("ok", []int{2}, ownh.OKT(1, 2))
		c := b.Env("ok", []int{3}, ownh.OKT(11, 3))
		b.Round(ownh.New(a)).Round(ownh.Upd(a, 0, "STARTING", "both", "recon")).Round(ownh.New(c)).Round(ownh.KillEnv(a), ownh.Cleanup()).
			Round(ownh.Upd(a, 0, "STARTING", "exec", "plain")).Round(ownh.Cleanup()).Round(ownh.Destroy(a, true, false, false))
		add(b, "omit:both", "state:STARTING")
	}
	// reuseUnlockedTasks: the owner's task in STANDBY (after RESET) gets a sparse update; another environment wanting the same
	// class on the same host is created: it must launch a task of its own, not take the owned one over
	for _, om := range []string{"exec", "both"} {
		b := &ownh.B{Reuse: true}
		a := b.Env("ok", []int{1}, ownh.OKT(1, 1))
		c := b.Env("ok", []int{3}, ownh.OKT(1, 1))
		b.Round(ownh.New(a)).Round(ownh.Ctl(a, "RESET")).Round(ownh.Upd(a, 0, "RUNNING", om, "recon")).Round(ownh.New(c)).
			Round(ownh.Ctl(a, "CONFIGURE")).Round(ownh.Cleanup()).Round(ownh.Destroy(a, false, false, false), ownh.Destroy(c, false, false, false)).Round(ownh.Cleanup())
		add(b, "omit:"+om, "src:recon", "reuse", "standby")
	}
	return cs
}

// sparseCase: 2-3 plain environments (no scripted failures: the scenario is about the update), the first one created and taken
// to a random state, then 1-2 status updates about its tasks with random omissions, each followed by requests from elsewhere
// (creation of another environment, CleanupTasks for all / naming the owner's tasks), finally the owner is controlled or destroyed.
func sparseCase(r *rng.R) fw.Case {
	b := &ownh.B{}
	b.Reuse = r.P(1, 4)
	nEnv := r.Range(2, 3)
	nTasks := make([]int, nEnv)
	for i := 0; i < nEnv; i++ {
		n := r.Range(1, 2)
		nTasks[i] = n
		var roles []*sx.Node
		for j := 0; j < n; j++ {
			cls, host := ownh.Cls(i, j), r.Range(1, 4)
			if b.Reuse {
				cls, host = j+1, j+1
			}
			roles = append(roles, ownh.OKT(cls, host))
		}
		b.Env("ok", []int{i + 2}, roles...) // detectors ITS(h2), TPC(h3), TST(h4): no detector conflict
	}
	tags := []string{"sparse-status", "random"}
	b.Round(ownh.New(0))
	state := "CONFIGURED"
	switch r.N(3) {
	case 0:
		b.Round(ownh.Ctl(0, "START"))
		state = "RUNNING"
	case 1:
		b.Round(ownh.Ctl(0, "RESET"))
		state = "STANDBY"
	}
	tags = append(tags, "owner:"+state)
	next := 1
	for i, n := 0, r.Range(1, 2); i < n; i++ {
		om := rng.Pick(r, []string{"exec", "exec", "agent", "both", "none"})
		src := rng.Pick(r, []string{"recon", "recon", "plain"})
		st := "RUNNING"
		if r.P(1, 6) {
			st = "STARTING"
		}
		u := ownh.Upd(0, r.N(nTasks[0]), st, om, src)
		tags = append(tags, "omit:"+om, "src:"+src)
		if r.P(1, 3) {
			b.Round(u, ownh.Cleanup())
		} else {
			b.Round(u)
		}
		switch {
		case next < nEnv && r.P(2, 3):
			b.Round(ownh.New(next))
			next++
		case r.P(1, 2):
			b.Round(ownh.Cleanup())
		default:
			b.Round(ownh.KillEnv(0))
		}
	}
	switch state {
	case "CONFIGURED":
		b.Round(ownh.Ctl(0, "START"))
	case "RUNNING":
		b.Round(ownh.Ctl(0, "STOP"))
	default:
		b.Round(ownh.Ctl(0, "CONFIGURE"))
	}
	b.Round(ownh.Destroy(0, r.P(1, 3), true, false)).Round(ownh.Cleanup())
	if b.Reuse {
		tags = append(tags, "reuse")
	}
	return fw.Case{Input: b.String(), Tags: tags}
}

func genCase(r *rng.R) fw.Case {
	b := &ownh.B{}
	reuse := r.P(1, 10)
	b.Reuse = reuse
	nEnv := r.Range(2, 4)
	for i := 0; i < nEnv; i++ {
		b.RandEnv(r, ownh.EnvOpts{FailP: 120, HookP: 80, CallP: 60, SameCls: reuse})
	}
	created := []int{} // created in an earlier round (successfully or not)
	next := 0
	nRounds := r.Range(3, 7)
	maxPar := 3
	if reuse {
		maxPar = 2
	}
	tags := []string{}
	par := false
	for i := 0; i < nRounds; i++ {
		n := 1
		if r.P(1, 2) {
			n = r.Range(2, maxPar)
		}
		var ops []*sx.Node
		var newHere []int
		// DestroyEnvironment's STOP / RESET / teardown are separate critical sections: another request on the
		// same environment can slip in between; the model destroys in one step, so a round names an environment once
		touched := map[int]string{}
		for j := 0; j < n; j++ {
			switch {
			case next < nEnv && (len(created) == 0 || r.P(2, 5)):
				ops = append(ops, ownh.New(next))
				newHere = append(newHere, next)
				next++
			case len(created) == 0:
				ops = append(ops, ownh.Cleanup())
			default:
				k := rng.Pick(r, created)
				kind := r.N(10)
				isDestroy := (kind >= 3 && kind <= 5)
				if _, ok := touched[k]; ok {
					ops = append(ops, ownh.Cleanup())
					continue
				}
				if isDestroy {
					touched[k] = "destroy"
				} else {
					touched[k] = "other"
				}
				switch kind {
				case 0, 1, 2:
					ops = append(ops, ownh.Ctl(k, rng.Pick(r, []string{"START", "START", "STOP", "RESET", "CONFIGURE"})))
				case 3, 4, 5:
					ops = append(ops, ownh.Destroy(k, r.P(1, 3), r.P(1, 2), r.P(1, 3)))
				case 6, 7:
					ops = append(ops, ownh.Cleanup())
				case 8:
					ops = append(ops, ownh.KillEnv(k))
				default:
					ops = append(ops, ownh.Rel(k))
				}
			}
		}
		if len(ops) > 1 {
			par = true
		}
		b.SafeRound(ops...)
		created = append(created, newHere...)
	}
	if reuse {
		tags = append(tags, "reuse")
	}
	if par {
		tags = append(tags, "concurrent-round")
	} else {
		tags = append(tags, "sequential")
	}
	tags = append(tags, fmt.Sprintf("envs=%d", nEnv))
	return fw.Case{Input: b.String(), Tags: tags}
}

func generate(tier string, r *rng.R) []fw.Case {
	n := 150
	if tier == "thorough" {
		n = 1500
	}
	cs := fixed()
	for i := 0; i < n; i++ {
		cs = append(cs, genCase(r.Fork()))
	}
	// appended after the older cases, so those stay what they were for a given seed
	cs = append(cs, sparseFixed()...)
	ns := 10
	if tier == "thorough" {
		ns = 150
	}
	for i := 0; i < ns; i++ {
		cs = append(cs, sparseCase(r.Fork()))
	}
	return cs
}

func nontrivial(input, obs string) bool {
	envs, rounds, ops, creates, _ := ownh.Shape(input)
	return envs >= 2 && rounds >= 3 && ops >= 4 && creates >= 2
}

func init() {
	fw.Register(&fw.Property{
		ID:         "C04",
		Generate:   generate,
		RunImpl:    ownh.RunRetry,
		Nontrivial: nontrivial,
		Rule: "fixed scenarios (refused creation next to live environments, 2–3 concurrent creations needing one detector, cleanup/kill requests naming owned tasks, " +
			"with reuseUnlockedTasks a creation concurrent with a keepTasks destroy of an environment holding the task classes it wants, two such creations at once — one failing at deployment for another role —) " +
			"then random scenarios: 2–4 environments with 1–3 tasks each on 4 shared hosts / 3 detectors, 3–7 rounds of 1–3 concurrently issued requests " +
			"(create, START/STOP/RESET/CONFIGURE, destroy with random force/allowInRunningState/keepTasks, CleanupTasks for all or for one environment's tasks), " +
			"12% of roles with a scripted launch/configure/transition failure, 8% of environments with DESTROY hooks, 10% of scenarios with reuseUnlockedTasks; " +
			"SPARSE STATUS UPDATES (tag sparse-status): the simulated master sends the core a status update about a task of a live environment — TASK_RUNNING or TASK_STARTING, " +
			"lacking the OPTIONAL fields executor_id / agent_id / both / none, labelled as a reconciliation answer or as an ordinary update — and then requests come from elsewhere: " +
			"creation of another environment (pre-deployment Cleanup), CleanupTasks for all and naming the owner's tasks, with reuseUnlockedTasks a creation wanting the same class on the same host; " +
			"finally the owner controls and destroys its tasks: 11 fixed scenarios + 10 (thorough 150) random ones; " +
			"each scenario = one real core in its own process; non-trivial = >=2 environments, >=3 rounds, >=4 requests, >=2 creations; distinct by input text",
		Shrink:  ownh.Shrink,
		Workers: 6,
		TrustedBase: []string{
			"harness/sim (whole-core simulator: Mesos master/agents/executors, Consul KV, workflow repository) and /repo/core/verif_hooks.go (core.RunForVerif)",
			"harness/ownh (scenario engine: canonical names from the master's task table, settled snapshots through the gRPC API, hang diagnosis)",
			"Driver/OwnCommon.lean (monitor: interleaving search, oracles read off the observation, view rendering)",
		},
		Assumptions: []string{
			"ownership of a task only goes none → E → none within a scenario, so a task that got a KILL call in a round and is still referenced by a live environment after the round was owned at the instant of the KILL",
			"the simulated master answers KILL at once (fairness premise: the master eventually reports killed tasks)",
			"executor/agent failure and re-subscription are not exercised here (C18, C06); reconciliation ANSWERS are, as status updates the simulated master volunteers (sim.InjectTaskStatus)",
			"a status update is sent only about a task the core's roster holds and the master's table shows alive; the harness knows it was handled from the task event updateTaskStatus publishes last",
			"a creation whose deployment times out with nothing scripted to fail (resourceOffers outcome dropped because the simulated master offers within microseconds of REVIVE) is counted inconclusive",
		},
	})
}
