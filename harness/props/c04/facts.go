package c04

import (
	"fmt"
	"go/ast"
	"go/parser"
	"go/token"
	"path/filepath"
	"strings"

	"verifharness/fw"
)

// go/ast fact about (*Manager).acquireTasks in core/task/manager.go: do the
// Lock and the Unlock of m.deployMu pair up on every path?
//
// lockUnlockPaired holds iff every `m.deployMu.Lock()` statement of the function
// is followed, in the SAME statement list (same block), by a `m.deployMu.Unlock()`
// statement, with no way out of that block in between (no return, no goto, no
// break/continue to a label declared outside the section, no defer of either), and
// the function contains no other Lock/Unlock of deployMu (function literals count:
// there are none). The model's `Cfg.unlockUnpaired` is the negation
// (Props/C04.lean: C04_deployMu_is_code).

type muFacts struct {
	locks, unlocks int
	paired         bool
}

func isMuCall(st ast.Stmt, method string) bool {
	es, ok := st.(*ast.ExprStmt)
	if !ok {
		return false
	}
	return isMuCallExpr(es.X, method)
}

func isMuCallExpr(e ast.Expr, method string) bool {
	ce, ok := e.(*ast.CallExpr)
	if !ok || len(ce.Args) != 0 {
		return false
	}
	sel, ok := ce.Fun.(*ast.SelectorExpr)
	if !ok || sel.Sel.Name != method {
		return false
	}
	mu, ok := sel.X.(*ast.SelectorExpr)
	return ok && mu.Sel.Name == "deployMu"
}

// escapes reports whether the statements can leave the section other than by falling out of its end.
func escapes(section []ast.Stmt) bool {
	labels := map[string]bool{}
	for _, st := range section {
		ast.Inspect(st, func(n ast.Node) bool {
			if l, ok := n.(*ast.LabeledStmt); ok {
				labels[l.Label.Name] = true
			}
			return true
		})
	}
	bad := false
	for _, st := range section {
		// depth of enclosing loops / switches inside the section, for unlabelled break / continue
		var walk func(n ast.Node, inLoop, inBreakable bool)
		walk = func(n ast.Node, inLoop, inBreakable bool) {
			if n == nil || bad {
				return
			}
			switch x := n.(type) {
			case *ast.FuncLit:
				return
			case *ast.ReturnStmt, *ast.DeferStmt:
				bad = true
				return
			case *ast.BranchStmt:
				switch x.Tok {
				case token.GOTO:
					bad = true
				case token.BREAK:
					if x.Label != nil {
						if !labels[x.Label.Name] {
							bad = true
						}
					} else if !inBreakable {
						bad = true
					}
				case token.CONTINUE:
					if x.Label != nil {
						if !labels[x.Label.Name] {
							bad = true
						}
					} else if !inLoop {
						bad = true
					}
				}
				return
			case *ast.ForStmt:
				walk(x.Body, true, true)
				return
			case *ast.RangeStmt:
				walk(x.Body, true, true)
				return
			case *ast.SwitchStmt:
				walk(x.Body, inLoop, true)
				return
			case *ast.TypeSwitchStmt:
				walk(x.Body, inLoop, true)
				return
			case *ast.SelectStmt:
				walk(x.Body, inLoop, true)
				return
			case *ast.CallExpr:
				if id, ok := x.Fun.(*ast.Ident); ok && id.Name == "panic" {
					bad = true
					return
				}
			}
			// generic descent over direct children
			first := true
			ast.Inspect(n, func(c ast.Node) bool {
				if first {
					first = false
					return true
				}
				if c != nil {
					walk(c, inLoop, inBreakable)
				}
				return false
			})
		}
		walk(st, false, false)
	}
	return bad
}

func deployMuFacts(repo string) (muFacts, error) {
	fset := token.NewFileSet()
	f, err := parser.ParseFile(fset, filepath.Join(repo, "core/task/manager.go"), nil, 0)
	if err != nil {
		return muFacts{}, err
	}
	var fn *ast.FuncDecl
	for _, d := range f.Decls {
		if fd, ok := d.(*ast.FuncDecl); ok && fd.Name.Name == "acquireTasks" && fd.Recv != nil && fd.Body != nil {
			fn = fd
		}
	}
	if fn == nil {
		return muFacts{}, fmt.Errorf("core/task/manager.go: (*Manager).acquireTasks not found")
	}
	var mf muFacts
	// every call, wherever it stands (statement, defer, go, expression)
	ast.Inspect(fn.Body, func(n ast.Node) bool {
		if ce, ok := n.(*ast.CallExpr); ok {
			if isMuCallExpr(ce, "Lock") {
				mf.locks++
			}
			if isMuCallExpr(ce, "Unlock") {
				mf.unlocks++
			}
		}
		return true
	})
	// pairs inside one statement list
	pairs, pairedUnlocks := 0, 0
	ast.Inspect(fn.Body, func(n ast.Node) bool {
		var list []ast.Stmt
		switch x := n.(type) {
		case *ast.BlockStmt:
			list = x.List
		case *ast.CaseClause:
			list = x.Body
		case *ast.CommClause:
			list = x.Body
		default:
			return true
		}
		for i := 0; i < len(list); i++ {
			if !isMuCall(list[i], "Lock") {
				continue
			}
			for j := i + 1; j < len(list); j++ {
				if isMuCall(list[j], "Lock") {
					break
				}
				if isMuCall(list[j], "Unlock") {
					if !escapes(list[i+1 : j]) {
						pairs++
						pairedUnlocks++
					}
					break
				}
			}
		}
		return true
	})
	mf.paired = mf.locks > 0 && pairs == mf.locks && pairedUnlocks == mf.unlocks
	return mf, nil
}

func genFacts(repo string) (string, error) {
	mf, err := deployMuFacts(repo)
	if err != nil {
		return "", err
	}
	var b strings.Builder
	b.WriteString("namespace Gen\n\n")
	b.WriteString("/-- core/task/manager.go, (*Manager).acquireTasks (go/ast): every `m.deployMu.Lock()` statement is followed in the\n" +
		"    same block by a `m.deployMu.Unlock()` statement with no return / goto / defer / panic / break or continue out of\n" +
		"    the block in between, and the function has no other Lock or Unlock of deployMu -/\n")
	fmt.Fprintf(&b, "def lockUnlockPaired : Bool := %v\n\n", mf.paired)
	fmt.Fprintf(&b, "/-- number of `deployMu.Lock()` calls in acquireTasks -/\ndef deployMuLocks : Nat := %d\n\n", mf.locks)
	fmt.Fprintf(&b, "/-- number of `deployMu.Unlock()` calls in acquireTasks -/\ndef deployMuUnlocks : Nat := %d\n\n", mf.unlocks)
	b.WriteString("end Gen\n")
	return b.String(), nil
}

func init() {
	fw.RegisterGen(fw.GenFile{Name: "C04Facts.lean", Make: genFacts})
}
