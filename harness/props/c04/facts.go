package c04

import (
	"fmt"
	"go/ast"
	"go/parser"
	"go/token"
	"path/filepath"
	"strings"

	"verifharness/fw"
)

// go/ast fact about (*Manager).acquireTasks in core/task/manager.go: do the
// Lock and the Unlock of m.deployMu pair up on every path?
//
// lockUnlockPaired holds iff every `m.deployMu.Lock()` statement of the function
// is followed, in the SAME statement list (same block), by a `m.deployMu.Unlock()`
// statement, with no way out of that block in between (no return, no goto, no
// break/continue to a label declared outside the section, no defer of either), and
// the function contains no other Lock/Unlock of deployMu (function literals count:
// there are none). The model's `Cfg.unlockUnpaired` is the negation
// (Props/C04.lean: C04_deployMu_is_code).

type muFacts struct {
	locks, unlocks int
	paired         bool
}

func isMuCall(st ast.Stmt, method string) bool {
	es, ok := st.(*ast.ExprStmt)
	if !ok {
		return false
	}
	return isMuCallExpr(es.X, method)
}

func isMuCallExpr(e ast.Expr, method string) bool {
	ce, ok := e.(*ast.CallExpr)
	if !ok || len(ce.Args) != 0 {
		return false
	}
	sel, ok := ce.Fun.(*ast.SelectorExpr)
	if !ok || sel.Sel.Name != method {
		return false
	}
	mu, ok := sel.X.(*ast.SelectorExpr)
	return ok && mu.Sel.Name == "deployMu"
}

// escapes reports whether the statements can leave the section other than by falling out of its end.
func escapes(section []ast.Stmt) bool {
	labels := map[string]bool{}
	for _, st := range section {
		ast.Inspect(st, func(n ast.Node) bool {
			if l, ok := n.(*ast.LabeledStmt); ok {
				labels[l.Label.Name] = true
			}
			return true
		})
	}
	bad := false
	for _, st := range section {
		// depth of enclosing loops / switches inside the section, for unlabelled break / continue
		var walk func(n ast.Node, inLoop, inBreakable bool)
		walk = func(n ast.Node, inLoop, inBreakable bool) {
			if n == nil || bad {
				return
			}
			switch x := n.(type) {
			case *ast.FuncLit:
				return
			case *ast.ReturnStmt, *ast.DeferStmt:
				bad = true
				return
			case *ast.BranchStmt:
				switch x.Tok {
				case token.GOTO:
					bad = true
				case token.BREAK:
					if x.Label != nil {
						if !labels[x.Label.Name] {
							bad = true
						}
					} else if !inBreakable {
						bad = true
					}
				case token.CONTINUE:
					if x.Label != nil {
						if !labels[x.Label.Name] {
							bad = true
						}
					} else if !inLoop {
						bad = true
					}
				}
				return
			case *ast.ForStmt:
				walk(x.Body, true, true)
				return
			case *ast.RangeStmt:
				walk(x.Body, true, true)
				return
			case *ast.SwitchStmt:
				walk(x.Body, inLoop, true)
				return
			case *ast.TypeSwitchStmt:
				walk(x.Body, inLoop, true)
				return
			case *ast.SelectStmt:
				walk(x.Body, inLoop, true)
				return
			case *ast.CallExpr:
				if id, ok := x.Fun.(*ast.Ident); ok && id.Name == "panic" {
					bad = true
					return
				}
			}
			// generic descent over direct children
			first := true
			ast.Inspect(n, func(c ast.Node) bool {
				if first {
					first = false
					return true
				}
				if c != nil {
					walk(c, inLoop, inBreakable)
				}
				return false
			})
		}
		walk(st, false, false)
	}
	return bad
}

func deployMuFacts(repo string) (muFacts, error) {
	fset := token.NewFileSet()
	f, err := parser.ParseFile(fset, filepath.Join(repo, "core/task/manager.go"), nil, 0)
	if err != nil {
		return muFacts{}, err
	}
	var fn *ast.FuncDecl
	for _, d := range f.Decls {
		if fd, ok := d.(*ast.FuncDecl); ok && fd.Name.Name == "acquireTasks" && fd.Recv != nil && fd.Body != nil {
			fn = fd
		}
	}
	if fn == nil {
		return muFacts{}, fmt.Errorf("core/task/manager.go: (*Manager).acquireTasks not found")
	}
	var mf muFacts
	// every call, wherever it stands (statement, defer, go, expression)
	ast.Inspect(fn.Body, func(n ast.Node) bool {
		if ce, ok := n.(*ast.CallExpr); ok {
			if isMuCallExpr(ce, "Lock") {
				mf.locks++
			}
			if isMuCallExpr(ce, "Unlock") {
				mf.unlocks++
			}
		}
		return true
	})
	// pairs inside one statement list
	pairs, pairedUnlocks := 0, 0
	ast.Inspect(fn.Body, func(n ast.Node) bool {
		var list []ast.Stmt
		switch x := n.(type) {
		case *ast.BlockStmt:
			list = x.List
		case *ast.CaseClause:
			list = x.Body
		case *ast.CommClause:
			list = x.Body
		default:
			return true
		}
		for i := 0; i < len(list); i++ {
			if !isMuCall(list[i], "Lock") {
				continue
			}
			for j := i + 1; j < len(list); j++ {
				if isMuCall(list[j], "Lock") {
					break
				}
				if isMuCall(list[j], "Unlock") {
					if !escapes(list[i+1 : j]) {
						pairs++
						pairedUnlocks++
					}
					break
				}
			}
		}
		return true
	})
	mf.paired = mf.locks > 0 && pairs == mf.locks && pairedUnlocks == mf.unlocks
	return mf, nil
}

// go/ast fact about the SetParent calls of (*Manager).acquireTasks: whom does a failed acquisition un-parent, and when are
// the reuse candidates (tasksAlreadyRunning: roster tasks the call merely earmarked) given a parent?
//
// failedAcquireUnparentsOnlyDeployed holds iff
//   - every `X.SetParent(nil)` of the function has as receiver X the key variable of an enclosing
//     `for X[, _] := range deployedTasks` loop — the tasks THIS call has just launched —, and there is at least one;
//   - `deployedTasks` is only ever assigned `make(DeploymentMap)` or `roOutcome.deployed` (what resourceOffers launched for
//     this very request);
//   - every `X.SetParent(…)` whose receiver is the key variable of a `for X… := range tasksAlreadyRunning` loop has a
//     non-nil argument and stands inside an `if deploymentSuccess { … }` block (the claim happens on success only), and
//     there is at least one.
//
// So the failure branch touches the parent of no task the call did not launch: in particular not of a reuse candidate that
// another environment may have taken over meanwhile (model: createSettle_spares_foreign — C04_failed_create_unparents_only_own_is_code).
type parentFacts struct {
	ok                                       bool
	nilSites, nilOverDeployed                int
	reuseSites, reuseOnSuccess               int
	deployedAssigns, deployedAssignsFromCall int
}

func setParentFacts(repo string) (parentFacts, error) {
	var pf parentFacts
	fset := token.NewFileSet()
	f, err := parser.ParseFile(fset, filepath.Join(repo, "core/task/manager.go"), nil, 0)
	if err != nil {
		return pf, err
	}
	var fn *ast.FuncDecl
	for _, d := range f.Decls {
		if fd, ok := d.(*ast.FuncDecl); ok && fd.Name.Name == "acquireTasks" && fd.Body != nil {
			fn = fd
		}
	}
	if fn == nil {
		return pf, fmt.Errorf("core/task/manager.go: acquireTasks not found")
	}
	identName := func(e ast.Expr) string {
		if id, ok := e.(*ast.Ident); ok {
			return id.Name
		}
		return ""
	}
	// walk with the stack of enclosing range loops / if conditions
	type frame struct {
		rangeKey, rangeOver string
		ifCond              string
	}
	var walk func(n ast.Node, st []frame)
	walk = func(n ast.Node, st []frame) {
		switch x := n.(type) {
		case nil:
			return
		case *ast.FuncLit:
			return
		case *ast.RangeStmt:
			fr := frame{rangeKey: identName(x.Key), rangeOver: identName(x.X)}
			walk(x.Body, append(append([]frame{}, st...), fr))
			return
		case *ast.IfStmt:
			if x.Init != nil {
				walk(x.Init, st)
			}
			walk(x.Body, append(append([]frame{}, st...), frame{ifCond: identName(x.Cond)}))
			if x.Else != nil {
				walk(x.Else, st)
			}
			return
		case *ast.AssignStmt:
			for i, l := range x.Lhs {
				if identName(l) == "deployedTasks" && i < len(x.Rhs) {
					pf.deployedAssigns++
					switch r := x.Rhs[i].(type) {
					case *ast.CallExpr:
						if identName(r.Fun) == "make" {
							pf.deployedAssignsFromCall++
						}
					case *ast.SelectorExpr:
						if identName(r.X) == "roOutcome" && r.Sel.Name == "deployed" {
							pf.deployedAssignsFromCall++
						}
					}
				}
			}
		case *ast.CallExpr:
			if sel, ok := x.Fun.(*ast.SelectorExpr); ok && sel.Sel.Name == "SetParent" && len(x.Args) == 1 {
				recv := identName(sel.X)
				over := ""
				onSuccess := false
				for _, fr := range st {
					if fr.rangeKey != "" && fr.rangeKey == recv {
						over = fr.rangeOver
					}
					if fr.ifCond == "deploymentSuccess" {
						onSuccess = true
					}
				}
				isNil := identName(x.Args[0]) == "nil"
				if isNil {
					pf.nilSites++
					if over == "deployedTasks" {
						pf.nilOverDeployed++
					}
				}
				if over == "tasksAlreadyRunning" {
					pf.reuseSites++
					if !isNil && onSuccess {
						pf.reuseOnSuccess++
					}
				}
			}
		}
		// generic descent
		ast.Inspect(n, func(c ast.Node) bool {
			if c == n || c == nil {
				return true
			}
			walk(c, st)
			return false
		})
	}
	walk(fn.Body, nil)
	pf.ok = pf.nilSites >= 1 && pf.nilSites == pf.nilOverDeployed && pf.reuseSites >= 1 && pf.reuseSites == pf.reuseOnSuccess &&
		pf.deployedAssigns >= 1 && pf.deployedAssigns == pf.deployedAssignsFromCall
	return pf, nil
}

func genFacts(repo string) (string, error) {
	pf, err := setParentFacts(repo)
	if err != nil {
		return "", err
	}
	mf, err := deployMuFacts(repo)
	if err != nil {
		return "", err
	}
	var b strings.Builder
	b.WriteString("namespace Gen\n\n")
	b.WriteString("/-- core/task/manager.go, (*Manager).acquireTasks (go/ast): every `m.deployMu.Lock()` statement is followed in the\n" +
		"    same block by a `m.deployMu.Unlock()` statement with no return / goto / defer / panic / break or continue out of\n" +
		"    the block in between, and the function has no other Lock or Unlock of deployMu -/\n")
	fmt.Fprintf(&b, "def lockUnlockPaired : Bool := %v\n\n", mf.paired)
	fmt.Fprintf(&b, "/-- number of `deployMu.Lock()` calls in acquireTasks -/\ndef deployMuLocks : Nat := %d\n\n", mf.locks)
	fmt.Fprintf(&b, "/-- number of `deployMu.Unlock()` calls in acquireTasks -/\ndef deployMuUnlocks : Nat := %d\n\n", mf.unlocks)
	b.WriteString("/-- core/task/manager.go, (*Manager).acquireTasks (go/ast): every `SetParent(nil)` is applied to the key of a range over\n" +
		"    `deployedTasks` (only ever `make(DeploymentMap)` or `roOutcome.deployed`: the tasks this call launched), and every SetParent on a\n" +
		"    key of `tasksAlreadyRunning` (the reuse candidates) has a non-nil argument and stands under `if deploymentSuccess` -/\n")
	fmt.Fprintf(&b, "def failedAcquireUnparentsOnlyDeployed : Bool := %v\n\n", pf.ok)
	fmt.Fprintf(&b, "/-- (SetParent(nil) sites, of which over deployedTasks, SetParent sites over tasksAlreadyRunning, of which non-nil under `if deploymentSuccess`) -/\n"+
		"def acquireSetParentCounts : Nat × Nat × Nat × Nat := (%d, %d, %d, %d)\n\n", pf.nilSites, pf.nilOverDeployed, pf.reuseSites, pf.reuseOnSuccess)
	b.WriteString("end Gen\n")
	return b.String(), nil
}

func init() {
	fw.RegisterGen(fw.GenFile{Name: "C04Facts.lean", Make: genFacts})
}
