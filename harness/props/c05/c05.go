// Package c05: correspondence harness for property C05 (stub — registers nothing yet).
package c05
