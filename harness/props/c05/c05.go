// Package c05: "tasks are placed only where constraints and resources allow".
//
// One input = one call of a piece of the placement code; the first atom says which:
//
//	(sat ATTRS CTS)                         constraint.Attributes.Satisfy
//	(merge CHILD PARENT)                    constraint.Constraints.MergeParent
//	(eff (LEVEL…) CLS)                      roleBase.getConstraints up a real role tree (nearest level first, last = root)
//	                                        + Manager.BuildDescriptorConstraints;  CLS = - | CTS
//	(res (CPU MEM PORTS) (CPU MEM RANGES INB))   task.Resources.Satisfy(offer resources, wants)
//	(parse "expr")                          port.RangesFromExpression
//	(mk PORTS CLASS)                        makeTaskForMesosResources on an offer with these ports (hook, synchronous)
//	(round (CLASS…) ROOTCTS (OFFER…) (DESC…))    one whole OFFERS event through schedulerState.resourceOffers (hook)
//	(hist STEP…)                            a HISTORY on ONE manager: per step a workflow load (every listed class goes through
//	                                        Classes.UpdateClass, as the loop of Manager.RefreshClasses does) and then one whole
//	                                        OFFERS event as in `round`; the class store is the state carried from step to step.
//	                                        STEP = (((KEY CLASS)…) ROOTCTS (OFFER…) (DESC…)); KEY n = class name cls<n>;
//	                                        here CLASS has a sixth field, the command value, and DESC names a KEY (or -)
//
//	ATTRS  = nil | ((name value) | (name) …)        (name) = non-text attribute
//	CTS    = ((attribute value operator) …)         operator 0 = Equals
//	CPU/MEM= - | n   in QUARTER units (n/4 cpus, n/4 MB); PORTS = - | RANGES; RANGES = ((begin end) …)
//	INB    = (1|0 …)  inbound channels, 1 = tcp, 0 = ipc
//	CLASS  = (CTS CPU MEM "ports expression" INB ["command"])   built by unmarshalling template YAML with the repo's unmarshallers
//	OFFER  = (ATTRS (CPU MEM PORTS))                offer i has id o<i>
//	DESC   = ((LEVEL…) CLASSINDEX|-)                constraint lists from the task role up to, not including, the root
//
// Observation = (S R payload): S/R say which of the two known behaviours the linked
// Satisfy / RangesFromExpression show (c = as coded at the pin, f = with the proposed fix,
// x = neither), probed once per process on two fixed witnesses; the Lean driver
// models that behaviour. Payloads are described at each run* function.
// The resource bookkeeping of makeTaskForMesosResources (emptiness test before Min(), static
// ranges claimed first, cpus/mem subtracted: notes/C05.fix-3/4/5) is NOT probed: the driver
// models the code as it is (Placement.codeCfg), facts.go ties that to the source, and a tree
// without one of the repairs disagrees with the model on concrete inputs.
package c05

import (
	"encoding/json"
	"fmt"
	"os"
	"sort"
	"strconv"
	"strings"
	"sync"
	"time"

	"github.com/AliceO2Group/Control/core/task"
	"github.com/AliceO2Group/Control/core/task/channel"
	"github.com/AliceO2Group/Control/core/task/constraint"
	"github.com/AliceO2Group/Control/core/task/taskclass"
	"github.com/AliceO2Group/Control/core/task/taskclass/port"
	"github.com/AliceO2Group/Control/core/workflow"
	mesos "github.com/mesos/mesos-go/api/v1/lib"
	"github.com/mesos/mesos-go/api/v1/lib/resources"
	"github.com/mesos/mesos-go/api/v1/lib/scheduler"
	"github.com/spf13/viper"
	"gopkg.in/yaml.v3"

	"verifharness/fw"
	"verifharness/sx"
)

// ---- probing which behaviour is linked ---------------------------------------------

var (
	modeOnce     sync.Once
	modeS, modeR string
)

func textAttr(n, v string) mesos.Attribute {
	return mesos.Attribute{Name: n, Type: mesos.TEXT, Text: &mesos.Value_Text{Value: v}}
}

func probe() {
	modeOnce.Do(func() {
		viper.Set("configServiceUri", "mock://")
		attrs := constraint.Attributes{textAttr("machine_id", "B"), textAttr("role", "flp")}
		cts := constraint.Constraints{{Attribute: "machine_id", Value: "A"}, {Attribute: "role", Value: "flp"}}
		if attrs.Satisfy(cts) {
			modeS = "c"
		} else {
			modeS = "f"
		}
		r, err := port.RangesFromExpression("8000-8010")
		switch {
		case err == nil && len(r) == 1 && r[0].Begin == 8000 && r[0].End == 8000:
			modeR = "c"
		case err == nil && len(r) == 1 && r[0].Begin == 8000 && r[0].End == 8010:
			modeR = "f"
		default:
			modeR = "x"
		}
	})
}

func wrap(payload *sx.Node) string {
	probe()
	return sx.L(sx.A(modeS), sx.A(modeR), payload).String()
}

// ---- conversions ---------------------------------------------------------------------

func attrsOf(n *sx.Node) constraint.Attributes {
	if !n.IsList {
		return nil
	}
	out := constraint.Attributes{}
	for _, a := range n.List {
		if a.Len() == 1 {
			out = append(out, mesos.Attribute{Name: a.At(0).Str(), Type: mesos.SCALAR, Scalar: &mesos.Value_Scalar{Value: 1}})
		} else {
			out = append(out, textAttr(a.At(0).Str(), a.At(1).Str()))
		}
	}
	return out
}

func ctsOf(n *sx.Node) constraint.Constraints {
	out := constraint.Constraints{}
	for _, c := range n.List {
		out = append(out, constraint.Constraint{Attribute: c.At(0).Str(), Value: c.At(1).Str(), Operator: constraint.Operator(c.At(2).Int())})
	}
	return out
}

func ctsNode(cts constraint.Constraints) *sx.Node {
	n := sx.L()
	for _, c := range cts {
		n.Add(sx.L(sx.A(c.Attribute), sx.A(c.Value), sx.I(int(c.Operator))))
	}
	return n
}

func rangesOf(n *sx.Node) []mesos.Value_Range {
	var out []mesos.Value_Range
	for _, r := range n.List {
		b, _ := strconv.ParseUint(r.At(0).Str(), 10, 64)
		e, _ := strconv.ParseUint(r.At(1).Str(), 10, 64)
		out = append(out, mesos.Value_Range{Begin: b, End: e})
	}
	return out
}

func rangesNode(rs []mesos.Value_Range) *sx.Node {
	n := sx.L()
	for _, r := range rs {
		n.Add(sx.L(sx.U64(r.Begin), sx.U64(r.End)))
	}
	return n
}

func quarters(f float64) int { return int(f*4 + 0.5) }

func qStr(q int) string { return fmt.Sprintf("%d.%02d", q/4, (q%4)*25) }

// (CPU MEM PORTS) -> resources of an offer
func resOf(n *sx.Node) mesos.Resources {
	var rs mesos.Resources
	if c := n.At(0); c.Str() != "-" {
		rs = append(rs, resources.NewCPUs(float64(c.Int())/4).Resource)
	}
	if m := n.At(1); m.Str() != "-" {
		rs = append(rs, resources.NewMemory(float64(m.Int())/4).Resource)
	}
	if p := n.At(2); p.IsList {
		rs = append(rs, resources.Build().Name(resources.Name("ports")).Ranges(rangesOf(p)).Resource)
	}
	return rs
}

func portsNode(rs mesos.Resources) *sx.Node {
	p, ok := resources.Ports(rs...)
	if !ok {
		return sx.A("-")
	}
	return rangesNode(p)
}

// scalarNode: what is left of a scalar resource, in quarter units; - if no resource of that name is left
func scalarNode(rs mesos.Resources, name string) *sx.Node {
	sum, found := 0.0, false
	for _, r := range rs {
		if r.GetName() == name && r.GetScalar() != nil {
			sum += r.GetScalar().GetValue()
			found = true
		}
	}
	if !found {
		return sx.A("-")
	}
	return sx.I(quarters(sum))
}

func yq(s string) string { return strconv.Quote(s) } // a Go-quoted ASCII string is a valid YAML double-quoted scalar

func ctsYAML(b *strings.Builder, ind string, cts *sx.Node) {
	if cts.Len() == 0 {
		return
	}
	fmt.Fprintf(b, "%sconstraints:\n", ind)
	for _, c := range cts.List {
		fmt.Fprintf(b, "%s  - attribute: %s\n%s    value: %s\n", ind, yq(c.At(0).Str()), ind, yq(c.At(1).Str()))
	}
}

// CLASS -> *taskclass.Class through the template unmarshaller (ResourceWants.UnmarshalYAML → RangesFromExpression)
func classOf(name string, c *sx.Node) (*taskclass.Class, error) {
	var b strings.Builder
	cmd := "true"
	if c.Len() > 5 {
		cmd = c.At(5).Str()
	}
	fmt.Fprintf(&b, "name: %s\ncontrol:\n  mode: direct\ncommand:\n  value: %s\n  user: \"nobody\"\n  shell: true\n", yq(name), yq(cmd))
	fmt.Fprintf(&b, "wants:\n  cpu: %s\n  memory: %s\n", yq(qStr(c.At(1).Int())), yq(qStr(c.At(2).Int())))
	if e := c.At(3).Str(); e != "" {
		fmt.Fprintf(&b, "  ports: %s\n", yq(e))
	}
	if c.At(4).Len() > 0 {
		b.WriteString("bind:\n")
		for i, ch := range c.At(4).List {
			addr := "ipc"
			if ch.Bool() {
				addr = "tcp"
			}
			fmt.Fprintf(&b, "  - name: ch%d\n    type: pull\n    addressing: %s\n", i, addr)
		}
	}
	ctsYAML(&b, "", c.At(0))
	cl := &taskclass.Class{}
	if err := yaml.Unmarshal([]byte(b.String()), cl); err != nil {
		return nil, fmt.Errorf("class yaml: %v\n%s", err, b.String())
	}
	return cl, nil
}

// chainYAML writes, below an aggregator at `ind`, the levels outermost-first down to the task role.
func chainYAML(b *strings.Builder, ind, name string, levels []*sx.Node, load string) {
	// levels[0] is the NEAREST (task role); write from the farthest
	for i := len(levels) - 1; i >= 0; i-- {
		fmt.Fprintf(b, "%s- name: %s_%d\n", ind, name, i)
		ctsYAML(b, ind+"  ", levels[i])
		if i == 0 {
			fmt.Fprintf(b, "%s  task:\n%s    load: %s\n", ind, ind, yq(load))
		} else {
			fmt.Fprintf(b, "%s  roles:\n", ind)
			ind += "    "
		}
	}
}

// buildTree: root aggregator with constraints rootCts and one chain per descriptor.
func buildTree(rootCts *sx.Node, chains [][]*sx.Node, loads []string) (workflow.Role, task.Descriptors, error) {
	var b strings.Builder
	b.WriteString("name: r\n")
	ctsYAML(&b, "", rootCts)
	if len(chains) == 0 {
		b.WriteString("roles: []\n")
	} else {
		b.WriteString("roles:\n")
		for i, ch := range chains {
			chainYAML(&b, "  ", fmt.Sprintf("d%d", i), ch, loads[i])
		}
	}
	root := workflow.NewAggregatorRole("", nil)
	if err := yaml.Unmarshal([]byte(b.String()), root); err != nil {
		return nil, nil, fmt.Errorf("workflow yaml: %v\n%s", err, b.String())
	}
	workflow.LinkChildrenToParents(root)
	ds := root.GenerateTaskDescriptors()
	if len(ds) != len(chains) {
		return nil, nil, fmt.Errorf("expected %d descriptors, got %d\n%s", len(chains), len(ds), b.String())
	}
	return root, ds, nil
}

// ---- the pure functions ----------------------------------------------------------------

func runSat(in *sx.Node) (string, error) {
	ok := attrsOf(in.At(1)).Satisfy(ctsOf(in.At(2)))
	return wrap(sx.B(ok)), nil
}

func runMerge(in *sx.Node) (string, error) {
	return wrap(ctsNode(ctsOf(in.At(1)).MergeParent(ctsOf(in.At(2))))), nil
}

// payload: (ROLECTS DESCRIPTORCTS)
func runEff(in *sx.Node) (string, error) {
	levels := in.At(1).List
	if len(levels) < 2 {
		return "", fmt.Errorf("eff: need the task role and a root")
	}
	classes := map[string]*taskclass.Class{}
	if in.At(2).IsList {
		cl, err := classOf("cls0", sx.L(in.At(2), sx.I(4), sx.I(4), sx.A(""), sx.L()))
		if err != nil {
			return "", err
		}
		classes["cls0"] = cl
	}
	_, ds, err := buildTree(levels[len(levels)-1], [][]*sx.Node{levels[:len(levels)-1]}, []string{"cls0"})
	if err != nil {
		return "", err
	}
	vs, err := task.VerifNewScheduler(classes)
	if err != nil {
		return "", err
	}
	cm := vs.DescriptorConstraints(ds)
	return wrap(sx.L(ctsNode(ds[0].RoleConstraints), ctsNode(cm[ds[0]]))), nil
}

func wantsOf(n *sx.Node) *task.Wants {
	w := &task.Wants{Cpu: float64(n.At(0).Int()) / 4, Memory: float64(n.At(1).Int()) / 4}
	for _, r := range rangesOf(n.At(2)) {
		w.StaticPorts = append(w.StaticPorts, port.Range{Begin: r.Begin, End: r.End})
	}
	for i, c := range n.At(3).List {
		af := channel.IPC
		if c.Bool() {
			af = channel.TCP
		}
		w.InboundChannels = append(w.InboundChannels, channel.Inbound{Channel: channel.Channel{Name: fmt.Sprintf("ch%d", i)}, Addressing: af})
	}
	return w
}

func runRes(in *sx.Node) (string, error) {
	return wrap(sx.B(task.Resources(resOf(in.At(1))).Satisfy(wantsOf(in.At(2))))), nil
}

// payload: err | (ok (b e)…)
func runParse(in *sx.Node) (string, error) {
	rs, err := port.RangesFromExpression(in.At(1).Str())
	if err != nil {
		return wrap(sx.A("err")), nil
	}
	n := sx.L(sx.A("ok"))
	for _, r := range rs {
		n.Add(sx.L(sx.U64(r.Begin), sx.U64(r.End)))
	}
	return wrap(n), nil
}

// ---- makeTaskForMesosResources and the OFFERS round (hooks) ------------------------------

func offerOf(i int, attrs constraint.Attributes, res mesos.Resources) mesos.Offer {
	return mesos.Offer{
		ID:         mesos.OfferID{Value: fmt.Sprintf("o%d", i)},
		AgentID:    mesos.AgentID{Value: fmt.Sprintf("agent%d", i)},
		Hostname:   fmt.Sprintf("host%d", i),
		Attributes: attrs,
		Resources:  res,
	}
}

func taskNode(t *task.Task, ti *mesos.TaskInfo, nInbound int) *sx.Node {
	dyn := sx.L()
	bm := t.GetLocalBindMap()
	for i := 0; i < nInbound; i++ {
		if ep, ok := bm[fmt.Sprintf("ch%d", i)].(channel.TcpEndpoint); ok {
			dyn.Add(sx.U64(ep.Port))
		}
	}
	var cmd struct {
		ControlPort uint64 `json:"controlPort"`
	}
	_ = json.Unmarshal(ti.Data, &cmd)
	cpu, _ := resources.CPUs(ti.Resources...)
	mem := 0.0
	for _, r := range ti.Resources {
		if r.GetName() == "mem" {
			mem += r.GetScalar().GetValue()
		}
	}
	return sx.L(dyn, sx.U64(cmd.ControlPort), sx.I(quarters(cpu)), sx.I(quarters(mem)), portsNode(ti.Resources))
}

// payload: (ok DYN CTRL CPU MEM REQUEST REMAINING REMCPU REMMEM TODECLINE) | (nil REMAINING TODECLINE) | (panic)
// REMAINING/REMCPU/REMMEM = what the caller's view of the offer's resources holds afterwards (the offer had 100 cpus, 100000 MB)
func runMk(in *sx.Node) (obs string, err error) {
	defer func() {
		if r := recover(); r != nil {
			if strings.Contains(fmt.Sprint(r), "index out of range") {
				obs, err = wrap(sx.L(sx.A("panic"))), nil
				return
			}
			panic(r)
		}
	}()
	cl, err := classOf("cls0", in.At(2))
	if err != nil {
		return "", err
	}
	vs, err := task.VerifNewScheduler(map[string]*taskclass.Class{"cls0": cl})
	if err != nil {
		return "", err
	}
	_, ds, err := buildTree(sx.L(), [][]*sx.Node{{sx.L()}}, []string{"cls0"})
	if err != nil {
		return "", err
	}
	offer := offerOf(0, nil, resOf(sx.L(sx.I(400), sx.I(400000), in.At(1))))
	remaining := mesos.Resources(offer.Resources)
	t, ti, toDecline, err := vs.MakeTask(&offer, ds[0], remaining)
	if err != nil {
		return "", err
	}
	if t == nil || ti == nil {
		return wrap(sx.L(sx.A("nil"), portsNode(remaining), sx.B(toDecline))), nil
	}
	n := sx.L(sx.A("ok"))
	n.Add(taskNode(t, ti, in.At(2).At(4).Len()).List...)
	n.Add(portsNode(remaining), scalarNode(remaining, "cpus"), scalarNode(remaining, "mem"), sx.B(toDecline))
	return wrap(n), nil
}

// roundCrashRisk: could a port draw find no port (on a tree without notes/C05.fix-3: unrecovered panic inside a
// goroutine)? Conservative: every offer must hold, above 29999, one port per TCP channel and per descriptor, on top of
// the static ports the descriptors' templates claim there (they are taken out of the offer before the draws).
func roundCrashRisk(in *sx.Node) bool {
	need := 0
	for _, d := range in.At(4).List {
		need++
		if ci := d.At(1); ci.Str() != "-" && ci.Int() < in.At(1).Len() {
			cl := in.At(1).At(ci.Int())
			for _, c := range cl.At(4).List {
				if c.Bool() {
					need++
				}
			}
			if rs, err := port.RangesFromExpression(cl.At(3).Str()); err == nil {
				for _, r := range rs {
					if r.End >= 30000 && r.End >= r.Begin {
						b := r.Begin
						if b < 30000 {
							b = 30000
						}
						need += int(r.End-b) + 1
					}
				}
			}
		}
	}
	for _, o := range in.At(3).List {
		p := o.At(1).At(2)
		if !p.IsList {
			continue
		}
		high := 0
		for _, r := range rangesOf(p) {
			if r.End >= 30000 && r.End >= r.Begin {
				b := r.Begin
				if b < 30000 {
					b = 30000
				}
				high += int(r.End-b) + 1
			}
		}
		if high < need {
			return true
		}
	}
	return false
}

// payload: (round ((A oid TASK…)…) (D oid…) (U desc…) (X desc…)), TASK = (desc DYN CTRL CPU MEM REQUEST);
// accepts sorted by offer, declines sorted, U/X in the order the handler reports them.
func roundPayload(in *sx.Node) (*sx.Node, error) {
	classes := map[string]*taskclass.Class{}
	for i, c := range in.At(1).List {
		cl, err := classOf(fmt.Sprintf("cls%d", i), c)
		if err != nil {
			return nil, err
		}
		classes[fmt.Sprintf("cls%d", i)] = cl
	}
	vs, err := task.VerifNewScheduler(classes)
	if err != nil {
		return nil, err
	}
	return roundOn(vs, in.At(2), in.At(3), in.At(4), func(ci int) int { return in.At(1).At(ci).At(4).Len() })
}

// roundOn: one OFFERS event with a deployment request on the manager `vs` as it is now (its class store is whatever was
// loaded into it). nInbOf(k) = an upper bound of the number of inbound channels (ch0, ch1, …) a task of class k can have.
func roundOn(vs *task.VerifScheduler, rootCts, offersN, descsN *sx.Node, nInbOf func(int) int) (*sx.Node, error) {
	var chains [][]*sx.Node
	var loads []string
	var nInb []int
	for _, d := range descsN.List {
		chains = append(chains, d.At(0).List)
		if ci := d.At(1); ci.Str() == "-" {
			loads = append(loads, "missing")
			nInb = append(nInb, 0)
		} else {
			loads = append(loads, fmt.Sprintf("cls%d", ci.Int()))
			nInb = append(nInb, nInbOf(ci.Int()))
		}
	}
	var ds task.Descriptors
	if len(chains) > 0 {
		var err error
		_, ds, err = buildTree(rootCts, chains, loads)
		if err != nil {
			return nil, err
		}
	}
	idx := map[*task.Descriptor]int{}
	for i, d := range ds {
		idx[d] = i
	}
	var offers []mesos.Offer
	for i, o := range offersN.List {
		offers = append(offers, offerOf(i, attrsOf(o.At(0)), resOf(o.At(1))))
	}
	firstCall := len(vs.Calls) // no handler is running: every call of earlier rounds has been recorded
	out, err := vs.OffersRound(ds, offers)
	if err != nil {
		return nil, err
	}
	roundCalls := vs.Calls[firstCall:] // the handler waits for its per-offer goroutines and sends ACCEPT/DECLINE itself
	byTask := map[string]*task.Task{}
	for t := range out.Deployed {
		byTask[t.GetTaskId()] = t
	}
	oid := func(s string) int { n, _ := strconv.Atoi(strings.TrimPrefix(s, "o")); return n }
	type acc struct {
		o int
		n *sx.Node
	}
	var accs []acc
	var decl []int
	for _, c := range roundCalls {
		switch c.GetType() {
		case scheduler.Call_ACCEPT:
			a := c.GetAccept()
			if len(a.GetOfferIDs()) != 1 {
				return nil, fmt.Errorf("ACCEPT with %d offer ids", len(a.GetOfferIDs()))
			}
			o := oid(a.GetOfferIDs()[0].Value)
			n := sx.L(sx.A("A"), sx.I(o))
			for _, op := range a.GetOperations() {
				for i := range op.GetLaunch().GetTaskInfos() {
					ti := &op.GetLaunch().TaskInfos[i]
					t := byTask[ti.TaskID.Value]
					if t == nil {
						return nil, fmt.Errorf("launched task %s not in the deployment map", ti.TaskID.Value)
					}
					d := idx[out.Deployed[t]]
					tn := sx.L(sx.I(d))
					tn.Add(taskNode(t, ti, nInb[d]).List...)
					n.Add(tn)
				}
			}
			accs = append(accs, acc{o, n})
		case scheduler.Call_DECLINE:
			for _, id := range c.GetDecline().GetOfferIDs() {
				decl = append(decl, oid(id.Value))
			}
		default:
			return nil, fmt.Errorf("unexpected call %v", c.GetType())
		}
	}
	sort.SliceStable(accs, func(i, j int) bool { return accs[i].o < accs[j].o })
	sort.Ints(decl)
	an, dn, un, xn := sx.L(), sx.L(sx.A("D")), sx.L(sx.A("U")), sx.L(sx.A("X"))
	for _, a := range accs {
		an.Add(a.n)
	}
	for _, d := range decl {
		dn.Add(sx.I(d))
	}
	for _, d := range out.Undeployed {
		un.Add(sx.I(idx[d]))
	}
	for _, d := range out.Undeployable {
		xn.Add(sx.I(idx[d]))
	}
	return sx.L(sx.A("round"), an, dn, un, xn), nil
}

// ---- a history of loads and rounds on one manager ----------------------------------------------------

// histMaxInb: upper bound of the inbound channels per class key over every definition in the input
func histMaxInb(in *sx.Node) map[int]int {
	m := map[int]int{}
	for _, st := range in.List[1:] {
		for _, ld := range st.At(0).List {
			if n := ld.At(1).At(4).Len(); n > m[ld.At(0).Int()] {
				m[ld.At(0).Int()] = n
			}
		}
	}
	return m
}

// payload: (hist ROUNDPAYLOAD…), one `round` payload per step.
// The manager is made once, with an empty class store. Per step every (KEY CLASS) goes, in order, through
// taskclass.Classes.UpdateClass of the manager's store — Manager.VerifC13AddClass is exactly that call, the body of the
// loop of Manager.RefreshClasses (which itself needs a template repository on disk to read the YAML from) — each time with
// a class freshly unmarshalled from template YAML, as a workflow load does. Then the OFFERS handler runs as in `round`.
func histPayload(in *sx.Node) (*sx.Node, error) {
	vs, err := task.VerifNewScheduler(nil)
	if err != nil {
		return nil, err
	}
	maxInb := histMaxInb(in)
	out := sx.L(sx.A("hist"))
	for _, st := range in.List[1:] {
		for _, ld := range st.At(0).List {
			key := fmt.Sprintf("cls%d", ld.At(0).Int())
			cl, err := classOf(key, ld.At(1))
			if err != nil {
				return nil, err
			}
			vs.Manager.VerifC13AddClass(key, cl)
		}
		p, err := roundOn(vs, st.At(1), st.At(2), st.At(3), func(k int) int { return maxInb[k] })
		if err != nil {
			return nil, err
		}
		out.Add(p)
	}
	return out, nil
}

// histCrashRisk: roundCrashRisk for every step, against every definition a class key gets anywhere in the history
// (the store may hold any of them on a tree that does not follow the latest one).
func histCrashRisk(in *sx.Node) bool {
	defs := map[int][]*sx.Node{}
	for _, st := range in.List[1:] {
		for _, ld := range st.At(0).List {
			defs[ld.At(0).Int()] = append(defs[ld.At(0).Int()], ld.At(1))
		}
	}
	for _, st := range in.List[1:] {
		// worst case per descriptor: try each definition of its class alone
		worst := sx.L()
		classes := sx.L()
		for _, d := range st.At(3).List {
			ci := d.At(1)
			if ci.Str() == "-" || len(defs[ci.Int()]) == 0 {
				worst.Add(sx.L(d.At(0), sx.A("-")))
				continue
			}
			// the definition that needs most high ports
			best, bestNeed := defs[ci.Int()][0], -1
			for _, c := range defs[ci.Int()] {
				need := 0
				for _, ch := range c.At(4).List {
					if ch.Bool() {
						need++
					}
				}
				if rs, err := port.RangesFromExpression(c.At(3).Str()); err == nil {
					for _, r := range rs {
						if r.End >= 30000 && r.End >= r.Begin {
							b := r.Begin
							if b < 30000 {
								b = 30000
							}
							need += int(r.End-b) + 1
						}
					}
				}
				if need > bestNeed {
					best, bestNeed = c, need
				}
			}
			worst.Add(sx.L(d.At(0), sx.I(classes.Len())))
			classes.Add(best)
		}
		if roundCrashRisk(sx.L(sx.A("round"), classes, st.At(1), st.At(2), worst)) {
			return true
		}
	}
	return false
}

func payloadOf(in *sx.Node) (*sx.Node, error) {
	if in.At(0).Str() == "hist" {
		return histPayload(in)
	}
	return roundPayload(in)
}

func runRound(in *sx.Node, raw string) (string, error) {
	risk := false
	if in.At(0).Str() == "hist" {
		risk = histCrashRisk(in)
	} else {
		risk = roundCrashRisk(in)
	}
	if !risk {
		p, err := payloadOf(in)
		if err != nil {
			return "", err
		}
		return wrap(p), nil
	}
	// a port draw may panic inside one of the handler's goroutines, which nothing can recover:
	// run this input in a child process and report the crash as the observation
	cmd := fw.ChildCommand("c05-round", raw)
	var stderr strings.Builder
	cmd.Stderr = &stderr
	outb, err := cmd.Output()
	if err == nil {
		return strings.TrimSpace(string(outb)), nil
	}
	if strings.Contains(stderr.String(), "panic:") && strings.Contains(stderr.String(), "index out of range") &&
		strings.Contains(stderr.String(), "resourceOffers") {
		return wrap(sx.L(sx.A("crash"))), nil
	}
	return "", fmt.Errorf("round child: %v: %.300s", err, stderr.String())
}

func childRound(args []string) {
	if len(args) != 1 {
		fmt.Fprintln(os.Stderr, "c05-round: want one argument")
		os.Exit(3)
	}
	probe()
	in, err := sx.Parse(args[0])
	if err != nil {
		fmt.Fprintln(os.Stderr, err)
		os.Exit(3)
	}
	p, err := payloadOf(in)
	if err != nil {
		fmt.Fprintln(os.Stderr, err)
		os.Exit(3)
	}
	// A panicking offer goroutine runs its deferred WaitGroup.Done() first, so the handler can
	// return before the runtime has printed the panic and ended the process: give it the time.
	time.Sleep(400 * time.Millisecond)
	fmt.Println(wrap(p))
}

func runImpl(input string) (string, error) {
	probe()
	in, err := sx.Parse(input)
	if err != nil {
		return "", err
	}
	switch in.At(0).Str() {
	case "sat":
		return runSat(in)
	case "merge":
		return runMerge(in)
	case "eff":
		return runEff(in)
	case "res":
		return runRes(in)
	case "parse":
		return runParse(in)
	case "mk":
		return runMk(in)
	case "round", "hist":
		return runRound(in, input)
	}
	return "", fmt.Errorf("unknown case kind %q", in.At(0).Str())
}
