package c05

import (
	"fmt"
	"go/ast"
	"go/parser"
	"go/token"
	"strconv"
	"strings"

	"verifharness/fw"
)

// genFacts reads, from the source of makeTaskForMesosResources, the literal
// `End:` values of the `availPorts.Remove(mesos.Value_Range{Begin: 0, End: N})`
// calls, in source order (data ports first, control port second).
func genFacts(repo string) (string, error) {
	fset := token.NewFileSet()
	f, err := parser.ParseFile(fset, repo+"/core/task/scheduler.go", nil, 0)
	if err != nil {
		return "", err
	}
	var ends []string
	for _, d := range f.Decls {
		fd, ok := d.(*ast.FuncDecl)
		if !ok || fd.Name.Name != "makeTaskForMesosResources" {
			continue
		}
		ast.Inspect(fd.Body, func(n ast.Node) bool {
			call, ok := n.(*ast.CallExpr)
			if !ok {
				return true
			}
			sel, ok := call.Fun.(*ast.SelectorExpr)
			if !ok || sel.Sel.Name != "Remove" || len(call.Args) != 1 {
				return true
			}
			lit, ok := call.Args[0].(*ast.CompositeLit)
			if !ok {
				return true
			}
			begin, end := "", ""
			for _, e := range lit.Elts {
				kv, ok := e.(*ast.KeyValueExpr)
				if !ok {
					continue
				}
				k, _ := kv.Key.(*ast.Ident)
				v, _ := kv.Value.(*ast.BasicLit)
				if k == nil || v == nil {
					continue
				}
				if k.Name == "Begin" {
					begin = v.Value
				}
				if k.Name == "End" {
					end = v.Value
				}
			}
			if begin == "0" {
				if _, err := strconv.ParseUint(end, 10, 64); err == nil {
					ends = append(ends, end)
				}
			}
			return true
		})
	}
	if len(ends) == 0 {
		return "", fmt.Errorf("no availPorts.Remove(Value_Range{Begin: 0, End: N}) found in makeTaskForMesosResources")
	}
	return "namespace Gen.Placement\n\n/-- `End` of the ranges removed before drawing a port in makeTaskForMesosResources, in source order. -/\n" +
		"def removeEnds : List Nat := [" + strings.Join(ends, ", ") + "]\n\nend Gen.Placement\n", nil
}

func init() {
	fw.RegisterGen(fw.GenFile{Name: "PlacementFacts.lean", Make: genFacts})
}
