package c05

import (
	"fmt"
	"go/ast"
	"go/parser"
	"go/token"
	"strconv"
	"strings"

	"verifharness/fw"
)

// genFacts reads, from the source of makeTaskForMesosResources, the literal
// `End:` values of the `availPorts.Remove(mesos.Value_Range{Begin: 0, End: N})`
// calls, in source order (data ports first, control port second).
func genFacts(repo string) (string, error) {
	fset := token.NewFileSet()
	f, err := parser.ParseFile(fset, repo+"/core/task/scheduler.go", nil, 0)
	if err != nil {
		return "", err
	}
	var ends []string
	for _, d := range f.Decls {
		fd, ok := d.(*ast.FuncDecl)
		if !ok || fd.Name.Name != "makeTaskForMesosResources" {
			continue
		}
		ast.Inspect(fd.Body, func(n ast.Node) bool {
			call, ok := n.(*ast.CallExpr)
			if !ok {
				return true
			}
			sel, ok := call.Fun.(*ast.SelectorExpr)
			if !ok || sel.Sel.Name != "Remove" || len(call.Args) != 1 {
				return true
			}
			lit, ok := call.Args[0].(*ast.CompositeLit)
			if !ok {
				return true
			}
			begin, end := "", ""
			for _, e := range lit.Elts {
				kv, ok := e.(*ast.KeyValueExpr)
				if !ok {
					continue
				}
				k, _ := kv.Key.(*ast.Ident)
				v, _ := kv.Value.(*ast.BasicLit)
				if k == nil || v == nil {
					continue
				}
				if k.Name == "Begin" {
					begin = v.Value
				}
				if k.Name == "End" {
					end = v.Value
				}
			}
			if begin == "0" {
				if _, err := strconv.ParseUint(end, 10, 64); err == nil {
					ends = append(ends, end)
				}
			}
			return true
		})
	}
	if len(ends) == 0 {
		return "", fmt.Errorf("no availPorts.Remove(Value_Range{Begin: 0, End: N}) found in makeTaskForMesosResources")
	}
	guards, static, scalars, err := bookkeepingFacts(f)
	if err != nil {
		return "", err
	}
	gs := make([]string, len(guards))
	for i, g := range guards {
		gs[i] = strconv.FormatBool(g)
	}
	return "namespace Gen.Placement\n\n/-- `End` of the ranges removed before drawing a port in makeTaskForMesosResources, in source order. -/\n" +
		"def removeEnds : List Nat := [" + strings.Join(ends, ", ") + "]\n\n" +
		"/-- For every `X.Min()` in makeTaskForMesosResources, in source order: does a statement\n" +
		"    `if len(X) == 0 { …; return nil, nil }` stand before it in the same block, with no assignment to X in between? -/\n" +
		"def minGuards : List Bool := [" + strings.Join(gs, ", ") + "]\n\n" +
		"/-- Before the first statement that draws a port, does the function call `remainingResourcesInOffer.Subtract(…)` on a\n" +
		"    resource built from a variable that a `range wants.StaticPorts` loop fills with `Span`? -/\n" +
		"def staticClaimedFirst : Bool := " + strconv.FormatBool(static) + "\n\n" +
		"/-- Is `remainingResourcesInOffer.Subtract(resourcesRequest...)` called after NewCPUs(wants.Cpu) and\n" +
		"    NewMemory(wants.Memory) were put into resourcesRequest and before anything else is? -/\n" +
		"def scalarsSubtracted : Bool := " + strconv.FormatBool(scalars) + "\n\nend Gen.Placement\n", nil
}

// ---- resource bookkeeping of makeTaskForMesosResources (notes/C05.fix-3/4/5) --------------------

func isSel(e ast.Expr, x, sel string) bool {
	s, ok := e.(*ast.SelectorExpr)
	if !ok || s.Sel.Name != sel {
		return false
	}
	id, ok := s.X.(*ast.Ident)
	return ok && id.Name == x
}

// callOn: stmt is the expression statement `recv.method(args…)`
func callOn(st ast.Stmt, recv, method string) *ast.CallExpr {
	es, ok := st.(*ast.ExprStmt)
	if !ok {
		return nil
	}
	c, ok := es.X.(*ast.CallExpr)
	if !ok || !isSel(c.Fun, recv, method) {
		return nil
	}
	return c
}

func mentions(n ast.Node, pred func(ast.Node) bool) bool {
	found := false
	ast.Inspect(n, func(x ast.Node) bool {
		if x != nil && pred(x) {
			found = true
		}
		return !found
	})
	return found
}

func isMinCall(n ast.Node) (string, bool) {
	c, ok := n.(*ast.CallExpr)
	if !ok || len(c.Args) != 0 {
		return "", false
	}
	s, ok := c.Fun.(*ast.SelectorExpr)
	if !ok || s.Sel.Name != "Min" {
		return "", false
	}
	id, ok := s.X.(*ast.Ident)
	if !ok {
		return "", false
	}
	return id.Name, true
}

func assigns(st ast.Stmt, name string) bool {
	as, ok := st.(*ast.AssignStmt)
	if !ok {
		return false
	}
	for _, l := range as.Lhs {
		if id, ok := l.(*ast.Ident); ok && id.Name == name {
			return true
		}
	}
	return false
}

// isEmptyGuard: `if len(name) == 0 { …; return nil, nil }` without else
func isEmptyGuard(st ast.Stmt, name string) bool {
	is, ok := st.(*ast.IfStmt)
	if !ok || is.Init != nil || is.Else != nil || len(is.Body.List) == 0 {
		return false
	}
	be, ok := is.Cond.(*ast.BinaryExpr)
	if !ok || be.Op != token.EQL {
		return false
	}
	lc, ok := be.X.(*ast.CallExpr)
	if !ok || len(lc.Args) != 1 {
		return false
	}
	if fn, ok := lc.Fun.(*ast.Ident); !ok || fn.Name != "len" {
		return false
	}
	if id, ok := lc.Args[0].(*ast.Ident); !ok || id.Name != name {
		return false
	}
	if z, ok := be.Y.(*ast.BasicLit); !ok || z.Value != "0" {
		return false
	}
	ret, ok := is.Body.List[len(is.Body.List)-1].(*ast.ReturnStmt)
	if !ok || len(ret.Results) != 2 {
		return false
	}
	for _, r := range ret.Results {
		if id, ok := r.(*ast.Ident); !ok || id.Name != "nil" {
			return false
		}
	}
	return true
}

func bookkeepingFacts(f *ast.File) (guards []bool, static, scalars bool, err error) {
	var fd *ast.FuncDecl
	for _, d := range f.Decls {
		if x, ok := d.(*ast.FuncDecl); ok && x.Name.Name == "makeTaskForMesosResources" {
			fd = x
		}
	}
	if fd == nil {
		return nil, false, false, fmt.Errorf("makeTaskForMesosResources not found")
	}
	// (1) every X.Min(): guarded in its own block?
	ast.Inspect(fd.Body, func(n ast.Node) bool {
		blk, ok := n.(*ast.BlockStmt)
		if !ok {
			return true
		}
		for i, st := range blk.List {
			// Min calls that belong to THIS block's statement i (not to a nested block)
			var names []string
			ast.Inspect(st, func(x ast.Node) bool {
				if _, nested := x.(*ast.BlockStmt); nested {
					return false
				}
				if name, ok := isMinCall(x); ok {
					names = append(names, name)
				}
				return true
			})
			for _, name := range names {
				g := false
				for j := i - 1; j >= 0; j-- {
					if assigns(blk.List[j], name) {
						break
					}
					if isEmptyGuard(blk.List[j], name) {
						g = true
						break
					}
				}
				guards = append(guards, g)
			}
		}
		return true
	})
	if len(guards) == 0 {
		return nil, false, false, fmt.Errorf("no X.Min() in makeTaskForMesosResources")
	}
	top := fd.Body.List
	hasMin := func(n ast.Node) bool { _, ok := isMinCall(n); return ok }
	firstDraw := len(top)
	for i, st := range top {
		if mentions(st, hasMin) {
			firstDraw = i
			break
		}
	}
	// (2) static ranges claimed before the first draw
	filled := map[string]bool{} // variables a `range wants.StaticPorts` loop fills with Span
	for i := 0; i < firstDraw; i++ {
		if rs, ok := top[i].(*ast.RangeStmt); ok && isSel(rs.X, "wants", "StaticPorts") {
			for _, b := range rs.Body.List {
				as, ok := b.(*ast.AssignStmt)
				if !ok || len(as.Lhs) != 1 || len(as.Rhs) != 1 {
					continue
				}
				id, ok := as.Lhs[0].(*ast.Ident)
				if !ok {
					continue
				}
				if c, ok := as.Rhs[0].(*ast.CallExpr); ok && isSel(c.Fun, id.Name, "Span") {
					filled[id.Name] = true
				}
			}
			continue
		}
		if c := callOn(top[i], "remainingResourcesInOffer", "Subtract"); c != nil && len(c.Args) == 1 {
			if mentions(c.Args[0], func(x ast.Node) bool { id, ok := x.(*ast.Ident); return ok && filled[id.Name] }) {
				static = true
			}
		}
	}
	// (3) cpus and mem subtracted right after they were put into the request
	isNew := func(st ast.Stmt, ctor, field string) bool {
		c := callOn(st, "resourcesRequest", "Add1")
		if c == nil || len(c.Args) != 1 {
			return false
		}
		return mentions(c.Args[0], func(x ast.Node) bool {
			cc, ok := x.(*ast.CallExpr)
			return ok && isSel(cc.Fun, "resources", ctor) && len(cc.Args) == 1 && isSel(cc.Args[0], "wants", field)
		})
	}
	iC, iM := -1, -1
	for i, st := range top {
		if isNew(st, "NewCPUs", "Cpu") {
			iC = i
		}
		if isNew(st, "NewMemory", "Memory") {
			iM = i
		}
	}
	if iC < 0 || iM < 0 {
		return nil, false, false, fmt.Errorf("resourcesRequest.Add1(NewCPUs(wants.Cpu))/Add1(NewMemory(wants.Memory)) not found")
	}
	from := iC
	if iM > from {
		from = iM
	}
	for i := from + 1; i < len(top); i++ {
		if callOn(top[i], "resourcesRequest", "Add1") != nil || callOn(top[i], "resourcesRequest", "Add") != nil {
			break
		}
		if c := callOn(top[i], "remainingResourcesInOffer", "Subtract"); c != nil && len(c.Args) == 1 && c.Ellipsis.IsValid() {
			if id, ok := c.Args[0].(*ast.Ident); ok && id.Name == "resourcesRequest" {
				scalars = true
			}
		}
	}
	return guards, static, scalars, nil
}

func init() {
	fw.RegisterGen(fw.GenFile{Name: "PlacementFacts.lean", Make: genFacts})
}
