package c05

import (
	"fmt"
	"go/ast"
	"go/parser"
	"go/token"
	"strconv"
	"strings"

	"github.com/AliceO2Group/Control/core/task/taskclass"

	"verifharness/fw"
	"verifharness/sx"
)

// genFacts reads, from the source of makeTaskForMesosResources, the literal
// `End:` values of the `availPorts.Remove(mesos.Value_Range{Begin: 0, End: N})`
// calls, in source order (data ports first, control port second).
func genFacts(repo string) (string, error) {
	fset := token.NewFileSet()
	f, err := parser.ParseFile(fset, repo+"/core/task/scheduler.go", nil, 0)
	if err != nil {
		return "", err
	}
	var ends []string
	for _, d := range f.Decls {
		fd, ok := d.(*ast.FuncDecl)
		if !ok || fd.Name.Name != "makeTaskForMesosResources" {
			continue
		}
		ast.Inspect(fd.Body, func(n ast.Node) bool {
			call, ok := n.(*ast.CallExpr)
			if !ok {
				return true
			}
			sel, ok := call.Fun.(*ast.SelectorExpr)
			if !ok || sel.Sel.Name != "Remove" || len(call.Args) != 1 {
				return true
			}
			lit, ok := call.Args[0].(*ast.CompositeLit)
			if !ok {
				return true
			}
			begin, end := "", ""
			for _, e := range lit.Elts {
				kv, ok := e.(*ast.KeyValueExpr)
				if !ok {
					continue
				}
				k, _ := kv.Key.(*ast.Ident)
				v, _ := kv.Value.(*ast.BasicLit)
				if k == nil || v == nil {
					continue
				}
				if k.Name == "Begin" {
					begin = v.Value
				}
				if k.Name == "End" {
					end = v.Value
				}
			}
			if begin == "0" {
				if _, err := strconv.ParseUint(end, 10, 64); err == nil {
					ends = append(ends, end)
				}
			}
			return true
		})
	}
	if len(ends) == 0 {
		return "", fmt.Errorf("no availPorts.Remove(Value_Range{Begin: 0, End: N}) found in makeTaskForMesosResources")
	}
	guards, static, scalars, err := bookkeepingFacts(f)
	if err != nil {
		return "", err
	}
	store, err := storeFacts(repo)
	if err != nil {
		return "", err
	}
	gs := make([]string, len(guards))
	for i, g := range guards {
		gs[i] = strconv.FormatBool(g)
	}
	return "namespace Gen.Placement\n\n/-- `End` of the ranges removed before drawing a port in makeTaskForMesosResources, in source order. -/\n" +
		"def removeEnds : List Nat := [" + strings.Join(ends, ", ") + "]\n\n" +
		"/-- For every `X.Min()` in makeTaskForMesosResources, in source order: does a statement\n" +
		"    `if len(X) == 0 { …; return nil, nil }` stand before it in the same block, with no assignment to X in between? -/\n" +
		"def minGuards : List Bool := [" + strings.Join(gs, ", ") + "]\n\n" +
		"/-- Before the first statement that draws a port, does the function call `remainingResourcesInOffer.Subtract(…)` on a\n" +
		"    resource built from a variable that a `range wants.StaticPorts` loop fills with `Span`? -/\n" +
		"def staticClaimedFirst : Bool := " + strconv.FormatBool(static) + "\n\n" +
		"/-- Is `remainingResourcesInOffer.Subtract(resourcesRequest...)` called after NewCPUs(wants.Cpu) and\n" +
		"    NewMemory(wants.Memory) were put into resourcesRequest and before anything else is? -/\n" +
		"def scalarsSubtracted : Bool := " + strconv.FormatBool(scalars) + "\n\n" + store + "end Gen.Placement\n", nil
}

// ---- resource bookkeeping of makeTaskForMesosResources (notes/C05.fix-3/4/5) --------------------

func isSel(e ast.Expr, x, sel string) bool {
	s, ok := e.(*ast.SelectorExpr)
	if !ok || s.Sel.Name != sel {
		return false
	}
	id, ok := s.X.(*ast.Ident)
	return ok && id.Name == x
}

// callOn: stmt is the expression statement `recv.method(args…)`
func callOn(st ast.Stmt, recv, method string) *ast.CallExpr {
	es, ok := st.(*ast.ExprStmt)
	if !ok {
		return nil
	}
	c, ok := es.X.(*ast.CallExpr)
	if !ok || !isSel(c.Fun, recv, method) {
		return nil
	}
	return c
}

func mentions(n ast.Node, pred func(ast.Node) bool) bool {
	found := false
	ast.Inspect(n, func(x ast.Node) bool {
		if x != nil && pred(x) {
			found = true
		}
		return !found
	})
	return found
}

func isMinCall(n ast.Node) (string, bool) {
	c, ok := n.(*ast.CallExpr)
	if !ok || len(c.Args) != 0 {
		return "", false
	}
	s, ok := c.Fun.(*ast.SelectorExpr)
	if !ok || s.Sel.Name != "Min" {
		return "", false
	}
	id, ok := s.X.(*ast.Ident)
	if !ok {
		return "", false
	}
	return id.Name, true
}

func assigns(st ast.Stmt, name string) bool {
	as, ok := st.(*ast.AssignStmt)
	if !ok {
		return false
	}
	for _, l := range as.Lhs {
		if id, ok := l.(*ast.Ident); ok && id.Name == name {
			return true
		}
	}
	return false
}

// isEmptyGuard: `if len(name) == 0 { …; return nil, nil }` without else
func isEmptyGuard(st ast.Stmt, name string) bool {
	is, ok := st.(*ast.IfStmt)
	if !ok || is.Init != nil || is.Else != nil || len(is.Body.List) == 0 {
		return false
	}
	be, ok := is.Cond.(*ast.BinaryExpr)
	if !ok || be.Op != token.EQL {
		return false
	}
	lc, ok := be.X.(*ast.CallExpr)
	if !ok || len(lc.Args) != 1 {
		return false
	}
	if fn, ok := lc.Fun.(*ast.Ident); !ok || fn.Name != "len" {
		return false
	}
	if id, ok := lc.Args[0].(*ast.Ident); !ok || id.Name != name {
		return false
	}
	if z, ok := be.Y.(*ast.BasicLit); !ok || z.Value != "0" {
		return false
	}
	ret, ok := is.Body.List[len(is.Body.List)-1].(*ast.ReturnStmt)
	if !ok || len(ret.Results) != 2 {
		return false
	}
	for _, r := range ret.Results {
		if id, ok := r.(*ast.Ident); !ok || id.Name != "nil" {
			return false
		}
	}
	return true
}

func bookkeepingFacts(f *ast.File) (guards []bool, static, scalars bool, err error) {
	var fd *ast.FuncDecl
	for _, d := range f.Decls {
		if x, ok := d.(*ast.FuncDecl); ok && x.Name.Name == "makeTaskForMesosResources" {
			fd = x
		}
	}
	if fd == nil {
		return nil, false, false, fmt.Errorf("makeTaskForMesosResources not found")
	}
	// (1) every X.Min(): guarded in its own block?
	ast.Inspect(fd.Body, func(n ast.Node) bool {
		blk, ok := n.(*ast.BlockStmt)
		if !ok {
			return true
		}
		for i, st := range blk.List {
			// Min calls that belong to THIS block's statement i (not to a nested block)
			var names []string
			ast.Inspect(st, func(x ast.Node) bool {
				if _, nested := x.(*ast.BlockStmt); nested {
					return false
				}
				if name, ok := isMinCall(x); ok {
					names = append(names, name)
				}
				return true
			})
			for _, name := range names {
				g := false
				for j := i - 1; j >= 0; j-- {
					if assigns(blk.List[j], name) {
						break
					}
					if isEmptyGuard(blk.List[j], name) {
						g = true
						break
					}
				}
				guards = append(guards, g)
			}
		}
		return true
	})
	if len(guards) == 0 {
		return nil, false, false, fmt.Errorf("no X.Min() in makeTaskForMesosResources")
	}
	top := fd.Body.List
	hasMin := func(n ast.Node) bool { _, ok := isMinCall(n); return ok }
	firstDraw := len(top)
	for i, st := range top {
		if mentions(st, hasMin) {
			firstDraw = i
			break
		}
	}
	// (2) static ranges claimed before the first draw
	filled := map[string]bool{} // variables a `range wants.StaticPorts` loop fills with Span
	for i := 0; i < firstDraw; i++ {
		if rs, ok := top[i].(*ast.RangeStmt); ok && isSel(rs.X, "wants", "StaticPorts") {
			for _, b := range rs.Body.List {
				as, ok := b.(*ast.AssignStmt)
				if !ok || len(as.Lhs) != 1 || len(as.Rhs) != 1 {
					continue
				}
				id, ok := as.Lhs[0].(*ast.Ident)
				if !ok {
					continue
				}
				if c, ok := as.Rhs[0].(*ast.CallExpr); ok && isSel(c.Fun, id.Name, "Span") {
					filled[id.Name] = true
				}
			}
			continue
		}
		if c := callOn(top[i], "remainingResourcesInOffer", "Subtract"); c != nil && len(c.Args) == 1 {
			if mentions(c.Args[0], func(x ast.Node) bool { id, ok := x.(*ast.Ident); return ok && filled[id.Name] }) {
				static = true
			}
		}
	}
	// (3) cpus and mem subtracted right after they were put into the request
	isNew := func(st ast.Stmt, ctor, field string) bool {
		c := callOn(st, "resourcesRequest", "Add1")
		if c == nil || len(c.Args) != 1 {
			return false
		}
		return mentions(c.Args[0], func(x ast.Node) bool {
			cc, ok := x.(*ast.CallExpr)
			return ok && isSel(cc.Fun, "resources", ctor) && len(cc.Args) == 1 && isSel(cc.Args[0], "wants", field)
		})
	}
	iC, iM := -1, -1
	for i, st := range top {
		if isNew(st, "NewCPUs", "Cpu") {
			iC = i
		}
		if isNew(st, "NewMemory", "Memory") {
			iM = i
		}
	}
	if iC < 0 || iM < 0 {
		return nil, false, false, fmt.Errorf("resourcesRequest.Add1(NewCPUs(wants.Cpu))/Add1(NewMemory(wants.Memory)) not found")
	}
	from := iC
	if iM > from {
		from = iM
	}
	for i := from + 1; i < len(top); i++ {
		if callOn(top[i], "resourcesRequest", "Add1") != nil || callOn(top[i], "resourcesRequest", "Add") != nil {
			break
		}
		if c := callOn(top[i], "remainingResourcesInOffer", "Subtract"); c != nil && len(c.Args) == 1 && c.Ellipsis.IsValid() {
			if id, ok := c.Args[0].(*ast.Ident); ok && id.Name == "resourcesRequest" {
				scalars = true
			}
		}
	}
	return guards, static, scalars, nil
}

// ---- the class store across workflow loads (taskclass.Classes.UpdateClass, Manager.RefreshClasses, Class.Equals) ----

func funcDecl(f *ast.File, recvType, name string) *ast.FuncDecl {
	for _, d := range f.Decls {
		fd, ok := d.(*ast.FuncDecl)
		if !ok || fd.Name.Name != name || fd.Body == nil {
			continue
		}
		if recvType == "" {
			if fd.Recv == nil {
				return fd
			}
			continue
		}
		if fd.Recv == nil || len(fd.Recv.List) != 1 {
			continue
		}
		t := fd.Recv.List[0].Type
		if st, ok := t.(*ast.StarExpr); ok {
			t = st.X
		}
		if id, ok := t.(*ast.Ident); ok && id.Name == recvType {
			return fd
		}
	}
	return nil
}

func isIdent(e ast.Expr, name string) bool {
	id, ok := e.(*ast.Ident)
	return ok && id.Name == name
}

// updateOverwrites: UpdateClass(key, class) is
//
//	…statements that neither branch nor return nor assign to `class` itself…
//	if <held?> { *<entry> = *class } else { <map>[key] = class }
//
// i.e. for a key that is held the entry is overwritten with the loaded class, unconditionally.
func updateOverwrites(fd *ast.FuncDecl) bool {
	if fd.Type.Params == nil {
		return false
	}
	var params []string
	for _, p := range fd.Type.Params.List {
		for _, n := range p.Names {
			params = append(params, n.Name)
		}
	}
	if len(params) != 2 {
		return false
	}
	key, class := params[0], params[1]
	branches, bad := 0, false
	ast.Inspect(fd.Body, func(n ast.Node) bool {
		switch x := n.(type) {
		case *ast.IfStmt:
			branches++
		case *ast.ReturnStmt, *ast.ForStmt, *ast.RangeStmt, *ast.SwitchStmt, *ast.TypeSwitchStmt, *ast.SelectStmt, *ast.BranchStmt, *ast.GoStmt, *ast.FuncLit:
			bad = true
		case *ast.AssignStmt:
			for _, l := range x.Lhs {
				if isIdent(l, class) || isIdent(l, key) {
					bad = true
				}
			}
		}
		return true
	})
	if bad || branches != 1 {
		return false
	}
	var is *ast.IfStmt
	for _, st := range fd.Body.List {
		if x, ok := st.(*ast.IfStmt); ok {
			is = x
		}
	}
	if is == nil || len(is.Body.List) != 1 {
		return false
	}
	// then: *X = *class
	as, ok := is.Body.List[0].(*ast.AssignStmt)
	if !ok || as.Tok != token.ASSIGN || len(as.Lhs) != 1 || len(as.Rhs) != 1 {
		return false
	}
	if _, ok := as.Lhs[0].(*ast.StarExpr); !ok {
		return false
	}
	if r, ok := as.Rhs[0].(*ast.StarExpr); !ok || !isIdent(r.X, class) {
		return false
	}
	// else: M[key] = class
	eb, ok := is.Else.(*ast.BlockStmt)
	if !ok || len(eb.List) != 1 {
		return false
	}
	es, ok := eb.List[0].(*ast.AssignStmt)
	if !ok || es.Tok != token.ASSIGN || len(es.Lhs) != 1 || len(es.Rhs) != 1 || !isIdent(es.Rhs[0], class) {
		return false
	}
	ix, ok := es.Lhs[0].(*ast.IndexExpr)
	return ok && isIdent(ix.Index, key)
}

// refreshUpdatesEvery: in Manager.RefreshClasses a top-level `for _, v := range L`, L assigned from getTaskClassList(…),
// whose body calls m.classes.UpdateClass(…, v) and has no branch (if / continue / break / return).
func refreshUpdatesEvery(fd *ast.FuncDecl) bool {
	fromList := map[string]bool{}
	for _, st := range fd.Body.List {
		if as, ok := st.(*ast.AssignStmt); ok && len(as.Rhs) == 1 {
			if c, ok := as.Rhs[0].(*ast.CallExpr); ok && isIdent(c.Fun, "getTaskClassList") && len(as.Lhs) >= 1 {
				if id, ok := as.Lhs[0].(*ast.Ident); ok {
					fromList[id.Name] = true
				}
			}
		}
	}
	for _, st := range fd.Body.List {
		rs, ok := st.(*ast.RangeStmt)
		if !ok {
			continue
		}
		x, ok := rs.X.(*ast.Ident)
		v, ok2 := rs.Value.(*ast.Ident)
		if !ok || !ok2 || !fromList[x.Name] {
			continue
		}
		branch := mentions(rs.Body, func(n ast.Node) bool {
			switch n.(type) {
			case *ast.IfStmt, *ast.BranchStmt, *ast.ReturnStmt, *ast.SwitchStmt, *ast.GoStmt:
				return true
			}
			return false
		})
		calls := false
		for _, b := range rs.Body.List {
			es, ok := b.(*ast.ExprStmt)
			if !ok {
				continue
			}
			c, ok := es.X.(*ast.CallExpr)
			if !ok || len(c.Args) != 2 || !isIdent(c.Args[1], v.Name) {
				continue
			}
			if sel, ok := c.Fun.(*ast.SelectorExpr); ok && sel.Sel.Name == "UpdateClass" && isSel(sel.X, "m", "classes") {
				calls = true
			}
		}
		if calls && !branch {
			return true
		}
	}
	return false
}

// equalsTable: the LINKED Class.Equals on a template and a copy edited in exactly one place: does it notice?
func equalsTable() ([]string, error) {
	base := "((role flp 0)) 4 512 8000-8002 (1 0) \"sleep 1\""
	edits := []struct{ what, cls string }{
		{"command", "((role flp 0)) 4 512 8000-8002 (1 0) \"sleep 2\""},
		{"cpu", "((role flp 0)) 8 512 8000-8002 (1 0) \"sleep 1\""},
		{"memory", "((role flp 0)) 4 1024 8000-8002 (1 0) \"sleep 1\""},
		{"ports", "((role flp 0)) 4 512 8100-8102 (1 0) \"sleep 1\""},
		{"constraints", "((role epn 0)) 4 512 8000-8002 (1 0) \"sleep 1\""},
		{"bind", "((role flp 0)) 4 512 8000-8002 (1 0 1) \"sleep 1\""},
		{"nothing", base},
	}
	mk := func(src string) (*taskclass.Class, error) {
		n, err := sx.Parse("(" + src + ")")
		if err != nil {
			return nil, err
		}
		return classOf("cls0", n)
	}
	b, err := mk(base)
	if err != nil {
		return nil, err
	}
	var out []string
	for _, e := range edits {
		c, err := mk(e.cls)
		if err != nil {
			return nil, err
		}
		out = append(out, fmt.Sprintf("(%q, %v)", e.what, !b.Equals(c)))
	}
	return out, nil
}

func storeFacts(repo string) (string, error) {
	fset := token.NewFileSet()
	fc, err := parser.ParseFile(fset, repo+"/core/task/taskclass/classes.go", nil, 0)
	if err != nil {
		return "", err
	}
	up := funcDecl(fc, "Classes", "UpdateClass")
	if up == nil {
		return "", fmt.Errorf("taskclass.Classes.UpdateClass not found")
	}
	fm, err := parser.ParseFile(fset, repo+"/core/task/manager.go", nil, 0)
	if err != nil {
		return "", err
	}
	rf := funcDecl(fm, "Manager", "RefreshClasses")
	if rf == nil {
		return "", fmt.Errorf("task.Manager.RefreshClasses not found")
	}
	tab, err := equalsTable()
	if err != nil {
		return "", err
	}
	return "/-- `Classes.UpdateClass(key, class)`: no branch but one `if held { *entry = *class } else { map[key] = class }`, no return,\n" +
		"    no assignment to its parameters — a held key's entry is overwritten with the loaded class unconditionally. -/\n" +
		"def updateOverwrites : Bool := " + strconv.FormatBool(updateOverwrites(up)) + "\n\n" +
		"/-- `Manager.RefreshClasses`: every class of `getTaskClassList(…)` is handed to `m.classes.UpdateClass`, in a loop without a branch. -/\n" +
		"def refreshUpdatesEvery : Bool := " + strconv.FormatBool(refreshUpdatesEvery(rf)) + "\n\n" +
		"/-- The linked `Class.Equals` on a template and a copy edited in exactly one place: does it notice the edit? -/\n" +
		"def equalsNotices : List (String × Bool) := [" + strings.Join(tab, ", ") + "]\n\n", nil
}

func init() {
	fw.RegisterGen(fw.GenFile{Name: "PlacementFacts.lean", Make: genFacts})
}
