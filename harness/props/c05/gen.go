package c05

import (
	"fmt"
	"sort"
	"strings"

	"verifharness/fw"
	"verifharness/rng"
	"verifharness/sx"
)

var (
	attrNames = []string{"machine_id", "role", "detector", "class", "site"}
	attrVals  = []string{"A", "B", "C", "flp", "epn", "TPC", "ITS", "flp,epn", "A,B,C", "TPC,ITS", "", "p2"}
	plainVals = []string{"A", "B", "C", "flp", "epn", "TPC", "ITS", "p2"}
)

func pickVal(r *rng.R, name string) string {
	switch name {
	case "machine_id":
		return rng.Pick(r, []string{"A", "B", "C", "m0", "m1", "m2"})
	case "role":
		return rng.Pick(r, []string{"flp", "epn", "flp,epn", "qc"})
	case "detector":
		return rng.Pick(r, []string{"TPC", "ITS", "TPC,ITS", ""})
	}
	return rng.Pick(r, attrVals)
}

func genAttrs(r *rng.R) *sx.Node {
	if r.P(1, 25) {
		return sx.A("nil")
	}
	n := sx.L()
	names := append([]string{}, attrNames...)
	rng.Shuffle(r, names)
	k := r.Range(0, 4)
	for i := 0; i < k; i++ {
		name := names[i%len(names)]
		if r.P(1, 12) && i > 0 {
			name = names[0] // duplicate name: Get returns the first
		}
		if r.P(1, 30) {
			n.Add(sx.L(sx.A(name)))
		} else {
			n.Add(sx.L(sx.A(name), sx.A(pickVal(r, name))))
		}
	}
	return n
}

// genCts: constraints that mostly refer to what the agent has.
func genCts(r *rng.R, attrs *sx.Node, max int, ops bool) *sx.Node {
	n := sx.L()
	k := r.Range(0, max)
	for i := 0; i < k; i++ {
		var name, val string
		if attrs != nil && attrs.IsList && attrs.Len() > 0 && r.P(7, 10) {
			a := rng.Pick(r, attrs.List)
			name = a.At(0).Str()
			if a.Len() > 1 {
				val = a.At(1).Str()
				if strings.Contains(val, ",") && r.P(3, 4) {
					val = rng.Pick(r, strings.Split(val, ","))
				}
			}
			if r.P(1, 4) {
				val = pickVal(r, name)
			}
		} else {
			name = rng.Pick(r, attrNames)
			val = pickVal(r, name)
		}
		op := 0
		if ops && r.P(1, 15) {
			op = r.Range(1, 2)
		}
		n.Add(sx.L(sx.A(name), sx.A(val), sx.I(op)))
	}
	return n
}

func genPlainCts(r *rng.R, max int, dupP int) *sx.Node {
	n := sx.L()
	k := r.Range(0, max)
	for i := 0; i < k; i++ {
		name := rng.Pick(r, attrNames)
		if n.Len() > 0 && r.P(dupP, 100) {
			name = rng.Pick(r, n.List).At(0).Str()
		}
		n.Add(sx.L(sx.A(name), sx.A(rng.Pick(r, plainVals)), sx.I(0)))
	}
	return n
}

// canonical port ranges as Mesos offers them
func genPorts(r *rng.R) *sx.Node {
	n := sx.L()
	cur := rng.Pick(r, []int{1024, 8000, 8990, 9000, 9000, 20000, 29990, 30000, 31000})
	k := r.Range(1, 4)
	for i := 0; i < k; i++ {
		ln := rng.Pick(r, []int{1, 1, 2, 5, 11, 100, 1000, 25000})
		n.Add(sx.L(sx.I(cur), sx.I(cur+ln-1)))
		cur += ln - 1 + rng.Pick(r, []int{2, 2, 3, 10, 500, 9000})
	}
	return n
}

// ports of a healthy agent: plenty above 30000
func genGoodPorts(r *rng.R) *sx.Node {
	n := sx.L()
	switch r.N(4) {
	case 0:
		n.Add(sx.L(sx.I(8000), sx.I(32000)))
	case 1:
		n.Add(sx.L(sx.I(9000), sx.I(9000+r.Range(0, 20))), sx.L(sx.I(30000), sx.I(30100)))
	case 2:
		n.Add(sx.L(sx.I(1024), sx.I(8999)), sx.L(sx.I(9500), sx.I(9600)), sx.L(sx.I(31000), sx.I(32000)))
	default:
		n.Add(sx.L(sx.I(30000), sx.I(30000+r.Range(30, 200))))
	}
	return n
}

// static ranges, mostly inside the given ports
func genStatic(r *rng.R, ports *sx.Node) *sx.Node {
	n := sx.L()
	k := rng.Pick(r, []int{0, 0, 1, 1, 2, 3})
	for i := 0; i < k; i++ {
		if ports != nil && ports.IsList && ports.Len() > 0 && r.P(3, 4) {
			p := rng.Pick(r, ports.List)
			b, e := p.At(0).Int(), p.At(1).Int()
			x := b + r.N(e-b+1)
			y := x + r.N(min(e-x+1, 12))
			if r.P(1, 10) {
				y += r.Range(1, 3) // may stick out
			}
			n.Add(sx.L(sx.I(x), sx.I(y)))
		} else {
			x := rng.Pick(r, []int{80, 8000, 9000, 9005, 30000, 47100})
			n.Add(sx.L(sx.I(x), sx.I(x+r.Range(0, 10))))
		}
	}
	return n
}

func exprOf(rs *sx.Node, r *rng.R) string {
	var parts []string
	for _, x := range rs.List {
		s := x.At(0).Str()
		if x.At(0).Str() != x.At(1).Str() || (r != nil && r.P(1, 6)) {
			s += "-" + x.At(1).Str()
		}
		if r != nil && r.P(1, 5) {
			s = " " + s
		}
		if r != nil && r.P(1, 8) {
			s += " "
		}
		parts = append(parts, s)
	}
	return strings.Join(parts, ",")
}

func genInb(r *rng.R, max int) *sx.Node {
	n := sx.L()
	k := r.Range(0, max)
	for i := 0; i < k; i++ {
		n.Add(sx.B(r.P(3, 4)))
	}
	return n
}

func genSat(r *rng.R) fw.Case {
	attrs := genAttrs(r)
	cts := genCts(r, attrs, 4, true)
	return fw.Case{Input: sx.L(sx.A("sat"), attrs, cts).String(), Tags: []string{"sat", fmt.Sprintf("sat:cts=%d", cts.Len())}}
}

func genMerge(r *rng.R) fw.Case {
	return fw.Case{Input: sx.L(sx.A("merge"), genPlainCts(r, 4, 25), genPlainCts(r, 4, 15)).String(), Tags: []string{"merge"}}
}

func genEff(r *rng.R) fw.Case {
	lv := sx.L()
	k := r.Range(2, 5)
	for i := 0; i < k; i++ {
		dup := 5
		lv.Add(genPlainCts(r, 3, dup))
	}
	var cls *sx.Node = sx.A("-")
	if r.P(1, 2) {
		cls = genPlainCts(r, 3, 5)
	}
	return fw.Case{Input: sx.L(sx.A("eff"), lv, cls).String(), Tags: []string{"eff", fmt.Sprintf("eff:levels=%d", k)}}
}

func optN(r *rng.R, v int) *sx.Node {
	if r.P(1, 40) {
		return sx.A("-")
	}
	return sx.I(v)
}

func genRes(r *rng.R) fw.Case {
	tags := []string{"res"}
	var ports *sx.Node = genPorts(r)
	if r.P(1, 40) {
		ports = sx.A("-")
	} else if r.P(1, 20) {
		// not canonical: overlapping / unsorted, as a hand-written agent config might be
		ports.Add(sx.L(sx.I(ports.At(0).At(0).Int()), sx.I(ports.At(0).At(1).Int()+3)))
		rng.Shuffle(r, ports.List)
		tags = append(tags, "res:noncanonical-offer")
	}
	cpuO, memO := rng.Pick(r, []int{1, 4, 8, 16, 64, 256}), rng.Pick(r, []int{3, 512, 4096, 4097, 4099, 65536})
	cpuW := rng.Pick(r, []int{0, 1, 2, 4, 8, 16, cpuO, cpuO + 1})
	memW := rng.Pick(r, []int{0, 4, 512, 4096, (memO / 4) * 4, memO, memO + 1})
	static := genStatic(r, ports)
	if static.Len() > 1 && r.P(1, 3) {
		rng.Shuffle(r, static.List)
	}
	inb := genInb(r, 4)
	if ports.IsList && r.P(1, 6) {
		// exactly the whole offer as static range
		static = sx.L(ports.List...)
	}
	in := sx.L(sx.A("res"), sx.L(optN(r, cpuO), optN(r, memO), ports), sx.L(sx.I(cpuW), sx.I(memW), static, inb))
	return fw.Case{Input: in.String(), Tags: tags}
}

func genParse(r *rng.R) fw.Case {
	if r.P(7, 10) {
		rs := sx.L()
		k := r.Range(0, 4)
		for i := 0; i < k; i++ {
			b := rng.Pick(r, []int{0, 80, 8000, 9000, 30000, 65535})
			e := b + rng.Pick(r, []int{0, 0, 1, 10, 1000})
			rs.Add(sx.L(sx.I(b), sx.I(e)))
		}
		return fw.Case{Input: sx.L(sx.A("parse"), sx.A(exprOf(rs, r))).String(), Tags: []string{"parse", "parse:wellformed"}}
	}
	var s string
	switch r.N(4) {
	case 0:
		alphabet := []string{"0", "1", "9", "80", "-", "-", ",", ",", " ", "x", "+", "_", "\t", "18446744073709551615", "18446744073709551616", "00"}
		k := r.Range(0, 6)
		for i := 0; i < k; i++ {
			s += rng.Pick(r, alphabet)
		}
	case 1:
		s = rng.Pick(r, []string{"", " ", "  \t ", ",", "-", "5-", "-5", "5-6-7", "5 - 6", "5- 6", " 5-6 ", "5,,6", "5,", "0x10", "1e3", "９０００", "5 ", " 5-6"})
	case 2:
		s = fmt.Sprintf("%d-%s", r.Range(0, 70000), rng.Pick(r, []string{"x", "", "7 ", "18446744073709551616", "-1"}))
	default:
		s = fmt.Sprintf("%d-%d", r.Range(0, 70000), r.Range(0, 70000)) // may be reversed
	}
	return fw.Case{Input: sx.L(sx.A("parse"), sx.A(s)).String(), Tags: []string{"parse", "parse:malformed-stream"}}
}

func genClass(r *rng.R, ports *sx.Node, machine string) *sx.Node {
	cts := sx.L()
	if r.P(1, 4) {
		cts.Add(sx.L(sx.A("role"), sx.A(rng.Pick(r, []string{"flp", "epn"})), sx.I(0)))
	}
	if machine != "" && r.P(1, 8) {
		cts.Add(sx.L(sx.A("machine_id"), sx.A(machine), sx.I(0)))
	}
	static := sx.L()
	switch r.N(6) {
	case 0:
		static = genStatic(r, ports)
	case 1:
		static = sx.L(sx.L(sx.I(8000), sx.I(8000+r.Range(0, 5))))
	case 2:
		static = sx.L(sx.L(sx.I(9000), sx.I(9000+r.Range(0, 3)))) // inside the dynamic window
	}
	return sx.L(cts, sx.I(rng.Pick(r, []int{0, 1, 2, 4, 8, 12})), sx.I(rng.Pick(r, []int{0, 4, 512, 2048})), sx.A(exprOf(static, nil)), genInb(r, 3))
}

func genMk(r *rng.R) fw.Case {
	var ports *sx.Node
	tags := []string{"mk"}
	switch r.N(5) {
	case 0:
		ports = genPorts(r)
		tags = append(tags, "mk:any-ports")
	case 1:
		ports = sx.L(sx.L(sx.I(9000), sx.I(9000+r.Range(0, 3)))) // nothing for the control port
		tags = append(tags, "mk:scarce")
	case 2:
		ports = sx.L(sx.L(sx.I(30000), sx.I(30000+r.Range(0, 3))))
		tags = append(tags, "mk:scarce")
	default:
		ports = genGoodPorts(r)
		tags = append(tags, "mk:healthy")
	}
	cl := genClass(r, ports, "")
	return fw.Case{Input: sx.L(sx.A("mk"), ports, cl).String(), Tags: tags}
}

func genRound(r *rng.R) fw.Case {
	nOff := rng.Pick(r, []int{1, 1, 2, 2, 2, 3, 3, 4})
	offers := sx.L()
	var machines []string
	for i := 0; i < nOff; i++ {
		m := fmt.Sprintf("m%d", i)
		if r.P(1, 15) && i > 0 {
			m = machines[0] // two offers from one machine id
		}
		machines = append(machines, m)
		attrs := sx.L()
		if !r.P(1, 20) {
			attrs.Add(sx.L(sx.A("machine_id"), sx.A(m)))
		}
		attrs.Add(sx.L(sx.A("role"), sx.A(rng.Pick(r, []string{"flp", "flp", "epn", "flp,epn"}))))
		if r.P(1, 2) {
			attrs.Add(sx.L(sx.A("detector"), sx.A(rng.Pick(r, []string{"TPC", "ITS", "TPC,ITS"}))))
		}
		if r.P(1, 10) {
			rng.Shuffle(r, attrs.List)
		}
		ports := genGoodPorts(r)
		res := sx.L(sx.I(rng.Pick(r, []int{4, 8, 16, 64})), sx.I(rng.Pick(r, []int{2048, 4096, 65536})), ports)
		if r.P(1, 40) {
			res = sx.L(sx.I(8), sx.I(4096), sx.A("-"))
		} else if r.P(1, 50) {
			// an agent configured with data ports only: nothing for a control port
			res = sx.L(sx.I(16), sx.I(4096), sx.L(sx.L(sx.I(9000), sx.I(9000+r.Range(0, 40)))))
		}
		offers.Add(sx.L(attrs, res))
	}
	nCls := r.Range(1, 3)
	classes := sx.L()
	for i := 0; i < nCls; i++ {
		classes.Add(genClass(r, offers.At(0).At(1).At(2), rng.Pick(r, machines)))
	}
	root := sx.L()
	if r.P(1, 2) {
		root.Add(sx.L(sx.A("role"), sx.A(rng.Pick(r, []string{"flp", "flp", "epn"})), sx.I(0)))
	}
	if r.P(1, 6) {
		root.Add(sx.L(sx.A("detector"), sx.A(rng.Pick(r, []string{"TPC", "ITS"})), sx.I(0)))
	}
	nDesc := rng.Pick(r, []int{0, 1, 1, 2, 2, 3, 3, 4, 5})
	descs := sx.L()
	pinned := 0
	for i := 0; i < nDesc; i++ {
		lv := sx.L()
		k := r.Range(1, 3)
		for j := 0; j < k; j++ {
			l := sx.L()
			if j == 0 && r.P(3, 5) {
				m := rng.Pick(r, machines)
				if r.P(1, 25) {
					m = "nowhere"
				}
				l.Add(sx.L(sx.A("machine_id"), sx.A(m), sx.I(0)))
				pinned++
			}
			if r.P(1, 4) {
				l.Add(sx.L(sx.A(rng.Pick(r, []string{"role", "detector"})), sx.A(rng.Pick(r, []string{"flp", "epn", "TPC", "ITS"})), sx.I(0)))
			}
			if r.P(1, 3) {
				rng.Shuffle(r, l.List)
			}
			lv.Add(l)
		}
		var ci *sx.Node = sx.I(r.N(nCls))
		if r.P(1, 30) {
			ci = sx.A("-")
		}
		descs.Add(sx.L(lv, ci))
	}
	in := sx.L(sx.A("round"), classes, root, offers, descs)
	tags := []string{"round", fmt.Sprintf("round:offers=%d", nOff), fmt.Sprintf("round:descs=%d", nDesc)}
	if pinned > 0 {
		tags = append(tags, "round:with-machine_id")
	}
	if roundCrashRisk(in) {
		tags = append(tags, "round:in-child-process")
	}
	return fw.Case{Input: in.String(), Tags: tags}
}

// ---- histories: load classes; place; reload (some classes edited under the same key); place again … ----------------

func cloneNode(n *sx.Node) *sx.Node {
	if !n.IsList {
		return sx.A(n.Atom)
	}
	c := sx.L()
	for _, x := range n.List {
		c.Add(cloneNode(x))
	}
	return c
}

var histCmds = []string{"true", "sleep 1", "o2-readout --id 1", "o2-qc"}

func otherOf[T comparable](r *rng.R, xs []T, cur T) T {
	for i := 0; i < 8; i++ {
		if x := rng.Pick(r, xs); x != cur {
			return x
		}
	}
	return cur
}

// a template whose constraints and channels matter for where it can go and what it is given
func genHistClass(r *rng.R) *sx.Node {
	cts := sx.L()
	if r.P(2, 3) {
		cts.Add(sx.L(sx.A("role"), sx.A(rng.Pick(r, []string{"flp", "epn"})), sx.I(0)))
	}
	if r.P(1, 8) {
		cts.Add(sx.L(sx.A("detector"), sx.A(rng.Pick(r, []string{"TPC", "ITS"})), sx.I(0)))
	}
	static := sx.L()
	if r.P(1, 4) {
		b := rng.Pick(r, []int{8000, 8100, 9000, 9002, 30000})
		static.Add(sx.L(sx.I(b), sx.I(b+r.Range(0, 2))))
	}
	return sx.L(cts, sx.I(rng.Pick(r, []int{0, 1, 2, 4})), sx.I(rng.Pick(r, []int{0, 4, 512})), sx.A(exprOf(static, nil)),
		genInb(r, 3), sx.A(rng.Pick(r, histCmds)))
}

// editClass: the template edited in place (same key). Returns the edited copy.
func editClass(r *rng.R, c *sx.Node, kind string) *sx.Node {
	n := cloneNode(c)
	switch kind {
	case "constraints":
		cts := n.At(0)
		switch {
		case cts.Len() == 0:
			cts.Add(sx.L(sx.A("role"), sx.A(rng.Pick(r, []string{"flp", "epn"})), sx.I(0)))
		case r.P(1, 5):
			cts.List = cts.List[1:]
		default:
			k := cts.At(r.N(cts.Len()))
			switch k.At(0).Str() {
			case "role":
				k.List[1] = sx.A(otherOf(r, []string{"flp", "epn"}, k.At(1).Str()))
			case "detector":
				k.List[1] = sx.A(otherOf(r, []string{"TPC", "ITS"}, k.At(1).Str()))
			default:
				k.List[1] = sx.A(otherOf(r, plainVals, k.At(1).Str()))
			}
		}
	case "bind":
		inb := n.At(4)
		switch {
		case inb.Len() == 0 || (inb.Len() < 4 && r.P(1, 2)):
			inb.Add(sx.B(r.P(4, 5)))
		case r.P(1, 2):
			inb.List = inb.List[:inb.Len()-1]
		default:
			i := r.N(inb.Len())
			inb.List[i] = sx.B(!inb.At(i).Bool())
		}
	case "cpu":
		n.List[1] = sx.I(otherOf(r, []int{0, 1, 2, 4, 8}, n.At(1).Int()))
	case "memory":
		n.List[2] = sx.I(otherOf(r, []int{0, 4, 512, 1024}, n.At(2).Int()))
	case "ports":
		n.List[3] = sx.A(otherOf(r, []string{"", "8000", "8000-8002", "9000", "9001-9002", "30000"}, n.At(3).Str()))
	case "command":
		n.List[5] = sx.A(otherOf(r, histCmds, n.At(5).Str()))
	}
	return n
}

var histEdits = []string{"same", "constraints", "constraints", "constraints", "bind", "bind", "bind", "cpu", "memory", "ports", "command"}

func genHist(r *rng.R) fw.Case {
	nAg := rng.Pick(r, []int{2, 2, 3})
	type agent struct{ attrs *sx.Node }
	var agents []agent
	var machines []string
	for i := 0; i < nAg; i++ {
		m := fmt.Sprintf("m%d", i)
		machines = append(machines, m)
		role := rng.Pick(r, []string{"flp", "epn", "flp,epn"})
		if i == 0 {
			role = "flp"
		} else if i == 1 && !r.P(1, 6) {
			role = "epn"
		}
		attrs := sx.L(sx.L(sx.A("machine_id"), sx.A(m)), sx.L(sx.A("role"), sx.A(role)))
		if r.P(1, 2) {
			attrs.Add(sx.L(sx.A("detector"), sx.A(rng.Pick(r, []string{"TPC", "ITS", "TPC,ITS"}))))
		}
		agents = append(agents, agent{attrs})
	}
	nKeys := r.Range(1, 3)
	nSteps := rng.Pick(r, []int{2, 2, 3, 3, 4})
	cur := map[int]*sx.Node{}
	tagSet := map[string]bool{}
	in := sx.L(sx.A("hist"))
	reloads := 0
	for s := 0; s < nSteps; s++ {
		loads := sx.L()
		for k := 0; k < nKeys; k++ {
			c, held := cur[k]
			switch {
			case !held:
				if s == 0 && !r.P(9, 10) || s > 0 && !r.P(1, 2) {
					continue // loaded by a later workflow, or never
				}
				c = genHistClass(r)
			case !r.P(2, 3):
				continue // this workflow does not use the class
			default:
				kind := rng.Pick(r, histEdits)
				c = editClass(r, c, kind)
				tagSet["hist:edit="+kind] = true
				if r.P(1, 6) {
					k2 := rng.Pick(r, histEdits)
					c = editClass(r, c, k2)
					tagSet["hist:edit="+k2] = true
					if k2 != kind {
						tagSet["hist:edit-in-two-places"] = true
					}
				}
				reloads++
			}
			loads.Add(sx.L(sx.I(k), c))
			cur[k] = c
			if r.P(1, 15) {
				// the same class twice in one load (two roles of the workflow name it): the later one stays
				c2 := editClass(r, c, rng.Pick(r, histEdits))
				loads.Add(sx.L(sx.I(k), c2))
				cur[k] = c2
				tagSet["hist:twice-in-one-load"] = true
			}
		}
		if loads.Len() > 1 && r.P(1, 4) {
			// order of distinct keys within a load is of no consequence; keep the relative order of equal keys
			first := loads.List[0]
			if first.At(0).Int() != loads.List[loads.Len()-1].At(0).Int() {
				ok := true
				for _, l := range loads.List[1:] {
					if l.At(0).Int() == first.At(0).Int() {
						ok = false
					}
				}
				if ok {
					loads.List = append(loads.List[1:], first)
				}
			}
		}
		offers := sx.L()
		for _, a := range agents {
			if r.P(1, 7) && offers.Len()+1 < len(agents) {
				continue // no offer from this agent this time
			}
			res := sx.L(sx.I(rng.Pick(r, []int{4, 8, 16, 64})), sx.I(rng.Pick(r, []int{2048, 4096, 65536})), genGoodPorts(r))
			offers.Add(sx.L(cloneNode(a.attrs), res))
		}
		if offers.Len() == 0 {
			offers.Add(sx.L(cloneNode(agents[0].attrs), sx.L(sx.I(16), sx.I(4096), genGoodPorts(r))))
		}
		root := sx.L()
		if r.P(1, 6) {
			root.Add(sx.L(sx.A("detector"), sx.A(rng.Pick(r, []string{"TPC", "ITS"})), sx.I(0)))
		}
		nDesc := rng.Pick(r, []int{1, 1, 2, 2, 3})
		descs := sx.L()
		for i := 0; i < nDesc; i++ {
			lv := sx.L()
			k := r.Range(1, 2)
			for j := 0; j < k; j++ {
				l := sx.L()
				if j == 0 && r.P(1, 4) {
					l.Add(sx.L(sx.A("machine_id"), sx.A(rng.Pick(r, machines)), sx.I(0)))
				}
				if r.P(1, 10) {
					l.Add(sx.L(sx.A("role"), sx.A(rng.Pick(r, []string{"flp", "epn"})), sx.I(0))) // the role overrides the template
				}
				lv.Add(l)
			}
			var ci *sx.Node = sx.I(r.N(nKeys))
			if r.P(1, 30) {
				ci = sx.A("-")
			}
			descs.Add(sx.L(lv, ci))
		}
		in.Add(sx.L(loads, root, offers, descs))
	}
	tags := []string{"hist", fmt.Sprintf("hist:steps=%d", nSteps)}
	if reloads > 0 {
		tags = append(tags, "hist:reload")
	}
	var ts []string
	for t := range tagSet {
		ts = append(ts, t)
	}
	sort.Strings(ts)
	tags = append(tags, ts...)
	if histCrashRisk(in) {
		tags = append(tags, "hist:in-child-process")
	}
	return fw.Case{Input: in.String(), Tags: tags}
}

func generate(tier string, r *rng.R) []fw.Case {
	scale := 1
	if tier == "thorough" {
		scale = 10
	}
	var cs []fw.Case
	add := func(n int, g func(*rng.R) fw.Case) {
		for i := 0; i < n*scale; i++ {
			cs = append(cs, g(r.Fork()))
		}
	}
	add(6000, genSat)
	add(2500, genMerge)
	add(1500, genEff)
	add(4000, genRes)
	add(3500, genParse)
	add(1200, genMk)
	add(1800, genRound)
	add(600, genHist)
	return cs
}

func nontrivial(input, obs string) bool {
	in, err := sx.Parse(input)
	if err != nil {
		return false
	}
	switch in.At(0).Str() {
	case "sat":
		return in.At(1).Len() >= 2 && in.At(2).Len() >= 2
	case "merge":
		for _, c := range in.At(1).List {
			for _, p := range in.At(2).List {
				if c.At(0).Str() == p.At(0).Str() {
					return true
				}
			}
		}
		return false
	case "eff":
		return in.At(1).Len() >= 3
	case "res":
		return in.At(2).At(2).Len()+in.At(2).At(3).Len() >= 1
	case "parse":
		return strings.ContainsAny(in.At(1).Str(), ",-")
	case "mk":
		for _, c := range in.At(2).At(4).List {
			if c.Bool() {
				return true
			}
		}
		return false
	case "round":
		return in.At(4).Len() >= 2 && strings.Contains(obs, "(A ") && in.At(3).Len() >= 1
	case "hist":
		// a class loaded again under its key with another definition, and a task of that class launched afterwards
		last := map[int]string{}
		changedAt := map[int]int{}
		for i, st := range in.List[1:] {
			for _, ld := range st.At(0).List {
				k, def := ld.At(0).Int(), ld.At(1).String()
				if prev, ok := last[k]; ok && prev != def {
					if _, seen := changedAt[k]; !seen {
						changedAt[k] = i
					}
				}
				last[k] = def
			}
		}
		o, err := sx.Parse(obs)
		if err != nil || o.Len() != 3 || o.At(2).Len() != in.Len() {
			return false
		}
		for i, st := range in.List[1:] {
			rp := o.At(2).At(i + 1)
			if rp.Len() < 2 {
				continue
			}
			for _, a := range rp.At(1).List {
				for _, t := range a.List[2:] {
					d := t.At(0).Int()
					if d < st.At(3).Len() {
						if ci := st.At(3).At(d).At(1); ci.Str() != "-" {
							if at, ok := changedAt[ci.Int()]; ok && at <= i {
								return true
							}
						}
					}
				}
			}
		}
		return false
	}
	return false
}

// dropEach proposes `root` with one element of the list at `path` removed (keeping at least `keep`).
func dropEach(root *sx.Node, path []int, keep int, out *[]string) {
	n := root
	for _, i := range path {
		if i >= n.Len() {
			return
		}
		n = n.At(i)
	}
	if !n.IsList || n.Len() <= keep {
		return
	}
	orig := n.List
	for i := range orig {
		n.List = append(append([]*sx.Node{}, orig[:i]...), orig[i+1:]...)
		*out = append(*out, root.String())
	}
	n.List = orig
}

func shrinkCands(input string) []string {
	in, err := sx.Parse(input)
	if err != nil {
		return nil
	}
	var out []string
	switch in.At(0).Str() {
	case "sat", "merge":
		dropEach(in, []int{1}, 0, &out)
		dropEach(in, []int{2}, 0, &out)
	case "eff":
		dropEach(in, []int{1}, 2, &out)
		for i := 0; i < in.At(1).Len(); i++ {
			dropEach(in, []int{1, i}, 0, &out)
		}
		dropEach(in, []int{2}, 0, &out)
	case "res":
		dropEach(in, []int{2, 2}, 0, &out)
		dropEach(in, []int{2, 3}, 0, &out)
		dropEach(in, []int{1, 2}, 1, &out)
	case "parse":
		s := []rune(in.At(1).Str())
		for i := range s {
			out = append(out, sx.L(sx.A("parse"), sx.A(string(s[:i])+string(s[i+1:]))).String())
		}
	case "mk":
		dropEach(in, []int{2, 4}, 0, &out)
		dropEach(in, []int{2, 0}, 0, &out)
		dropEach(in, []int{1}, 1, &out)
	case "round":
		dropEach(in, []int{4}, 0, &out)
		dropEach(in, []int{2}, 0, &out)
		if in.At(3).Len() > 1 {
			dropEach(in, []int{3}, 1, &out)
		}
		for i := 0; i < in.At(4).Len(); i++ {
			dropEach(in, []int{4, i, 0}, 1, &out)
			for j := 0; j < in.At(4).At(i).At(0).Len(); j++ {
				dropEach(in, []int{4, i, 0, j}, 0, &out)
			}
		}
		for i := 0; i < in.At(1).Len(); i++ {
			dropEach(in, []int{1, i, 0}, 0, &out)
			dropEach(in, []int{1, i, 4}, 0, &out)
		}
	case "hist":
		// drop a whole step (its loads go with it), merge nothing; then loads, descriptors, offers, levels, constraints, channels
		if in.Len() > 2 {
			for i := 1; i < in.Len(); i++ {
				c := cloneNode(in)
				c.List = append(append([]*sx.Node{}, c.List[:i]...), c.List[i+1:]...)
				out = append(out, c.String())
			}
		}
		for i := 1; i < in.Len(); i++ {
			dropEach(in, []int{i, 3}, 0, &out)
			dropEach(in, []int{i, 0}, 0, &out)
			dropEach(in, []int{i, 2}, 1, &out)
			dropEach(in, []int{i, 1}, 0, &out)
		}
		for i := 1; i < in.Len(); i++ {
			st := in.At(i)
			for j := 0; j < st.At(3).Len(); j++ {
				dropEach(in, []int{i, 3, j, 0}, 1, &out)
				for l := 0; l < st.At(3).At(j).At(0).Len(); l++ {
					dropEach(in, []int{i, 3, j, 0, l}, 0, &out)
				}
			}
			for j := 0; j < st.At(0).Len(); j++ {
				dropEach(in, []int{i, 0, j, 1, 0}, 0, &out)
				dropEach(in, []int{i, 0, j, 1, 4}, 0, &out)
			}
			for j := 0; j < st.At(2).Len(); j++ {
				dropEach(in, []int{i, 2, j, 0}, 0, &out)
			}
		}
	}
	return out
}

func init() {
	fw.RegisterChild("c05-round", childRound)
	fw.Register(&fw.Property{
		ID:         "C05",
		Generate:   generate,
		RunImpl:    runImpl,
		Nontrivial: nontrivial,
		Rule: "eight case kinds, quick = 6000 Attributes.Satisfy (agent attributes incl. nil, duplicates, comma lists, non-text; 0-4 constraints mostly built " +
			"from the agent's own attributes, some unsupported operators) + 2500 MergeParent + 1500 getConstraints/BuildDescriptorConstraints on real role trees (2-5 levels) " +
			"+ 4000 Resources.Satisfy (canonical and a few non-canonical offers, static ranges mostly inside the offer, 0-4 channels) + 3500 RangesFromExpression " +
			"(70% printed range lists with stray blanks, 30% malformed) + 1200 makeTaskForMesosResources (healthy and scarce port sets) + 1800 whole OFFERS rounds " +
			"(1-4 offers, 0-5 descriptors with 1-3 role levels + root + class constraints, machine_id pre-matching, template YAML through the repo's unmarshallers) " +
			"+ 600 HISTORIES on one manager (2-4 steps, each = a workflow load of 0-3 class definitions through Classes.UpdateClass, then a whole OFFERS round on 1-3 agents incl. an flp and an epn one; " +
			"a class held already is reloaded under its key unchanged or edited in constraints / bind / cpu / memory / ports / command, sometimes twice in one load; classes first loaded late or never); thorough = x10. " +
			"non-trivial: sat >=2 attributes and >=2 constraints; merge with a shared attribute; eff >=3 levels; res with static ranges or channels; parse with ',' or '-'; " +
			"mk with a TCP channel; round with >=2 descriptors and at least one task launched; " +
			"hist with a class reloaded under its key with another definition and a task of that class launched afterwards; distinct by input text",
		Shrink:  shrinkCands,
		Workers: 1,
		TrustedBase: []string{
			"harness/props/c05 (YAML builders for templates and role trees, decoding of ACCEPT/DECLINE calls, mode probe on two fixed witnesses)",
			"/repo/core/task/verif_hooks_c05.go (build tag verif): schedulerState with a recording calls.Caller instead of the Mesos master; synchronous makeTaskForMesosResources",
			"/repo/core/task/verif_hook_c13.go: Manager.VerifC13AddClass = m.classes.UpdateClass(key, class), the body of the loop of Manager.RefreshClasses (histories load their classes through it; RefreshClasses itself reads the YAML from a template repository on disk)",
			"harness/props/c05/facts.go: go/ast reading of Classes.UpdateClass (held key: one unconditional `*held = *class`; new key: one insert; no other branch, no return) and of the loop of Manager.RefreshClasses (every class of getTaskClassList goes to UpdateClass); Class.Equals tabulated on the linked code over pairs that differ in one field",
			"harness/props/c05/facts.go: go/ast reading of makeTaskForMesosResources (Remove literals; emptiness test in front of every Min(); static ranges subtracted before the first draw; cpus/mem subtracted after they enter the request)",
			"gopkg.in/yaml.v3 + the repo's UnmarshalYAML methods for task templates and roles",
			"the Lean driver tries every order in which the per-offer goroutines may have taken descriptorsMu (<= 24) and accepts if one reproduces the observation",
		},
		Assumptions: []string{
			"one resource per name in an offer (cpus, mem, ports), default role, no reservations — what a Mesos master sends to a non-MULTI_ROLE framework",
			"static ranges with begin <= end and all numbers < 2^63 in Resources.Satisfy inputs (no uint64 wrap-around modelled)",
			"executor resources are empty in the hook's ExecutorInfo, so a task requests exactly its template's wants (the executor's share is not subtracted from what remains of an offer, nor looked at by Resources.Satisfy)",
			"ACCEPT/DECLINE calls always succeed; BuildTaskCommand succeeds (templates without expressions)",
		},
	})
}
