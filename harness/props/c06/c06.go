// Package c06: correspondence harness for property C06 (stub — registers nothing yet).
package c06
