// Package c06: destroying or failing to create an environment leaves nothing behind.
//
// Scenarios (harness/ownh input format) on the REAL core through the whole-core
// simulator: destroy requested in every reachable state with every combination
// of force / allowInRunningState / keepTasks (and with the STOP / RESET it issues
// failing), creation failing at template load, detector check, deployment and
// configuration, kill outcome scripts, DESTROY / after_DESTROY hook tasks at one
// or several weights (held at a gate while the harness looks at the locks),
// pending calls; a KILL call that FAILS (the master refuses the first KILL naming a task: the request that
// issued it must answer an error, the task is back in the roster); the executor or the agent of a task of the environment lost
// before the destroy (Mesos FAILURE event, with and without the terminal status
// updates: the task is unlocked but keeps its parent role, the environment's
// watcher takes it to ERROR); a destroy that arrives WHILE the environment is being
// created (`newd`: the deployment is held open at a launch gate, the harness learns
// the id from GetEnvironments and opens the gate only when the core has logged that
// the teardown waits for the transition mutex); a creation that fails in acquireTasks' own tail, after everything was launched:
// the OFFER for one host carried no hostname, the task placed there cannot be locked, next to siblings that lock fine (role outcome
// `nohost`: every task the failed deployment launched must end up unowned — none may stay locked to the environment that
// disappears). After every round: listing, ownership, KILL calls,
// active detectors, cancelled calls; a final creation needing the same detector
// checks that it is free again.
package c06

import (
	"fmt"

	"verifharness/fw"
	"verifharness/ownh"
	"verifharness/rng"
	"verifharness/sx"
)

func flags(i int) (bool, bool, bool) { return i&4 != 0, i&2 != 0, i&1 != 0 }

// matrix: the systematic part.
func matrix() []fw.Case {
	var cs []fw.Case
	add := func(tag string, b *ownh.B) { cs = append(cs, fw.Case{Input: b.String(), Tags: []string{tag}}) }
	probe := func(b *ownh.B, flps []int) int { return b.Env("ok", flps, ownh.OKT(91, 4)) }

	// destroy in every state × flags; afterwards a creation needing the same detector
	states := []struct {
		name string
		prep []string
		tr   string
	}{
		{"CONFIGURED", nil, "ok"},
		{"RUNNING", []string{"START"}, "ok"},
		{"DEPLOYED", []string{"RESET"}, "ok"},
		{"ERROR", []string{"START"}, "START:err"},
		{"ERROR2", []string{"START", "STOP"}, "STOP:stay"},
	}
	for _, st := range states {
		for f := 0; f < 8; f++ {
			force, allow, keep := flags(f)
			b := &ownh.B{}
			k := b.Env("ok", []int{1}, ownh.T(1, 1, "ok", "ok", st.tr, "ok"), ownh.T(2, 2, "ok", "ok", "ok", rng.Pick(rng.New(uint64(f)), []string{"ok", "failed", "delay"})))
			p := probe(b, []int{2})
			b.Round(ownh.New(k))
			for _, ev := range st.prep {
				b.Round(ownh.Ctl(k, ev))
			}
			b.Round(ownh.Destroy(k, force, allow, keep)).Round(ownh.New(p)).Round(ownh.Destroy(k, force, allow, keep)).Round(ownh.Cleanup())
			add("destroy-"+st.name, b)
		}
	}
	// the STOP / RESET issued by DestroyEnvironment fails
	for _, tr := range []string{"STOP:stay", "STOP:err", "RESET:stay", "RESET:err"} {
		for _, keep := range []bool{false, true} {
			b := &ownh.B{}
			k := b.Env("ok", []int{3}, ownh.T(1, 1, "ok", "ok", tr, "ok"), ownh.OKT(2, 3))
			p := probe(b, []int{3})
			b.Round(ownh.New(k))
			if tr[:4] == "STOP" {
				b.Round(ownh.Ctl(k, "START"))
			}
			b.Round(ownh.Destroy(k, false, true, keep)).Round(ownh.New(p))
			add("destroy-inner-failure", b)
		}
	}
	// creation failing at every stage, next to a live environment; then what was left behind gets every chance to show
	type stage struct {
		tag   string
		bad   string
		flps  []int
		roles []*sx.Node
	}
	stages := []stage{
		{"create-fails-load", "nowf", []int{3}, []*sx.Node{ownh.OKT(11, 1)}},
		{"create-fails-load", "noclass", []int{3}, []*sx.Node{ownh.OKT(11, 1)}},
		{"create-fails-detector", "ok", []int{2, 3}, []*sx.Node{ownh.OKT(11, 1), ownh.OKT(12, 3)}},
		{"create-fails-deploy", "ok", []int{3}, []*sx.Node{ownh.T(11, 1, "die", "ok", "ok", "ok")}},
		{"create-fails-deploy", "ok", []int{3}, []*sx.Node{ownh.T(11, 1, "die", "ok", "ok", "ok"), ownh.T(12, 2, "slow", "ok", "ok", "ok"), ownh.T(13, 3, "slow", "ok", "ok", "ok")}},
		{"create-fails-deploy", "ok", []int{3}, []*sx.Node{ownh.T(11, 1, "die", "ok", "ok", "ok"), ownh.OKT(12, 2), ownh.OKT(13, 3)}},
		{"create-fails-deploy", "ok", []int{3}, []*sx.Node{ownh.OKT(11, 1), ownh.T(12, 2, "slow", "ok", "ok", "ok")}},
		{"create-fails-configure", "ok", []int{3}, []*sx.Node{ownh.T(11, 1, "ok", "stay", "ok", "ok"), ownh.OKT(12, 2)}},
		{"create-fails-configure", "ok", []int{3}, []*sx.Node{ownh.OKT(11, 1), ownh.T(12, 2, "ok", "err", "ok", "failed"), ownh.P()}},
		{"create-fails-configure", "ok", []int{3}, []*sx.Node{ownh.T(11, 1, "ok", "err", "ok", "ok"), ownh.H(12, 2, 10, false, "ok", "ok")}},
	}
	for _, st := range stages {
		b := &ownh.B{}
		live := b.Env("ok", []int{1}, ownh.OKT(1, 1), ownh.OKT(2, 2))
		k := b.Env(st.bad, st.flps, st.roles...)
		p := probe(b, []int{3})
		b.Round(ownh.New(live)).Round(ownh.New(k)).Round(ownh.Rel(k)).Round(ownh.New(p)).Round(ownh.Cleanup()).Round(ownh.Destroy(live, false, false, false))
		add(st.tag, b)
	}
	// a role pinned to a host that does not exist (last: the simulated master does not re-offer)
	{
		b := &ownh.B{}
		k := b.Env("ok", []int{1}, ownh.OKT(1, 1), ownh.OKT(2, 9))
		b.Round(ownh.New(k))
		add("create-fails-deploy", b)
	}
	// DESTROY hooks: one, two at one weight, several weights, after_DESTROY overriding DESTROY, failing hook; every destroy flavour
	hookSets := [][]*sx.Node{
		{ownh.H(3, 1, 10, false, "ok", "ok")},
		{ownh.H(3, 1, 10, false, "ok", "ok"), ownh.H(4, 2, 10, false, "ok", "ok")},
		{ownh.H(3, 1, 10, false, "ok", "ok"), ownh.H(4, 2, 20, false, "ok", "ok")},
		{ownh.H(3, 1, -5, false, "ok", "ok"), ownh.H(4, 2, 0, true, "ok", "ok"), ownh.H(5, 3, 30, false, "ok", "fail")},
		{ownh.H(3, 1, 10, false, "ok", "ok"), ownh.H(4, 2, 10, true, "ok", "ok")},
		{ownh.H(3, 1, 0, true, "ok", "fail")},
	}
	for i, hs := range hookSets {
		for f := 0; f < 4; f++ {
			force, keep := f&2 != 0, f&1 != 0
			b := &ownh.B{}
			roles := append([]*sx.Node{ownh.OKT(1, 1), ownh.OKT(2, 4)}, hs...)
			if i%2 == 1 {
				roles = append(roles, ownh.P())
			}
			k := b.Env("ok", []int{1}, roles...)
			p := probe(b, []int{1})
			b.Round(ownh.New(k))
			if f == 3 {
				b.Round(ownh.Ctl(k, "START"))
			}
			b.Round(ownh.Destroy(k, force, true, keep)).Round(ownh.New(p)).Round(ownh.Cleanup())
			add(fmt.Sprintf("destroy-hooks-%d", len(hs)), b)
		}
	}
	// a task of the environment lost its executor / agent before the destroy: in CONFIGURED / RUNNING / DEPLOYED, FAILURE event with
	// and without the terminal status updates; every destroy flavour once, force+keepTasks (the only one that keeps the
	// roster entries of an environment in ERROR) every time
	{
		prep := map[string][]string{"CONFIGURED": nil, "RUNNING": {"START"}, "DEPLOYED": {"RESET"}}
		n := 0
		for _, st := range []string{"CONFIGURED", "RUNNING", "DEPLOYED"} {
			for _, agent := range []bool{false, true} {
				for _, upd := range []bool{false, true} {
					fl := []int{5, n % 8}
					if st == "CONFIGURED" && !agent && !upd {
						fl = []int{0, 1, 2, 3, 4, 5, 6, 7}
					}
					n++
					for _, f := range fl {
						force, allow, keep := flags(f)
						b := &ownh.B{}
						k := b.Env("ok", []int{1}, ownh.OKT(1, 1), ownh.OKT(2, 2))
						p := probe(b, []int{2})
						b.Round(ownh.New(k))
						for _, ev := range prep[st] {
							b.Round(ownh.Ctl(k, ev))
						}
						loss := ownh.XFail(k, 0, upd)
						if agent {
							loss = ownh.AFail(k, 0, upd)
						}
						b.Round(loss).Round(ownh.Destroy(k, force, allow, keep)).Round(ownh.New(p)).Round(ownh.Destroy(k, force, allow, keep)).Round(ownh.Cleanup())
						add("destroy-after-loss-"+st, b)
					}
				}
			}
		}
	}
	// one executor / agent serving two environments; both are destroyed afterwards
	for i, agent := range []bool{false, true} {
		b := &ownh.B{}
		a := b.Env("ok", []int{1}, ownh.OKT(1, 1), ownh.OKT(2, 2))
		c := b.Env("ok", []int{3}, ownh.OKT(11, 1), ownh.OKT(12, 3), ownh.P())
		p := probe(b, []int{1})
		loss := ownh.XFail(a, 0, i == 0)
		if agent {
			loss = ownh.AFail(a, 0, i == 0)
		}
		b.Round(ownh.New(a)).Round(ownh.New(c)).Round(ownh.Ctl(c, "START")).Round(loss).
			Round(ownh.Destroy(a, true, false, true), ownh.Destroy(c, false, true, false)).Round(ownh.New(p)).Round(ownh.Cleanup())
		add("destroy-after-loss-shared-host", b)
	}
	// the lost task is a DESTROY hook task (not critical: no watcher reaction, the hook is skipped), or was kept by an earlier destroy
	for _, keep := range []bool{false, true} {
		b := &ownh.B{}
		k := b.Env("ok", []int{1}, ownh.OKT(1, 1), ownh.OKT(2, 4), ownh.H(3, 2, 10, false, "ok", "ok"))
		p := probe(b, []int{1})
		b.Round(ownh.New(k)).Round(ownh.XFail(k, 2, keep)).Round(ownh.Destroy(k, false, true, keep)).Round(ownh.New(p)).Round(ownh.Cleanup())
		add("destroy-after-loss-hook", b)
	}
	{
		b := &ownh.B{}
		k := b.Env("ok", []int{1}, ownh.OKT(1, 1), ownh.OKT(2, 2))
		p := probe(b, []int{1})
		b.Round(ownh.New(k)).Round(ownh.Ctl(k, "RESET")).Round(ownh.Destroy(k, false, false, true)).Round(ownh.XFail(k, 0, true)).Round(ownh.AFail(k, 1, false)).
			Round(ownh.New(p)).Round(ownh.Cleanup())
		add("loss-after-destroy", b)
	}
	// the loss hits inside the creation's CONFIGURE (the watcher is not subscribed yet): configuration then fails
	// (failure tail: GO_ERROR, forced teardown, KillTasks) or succeeds (the environment is CONFIGURED with a lost task; destroyed afterwards)
	{
		n := 0
		for _, cfg := range []string{"stay", "err", "ok"} {
			for _, agent := range []bool{false, true} {
				for _, upd := range []bool{false, true} {
					b := &ownh.B{}
					live := b.Env("ok", []int{1}, ownh.OKT(1, 1), ownh.OKT(2, 2))
					k := b.Env("ok", []int{3}, ownh.T(11, 3, "ok", cfg, "ok", "ok"), ownh.OKT(12, 4), ownh.OKT(13, 2))
					p := b.Env("ok", []int{3}, ownh.OKT(91, 3))
					loss := ownh.XFail(k, 1, upd)
					if agent {
						loss = ownh.AFail(k, 1, upd)
					}
					b.Round(ownh.New(live)).Round(ownh.New(k), loss)
					tag := "create-fails-after-loss"
					if cfg == "ok" {
						tag = "create-with-loss"
						force, allow, keep := flags([]int{1, 5, 3, 7}[n%4])
						n++
						b.Round(ownh.Destroy(k, force, allow, keep))
					}
					b.Round(ownh.New(p)).Round(ownh.Cleanup()).Round(ownh.Destroy(live, false, false, false))
					add(tag, b)
				}
			}
		}
	}
	// a destroy that arrives WHILE the environment is being created (the environment is addressable from the moment it is
	// entered in the map; the deployment is held open at a launch gate until the core has logged that the teardown waits
	// for the transition mutex): creation succeeding / failing at deployment (the held task dies, a sibling dies, a slow
	// sibling) / failing at configuration, plain tasks, DESTROY hooks, pending calls; every flag combination on the plain
	// shapes, force x keepTasks on the others; afterwards a creation needing the same detector and a cleanup
	{
		type shape struct {
			tag   string
			roles []*sx.Node
			all   bool
		}
		shapes := []shape{
			{"ok", []*sx.Node{ownh.OKT(1, 1), ownh.OKT(2, 2)}, true},
			{"ok", []*sx.Node{ownh.OKT(1, 1)}, false},
			{"ok-hooks", []*sx.Node{ownh.OKT(1, 1), ownh.OKT(2, 4), ownh.H(3, 2, 10, false, "ok", "ok")}, true},
			{"ok-hooks", []*sx.Node{ownh.OKT(1, 1), ownh.H(3, 2, 10, false, "ok", "ok"), ownh.H(4, 3, 20, true, "ok", "fail"), ownh.P()}, false},
			{"ok-calls", []*sx.Node{ownh.OKT(1, 1), ownh.OKT(2, 3), ownh.P()}, false},
			{"deploy-fails", []*sx.Node{ownh.T(1, 1, "die", "ok", "ok", "ok"), ownh.OKT(2, 2)}, true},
			{"deploy-fails", []*sx.Node{ownh.OKT(1, 1), ownh.T(2, 2, "die", "ok", "ok", "ok"), ownh.OKT(3, 3)}, false},
			{"deploy-fails", []*sx.Node{ownh.OKT(1, 1), ownh.T(2, 2, "slow", "ok", "ok", "ok")}, false},
			{"deploy-fails", []*sx.Node{ownh.T(1, 1, "slow", "ok", "ok", "ok"), ownh.OKT(2, 2), ownh.H(3, 3, 10, false, "ok", "ok")}, false},
			{"configure-fails", []*sx.Node{ownh.T(1, 1, "ok", "stay", "ok", "ok"), ownh.OKT(2, 2)}, true},
			{"configure-fails", []*sx.Node{ownh.OKT(1, 1), ownh.T(2, 2, "ok", "err", "ok", "ok"), ownh.H(3, 3, 10, false, "ok", "ok")}, false},
			{"configure-fails", []*sx.Node{ownh.OKT(1, 1), ownh.T(2, 2, "ok", "err", "ok", "failed"), ownh.P()}, false},
		}
		for i, sh := range shapes {
			fl := []int{0, 1, 4, 5}
			if sh.all {
				fl = []int{0, 1, 2, 3, 4, 5, 6, 7}
			}
			for _, f := range fl {
				force, allow, keep := flags(f)
				b := &ownh.B{}
				var live int
				withLive := (i+f)%3 == 0
				if withLive {
					live = b.Env("ok", []int{3}, ownh.OKT(81, 1), ownh.OKT(82, 3))
				}
				k := b.Env("ok", []int{1}, sh.roles...)
				p := probe(b, []int{2})
				if withLive {
					b.Round(ownh.New(live))
				}
				b.Round(ownh.NewD(k, force, allow, keep)).Round(ownh.New(p)).Round(ownh.Cleanup())
				if withLive {
					b.Round(ownh.Destroy(live, false, false, false))
				}
				add("create-destroy-overlap-"+sh.tag, b)
			}
		}
	}
	// a KILL call fails: the master answers the first KILL call naming a task of the class with an error (a transient scheduler-API
	// fault). doKillTasks puts the task back into the roster and reports "could not kill some tasks"; a DestroyEnvironment whose
	// clean-up met the failure must answer an error (the environment is gone all the same), a CleanupTasks request too; the
	// pre-deployment cleanup and the failure tail of a creation only log it. With mesos-go the failed call also drops the
	// subscription: the KILL calls that follow in the same loop fail at the client (which ones: roster order, a Go map iteration —
	// read off the snapshot), now and then one still gets through. Shapes: the failing kill first / last / in the middle of 2–4
	// tasks, two failing kills, with a DESTROY hook, every destroy flavour on the first shape (keepTasks: nothing is killed, the
	// cleanup that follows meets the failure), from RUNNING, after a lost executor; then a cleanup (the fault is over: it kills
	// what was put back), a creation needing the same detector, a cleanup.
	{
		type shape struct {
			roles []*sx.Node
			all   bool
		}
		rf := func(cls, host int) *sx.Node { return ownh.T(cls, host, "ok", "ok", "ok", "refuse") }
		shapes := []shape{
			{[]*sx.Node{rf(1, 1), ownh.OKT(2, 2)}, true},
			{[]*sx.Node{ownh.OKT(1, 1), rf(2, 2)}, false},
			{[]*sx.Node{ownh.OKT(1, 1), rf(2, 2), ownh.OKT(3, 3)}, true},
			{[]*sx.Node{rf(1, 1), ownh.OKT(2, 2), ownh.OKT(3, 3), ownh.OKT(4, 4)}, false},
			{[]*sx.Node{ownh.OKT(1, 1), ownh.OKT(2, 2), rf(3, 3), rf(4, 4)}, false},
			{[]*sx.Node{ownh.OKT(1, 1), rf(2, 4), ownh.H(3, 2, 10, false, "ok", "ok")}, false},
			{[]*sx.Node{rf(1, 1)}, false},
		}
		for i, sh := range shapes {
			fl := []int{0, 4, 2}
			if sh.all {
				fl = []int{0, 1, 2, 3, 4, 5, 6, 7}
			}
			for _, f := range fl {
				force, allow, keep := flags(f)
				b := &ownh.B{}
				k := b.Env("ok", []int{1}, sh.roles...)
				p := probe(b, []int{2})
				b.Round(ownh.New(k))
				if allow {
					b.Round(ownh.Ctl(k, "START"))
				}
				if (i+f)%4 == 3 {
					b.Round(ownh.Ctl(k, "RESET"))
				}
				b.Round(ownh.Destroy(k, force, allow, keep)).Round(ownh.Cleanup()).Round(ownh.New(p)).Round(ownh.Cleanup())
				add("destroy-kill-refused", b)
			}
		}
		// the same after the core has been connected for more than a second: its controller's registration token is unspent, so it
		// re-subscribes AT ONCE after the failed call — while doKillTasks is still going through its list: the kills after the failed
		// one fail at the client until the new subscription stands, the ones after that succeed. A failed kill FOLLOWED by successful
		// ones in one loop (which position the failing kill has: roster order; how many of the later ones fail: a race inside the
		// core — every outcome is judged, none is expected). 6–10 tasks, the failing class at varying positions, forced / plain destroy.
		for i := 0; i < 30; i++ {
			n := []int{6, 8, 10}[i%3]
			var roles []*sx.Node
			for j := 0; j < n; j++ {
				if j == (i/3)%n {
					roles = append(roles, rf(j+1, j%4+1))
				} else {
					roles = append(roles, ownh.OKT(j+1, j%4+1))
				}
			}
			b := &ownh.B{}
			k := b.Env("ok", []int{1}, roles...)
			b.Round(ownh.New(k)).Round(ownh.Idle(1100 + 10*(i/15))).Round(ownh.Destroy(k, i%2 == 0, false, false)).Round(ownh.Cleanup())
			add("destroy-kill-refused-reconnect", b)
		}
		// the executor of the refusing task was lost before: it is INACTIVE, dropped without a KILL call — nothing can fail
		{
			b := &ownh.B{}
			k := b.Env("ok", []int{1}, rf(1, 1), ownh.OKT(2, 2))
			p := probe(b, []int{2})
			b.Round(ownh.New(k)).Round(ownh.XFail(k, 0, true)).Round(ownh.Destroy(k, true, false, false)).Round(ownh.New(p)).Round(ownh.Cleanup())
			add("destroy-kill-refused", b)
		}
		// next to a live environment on the same hosts: its tasks are locked, no KILL call names them
		for _, f := range []int{0, 4} {
			force, allow, keep := flags(f)
			b := &ownh.B{}
			live := b.Env("ok", []int{3}, ownh.OKT(81, 1), ownh.OKT(82, 2))
			k := b.Env("ok", []int{1}, ownh.OKT(1, 1), rf(2, 2), ownh.OKT(3, 1))
			b.Round(ownh.New(live)).Round(ownh.New(k)).Round(ownh.Destroy(k, force, allow, keep)).Round(ownh.Cleanup()).Round(ownh.Destroy(live, false, false, false))
			add("destroy-kill-refused", b)
		}
		// the KillTasks of a creation's failure tail meets the failure: only logged, the creation answers its own error, the task
		// falls to the next cleanup
		for _, cfg := range []string{"stay", "err"} {
			b := &ownh.B{}
			k := b.Env("ok", []int{1}, ownh.T(1, 1, "ok", cfg, "ok", "ok"), rf(2, 2), ownh.OKT(3, 3))
			p := probe(b, []int{1})
			b.Round(ownh.New(k)).Round(ownh.Cleanup()).Round(ownh.New(p)).Round(ownh.Cleanup())
			add("create-fails-kill-refused", b)
		}
	}
	// a creation that fails in acquireTasks' OWN TAIL, after every requested task was launched: the OFFER for one host carried no
	// hostname (role outcome `nohost`), so the task record the core builds from it cannot be locked (Task.isLocked wants hostname,
	// agent id, offer id, task id, executor id and a parent role) — next to siblings that lock fine. acquireTasks declares the
	// deployment failed, un-parents EVERY task it launched, appends them to the roster and gives no role its task; DEPLOY times
	// out; the failure tail (GO_ERROR, forced teardown, KillTasks of the environment's tasks: none) releases and kills nothing; the
	// tasks sit unowned in the roster until the next cleanup. Shapes: the unlockable task first / in the middle / last, a sibling
	// on the SAME host (one offer: it cannot be locked either), nothing lockable at all, a single task, a DESTROY hook task that
	// locks / that is the unlockable one, a pending call, a sibling that dies at launch / is still starting / is scripted to fail
	// CONFIGURE (never reached); alone and next to a live environment on the same hosts; followed by a cleanup (CleanupTasks
	// without ids), a KillTasks on the ids the master launched for it, or another creation (its pre-deployment cleanup), a
	// creation needing the same detector, and a destroy of the failed environment (not found).
	{
		nh := func(cls, host int) *sx.Node { return ownh.T(cls, host, "nohost", "ok", "ok", "ok") }
		shapes := [][]*sx.Node{
			{ownh.OKT(11, 1), nh(12, 2), ownh.OKT(13, 3)},
			{nh(11, 1), ownh.OKT(12, 2)},
			{ownh.OKT(11, 1), ownh.OKT(12, 2), nh(13, 4)},
			{ownh.OKT(11, 1), nh(12, 2), ownh.OKT(13, 2), ownh.OKT(14, 3)},
			{nh(11, 1), nh(12, 2)},
			{nh(11, 3)},
			{ownh.OKT(11, 1), nh(12, 2), ownh.H(13, 3, 10, false, "ok", "ok")},
			{ownh.OKT(11, 1), ownh.OKT(12, 4), ownh.H(13, 2, 10, false, "nohost", "ok")},
			{ownh.OKT(11, 1), nh(12, 2), ownh.P()},
			{ownh.T(11, 1, "die", "ok", "ok", "ok"), nh(12, 2), ownh.OKT(13, 3)},
			{ownh.OKT(11, 1), nh(12, 2), ownh.T(13, 3, "slow", "ok", "ok", "ok")},
			{ownh.OKT(11, 1), nh(12, 2), ownh.T(13, 3, "ok", "err", "ok", "failed")},
		}
		for i, roles := range shapes {
			for v := 0; v < 3; v++ {
				b := &ownh.B{}
				withLive := (i+v)%2 == 0
				var live int
				if withLive {
					live = b.Env("ok", []int{1}, ownh.OKT(1, 1), ownh.OKT(2, 2), ownh.OKT(3, 3))
				}
				k := b.Env("ok", []int{3}, roles...)
				p := probe(b, []int{3})
				if withLive {
					b.Round(ownh.New(live))
				}
				b.Round(ownh.New(k)).Round(ownh.Rel(k))
				switch v {
				case 0:
					b.Round(ownh.Cleanup()).Round(ownh.New(p))
				case 1:
					b.Round(ownh.KillEnv(k)).Round(ownh.New(p)).Round(ownh.Cleanup())
				default:
					b.Round(ownh.New(p)).Round(ownh.Destroy(k, true, false, false)).Round(ownh.Cleanup())
				}
				if withLive {
					b.Round(ownh.Destroy(live, false, false, false)).Round(ownh.Cleanup())
				}
				add("create-fails-lock", b)
			}
		}
		// … and a destroy that arrives while that creation is in flight (the deployment is open until its timeout: nothing the
		// roles could become ACTIVE with): the teardown waits behind DEPLOY and is served on an environment that references no task
		for i, roles := range [][]*sx.Node{shapes[0], shapes[1], shapes[3], shapes[6]} {
			for _, f := range []int{0, 4, 5, 1} {
				force, allow, keep := flags(f)
				b := &ownh.B{}
				withLive := (i+f)%2 == 1
				var live int
				if withLive {
					live = b.Env("ok", []int{3}, ownh.OKT(81, 1), ownh.OKT(82, 2))
					b.Round(ownh.New(live))
				}
				k := b.Env("ok", []int{1}, roles...)
				p := probe(b, []int{2})
				b.Round(ownh.NewD(k, force, allow, keep)).Round(ownh.New(p)).Round(ownh.Cleanup())
				if withLive {
					b.Round(ownh.Destroy(live, false, false, false))
				}
				add("create-destroy-overlap-lock-fails", b)
			}
		}
	}
	// pending calls, two destroys at once, destroy next to another environment's control
	{
		b := &ownh.B{}
		a := b.Env("ok", []int{1}, ownh.OKT(1, 1), ownh.P(), ownh.P())
		c := b.Env("ok", []int{3}, ownh.OKT(11, 1), ownh.OKT(12, 2), ownh.P())
		b.Round(ownh.New(a), ownh.New(c)).Round(ownh.Ctl(c, "START"), ownh.Destroy(a, true, false, false), ownh.Destroy(a, true, false, false)).
			Round(ownh.Destroy(c, false, false, false)).Round(ownh.Destroy(c, false, true, false))
		add("destroy-concurrent", b)
	}
	return cs
}

func genCase(r *rng.R) fw.Case {
	b := &ownh.B{}
	nEnv := r.Range(1, 3)
	for i := 0; i < nEnv; i++ {
		b.RandEnv(r, ownh.EnvOpts{FailP: 200, HookP: 350, CallP: 150, NoHostP: 120})
	}
	probe := b.Env("ok", []int{r.Range(1, 4)}, ownh.OKT(91, 4))
	var created []int
	next := 0
	nRounds := r.Range(3, 7)
	lossTag := ""
	overlapTag := ""
	lockTag := ""
	for i := 0; i < nRounds; i++ {
		// now and then an executor (or, once every environment exists, an agent other than the probe's) is lost: a round of its own
		if len(created) > 0 && r.P(1, 6) {
			k := rng.Pick(r, created)
			if j, host, ok := lossTarget(r, b.Envs[k]); ok {
				upd := r.P(1, 2)
				if next == nEnv && host != 4 && r.P(1, 3) {
					b.Round(ownh.AFail(k, j, upd))
				} else {
					b.Round(ownh.XFail(k, j, upd))
				}
				lossTag = "with-loss"
				continue
			}
		}
		n := 1
		if r.P(1, 4) {
			n = 2
		}
		var ops []*sx.Node
		var newHere []int
		// DestroyEnvironment's STOP / RESET / teardown are separate critical sections: another request on the
		// same environment can slip in between; the model destroys in one step, so a round names an environment once
		touched := map[int]string{}
		for j := 0; j < n; j++ {
			switch {
			case next < nEnv && (len(created) == 0 || r.P(1, 3)):
				if b.EnvNoHost(next) {
					// the offers without hostname are those of THIS creation only if it is the only creation of its round
					if len(newHere) > 0 {
						ops = append(ops, ownh.Cleanup())
						continue
					}
					lockTag = "with-lock-failure"
					if r.P(1, 5) {
						ops = append(ops, ownh.NewD(next, r.P(1, 2), r.P(1, 2), r.P(1, 3)))
						overlapTag = "with-overlap"
					} else {
						ops = append(ops, ownh.New(next))
					}
					newHere = append(newHere, next)
					next++
					j = n
					break
				}
				if j == 0 && r.P(1, 5) {
					// the creation is destroyed while it is in flight: a round of its own
					ops = append(ops, ownh.NewD(next, r.P(1, 2), r.P(1, 2), r.P(1, 3)))
					newHere = append(newHere, next)
					next++
					overlapTag = "with-overlap"
					j = n
					break
				}
				ops = append(ops, ownh.New(next))
				newHere = append(newHere, next)
				next++
			case len(created) == 0:
				ops = append(ops, ownh.Cleanup())
			default:
				k := rng.Pick(r, created)
				kind := r.N(10)
				isDestroy := (kind >= 3 && kind <= 7)
				if _, ok := touched[k]; ok {
					ops = append(ops, ownh.Cleanup())
					continue
				}
				if isDestroy {
					touched[k] = "destroy"
				} else {
					touched[k] = "other"
				}
				switch kind {
				case 0, 1, 2:
					evs := []string{"START", "START", "STOP", "RESET", "CONFIGURE"}
					if startGoesToError(b.Envs[k]) {
						// a START that takes a task to ERROR while its siblings reach RUNNING wakes the environment's watcher, which STOPs them
						// 0.5 s later — unobserved by the harness (only a loss operation waits for it): whether a later snapshot shows the
						// siblings RUNNING or CONFIGURED would depend on how long the following rounds take (a creation that fails at
						// deployment takes its whole deploy_timeout). The systematic part covers that state with the destroy right behind it.
						evs = []string{"STOP", "STOP", "RESET", "RESET", "CONFIGURE"}
					}
					ops = append(ops, ownh.Ctl(k, rng.Pick(r, evs)))
				case 3, 4, 5, 6, 7:
					ops = append(ops, ownh.Destroy(k, r.P(1, 3), r.P(1, 2), r.P(1, 3)))
				case 8:
					ops = append(ops, ownh.Cleanup())
				default:
					ops = append(ops, ownh.Rel(k))
				}
			}
		}
		b.SafeRound(ops...)
		created = append(created, newHere...)
	}
	b.Round(ownh.New(probe))
	tags := []string{"random", fmt.Sprintf("envs=%d", nEnv)}
	if lossTag != "" {
		tags = append(tags, "random-"+lossTag)
	}
	if overlapTag != "" {
		tags = append(tags, "random-"+overlapTag)
	}
	if lockTag != "" {
		tags = append(tags, "random-"+lockTag)
	}
	return fw.Case{Input: b.String(), Tags: tags}
}

// startGoesToError: a task role of the environment is scripted to answer START with an error and go to ERROR.
func startGoesToError(env *sx.Node) bool {
	for _, ro := range env.At(2).List {
		if ro.At(0).Str() == "T" && ro.At(5).Str() == "START:err" {
			return true
		}
	}
	return false
}

// lossTarget picks a task role of the environment whose executor / agent may be lost: only in
// environments without scripted transition failures (a task going to ERROR in a transition
// wakes the environment's watcher 0.5 s later, unobserved; a loss on top of that would race it).
func lossTarget(r *rng.R, env *sx.Node) (j, host int, ok bool) {
	var cand [][2]int
	for i, ro := range env.At(2).List {
		switch ro.At(0).Str() {
		case "T":
			if ro.At(5).Str() != "ok" {
				return 0, 0, false
			}
			cand = append(cand, [2]int{i, ro.At(2).Int()})
		case "H":
			cand = append(cand, [2]int{i, ro.At(2).Int()})
		}
	}
	if len(cand) == 0 {
		return 0, 0, false
	}
	c := rng.Pick(r, cand)
	return c[0], c[1], true
}

func generate(tier string, r *rng.R) []fw.Case {
	n := 60
	if tier == "thorough" {
		n = 1200
	}
	cs := matrix()
	for i := 0; i < n; i++ {
		cs = append(cs, genCase(r.Fork()))
	}
	return cs
}

func nontrivial(input, obs string) bool {
	_, rounds, ops, creates, destroys := ownh.Shape(input)
	return rounds >= 3 && ops >= 3 && creates >= 1 && (destroys >= 1 || creates >= 2)
}

func init() {
	fw.Register(&fw.Property{
		ID:         "C06",
		Generate:   generate,
		RunImpl:    ownh.RunRetry,
		Nontrivial: nontrivial,
		ObsTags:    ownh.OverlapTags,
		Rule: "systematic part: destroy in {CONFIGURED, RUNNING, DEPLOYED, ERROR after failed START, ERROR after failed STOP} x all 8 combinations of " +
			"force/allowInRunningState/keepTasks (each followed by a creation needing the same detector, a second destroy and a cleanup), the STOP/RESET issued by destroy failing, " +
			"creation failing at template load (no workflow, no task class), detector check, deployment (task dies at launch with prompt / slow siblings, slow task only, no such host) " +
			"and configuration (task stays / goes to ERROR, with hook task, with pending call) next to a live environment, DESTROY/after_DESTROY hook tasks (1; 2 at one weight; 2 and 3 weights; " +
			"after_DESTROY overriding DESTROY; failing hook) x force x keepTasks, pending calls, concurrent destroys, " +
			"a task of the environment lost its executor / its agent (FAILURE event with and without the terminal status updates) in CONFIGURED / RUNNING / DEPLOYED before a destroy " +
			"(all 8 flag combinations once, force+keepTasks and one more every time), one executor / agent serving two environments, a lost DESTROY hook task, a loss after a destroy that kept the tasks, " +
			"the loss hitting inside the creation's CONFIGURE (held at a gate) which then fails (stay / ERROR: failure tail) or succeeds (destroyed afterwards, keepTasks), " +
			"a destroy issued WHILE the environment is being created (deployment held open at a launch gate until the core has logged that the teardown waits for the transition mutex): creation succeeding (plain tasks, DESTROY hooks at 1-2 weights, pending call) / " +
			"failing at deployment (held task dies, sibling dies, slow sibling) / failing at configuration (stay, ERROR, with hook, with call), all 8 flag combinations on four shapes, force x keepTasks on the others, every third next to a live environment; " +
			"a creation failing in acquireTasks' own tail after every task was launched (the OFFER for one host carried no hostname: the task placed there cannot be locked): the unlockable task first / in the middle / last of 2-4, " +
			"a sibling sharing the offer, nothing lockable, a single task, a DESTROY hook task that locks / that is the unlockable one, a pending call, a sibling dying at launch / still starting / scripted to fail CONFIGURE, " +
			"each alone and next to a live environment on the same hosts, followed by CleanupTasks / KillTasks on its tasks / another creation and a destroy of the failed environment, and four of the shapes destroyed while in flight (4 flag combinations); random part: 1–3 environments (20% of roles with a scripted failure, " +
			"35% with hooks, 15% with pending calls, 12% of the environments with one task role on an offer without hostname), 3–7 rounds of 1–2 concurrent requests dominated by destroys, one round in six a lost executor / agent instead, one creation in five destroyed while in flight (random flags); each scenario = one real core in its own process; " +
			"non-trivial = >=3 rounds, >=3 requests, a creation and (a destroy or a second creation); distinct by input text",
		Shrink:  ownh.Shrink,
		Workers: 6,
		TrustedBase: []string{
			"harness/sim (whole-core simulator: Mesos master/agents/executors with outcome scripts and gates, Consul KV, workflow repository) and /repo/core/verif_hooks.go (core.RunForVerif)",
			"harness/ownh (scenario engine: canonical names from the master's task table, settled snapshots through the gRPC API, hook gates, hang diagnosis, pending-call lines of the core's debug log)",
			"Driver/OwnCommon.lean (monitor: interleaving search, oracles read off the observation, view rendering)",
		},
		Assumptions: []string{
			"the simulated master answers KILL at once (fairness premise: the master eventually reports killed tasks; KillTasks blocks on the acknowledgement)",
			"which KILL calls failed in a round of a scenario that scripts a refused KILL is read off the snapshot after the round (a task still running, no KILL counted, back in the roster without an owner) and fed to the model as State.refusing; " +
				"what the model decides from it — the request answers an error, the environment is gone, the task sits in the roster — is compared; scenarios that script no refusal are replayed with every KILL succeeding, as before; " +
				"a round is issued only while the core's scheduler is subscribed (it re-subscribes by itself after a failed call; ceiling = inconclusive)",
			"a call that has not returned after 12 s (normal: 0.05–5 s) is recorded as a hang only when the core itself lists the environment inside transition DESTROY, or — if the core no longer answers GetEnvironment(s) either — " +
				"when its goroutine dump (SIGQUIT; the scenario ends) shows the environment manager's RWMutex deadlocked: a goroutine in sync.RWMutex.RLock inside (*Manager).environment called from TeardownEnvironment and one in sync.RWMutex.Lock in a method of (*Manager), " +
				"on adjacent semaphore words (snapshot `wedged`, finding teardown_recursive_rlock); otherwise the case is inconclusive",
			"'pending calls cancelled' is read from the core's debug log line of the call goroutine (hook:<trigger>:<role> cancelled)",
			"whether an environment's watcher reacts to a lost critical task (GO_ERROR, STOP of the RUNNING tasks, 0.5 s later) is read from the core's log line of subscribeToWfState and fed to the model; " +
				"the harness waits for it exactly when the environment is listed, not in transition, and its workflow was not in ERROR before (ceiling reached = inconclusive)",
			"whether a destroy issued during a creation really overlapped it is read from the core's log line 'environment teardown attempt delayed: transition … in progress' (observation field OV, evidence tags overlap-real:<transition> / overlap-sequential); " +
				"a destroy that was not delayed is judged as a sequential one, nothing is concluded from timing",
			"release failures cannot be scripted through the API (they need a task locked by another environment); that branch is covered by the model and its theorems only",
			"role outcome `nohost`: the simulated master sends the OFFER for the role's host with an EMPTY hostname (mesos.Offer.Hostname is a plain string field; ids, attributes, resources as ever) from the moment the creation is requested until it has returned — " +
				"the creation is the only one of its round, so these offers are its own; not combined with reuseUnlockedTasks (the model admits offers without hostname only without reuse); " +
				"whether the core had processed the TASK_RUNNING of a task that such a creation leaves unowned in the roster by the time a sweep reaches it (KILL or silent drop) is read off the later snapshots of the scenario",
		},
	})
}
