package c06

import (
	"bytes"
	"fmt"
	"go/ast"
	"go/parser"
	"go/printer"
	"go/token"
	"path/filepath"
	"strings"

	"verifharness/fw"
)

// go/ast facts about core/environment/manager.go.
//
// entryRemovedInLookupSection — the event loop of NewEnvManager, `case *event.TasksReleasedEvent:`.
// Holds iff the clause looks `…pendingTeardownsCh[…]` up exactly once, between a `….mu.Lock()`
// (the write lock, not RLock) and the next `….mu.Unlock()`; at least one
// `delete(….pendingTeardownsCh, …)` stands in that same section; NO delete of pendingTeardownsCh
// stands anywhere else in the clause; and no channel send stands inside the section. Then the only
// entry the loop ever removes is the one it has just read, and the hand-over happens outside the lock
// (model: Own.Rdv with atomic = true; Cfg.lateDelete is the negation — C06_rendezvous_is_code).
//
// hookReleaseAllWeights — TeardownEnvironment. Holds iff every re-assignment (`=`, not `:=`) of
// `taskmanMessage` stands outside every for / range statement, and its task-list argument is a variable
// that inside the loop over the weights is only ever appended to (`x = append(x, …)`), the appended
// list being the result of `FilterTasks()` before any `.Filtered(` is applied to it
// (model: Own.tdMsg names effHooks; Cfg.lastWeightOnly is the negation — C06_hook_release_is_code).

// teardownReadsUnderMutex — TeardownEnvironment. Holds iff the function looks the environment up
// (`env, err := ….environment(…)`), then has a top-level `if !env.transitionMutex.TryLock() { … env.transitionMutex.Lock() … }`
// directly followed by `defer env.transitionMutex.Unlock()`, NO field or method of `env` is touched before that
// if-statement, and `env.Workflow()` is read at least once after it. Then whatever the teardown learns about the
// environment — its state, its task list, its hooks — it learns while it holds the transition mutex, i.e. about the
// environment as it is when the teardown is SERVED, not as it was when the request arrived
// (model: Own.teardown s k reads `s.env? k` of the state it is applied to — C06_teardown_reads_under_mutex_is_code).

// teardownLookupNestedRLock — TeardownEnvironment and (*Manager).environment. Holds iff TeardownEnvironment calls
// `….environment(…)` in the statement between a top-level `envs.mu.RLock()` and the matching `envs.mu.RUnlock()`, AND
// `environment` itself read-locks `envs.mu` (RLock + deferred RUnlock): the read lock is taken twice by one goroutine.
// sync.RWMutex is not reentrant — a writer that calls Lock() between the two makes the second RLock wait for the writer,
// which waits for the first: the environment manager's mutex is dead (model: Own.Rw with nested = Rw.nestedInCode —
// C06_lookup_is_code; finding teardown_recursive_rlock).

func exprStr(fset *token.FileSet, n ast.Node) string {
	var b bytes.Buffer
	printer.Fprint(&b, fset, n)
	return b.String()
}

func findFunc(f *ast.File, name string) *ast.FuncDecl {
	for _, d := range f.Decls {
		if fd, ok := d.(*ast.FuncDecl); ok && fd.Name.Name == name && fd.Body != nil {
			return fd
		}
	}
	return nil
}

func isSelCall(e ast.Expr, suffix string, fset *token.FileSet) bool {
	ce, ok := e.(*ast.CallExpr)
	if !ok {
		return false
	}
	return strings.HasSuffix(exprStr(fset, ce.Fun), suffix)
}

type rdvFacts struct {
	lookups, deletes, deletesInSection, sendsInSection int
	writeLock                                          bool
	ok                                                 bool
}

func rendezvousFacts(repo string) (rdvFacts, error) {
	fset := token.NewFileSet()
	f, err := parser.ParseFile(fset, filepath.Join(repo, "core/environment/manager.go"), nil, 0)
	if err != nil {
		return rdvFacts{}, err
	}
	fn := findFunc(f, "NewEnvManager")
	if fn == nil {
		return rdvFacts{}, fmt.Errorf("core/environment/manager.go: NewEnvManager not found")
	}
	var clause *ast.CaseClause
	ast.Inspect(fn.Body, func(n ast.Node) bool {
		cc, ok := n.(*ast.CaseClause)
		if !ok {
			return true
		}
		for _, e := range cc.List {
			if strings.HasSuffix(exprStr(fset, e), "event.TasksReleasedEvent") {
				clause = cc
			}
		}
		return true
	})
	if clause == nil {
		return rdvFacts{}, fmt.Errorf("NewEnvManager: case *event.TasksReleasedEvent not found")
	}
	var rf rdvFacts
	var lookupPos token.Pos
	type muCall struct {
		pos  token.Pos
		kind string
	}
	var mus []muCall
	var deletes, sends []token.Pos
	for _, st := range clause.Body {
		ast.Inspect(st, func(n ast.Node) bool {
			switch x := n.(type) {
			case *ast.FuncLit:
				return false
			case *ast.IndexExpr:
				if strings.HasSuffix(exprStr(fset, x.X), "pendingTeardownsCh") {
					rf.lookups++
					lookupPos = x.Pos()
				}
			case *ast.SendStmt:
				sends = append(sends, x.Pos())
			case *ast.CallExpr:
				if id, ok := x.Fun.(*ast.Ident); ok && id.Name == "delete" && len(x.Args) == 2 &&
					strings.HasSuffix(exprStr(fset, x.Args[0]), "pendingTeardownsCh") {
					deletes = append(deletes, x.Pos())
				}
				for _, k := range []string{"Lock", "Unlock", "RLock", "RUnlock"} {
					if isSelCall(x, ".mu."+k, fset) {
						mus = append(mus, muCall{x.Pos(), k})
					}
				}
			}
			return true
		})
	}
	rf.deletes = len(deletes)
	if rf.lookups != 1 {
		return rf, nil
	}
	// the section around the lookup: last lock call before it, first unlock call after it
	var start, end token.Pos
	startKind := ""
	for _, m := range mus {
		if m.pos < lookupPos && (m.kind == "Lock" || m.kind == "RLock") {
			start, startKind = m.pos, m.kind
		}
	}
	for _, m := range mus {
		if m.pos > lookupPos && (m.kind == "Unlock" || m.kind == "RUnlock") {
			end = m.pos
			break
		}
	}
	// nothing unlocks between the lock and the lookup
	for _, m := range mus {
		if m.pos > start && m.pos < lookupPos && (m.kind == "Unlock" || m.kind == "RUnlock") {
			start = token.NoPos
		}
	}
	if start == token.NoPos || end == token.NoPos {
		return rf, nil
	}
	rf.writeLock = startKind == "Lock"
	for _, d := range deletes {
		if d > start && d < end {
			rf.deletesInSection++
		}
	}
	for _, s := range sends {
		if s > start && s < end {
			rf.sendsInSection++
		}
	}
	rf.ok = rf.writeLock && rf.deletesInSection >= 1 && rf.deletesInSection == rf.deletes && rf.sendsInSection == 0
	return rf, nil
}

type hookFacts struct {
	reassignments, inLoop int
	argOnlyAppended       bool
	appendedUnfiltered    bool
	ok                    bool
}

func hookReleaseFacts(repo string) (hookFacts, error) {
	fset := token.NewFileSet()
	f, err := parser.ParseFile(fset, filepath.Join(repo, "core/environment/manager.go"), nil, 0)
	if err != nil {
		return hookFacts{}, err
	}
	fn := findFunc(f, "TeardownEnvironment")
	if fn == nil {
		return hookFacts{}, fmt.Errorf("core/environment/manager.go: TeardownEnvironment not found")
	}
	var hf hookFacts
	argName := ""
	var walk func(n ast.Node, loops int)
	// re-assignments of taskmanMessage, and the loop depth they stand at
	walk = func(n ast.Node, loops int) {
		if n == nil {
			return
		}
		switch x := n.(type) {
		case *ast.FuncLit:
			return
		case *ast.ForStmt:
			walk(x.Body, loops+1)
			return
		case *ast.RangeStmt:
			walk(x.Body, loops+1)
			return
		case *ast.AssignStmt:
			if x.Tok == token.ASSIGN && len(x.Lhs) == 1 && exprStr(fset, x.Lhs[0]) == "taskmanMessage" {
				hf.reassignments++
				if loops > 0 {
					hf.inLoop++
				}
				if ce, ok := x.Rhs[0].(*ast.CallExpr); ok && len(ce.Args) >= 3 &&
					strings.HasSuffix(exprStr(fset, ce.Fun), "NewEnvironmentMessage") {
					if id, ok := ce.Args[2].(*ast.Ident); ok {
						argName = id.Name
					}
				}
			}
		}
		first := true
		ast.Inspect(n, func(c ast.Node) bool {
			if first {
				first = false
				return true
			}
			if c != nil {
				walk(c, loops)
			}
			return false
		})
	}
	walk(fn.Body, 0)
	if hf.reassignments == 0 || argName == "" {
		return hf, nil
	}
	// every assignment to the argument variable after its declaration is `x = append(x, y...)`,
	// and y is a variable defined by `y := ….FilterTasks()` that has not been re-assigned before the append
	hf.argOnlyAppended, hf.appendedUnfiltered = true, true
	appends := 0
	ast.Inspect(fn.Body, func(n ast.Node) bool {
		as, ok := n.(*ast.AssignStmt)
		if !ok || as.Tok != token.ASSIGN || len(as.Lhs) != 1 || exprStr(fset, as.Lhs[0]) != argName {
			return true
		}
		ce, ok := as.Rhs[0].(*ast.CallExpr)
		id, isId := ast.Expr(nil), false
		if ok {
			if fid, ok2 := ce.Fun.(*ast.Ident); ok2 && fid.Name == "append" && len(ce.Args) == 2 &&
				exprStr(fset, ce.Args[0]) == argName && ce.Ellipsis != token.NoPos {
				id, isId = ce.Args[1], true
			}
		}
		if !isId {
			hf.argOnlyAppended = false
			return true
		}
		appends++
		src := exprStr(fset, id)
		// find the definition of src and any re-assignment of it before this append
		defined, filteredBefore := false, false
		ast.Inspect(fn.Body, func(m ast.Node) bool {
			a2, ok := m.(*ast.AssignStmt)
			if !ok || len(a2.Lhs) != 1 || exprStr(fset, a2.Lhs[0]) != src || a2.Pos() >= as.Pos() {
				return true
			}
			rhs := exprStr(fset, a2.Rhs[0])
			if a2.Tok == token.DEFINE && strings.HasSuffix(rhs, ".FilterTasks()") {
				defined = true
				filteredBefore = false
			} else {
				filteredBefore = true
			}
			return true
		})
		if !defined || filteredBefore {
			hf.appendedUnfiltered = false
		}
		return true
	})
	if appends == 0 {
		hf.argOnlyAppended = false
	}
	hf.ok = hf.inLoop == 0 && hf.argOnlyAppended && hf.appendedUnfiltered
	return hf, nil
}

type mutexFacts struct {
	lookup, tryLockThenLock, deferredUnlock bool
	readsBefore, workflowReadsAfter         int
	ok                                      bool
}

func teardownMutexFacts(repo string) (mutexFacts, error) {
	fset := token.NewFileSet()
	f, err := parser.ParseFile(fset, filepath.Join(repo, "core/environment/manager.go"), nil, 0)
	if err != nil {
		return mutexFacts{}, err
	}
	fn := findFunc(f, "TeardownEnvironment")
	if fn == nil {
		return mutexFacts{}, fmt.Errorf("core/environment/manager.go: TeardownEnvironment not found")
	}
	var mf mutexFacts
	envVar := ""
	lockIdx := -1
	for i, st := range fn.Body.List {
		if as, ok := st.(*ast.AssignStmt); ok && envVar == "" && as.Tok == token.DEFINE && len(as.Lhs) >= 1 && len(as.Rhs) == 1 &&
			isSelCall(as.Rhs[0], ".environment", fset) {
			if id, ok := as.Lhs[0].(*ast.Ident); ok {
				envVar = id.Name
				mf.lookup = true
			}
			continue
		}
		if is, ok := st.(*ast.IfStmt); ok && envVar != "" && lockIdx < 0 &&
			strings.Contains(exprStr(fset, is.Cond), envVar+".transitionMutex.TryLock()") {
			lockIdx = i
			ast.Inspect(is.Body, func(n ast.Node) bool {
				if ce, ok := n.(*ast.CallExpr); ok && exprStr(fset, ce.Fun) == envVar+".transitionMutex.Lock" {
					mf.tryLockThenLock = true
				}
				return true
			})
		}
	}
	if envVar == "" || lockIdx < 0 {
		return mf, nil
	}
	if lockIdx+1 < len(fn.Body.List) {
		if ds, ok := fn.Body.List[lockIdx+1].(*ast.DeferStmt); ok && exprStr(fset, ds.Call.Fun) == envVar+".transitionMutex.Unlock" {
			mf.deferredUnlock = true
		}
	}
	touches := func(st ast.Stmt, only string) int {
		n := 0
		ast.Inspect(st, func(x ast.Node) bool {
			se, ok := x.(*ast.SelectorExpr)
			if !ok {
				return true
			}
			if id, ok := se.X.(*ast.Ident); ok && id.Name == envVar && (only == "" || se.Sel.Name == only) {
				n++
			}
			return true
		})
		return n
	}
	for i, st := range fn.Body.List {
		switch {
		case i < lockIdx:
			mf.readsBefore += touches(st, "")
		case i > lockIdx+1:
			mf.workflowReadsAfter += touches(st, "Workflow")
		}
	}
	mf.ok = mf.lookup && mf.tryLockThenLock && mf.deferredUnlock && mf.readsBefore == 0 && mf.workflowReadsAfter > 0
	return mf, nil
}

type lookupFacts struct {
	callerHoldsRLock, calleeRLocks bool
}

func lookupLockFacts(repo string) (lookupFacts, error) {
	fset := token.NewFileSet()
	f, err := parser.ParseFile(fset, filepath.Join(repo, "core/environment/manager.go"), nil, 0)
	if err != nil {
		return lookupFacts{}, err
	}
	fn := findFunc(f, "TeardownEnvironment")
	if fn == nil {
		return lookupFacts{}, fmt.Errorf("core/environment/manager.go: TeardownEnvironment not found")
	}
	callee := findFunc(f, "environment")
	if callee == nil {
		return lookupFacts{}, fmt.Errorf("core/environment/manager.go: (*Manager).environment not found")
	}
	var lf lookupFacts
	isMu := func(st ast.Stmt, method string) bool {
		es, ok := st.(*ast.ExprStmt)
		return ok && isSelCall(es.X, ".mu."+method, fset) && strings.HasSuffix(exprStr(fset, es.X), ".mu."+method+"()")
	}
	for i, st := range fn.Body.List {
		as, ok := st.(*ast.AssignStmt)
		if !ok || len(as.Rhs) != 1 || !isSelCall(as.Rhs[0], ".environment", fset) {
			continue
		}
		if i > 0 && i+1 < len(fn.Body.List) && isMu(fn.Body.List[i-1], "RLock") && isMu(fn.Body.List[i+1], "RUnlock") {
			lf.callerHoldsRLock = true
		}
	}
	ast.Inspect(callee.Body, func(n ast.Node) bool {
		if ce, ok := n.(*ast.CallExpr); ok && isSelCall(ce, ".mu.RLock", fset) {
			lf.calleeRLocks = true
		}
		return true
	})
	return lf, nil
}

// killErrorSticky — (*Manager).doKillTasks (core/task/manager.go). Holds iff the function has the named result `err`;
// every call `m.doKillTask(…)` is the right-hand side of a `:=` that defines ONE new variable (a variable of the loop body,
// never the result `err`); every assignment to `err` anywhere in the function stands in the body (not the else) of an
// `if <that variable> != nil`, its right-hand side is a call of errors.New / fmt.Errorf (a constructor: never nil), and the
// same block calls `m.roster.append(task)`; there is at least one such assignment; and every `return` is bare. Then the error
// the function returns is set by EVERY failing kill and by nothing else: no later iteration — and nothing after the loop — can
// reset it (model: Own.killErr = "some KILL call of the list failed", C06_kill_error_not_reset — C06_kill_error_is_code).
//
// killErrorHandedOn — Cleanup and KillTasks assign their result `err` exactly once, from `m.doKillTasks(…)`, and return bare;
// (*RpcServer).doCleanupTasks (core/server.go) assigns its `err` only from `….Cleanup()` / `….KillTasks(…)` and returns bare;
// doTeardownAndCleanup binds `err` from `m.doCleanupTasks(…)` and has, after that statement in the same block, an
// `if err != nil` whose body returns a non-nil last result (model: Own.cleanupTasksErr reaches `tcFin` unchanged).
type killErrFacts struct {
	sticky, handedOn                               bool
	callsLocal, assigns, assignsInFailure, returns int
}

// errAssigns collects the assignments whose left-hand side names `err` and that write the FUNCTION's variable: every `=`,
// and a `:=` only at the top level of the function body (in a nested block `:=` declares a new variable).
func errAssigns(fn *ast.FuncDecl) []*ast.AssignStmt {
	top := map[ast.Stmt]bool{}
	for _, st := range fn.Body.List {
		top[st] = true
	}
	var out []*ast.AssignStmt
	ast.Inspect(fn.Body, func(n ast.Node) bool {
		as, ok := n.(*ast.AssignStmt)
		if !ok {
			return true
		}
		names := false
		for _, l := range as.Lhs {
			if id, ok := l.(*ast.Ident); ok && id.Name == "err" {
				names = true
			}
		}
		if names && (as.Tok == token.ASSIGN || top[as]) {
			out = append(out, as)
		}
		return true
	})
	return out
}

func bareReturns(fn *ast.FuncDecl) (all bool, nonBare int) {
	all = true
	ast.Inspect(fn.Body, func(n ast.Node) bool {
		if _, ok := n.(*ast.FuncLit); ok {
			return false
		}
		if r, ok := n.(*ast.ReturnStmt); ok && len(r.Results) > 0 {
			all = false
			nonBare++
		}
		return true
	})
	return
}

func hasNamedErrResult(fn *ast.FuncDecl) bool {
	if fn.Type.Results == nil {
		return false
	}
	for _, f := range fn.Type.Results.List {
		for _, n := range f.Names {
			if n.Name == "err" {
				return true
			}
		}
	}
	return false
}

func killErrorFacts(repo string) (killErrFacts, error) {
	var kf killErrFacts
	fset := token.NewFileSet()
	f, err := parser.ParseFile(fset, filepath.Join(repo, "core/task/manager.go"), nil, 0)
	if err != nil {
		return kf, err
	}
	fn := findFunc(f, "doKillTasks")
	if fn == nil {
		return kf, fmt.Errorf("core/task/manager.go: doKillTasks not found")
	}
	// the kill calls and the variable each result is bound to
	killVars := map[string]bool{}
	allLocal := true
	ast.Inspect(fn.Body, func(n ast.Node) bool {
		switch x := n.(type) {
		case *ast.AssignStmt:
			if len(x.Rhs) == 1 && isSelCall(x.Rhs[0], ".doKillTask", fset) {
				id, ok := x.Lhs[0].(*ast.Ident)
				if x.Tok == token.DEFINE && len(x.Lhs) == 1 && ok && id.Name != "err" && id.Name != "_" {
					kf.callsLocal++
					killVars[id.Name] = true
				} else {
					allLocal = false
				}
				return false
			}
		case *ast.CallExpr:
			if isSelCall(x, ".doKillTask", fset) {
				allLocal = false // a kill whose result is used otherwise (dropped, returned, part of an expression)
			}
		}
		return true
	})
	// every assignment to err: inside `if <killVar> != nil { … err = errors.New(…) … m.roster.append(task) … }`
	inFailure := map[*ast.AssignStmt]bool{}
	ast.Inspect(fn.Body, func(n ast.Node) bool {
		is, ok := n.(*ast.IfStmt)
		if !ok {
			return true
		}
		be, ok := is.Cond.(*ast.BinaryExpr)
		if !ok || be.Op != token.NEQ {
			return true
		}
		x, ok1 := be.X.(*ast.Ident)
		y, ok2 := be.Y.(*ast.Ident)
		if !ok1 || !ok2 || !killVars[x.Name] || y.Name != "nil" {
			return true
		}
		appends := false
		for _, st := range is.Body.List {
			if es, ok := st.(*ast.ExprStmt); ok && isSelCall(es.X, ".roster.append", fset) {
				appends = true
			}
		}
		for _, st := range is.Body.List {
			as, ok := st.(*ast.AssignStmt)
			if !ok || as.Tok != token.ASSIGN || len(as.Lhs) != 1 || len(as.Rhs) != 1 {
				continue
			}
			if id, ok := as.Lhs[0].(*ast.Ident); !ok || id.Name != "err" {
				continue
			}
			ctor := isSelCall(as.Rhs[0], "errors.New", fset) || isSelCall(as.Rhs[0], "fmt.Errorf", fset)
			if ctor && appends {
				inFailure[as] = true
			}
		}
		return true
	})
	as := errAssigns(fn)
	kf.assigns = len(as)
	for _, a := range as {
		if inFailure[a] {
			kf.assignsInFailure++
		}
	}
	_, kf.returns = bareReturns(fn)
	kf.sticky = hasNamedErrResult(fn) && allLocal && kf.callsLocal >= 1 && kf.assigns >= 1 && kf.assigns == kf.assignsInFailure && kf.returns == 0

	// handed on unchanged: Cleanup, KillTasks
	passes := func(name string) bool {
		g := findFunc(f, name)
		if g == nil || !hasNamedErrResult(g) {
			return false
		}
		a := errAssigns(g)
		if len(a) != 1 || len(a[0].Rhs) != 1 || !isSelCall(a[0].Rhs[0], ".doKillTasks", fset) {
			return false
		}
		bare, _ := bareReturns(g)
		return bare
	}
	handed := passes("Cleanup") && passes("KillTasks")
	// doCleanupTasks, doTeardownAndCleanup (core/server.go)
	sf, err := parser.ParseFile(fset, filepath.Join(repo, "core/server.go"), nil, 0)
	if err != nil {
		return kf, err
	}
	if g := findFunc(sf, "doCleanupTasks"); g != nil && hasNamedErrResult(g) {
		a := errAssigns(g)
		okAll := len(a) >= 1
		for _, x := range a {
			if len(x.Rhs) != 1 || !(isSelCall(x.Rhs[0], ".Cleanup", fset) || isSelCall(x.Rhs[0], ".KillTasks", fset)) {
				okAll = false
			}
		}
		bare, _ := bareReturns(g)
		handed = handed && okAll && bare
	} else {
		handed = false
	}
	if g := findFunc(sf, "doTeardownAndCleanup"); g != nil {
		found := false
		for i, st := range g.Body.List {
			as, ok := st.(*ast.AssignStmt)
			if !ok || len(as.Rhs) != 1 || !isSelCall(as.Rhs[0], ".doCleanupTasks", fset) {
				continue
			}
			binds := false
			for _, l := range as.Lhs {
				if id, ok := l.(*ast.Ident); ok && id.Name == "err" {
					binds = true
				}
			}
			if !binds {
				continue
			}
			for _, later := range g.Body.List[i+1:] {
				is, ok := later.(*ast.IfStmt)
				if !ok || exprStr(fset, is.Cond) != "err != nil" {
					continue
				}
				for _, b := range is.Body.List {
					if r, ok := b.(*ast.ReturnStmt); ok && len(r.Results) > 0 && exprStr(fset, r.Results[len(r.Results)-1]) != "nil" {
						found = true
					}
				}
			}
		}
		handed = handed && found
	} else {
		handed = false
	}
	kf.handedOn = handed
	return kf, nil
}

func genFacts(repo string) (string, error) {
	kf, err := killErrorFacts(repo)
	if err != nil {
		return "", err
	}
	mf, err := teardownMutexFacts(repo)
	if err != nil {
		return "", err
	}
	lf, err := lookupLockFacts(repo)
	if err != nil {
		return "", err
	}
	rf, err := rendezvousFacts(repo)
	if err != nil {
		return "", err
	}
	hf, err := hookReleaseFacts(repo)
	if err != nil {
		return "", err
	}
	var b strings.Builder
	b.WriteString("namespace Gen\n\n")
	b.WriteString("/-- core/environment/manager.go, event loop, `case *event.TasksReleasedEvent` (go/ast): the one lookup of\n" +
		"    pendingTeardownsCh stands between `mu.Lock()` and the next `mu.Unlock()`, every `delete(pendingTeardownsCh, …)` of the\n" +
		"    clause stands in that same section (there is at least one), and no channel send does -/\n")
	fmt.Fprintf(&b, "def entryRemovedInLookupSection : Bool := %v\n\n", rf.ok)
	fmt.Fprintf(&b, "/-- (lookups of pendingTeardownsCh in the clause, deletes in the clause, deletes inside the lookup's section, sends inside it, section under the write lock) -/\n"+
		"def rendezvousCounts : Nat × Nat × Nat × Nat × Bool := (%d, %d, %d, %d, %v)\n\n",
		rf.lookups, rf.deletes, rf.deletesInSection, rf.sendsInSection, rf.writeLock)
	b.WriteString("/-- core/environment/manager.go, TeardownEnvironment (go/ast): `taskmanMessage` is re-assigned outside every loop only, from a\n" +
		"    list that is only ever appended to, with the unfiltered result of FilterTasks() -/\n")
	fmt.Fprintf(&b, "def hookReleaseAllWeights : Bool := %v\n\n", hf.ok)
	fmt.Fprintf(&b, "/-- (re-assignments of taskmanMessage, of which inside a loop) -/\ndef hookReleaseCounts : Nat × Nat := (%d, %d)\n\n",
		hf.reassignments, hf.inLoop)
	b.WriteString("/-- core/environment/manager.go, TeardownEnvironment (go/ast): the environment is looked up, then\n" +
		"    `if !env.transitionMutex.TryLock() { … env.transitionMutex.Lock() … }; defer env.transitionMutex.Unlock()`, no field or method\n" +
		"    of `env` is touched before that, and `env.Workflow()` is read after it -/\n")
	fmt.Fprintf(&b, "def teardownReadsUnderMutex : Bool := %v\n\n", mf.ok)
	fmt.Fprintf(&b, "/-- (uses of `env.…` before the mutex is taken, reads of `env.Workflow()` after it) -/\ndef teardownMutexCounts : Nat × Nat := (%d, %d)\n\n",
		mf.readsBefore, mf.workflowReadsAfter)
	b.WriteString("/-- core/environment/manager.go (go/ast): TeardownEnvironment calls `envs.environment(…)` between `envs.mu.RLock()` and\n" +
		"    `envs.mu.RUnlock()`, and `environment` read-locks `envs.mu` itself: one goroutine takes the read lock twice -/\n")
	fmt.Fprintf(&b, "def teardownLookupNestedRLock : Bool := %v\n\n", lf.callerHoldsRLock && lf.calleeRLocks)
	fmt.Fprintf(&b, "/-- (the caller holds a read lock around the call, the callee read-locks) -/\ndef teardownLookupLocks : Bool × Bool := (%v, %v)\n\n",
		lf.callerHoldsRLock, lf.calleeRLocks)
	b.WriteString("/-- core/task/manager.go, doKillTasks (go/ast): the result of every `m.doKillTask(task)` is bound to a variable of the loop body,\n" +
		"    the function's result `err` is assigned only in the branch taken when that variable is not nil, from errors.New / fmt.Errorf, next to\n" +
		"    `m.roster.append(task)`, and every return is bare: the error is set by every failing kill and never reset -/\n")
	fmt.Fprintf(&b, "def killErrorSticky : Bool := %v\n\n", kf.sticky)
	b.WriteString("/-- Cleanup / KillTasks (core/task/manager.go) and doCleanupTasks / doTeardownAndCleanup (core/server.go) hand that error on\n" +
		"    unchanged, and doTeardownAndCleanup answers an error status for it (go/ast) -/\n")
	fmt.Fprintf(&b, "def killErrorHandedOn : Bool := %v\n\n", kf.handedOn)
	fmt.Fprintf(&b, "/-- doKillTasks: (kill calls bound to a loop variable, assignments to `err`, of which in the failure branch as described, returns that are not bare) -/\n"+
		"def killErrorCounts : Nat × Nat × Nat × Nat := (%d, %d, %d, %d)\n\n", kf.callsLocal, kf.assigns, kf.assignsInFailure, kf.returns)
	b.WriteString("end Gen\n")
	return b.String(), nil
}

func init() {
	fw.RegisterGen(fw.GenFile{Name: "C06Facts.lean", Make: genFacts})
}
