package c06

import (
	"fmt"
	"go/ast"
	"go/parser"
	"go/token"
	"path/filepath"
	"strings"

	"verifharness/fw"
)

// go/ast facts about the TAIL of (*Manager).acquireTasks (core/task/manager.go): what happens to the tasks of a deployment
// that is declared failed AFTER they were launched — in particular when the lock loop met a task that cannot be locked.
//
// lockFailureUnparentsAll holds iff, in acquireTasks,
//
//	(a) there is a lock loop: under an `if deploymentSuccess { … }` a `for X, D := range deployedTasks { … }` whose body calls
//	    `X.SetParent(<non-nil>)` and then has an `if !X.IsLocked() { … }` whose body assigns `deploymentSuccess = false` and
//	    calls NO SetParent at all (the task is not detached on the spot);
//	(b) at the top level of the function body (in no loop, under no other condition) stands exactly one
//	    `if !deploymentSuccess { … }`, and directly in the body of a `for X := range deployedTasks` inside it — under no
//	    further condition — stands `X.SetParent(nil)`: EVERY deployed task is un-parented, the ones that did lock included;
//	(c) the function has no other `SetParent(nil)`;
//	(d) `m.roster.append(X)` is called directly in the body of a top-level `for X := range deployedTasks` (under no
//	    condition): every deployed task reaches the roster, whatever the verdict;
//	(e) every `….SetTask(…)` of the function stands under an `if deploymentSuccess` (no role gets its task when the
//	    deployment failed: the environment's workflow references nothing), and there is at least one.
//
// Model: Own.acquireUnlocked / Task.afterLockFailure with Cfg.detachOnSpot = false — C06_lock_failure_unparents_all_is_code.
type lockFacts struct {
	ok                                   bool
	lockLoops, lockLoopsClean            int // (a): lock loops found, of which with no SetParent in the `!IsLocked()` branch
	failureBlocks                        int // (b): top-level `if !deploymentSuccess`
	nilSites, nilInFailureLoop           int // (c): SetParent(nil) sites, of which unconditional in a range over deployedTasks inside the failure block
	rosterAppends, rosterAppendsUncond   int // (d)
	setTaskSites, setTaskUnderSuccess    int // (e)
}

func acquireTailFacts(repo string) (lockFacts, error) {
	var lf lockFacts
	fset := token.NewFileSet()
	f, err := parser.ParseFile(fset, filepath.Join(repo, "core/task/manager.go"), nil, 0)
	if err != nil {
		return lf, err
	}
	fn := findFunc(f, "acquireTasks")
	if fn == nil || fn.Body == nil {
		return lf, fmt.Errorf("core/task/manager.go: acquireTasks not found")
	}
	ident := func(e ast.Expr) string {
		if id, ok := e.(*ast.Ident); ok {
			return id.Name
		}
		return ""
	}
	// X.SetParent(arg): receiver name and whether arg is the literal nil
	setParent := func(n ast.Node) (recv string, isNil, ok bool) {
		ce, isCall := n.(*ast.CallExpr)
		if !isCall {
			return
		}
		se, isSel := ce.Fun.(*ast.SelectorExpr)
		if !isSel || se.Sel.Name != "SetParent" || len(ce.Args) != 1 {
			return
		}
		return ident(se.X), ident(ce.Args[0]) == "nil", true
	}
	containsSetParent := func(n ast.Node) bool {
		found := false
		ast.Inspect(n, func(x ast.Node) bool {
			if _, _, ok := setParent(x); ok {
				found = true
			}
			return true
		})
		return found
	}
	assignsSuccessFalse := func(n ast.Node) bool {
		found := false
		ast.Inspect(n, func(x ast.Node) bool {
			if as, ok := x.(*ast.AssignStmt); ok && as.Tok == token.ASSIGN && len(as.Lhs) == 1 && len(as.Rhs) == 1 &&
				ident(as.Lhs[0]) == "deploymentSuccess" && ident(as.Rhs[0]) == "false" {
				found = true
			}
			return true
		})
		return found
	}
	type frame struct {
		kind     string // "range" | "if" | "else" | "for" | "other"
		key      string // range: key variable
		over     string // range: ranged expression (identifier)
		cond     string // if: condition text
		topLevel bool   // the statement stands directly in the function body
	}
	under := func(st []frame, cond string) bool {
		for _, fr := range st {
			if fr.kind == "if" && fr.cond == cond {
				return true
			}
		}
		return false
	}
	var walkStmts func(list []ast.Stmt, st []frame, top bool)
	var walk func(n ast.Node, st []frame, top bool)
	push := func(st []frame, fr frame) []frame { return append(append([]frame{}, st...), fr) }
	walkStmts = func(list []ast.Stmt, st []frame, top bool) {
		for _, s := range list {
			walk(s, st, top)
		}
	}
	walk = func(n ast.Node, st []frame, top bool) {
		switch x := n.(type) {
		case nil:
			return
		case *ast.BlockStmt:
			walkStmts(x.List, st, top)
			return
		case *ast.LabeledStmt:
			walk(x.Stmt, st, top)
			return
		case *ast.IfStmt:
			cond := exprStr(fset, x.Cond)
			if cond == "!deploymentSuccess" && top {
				lf.failureBlocks++
			}
			walkStmts(x.Body.List, push(st, frame{kind: "if", cond: cond, topLevel: top}), false)
			if x.Else != nil {
				walk(x.Else, push(st, frame{kind: "else", cond: cond}), false)
			}
			return
		case *ast.RangeStmt:
			fr := frame{kind: "range", key: ident(x.Key), over: ident(x.X), topLevel: top}
			// (a) the lock loop
			if fr.over == "deployedTasks" && fr.key != "" && under(st, "deploymentSuccess") {
				sawSet := false
				for _, s := range x.Body.List {
					if es, ok := s.(*ast.ExprStmt); ok {
						if recv, isNil, ok := setParent(es.X); ok && recv == fr.key && !isNil {
							sawSet = true
						}
					}
					if is, ok := s.(*ast.IfStmt); ok && sawSet && exprStr(fset, is.Cond) == "!"+fr.key+".IsLocked()" && assignsSuccessFalse(is.Body) {
						lf.lockLoops++
						if !containsSetParent(is.Body) && is.Else == nil {
							lf.lockLoopsClean++
						}
					}
				}
			}
			// statements directly in the body of this range
			for _, s := range x.Body.List {
				es, ok := s.(*ast.ExprStmt)
				if !ok {
					continue
				}
				if recv, isNil, ok := setParent(es.X); ok && isNil && recv == fr.key && fr.over == "deployedTasks" {
					// (b): the range stands directly in the body of the top-level `if !deploymentSuccess`
					if len(st) == 1 && st[0].kind == "if" && st[0].cond == "!deploymentSuccess" && st[0].topLevel {
						lf.nilInFailureLoop++
					}
				}
				if ce, ok := es.X.(*ast.CallExpr); ok && exprStr(fset, ce.Fun) == "m.roster.append" && len(ce.Args) == 1 {
					lf.rosterAppends++
					if ident(ce.Args[0]) == fr.key && fr.over == "deployedTasks" && len(st) == 0 && top {
						lf.rosterAppendsUncond++
					}
				}
			}
			walkStmts(x.Body.List, push(st, fr), false)
			return
		case *ast.ForStmt:
			walkStmts(x.Body.List, push(st, frame{kind: "for"}), false)
			return
		case *ast.FuncLit:
			return
		}
		// any other statement: count the calls it contains (not descending into nested blocks handled above)
		ast.Inspect(n, func(y ast.Node) bool {
			switch z := y.(type) {
			case *ast.FuncLit:
				return false
			case *ast.CallExpr:
				if _, isNil, ok := setParent(z); ok && isNil {
					lf.nilSites++
				}
				if se, ok := z.Fun.(*ast.SelectorExpr); ok && se.Sel.Name == "SetTask" {
					lf.setTaskSites++
					if under(st, "deploymentSuccess") {
						lf.setTaskUnderSuccess++
					}
				}
			}
			return true
		})
	}
	walkStmts(fn.Body.List, nil, true)
	lf.ok = lf.lockLoops == 1 && lf.lockLoopsClean == 1 &&
		lf.failureBlocks == 1 && lf.nilInFailureLoop == 1 && lf.nilSites == 1 &&
		lf.rosterAppends == 1 && lf.rosterAppendsUncond == 1 &&
		lf.setTaskSites >= 1 && lf.setTaskSites == lf.setTaskUnderSuccess
	return lf, nil
}

func genLockFacts(repo string) (string, error) {
	lf, err := acquireTailFacts(repo)
	if err != nil {
		return "", err
	}
	var b strings.Builder
	b.WriteString("namespace Gen\n\n")
	b.WriteString("/-- core/task/manager.go, (*Manager).acquireTasks (go/ast): the lock loop (`X.SetParent(role); if !X.IsLocked() { … deploymentSuccess = false }`\n" +
		"    over deployedTasks) detaches nothing; the one top-level `if !deploymentSuccess` un-parents EVERY task of deployedTasks (`X.SetParent(nil)`\n" +
		"    directly in the body of the range, under no further condition) and the function has no other SetParent(nil); every deployed task is\n" +
		"    appended to the roster unconditionally; every SetTask stands under `if deploymentSuccess` -/\n")
	fmt.Fprintf(&b, "def lockFailureUnparentsAll : Bool := %v\n\n", lf.ok)
	fmt.Fprintf(&b, "/-- (lock loops, of which with no SetParent in the `!IsLocked()` branch, top-level `if !deploymentSuccess` blocks, SetParent(nil) sites,\n"+
		"    of which unconditional in a range over deployedTasks inside that block, roster appends, of which unconditional over deployedTasks at top level,\n"+
		"    SetTask sites, of which under `if deploymentSuccess`) -/\n"+
		"def acquireTailCounts : Nat × Nat × Nat × Nat × Nat × Nat × Nat × Nat × Nat := (%d, %d, %d, %d, %d, %d, %d, %d, %d)\n\n",
		lf.lockLoops, lf.lockLoopsClean, lf.failureBlocks, lf.nilSites, lf.nilInFailureLoop, lf.rosterAppends, lf.rosterAppendsUncond,
		lf.setTaskSites, lf.setTaskUnderSuccess)
	b.WriteString("end Gen\n")
	return b.String(), nil
}

func init() {
	fw.RegisterGen(fw.GenFile{Name: "C06LockFacts.lean", Make: genLockFacts})
}
