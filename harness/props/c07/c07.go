// Package c07: run numbers are unique and strictly increasing.
//
// Input  : (n (raft entry) sched)  |  (n (raft entry) sched (svc k))  |  (n (raft entry) sched (rpc k))
//
//	n      number of callers (ids 0..n-1), each makes ONE call of the real code
//	(svc k) route: caller c calls NewRunNumber on local.Service number c mod k — k = 1 is ONE
//	       apricot instance serving every caller, so calls overlap inside one Service object
//	       (absent: a Service / ConsulSource of its own per slot c mod 4, see exec.go)
//	(rpc k) route: caller c calls NewRunNumber on the remote apricot:// client number c mod k — the
//	       REAL gRPC hop (remote.RemoteService → loopback TCP → RpcServer.NewRunNumber → local.Service
//	       c mod k → Consul simulator), the path the core takes in production; see remote.go
//	(inst k) route: START-UPS ARE STEPS. k apricot instances, none constructed when the schedule begins;
//	       `(s j)` = the construction of instance j (the real local.NewService) begins / its next request
//	       is processed; caller c calls NewRunNumber on instance c mod k, and cannot be launched before
//	       that instance is up; obs gets `insts` and `(own (B A)…)`, see exec.go
//	entry  - | (raw idx)                         -- the Consul key before the schedule
//	sched  ((r c) | (w c) | (e c) | (f raw) | (d) | (x c))*
//	         r c  Consul answers c's consistent GET (c is launched here)
//	         w c  Consul processes c's parked write; c returns
//	         e c  c's outstanding request is answered 500, nothing applied
//	         f raw / d   somebody else PUTs / DELETEs the key (through the real client)
//	         x c  c dies: its parked write is never processed
//	         s j  (route inst only) instance j is constructed, see above
//
// Obs    : (((c status start end reqs) …) (raft entry))   see lean/Driver/C07.lean
//
//	| (… … ((j status start end reqs) …) (own (B A) …))   route (inst k)
//
// The schedule is replayed EXACTLY on the implementation: the Consul simulator parks every HTTP
// request and the controller releases them in schedule order (consul.go, exec.go).
//
// A second, ENVIRONMENT-LEVEL stream — inputs `(hooks reqs nTasks)`, whose first element is a
// list — replays request histories on a real Environment and observes the run numbers it hands
// to its successive start attempts: see envstream.go.
package c07

import (
	"fmt"
	"strconv"
	"sync/atomic"

	"verifharness/envh"
	"verifharness/fw"
	"verifharness/rng"
	"verifharness/sx"
)

// ---- rigs ----------------------------------------------------------------------------

const nRigs = 8

var rigs chan *rig

// ctorRequests counts the requests the constructors of the rigs' own clients and Service objects
// sent (served at once, see consul.go); 0 for the code as it stands. Evidence only (obsTags).
var ctorRequests atomic.Int64

func obsTags(input, obs string) []string {
	if ctorRequests.Load() > 0 && !isEnvInput(input) {
		return []string{"rig:constructors-sent-requests"}
	}
	return nil
}

func setup(work string) error {
	if err := envSetup(work); err != nil {
		return err
	}
	if rigs != nil {
		return nil
	}
	rigs = make(chan *rig, nRigs)
	for i := 0; i < nRigs; i++ {
		g, err := newRig()
		if err != nil {
			return err
		}
		ctorRequests.Add(int64(len(g.ctorReqs)))
		rigs <- g
	}
	return nil
}

func teardown() {
	envh.Teardown()
	if rigs == nil {
		return
	}
	for i := 0; i < nRigs; i++ {
		(<-rigs).close()
	}
	rigs = nil
}

func runImpl(input string) (obs string, err error) {
	if isEnvInput(input) {
		return runEnv(input) // environment-level stream, see envstream.go
	}
	g := <-rigs
	defer func() {
		if r := recover(); r != nil {
			// a panic of the code under test leaves the rig in an unknown state: replace it
			g.close()
			if g2, e2 := newRig(); e2 == nil {
				rigs <- g2
			}
			panic(r)
		}
		if err != nil {
			// after infrastructure trouble start from a fresh simulator
			g.close()
			if g2, e2 := newRig(); e2 == nil {
				g = g2
			}
		}
		rigs <- g
	}()
	return g.runCase(input)
}

// ---- a tiny bookkeeping copy of the protocol, used ONLY to steer the generator ---------------
// (which steps are enabled, what a non-lowering foreign value is). Nothing is compared with it.

const maxU32 = 4294967295

func parseU32(s string) (uint64, bool) {
	if s == "" {
		return 0, false
	}
	for _, c := range s {
		if c < '0' || c > '9' {
			return 0, false
		}
	}
	v, err := strconv.ParseUint(s, 10, 32)
	return v, err == nil
}

type simCaller struct {
	phase  int
	v, idx uint64
}

type sim struct {
	present   bool
	raw       string
	idx, raft uint64
	cs        []simCaller
	up        []bool // route (inst k): instance j has been constructed (len = k; nil off that route)
}

func (m *sim) homeUp(c int) bool { return len(m.up) == 0 || m.up[c%len(m.up)] }

func (m *sim) level() uint64 {
	if !m.present {
		return 0
	}
	v, _ := parseU32(m.raw)
	return v
}

func (m *sim) write(raw string) { m.raft++; m.present, m.raw, m.idx = true, raw, m.raft }

func (m *sim) apply(st *sx.Node) {
	kind := st.At(0).Str()
	switch kind {
	case "f":
		m.write(st.At(1).Str())
		return
	case "d":
		m.raft++
		m.present = false
		return
	case "s":
		m.up[st.At(1).Int()] = true
		return
	}
	ci := st.At(1).Int()
	c := &m.cs[ci]
	if (kind == "r" || kind == "e") && c.phase == phIdle && !m.homeUp(ci) {
		return
	}
	switch kind {
	case "r":
		if c.phase == phIdle {
			if !m.present {
				c.phase, c.v, c.idx = phPending, 0, 0
			} else if v, ok := parseU32(m.raw); ok {
				c.phase, c.v, c.idx = phPending, v, m.idx
			} else {
				c.phase = phDone
			}
		}
	case "w":
		if c.phase == phPending {
			ok := (!m.present && c.idx == 0) || (m.present && c.idx != 0 && c.idx == m.idx)
			if ok {
				m.write(strconv.FormatUint(uint64(uint32(c.v)+1), 10))
			}
			c.phase = phDone
		}
	case "e":
		if c.phase == phIdle || c.phase == phPending {
			c.phase = phDone
		}
	case "x":
		if c.phase == phIdle || c.phase == phPending {
			c.phase = phDead
		}
	}
}

// ---- generator -------------------------------------------------------------------------

func stepC(kind string, c int) *sx.Node { return sx.L(sx.A(kind), sx.I(c)) }
func stepF(raw string) *sx.Node         { return sx.L(sx.A("f"), sx.A(raw)) }
func stepD() *sx.Node                   { return sx.L(sx.A("d")) }

func storeNode(raft uint64, raw string, idx uint64, present bool) *sx.Node {
	if !present {
		return sx.L(sx.U64(raft), sx.A("-"))
	}
	return sx.L(sx.U64(raft), sx.L(sx.A(raw), sx.U64(idx)))
}

func mkInput(n int, store *sx.Node, sched []*sx.Node) string {
	return sx.L(sx.I(n), store, sx.L(sched...)).String()
}

func stepS(j int) *sx.Node     { return sx.L(sx.A("s"), sx.I(j)) }
func instNode(k int) *sx.Node  { return sx.L(sx.A("inst"), sx.I(k)) }
func routeNode(k int) *sx.Node { return sx.L(sx.A("svc"), sx.I(k)) }
func rpcNode(k int) *sx.Node   { return sx.L(sx.A("rpc"), sx.I(k)) }

// mkInputR: route == nil gives the three-element form.
func mkInputR(n int, store *sx.Node, sched []*sx.Node, route *sx.Node) string {
	if route == nil {
		return mkInput(n, store, sched)
	}
	return sx.L(sx.I(n), store, sx.L(sched...), route).String()
}

// routed re-issues cases with every caller going through `k` shared local.Service instances
// (class exercised: calls that OVERLAP INSIDE one Service object — whatever NewRunNumber does
// around the protocol call — coalescing, caching, handing one caller's answer to another —
// happens between such calls and nowhere else).
func routed(cs []fw.Case, k int) []fw.Case { return routedVia(cs, "svc", k) }

// routedRPC re-issues cases with every caller going through the gRPC hop: k remote clients, each in
// front of an apricot server and its local.Service (class exercised: calls whose answer CROSSES THE
// RPC BOUNDARY — whatever the handler and the client do with the backend's (value, error) pair:
// forwarding, dropping or rewriting the error, answering from the candidate value, retrying).
func routedRPC(cs []fw.Case, k int) []fw.Case { return routedVia(cs, "rpc", k) }

func routedVia(cs []fw.Case, kind string, k int) []fw.Case {
	out := make([]fw.Case, 0, len(cs))
	for _, c := range cs {
		in, err := sx.Parse(c.Input)
		if err != nil || len(in.List) != 3 {
			continue
		}
		tags := make([]string, 0, len(c.Tags)+1)
		for _, t := range c.Tags {
			tags = append(tags, fmt.Sprintf("%s%d:", kind, k)+t)
		}
		tags = append(tags, fmt.Sprintf("route=%s%d", kind, k))
		out = append(out, fw.Case{Input: mkInputR(in.At(0).Int(), in.At(1), in.At(2).List, sx.L(sx.A(kind), sx.I(k))), Tags: tags})
	}
	return out
}

// interleavings enumerates all merges of n programs [r c, w c, … (ws times)]. ws = 1 is the real
// protocol; ws > 1 adds `w` steps that are no-ops for it but let a variant that sends more
// requests per call (re-read, retry) be driven through every interleaving as well.
func interleavingsW(n, ws int) [][]*sx.Node {
	var out [][]*sx.Node
	pc := make([]int, n)
	var cur []*sx.Node
	var rec func()
	rec = func() {
		done := true
		for c := 0; c < n; c++ {
			if pc[c] < 1+ws {
				done = false
				kind := "r"
				if pc[c] >= 1 {
					kind = "w"
				}
				pc[c]++
				cur = append(cur, stepC(kind, c))
				rec()
				cur = cur[:len(cur)-1]
				pc[c]--
			}
		}
		if done {
			out = append(out, append([]*sx.Node{}, cur...))
		}
	}
	rec()
	return out
}

func interleavings(n int) [][]*sx.Node { return interleavingsW(n, 1) }

func longPrograms(n, ws int, stores []*sx.Node, tag string) []fw.Case {
	var cs []fw.Case
	for _, st := range stores {
		for _, s := range interleavingsW(n, ws) {
			cs = append(cs, fw.Case{Input: mkInput(n, st, s), Tags: []string{tag}})
		}
	}
	return cs
}

func events(n int) []*sx.Node {
	ev := []*sx.Node{stepF("0"), stepF("41"), stepF("42"), stepF("1000"), stepF("x1"), stepF(""), stepD()}
	for c := 0; c < n; c++ {
		ev = append(ev, stepC("x", c), stepC("e", c))
	}
	return ev
}

func insertAt(s []*sx.Node, pos int, e *sx.Node) []*sx.Node {
	out := make([]*sx.Node, 0, len(s)+1)
	out = append(out, s[:pos]...)
	out = append(out, e)
	return append(out, s[pos:]...)
}

// exhaustive part: every interleaving of n complete calls, alone and with `extra` events from
// events(n) inserted at every position, from each of the given initial stores.
func exhaustive(n, extra int, stores []*sx.Node, tag string) []fw.Case {
	type item struct {
		s      []*sx.Node
		minPos int // later insertions go at or after the previous one: no pair is enumerated twice
	}
	var cs []fw.Case
	ev := events(n)
	var layer, all []item
	for _, s := range interleavings(n) {
		layer = append(layer, item{s, 0})
	}
	all = append(all, layer...)
	for k := 0; k < extra; k++ {
		var next []item
		for _, it := range layer {
			for pos := it.minPos; pos <= len(it.s); pos++ {
				for _, e := range ev {
					next = append(next, item{insertAt(it.s, pos, e), pos + 1})
				}
			}
		}
		all = append(all, next...)
		layer = next
	}
	for _, st := range stores {
		for _, it := range all {
			cs = append(cs, fw.Case{Input: mkInput(n, st, it.s), Tags: []string{tag}})
		}
	}
	return cs
}

// ---- start-ups as steps: route (inst k) -----------------------------------------------------------
//
// Class exercised: SERVICE CONSTRUCTIONS THAT OVERLAP — with each other, with allocations of
// instances already up, with foreign writes/deletes — on a KV where the counter key is absent,
// present, or wiped in between. Whatever a constructor does on the shared KV (nothing, for the
// code as it stands; probing, creating, repairing, migrating the counter for a variant) happens at
// these steps and nowhere else.

// startInterleavings: every merge of the programs
//
//	instance j < k : (s j) × sPer     (sPer > 1: further steps for a construction that sends requests)
//	caller   c < n : (r c) (w c)      (on instance c mod k)
//
// in which no caller is launched before the first step of its instance.
func startInterleavings(k, sPer, n int) [][]*sx.Node {
	var out [][]*sx.Node
	ipc := make([]int, k)
	cpc := make([]int, n)
	var cur []*sx.Node
	var rec func()
	rec = func() {
		done := true
		for j := 0; j < k; j++ {
			if ipc[j] < sPer {
				done = false
				ipc[j]++
				cur = append(cur, stepS(j))
				rec()
				cur = cur[:len(cur)-1]
				ipc[j]--
			}
		}
		for c := 0; c < n; c++ {
			if cpc[c] < 2 {
				done = false
				if cpc[c] == 0 && ipc[c%k] == 0 {
					continue
				}
				kind := "r"
				if cpc[c] == 1 {
					kind = "w"
				}
				cpc[c]++
				cur = append(cur, stepC(kind, c))
				rec()
				cur = cur[:len(cur)-1]
				cpc[c]--
			}
		}
		if done {
			out = append(out, append([]*sx.Node{}, cur...))
		}
	}
	rec()
	return out
}

func startEvents(n int) []*sx.Node {
	ev := []*sx.Node{stepD(), stepF("0"), stepF("1000"), stepF("")}
	for c := 0; c < n; c++ {
		ev = append(ev, stepC("e", c))
	}
	return append(ev, stepC("x", n-1))
}

// startExhaustive: startInterleavings alone and with ONE event of startEvents at every position.
func startExhaustive(k, sPer, n int, withEvents bool, stores []*sx.Node, tag string) []fw.Case {
	var cs []fw.Case
	merges := startInterleavings(k, sPer, n)
	for _, st := range stores {
		for _, s := range merges {
			cs = append(cs, fw.Case{Input: mkInputR(n, st, s, instNode(k)), Tags: []string{tag, "route=inst", "class=start-ups"}})
			if !withEvents {
				continue
			}
			for pos := 0; pos <= len(s); pos++ {
				for _, e := range startEvents(n) {
					cs = append(cs, fw.Case{Input: mkInputR(n, st, insertAt(s, pos, e), instNode(k)),
						Tags: []string{tag + ",+1ev", "route=inst", "class=start-ups"}})
				}
			}
		}
	}
	return cs
}

// genRandomInst: a random schedule on the (inst k) route.
func genRandomInst(r *rng.R, maxCallers, maxLen int) fw.Case {
	k := rng.Pick(r, []int{1, 2, 2, 2, 3, 3, 4})
	n := r.Range(1, maxCallers)
	tags := []string{"random", "route=inst", "class=start-ups", fmt.Sprintf("inst=%d", k)}
	m := &sim{cs: make([]simCaller, n), up: make([]bool, k)}
	switch x := r.N(20); {
	case x < 9:
		m.raft = uint64(r.N(4))
		tags = append(tags, "init=absent")
	case x < 11:
		m.present, m.raw = true, "0"
		tags = append(tags, "init=zero")
	case x < 12:
		m.present, m.raw = true, rng.Pick(r, junk)
		tags = append(tags, "init=junk")
	case x < 13:
		m.present, m.raw = true, strconv.FormatUint(maxU32-uint64(r.N(3)), 10)
		tags = append(tags, "init=near-wrap")
	default:
		m.present, m.raw = true, strconv.Itoa(r.N(600000))
		tags = append(tags, "init=number")
	}
	if m.present {
		m.idx = uint64(r.Range(1, 50))
		m.raft = m.idx + uint64(r.N(5))
	}
	store := storeNode(m.raft, m.raw, m.idx, m.present)
	length := r.Range(2, maxLen)
	var sched []*sx.Node
	wiped, lowered, early := false, false, false
	for i := 0; i < length; i++ {
		var st *sx.Node
		switch x := r.N(100); {
		case x < 14: // some instance: its construction begins, or goes on (a no-op for an instance that is up)
			st = stepS(r.N(k))
		case x < 78:
			c := r.N(n)
			for tries := 0; tries < 3 && m.cs[c].phase >= phDone; tries++ {
				c = r.N(n)
			}
			switch {
			case m.cs[c].phase == phIdle && !m.homeUp(c) && !r.P(1, 8):
				st = stepS(c % k)
			case m.cs[c].phase == phIdle:
				if !m.homeUp(c) {
					early = true
				}
				st = stepC("r", c)
			default:
				st = stepC("w", c)
			}
		case x < 82:
			st = stepC("e", r.N(n))
		case x < 86:
			st = stepC("x", r.N(n))
		case x < 94:
			lv := m.level()
			switch y := r.N(10); {
			case y < 6:
				nv := lv + uint64(r.N(3))
				if nv > maxU32 {
					nv = maxU32
				}
				st = stepF(strconv.FormatUint(nv, 10))
			case y < 8:
				st = stepF("0")
				if lv > 0 {
					lowered = true
				}
			default:
				st = stepF(rng.Pick(r, junk))
				if lv > 0 {
					lowered = true
				}
			}
		default:
			st = stepD()
			wiped = true
			if m.level() > 0 {
				lowered = true
			}
		}
		m.apply(st)
		sched = append(sched, st)
	}
	// further steps for constructions and calls still under way (no-ops for the code as it stands)
	if r.P(1, 2) {
		for t := r.Range(1, 2*k); t > 0; t-- {
			sched = append(sched, stepS(r.N(k)))
		}
		for t := r.N(n + 1); t > 0; t-- {
			st := stepC("w", r.N(n))
			m.apply(st)
			sched = append(sched, st)
		}
		tags = append(tags, "extra-s-w-tail")
	}
	tags = append(tags, fmt.Sprintf("callers=%d", n))
	if wiped {
		tags = append(tags, "key-wiped")
	}
	if lowered {
		tags = append(tags, "foreign-lowers")
	}
	if early {
		tags = append(tags, "call-before-its-instance-is-up")
	}
	return fw.Case{Input: mkInputR(n, store, sched, instNode(k)), Tags: tags}
}

var zeroStore = storeNode(3, "0", 3, true)

func generateStartups(tier string, r *rng.R) []fw.Case {
	var cs []fw.Case
	absent := exhStores[:1]
	cs = append(cs, startExhaustive(2, 2, 2, false, []*sx.Node{exhStores[0], exhStores[1], zeroStore}, "start:exh:k=2,2s,n=2")...)
	cs = append(cs, startExhaustive(1, 2, 2, true, exhStores, "start:exh:k=1,2s,n=2")...)
	cs = append(cs, startExhaustive(2, 1, 2, true, absent, "start:exh:k=2,1s,n=2")...)
	cs = append(cs, startExhaustive(2, 1, 3, false, exhStores, "start:exh:k=2,1s,n=3")...)
	cs = append(cs, startExhaustive(3, 1, 2, false, absent, "start:exh:k=3,1s,n=2")...)
	nRandom, maxCallers, maxLen := 1500, 6, 30
	if tier == "thorough" {
		cs = append(cs, startExhaustive(2, 2, 2, true, exhStores, "start:exh:k=2,2s,n=2")...)
		cs = append(cs, startExhaustive(3, 1, 3, false, absent, "start:exh:k=3,1s,n=3")...)
		cs = append(cs, startExhaustive(2, 2, 3, false, absent, "start:exh:k=2,2s,n=3")...)
		nRandom, maxCallers, maxLen = 25000, 10, 60
	}
	for i := 0; i < nRandom; i++ {
		cs = append(cs, genRandomInst(r.Fork(), maxCallers, maxLen))
	}
	return cs
}

var junk = []string{"", "abc", "-1", "+7", "4294967296", "99999999999999999999", "007", " 5", "5 ", "1_0", "0x1f", "1e3", "４２"}

func genRandom(r *rng.R, maxCallers, maxLen int) fw.Case {
	n := r.Range(1, maxCallers)
	tags := []string{}
	m := &sim{cs: make([]simCaller, n)}
	// initial store
	switch {
	case r.P(1, 6):
		m.raft = uint64(r.N(4))
		tags = append(tags, "init=absent")
	case r.P(1, 8):
		m.present, m.raw = true, strconv.FormatUint(maxU32-uint64(r.N(4)), 10)
		tags = append(tags, "init=near-wrap")
	case r.P(1, 12):
		m.present, m.raw = true, rng.Pick(r, junk)
		tags = append(tags, "init=junk")
	default:
		m.present, m.raw = true, strconv.Itoa(r.N(600000))
		tags = append(tags, "init=number")
	}
	if m.present {
		m.idx = uint64(r.Range(1, 50))
		m.raft = m.idx + uint64(r.N(5))
	}
	store := storeNode(m.raft, m.raw, m.idx, m.present)
	length := r.Range(1, maxLen)
	var sched []*sx.Node
	lowered, wrapF, faults := false, false, false
	for i := 0; i < length; i++ {
		var st *sx.Node
		x := r.N(100)
		switch {
		case x < 72: // advance some caller's program (mostly an enabled step)
			c := r.N(n)
			for tries := 0; tries < 3 && m.cs[c].phase >= phDone; tries++ {
				c = r.N(n)
			}
			switch {
			case r.P(1, 12):
				st = stepC(rng.Pick(r, []string{"r", "w"}), c) // possibly a no-op
			case m.cs[c].phase == phIdle:
				st = stepC("r", c)
			default:
				st = stepC("w", c)
			}
		case x < 78:
			st = stepC("e", r.N(n))
			faults = true
		case x < 84:
			st = stepC("x", r.N(n))
			faults = true
		case x < 98:
			lv := m.level()
			switch y := r.N(20); {
			case y < 13: // non-lowering
				nv := lv + uint64(r.N(3))
				if r.P(1, 3) {
					nv = lv + uint64(r.N(100000))
				}
				if r.P(1, 25) {
					nv = maxU32 - uint64(r.N(3))
					wrapF = true
				}
				if nv > maxU32 {
					nv = maxU32
				}
				if nv < lv {
					nv = lv
				}
				st = stepF(strconv.FormatUint(nv, 10))
			case y < 17: // lowering
				if lv > 0 {
					st = stepF(strconv.FormatUint(uint64(r.N(int(min(lv, 1<<30)))), 10))
					lowered = true
				} else {
					st = stepF("0")
				}
			default:
				st = stepF(rng.Pick(r, junk))
				if lv > 0 {
					lowered = true
				}
			}
		default:
			st = stepD()
			if m.level() > 0 {
				lowered = true
			}
		}
		m.apply(st)
		sched = append(sched, st)
	}
	// a tail of further `w` steps: no-ops for the real protocol (and the model); they let a variant
	// that sends MORE requests per call (re-reads, retries) run to completion instead of staying parked
	if r.P(1, 3) {
		for k := r.Range(1, 2*n); k > 0; k-- {
			st := stepC("w", r.N(n))
			m.apply(st)
			sched = append(sched, st)
		}
		tags = append(tags, "extra-w-tail")
	}
	tags = append(tags, fmt.Sprintf("callers=%d", n), fmt.Sprintf("len~%d", (length+9)/10*10))
	if lowered {
		tags = append(tags, "foreign-lowers")
	}
	if wrapF {
		tags = append(tags, "foreign-to-max")
	}
	if faults {
		tags = append(tags, "crash-or-http-fault")
	}
	// a third of the schedules run with the callers sharing 1..3 Service instances, a sixth goes
	// through the gRPC hop (1..3 remote clients, each in front of its own apricot server)
	var route *sx.Node
	if r.P(1, 3) {
		k := rng.Pick(r, []int{1, 1, 1, 2, 2, 3})
		route = routeNode(k)
		tags = append(tags, fmt.Sprintf("route=svc%d", k))
	} else if r.P(1, 4) {
		k := rng.Pick(r, []int{1, 1, 1, 2, 2, 3})
		route = rpcNode(k)
		tags = append(tags, fmt.Sprintf("route=rpc%d", k))
	} else {
		tags = append(tags, "route=slots")
	}
	return fw.Case{Input: mkInputR(n, store, sched, route), Tags: append([]string{"random"}, tags...)}
}

var exhStores = []*sx.Node{storeNode(0, "", 0, false), storeNode(7, "41", 5, true)}
var wrapStores = []*sx.Node{storeNode(9, "4294967294", 9, true), storeNode(9, "4294967295", 9, true)}

func generate(tier string, r *rng.R) []fw.Case {
	var cs []fw.Case
	// exhaustive short schedules
	cs = append(cs, exhaustive(1, 2, exhStores, "exh:n=1,+2ev")...)
	cs = append(cs, exhaustive(2, 1, exhStores, "exh:n=2,+1ev")...)
	cs = append(cs, exhaustive(3, 1, exhStores, "exh:n=3,+1ev")...)
	cs = append(cs, exhaustive(4, 0, exhStores, "exh:n=4")...)
	cs = append(cs, longPrograms(2, 3, exhStores, "exh:n=2,r+3w")...)
	cs = append(cs, longPrograms(3, 2, exhStores[1:], "exh:n=3,r+2w")...)
	cs = append(cs, exhaustive(2, 1, wrapStores, "exh:n=2,+1ev,wrap-region")...)
	cs = append(cs, exhaustive(3, 0, wrapStores, "exh:n=3,wrap-region")...)
	// the same, with the callers inside ONE apricot instance (two for n = 4): overlapping calls on one Service
	cs = append(cs, routed(exhaustive(2, 1, exhStores, "exh:n=2,+1ev"), 1)...)
	cs = append(cs, routed(exhaustive(3, 0, exhStores, "exh:n=3"), 1)...)
	cs = append(cs, routed(exhaustive(4, 0, exhStores[1:], "exh:n=4"), 2)...)
	cs = append(cs, routed(longPrograms(2, 3, exhStores[1:], "exh:n=2,r+3w"), 1)...)
	cs = append(cs, routed(exhaustive(2, 0, wrapStores, "exh:n=2,wrap-region"), 1)...)
	// the same through the gRPC hop: ONE core talking to ONE remote apricot (two for the last set)
	cs = append(cs, routedRPC(exhaustive(2, 1, exhStores, "exh:n=2,+1ev"), 1)...)
	cs = append(cs, routedRPC(exhaustive(3, 0, exhStores, "exh:n=3"), 1)...)
	cs = append(cs, routedRPC(exhaustive(1, 2, exhStores[1:], "exh:n=1,+2ev"), 1)...)
	cs = append(cs, routedRPC(exhaustive(2, 0, wrapStores, "exh:n=2,wrap-region"), 1)...)
	cs = append(cs, routedRPC(exhaustive(3, 0, exhStores[1:], "exh:n=3"), 2)...)
	nRandom, maxCallers, maxLen := 6000, 8, 30
	if tier == "thorough" {
		cs = append(cs, routedRPC(exhaustive(2, 2, exhStores[1:], "exh:n=2,+2ev"), 1)...)
		cs = append(cs, routedRPC(exhaustive(3, 1, exhStores[1:], "exh:n=3,+1ev"), 1)...)
		cs = append(cs, routedRPC(exhaustive(4, 0, exhStores[1:], "exh:n=4"), 2)...)
		cs = append(cs, routed(exhaustive(2, 2, exhStores, "exh:n=2,+2ev"), 1)...)
		cs = append(cs, routed(exhaustive(3, 1, exhStores, "exh:n=3,+1ev"), 1)...)
		cs = append(cs, routed(exhaustive(4, 0, exhStores, "exh:n=4"), 1)...)
		cs = append(cs, exhaustive(2, 2, exhStores, "exh:n=2,+2ev")...)
		cs = append(cs, exhaustive(3, 2, exhStores[1:], "exh:n=3,+2ev")...)
		cs = append(cs, exhaustive(4, 1, exhStores[1:], "exh:n=4,+1ev")...)
		cs = append(cs, exhaustive(5, 0, exhStores[1:], "exh:n=5")...)
		nRandom, maxCallers, maxLen = 100000, 12, 60
	} else {
		cs = append(cs, exhaustive(2, 2, exhStores[1:], "exh:n=2,+2ev")...)
	}
	for i := 0; i < nRandom; i++ {
		cs = append(cs, genRandom(r.Fork(), maxCallers, maxLen))
	}
	// the environment-level stream goes first: its cases run one at a time (envh is process-global)
	// while the other workers replay protocol schedules; the start-up stream draws from a fork taken
	// AFTER everything else, so the older streams are what they were
	env := generateEnv(tier, r.Fork())
	cs = append(cs, generateStartups(tier, r.Fork())...)
	return append(env, cs...)
}

// search: the wider stream used only after the correspondence broke without a Spec failure
// among the first disagreements — interleavings with several `w` steps per caller first (a
// variant that needs more requests per call only completes there), then short exhaustive
// schedules, then random ones.
func search(r *rng.R) []fw.Case {
	var cs []fw.Case
	cs = append(cs, startExhaustive(2, 2, 2, false, exhStores[:1], "search:start:k=2,2s,n=2")...)
	if more := startExhaustive(2, 3, 2, false, exhStores[:1], "search:start:k=2,3s,n=2"); len(more) > 3000 {
		cs = append(cs, more[:3000]...)
	} else {
		cs = append(cs, more...)
	}
	cs = append(cs, routedRPC(exhaustive(2, 0, exhStores, "search:n=2"), 1)...)
	cs = append(cs, routedRPC(exhaustive(1, 1, exhStores, "search:n=1,+1ev"), 1)...)
	cs = append(cs, routed(exhaustive(2, 0, exhStores, "search:n=2"), 1)...)
	cs = append(cs, routed(exhaustive(3, 0, exhStores[1:], "search:n=3"), 1)...)
	cs = append(cs, routed(longPrograms(2, 3, exhStores, "search:n=2,r+3w"), 1)...)
	cs = append(cs, longPrograms(2, 3, exhStores, "search:n=2,r+3w")...)
	cs = append(cs, longPrograms(2, 4, exhStores[1:], "search:n=2,r+4w")...)
	cs = append(cs, longPrograms(3, 2, exhStores, "search:n=3,r+2w")...)
	cs = append(cs, exhaustive(2, 1, exhStores, "search:n=2,+1ev")...)
	cs = append(cs, exhaustive(3, 0, exhStores, "search:n=3")...)
	for len(cs) < 20000 {
		cs = append(cs, genRandom(r.Fork(), 6, 40))
	}
	return cs
}

// non-trivial: at least two calls were launched, at least one number was handed out, and the
// schedule is not a plain sequence of undisturbed calls (a refused CAS, an error, a dead or
// pending caller, or a foreign write/delete occurred).
func nontrivial(input, obs string) bool {
	if isEnvInput(input) {
		return nontrivialEnv(input, obs)
	}
	in, err := sx.Parse(input)
	if err != nil {
		return false
	}
	o, err := sx.Parse(obs)
	if err != nil {
		return false
	}
	launched, oks, disturbed := 0, 0, false
	for _, c := range o.At(0).List {
		if c.At(2).Str() != "-" {
			launched++
		}
		st := c.At(1)
		if st.IsList && st.At(0).Str() == "ok" {
			oks++
		} else if st.Str() != "idle" {
			disturbed = true
		}
	}
	called := false
	for _, st := range in.At(2).List {
		switch k := st.At(0).Str(); k {
		case "f", "d":
			disturbed = true
		case "r", "e":
			called = true
		case "s": // a construction step while calls are (or have been) under way
			if called {
				disturbed = true
			}
		}
	}
	return launched >= 2 && oks >= 1 && disturbed
}

// shrink: drop one step; drop the last caller when no step names it.
func shrinkCands(input string) []string {
	if isEnvInput(input) {
		return shrinkEnv(input)
	}
	in, err := sx.Parse(input)
	if err != nil {
		return nil
	}
	var out []string
	n := in.At(0).Int()
	steps := in.At(2).List
	var route *sx.Node
	if len(in.List) >= 4 {
		route = in.At(3)
	}
	for i := range steps {
		s := append(append([]*sx.Node{}, steps[:i]...), steps[i+1:]...)
		out = append(out, mkInputR(n, in.At(1), s, route))
	}
	if n > 1 {
		used := false
		for _, st := range steps {
			if k := st.At(0).Str(); k != "f" && k != "d" && k != "s" && st.At(1).Int() == n-1 {
				used = true
			}
		}
		if !used {
			out = append(out, mkInputR(n-1, in.At(1), steps, route))
		}
	}
	if route != nil {
		if k := route.At(1).Int(); k > 1 {
			out = append(out, mkInputR(n, in.At(1), steps, sx.L(sx.A(route.At(0).Str()), sx.I(k-1))))
		}
		out = append(out, mkInput(n, in.At(1), steps)) // without the route (shorter text)
	}
	return out
}

func init() {
	fw.Register(&fw.Property{
		ID:         "C07",
		Generate:   generate,
		RunImpl:    runImpl,
		Nontrivial: nontrivial,
		Rule: "model schedules replayed exactly on the real cfgbackend.ConsulSource.GetNextUInt32 / local.Service.NewRunNumber against an " +
			"in-process Consul KV HTTP simulator that parks every request and releases them in schedule order. EXHAUSTIVE: every " +
			"interleaving of the read/CAS steps of n complete calls with k extra events (foreign put lower/equal/higher/junk/empty, delete, " +
			"crash c, HTTP-500 for c) inserted at every position, from an absent key and from \"41\": (n,k) = (1,<=2) (2,<=2) (3,<=1) (4,0); " +
			"thorough adds (3,2) (4,1) (5,0) from \"41\"; (2,<=1) and (3,0) at 2^32-2 and 2^32-1; n=2 with 3 and n=3 with 2 `w` steps per caller " +
			"(no-ops for the real protocol; they drive variants that send more requests per call). RANDOM: 6000 (thorough 100000) schedules, " +
			"1..8 (12) callers, <=30 (60) steps, foreign writes (65% non-lowering, 20% lowering, 15% junk), deletes, crashes, HTTP failures, " +
			"no-op steps, initial key absent/number/near-wrap/junk. ROUTES: by default caller c uses slot c mod 4 (even: a local.Service of its own, " +
			"odd: ConsulSource directly); with the 4th input element (svc k) caller c calls NewRunNumber on Service c mod k, so calls OVERLAP INSIDE one " +
			"Service object (k=1: one apricot instance serves everybody, as in production): exhaustive (2,<=1) (3,0) from both stores, (2,0) in the wrap " +
			"region, n=2 with 3 `w` steps on one instance, (4,0) on two instances (thorough: (2,2) (3,1) (4,0) on one), a third of the random schedules " +
			"on 1..3 instances, 7 corpus lines. With (rpc k) caller c goes through the REAL gRPC hop — remote.RemoteService (apricot:// client) number c mod k → " +
			"loopback TCP → RpcServer.NewRunNumber of remote.NewServer → local.Service c mod k → the same simulator (production layout: the core holds no local.Service): " +
			"exhaustive (2,<=1) (3,0) from both stores, (1,<=2) from \"41\", (2,0) in the wrap region on one chain, (3,0) on two (thorough: (2,2) (3,1) on one, (4,0) on two), " +
			"a sixth of the random schedules on 1..3 chains, corpus lines; the observation is unchanged (number or error class per caller), the model hands a call that " +
			"ends in an error NO number through the hop. A caller that shows no event within the ceiling is set aside; if it later RETURNS without any request " +
			"having reached the simulator it is recorded as answered with no request of its own (Spec clause ownWrite rejects a number obtained so); " +
			"every ambiguity or ceiling is inconclusive. non-trivial = >=2 calls launched, >=1 number handed out and the calls " +
			"were disturbed (refused CAS, error, dead/pending caller or foreign write/delete); distinct by input text." + envRule,
		Shrink:   shrinkCands,
		Search:   search,
		ObsTags:  obsTags,
		Workers:  nRigs,
		Setup:    setup,
		Teardown: teardown,
		TrustedBase: []string{
			"harness/props/c07 gRPC chains (remote.go): the real remote.NewServer on a loopback listener in front of the rig's local.Service, the real remote.NewService as caller; error classes of answers that crossed the hop are told from the status description (code Unknown = the handler's error text); every other status code from the transport is inconclusive",
			"harness/props/c07 Consul KV simulator (consul.go): index per write, cas semantics of kvsSetCASTxn, linearizable consistent GET; a request outside any scenario (objects of the rig being constructed, vh gen evaluating the constructor) is served at once against a scratch store and recorded",
			"harness/props/c07 start-ups (exec.go, route inst): a construction is an actor like a caller — its requests are attributed because one actor runs at a time; answers carry Connection: close while a scenario constructs Service objects (each brings its own connection pool)",
			"harness/props/c07 controller (exec.go): one caller runs at a time, so requests are attributed without tagging; a caller without any event within the ceiling is set aside and only its later RETURN (an event) is used — no request at all may reach the simulator while such a caller is out, else the case is inconclusive",
			"github.com/hashicorp/consul/api client (real, unmodified) and net/http on loopback",
			"environment-level stream: harness/envh (environment builder, probe plugin, event capture, scripted task-level bodies — the scripted START body resets currentRunNumber on failure as StartActivityTransition.do does) and the verif hooks it uses in /repo; apricot's mock:// (file) branch of NewRunNumber stands in for one undisturbed call of the protocol",
		},
		Assumptions: []string{
			"Consul itself: a consistent-mode GET is linearizable, ModifyIndex grows with every write, PUT ?cas= is atomic (the simulator and the Lean model implement exactly this)",
			"ForeignMonotone: nobody else lowers or deletes the counter (stated as a hypothesis of the theorems; cases violating it are executed and compared with the model, Spec is vacuous for them)",
			"grpc-go between the remote client and the apricot server: a handler's plain Go error reaches the client as a status of code Unknown carrying its text and no response message; no retry policy is configured (one RPC that reached the handler = one handler run). That the handler and the client themselves make ONE call each and hand the error on is extracted by go/ast (C07_remote_hop_is_code) and replayed (route (rpc k))",
			"start-ups: what constructing a Service does on the KV is observed for local.NewService on a consul:// backend (C07_startup_is_code: go/ast + evaluation of the linked constructor); the rest of a core's or daemon's start-up (apricot.Instance(), viper, gRPC server) is not run; an instance that is restarted is a new instance",
			"the start attempts of ONE environment are sequential (TryTransition holds the environment's transition mutex — C01), so each is a complete call on the durable counter; other environments' calls in between are foreign-monotone writes for it",
		},
	})
	fw.RegisterGen(fw.GenFile{Name: "C07Facts.lean", Make: genFacts})
}
