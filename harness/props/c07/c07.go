// Package c07: correspondence harness for property C07 (stub — registers nothing yet).
package c07
