package c07

// A Consul KV simulator that CONTROLS THE INTERLEAVING: every incoming HTTP request is parked
// and handed to the controller (exec.go), which decides when — and whether — it is processed.
// It speaks what github.com/hashicorp/consul/api expects for KV: GET (200 JSON array / 404),
// PUT (?cas=) answering "true"/"false", DELETE; X-Consul-* headers.
//
// A request is parked only while a scenario is being replayed, when the controller attributes it
// to the actor it has just let go (a caller, or a Service being constructed — `(s j)` steps). A
// request that belongs to NO scripted step (the rig's own Service objects being constructed, the
// generator's evaluation of the constructor) is served at once and recorded: mode `atOnce`.
//
// Semantics (the trusted model of Consul, same as Model/RunNumber.lean):
//   - every applied write/delete gets raft+1 as (Modify)Index;
//   - PUT ?cas=i succeeds iff (i = 0 ∧ key absent) ∨ (i ≠ 0 ∧ key present ∧ i = ModifyIndex)
//     (agent/consul/state/kvs.go kvsSetCASTxn);
//   - a GET with ?consistent sees the current entry. A GET WITHOUT it is allowed to be stale in
//     Consul (default/stale modes during leadership changes); the simulator is adversarial and
//     then serves the entry as it was before the last applied write. The unmodified code never
//     takes that path; code that drops RequireConsistent does, and then hands out duplicates.

import (
	"encoding/base64"
	"encoding/json"
	"fmt"
	"io"
	"net/http"
	"net/http/httptest"
	"net/url"
	"strconv"
	"strings"
	"sync"
)

type kvEntry struct {
	raw    []byte
	idx    uint64
	create uint64
}

type kvKey struct {
	cur      *kvEntry
	prev     *kvEntry // the entry before the last applied write (stale view)
	havePrev bool
}

type kvStore struct {
	keys map[string]*kvKey
	raft uint64
}

func newStore(raft uint64) *kvStore { return &kvStore{keys: map[string]*kvKey{}, raft: raft} }

func (s *kvStore) key(k string) *kvKey {
	e := s.keys[k]
	if e == nil {
		e = &kvKey{}
		s.keys[k] = e
	}
	return e
}

func (s *kvStore) write(k string, raw []byte) {
	e := s.key(k)
	s.raft++
	e.prev, e.havePrev = e.cur, true
	create := s.raft
	if e.cur != nil {
		create = e.cur.create
	}
	e.cur = &kvEntry{raw: append([]byte{}, raw...), idx: s.raft, create: create}
}

func (s *kvStore) delete(k string) {
	e := s.key(k)
	s.raft++
	e.prev, e.havePrev = e.cur, true
	e.cur = nil
}

// level = the counter value a key stands for: 0 when absent or not a decimal uint32
// (Model/RunNumber.lean `Store.level`).
func (s *kvStore) level(k string) uint64 {
	e := s.key(k).cur
	if e == nil {
		return 0
	}
	v, ok := parseU32(string(e.raw))
	if !ok {
		return 0
	}
	return v
}

func (s *kvStore) casOk(k string, i uint64) bool {
	e := s.key(k)
	if e.cur == nil {
		return i == 0
	}
	return i != 0 && i == e.cur.idx
}

type request struct {
	method string
	key    string
	q      url.Values
	body   []byte
	reply  chan response
}

type response struct {
	code  int
	body  []byte
	index uint64
}

// reqRecord = one request the simulator PROCESSED, as the observation prints it: `what` args…
// (`get C` / `put I BODY ANS` / `delete`), plus the key when it is not the counter key.
type reqRecord struct {
	what string
	args []string
	key  string
}

func (r reqRecord) isWrite() bool { return r.what == "put" || r.what == "delete" }

// atOnce = the simulator's second mode. A request that arrives while NO scenario is being
// replayed (the rig is being built: clients and Service objects are constructed; the generator
// evaluates a constructor) belongs to no scripted step. Such a request is never parked: it is
// processed AT ONCE against the store given, and RECORDED — whoever switched the mode on reads the
// record back. (While a scenario is replayed every request is attributed to the actor the
// controller has just let go and is processed at the step the schedule names, see exec.go.)
type atOnce struct {
	store *kvStore
	log   []reqRecord
}

type fakeConsul struct {
	srv      *httptest.Server
	arrivals chan *request
	quit     chan struct{} // closed by shutdown: every parked request is answered 500
	quitOnce sync.Once

	mu   sync.Mutex
	auto *atOnce // non-nil: serve at once (see atOnce)
	// closeConns: answers carry `Connection: close` — set while a scenario constructs Service
	// objects of its own (every one of them brings a connection pool of its own; nothing offers a
	// Close), so that no idle connection outlives the case
	closeConns bool
}

// serveAtOnce switches the at-once mode on; the returned function switches it off and hands back
// what was processed meanwhile.
func (f *fakeConsul) serveAtOnce(store *kvStore) (stop func() []reqRecord) {
	a := &atOnce{store: store}
	f.mu.Lock()
	f.auto = a
	f.mu.Unlock()
	return func() []reqRecord {
		f.mu.Lock()
		defer f.mu.Unlock()
		if f.auto == a {
			f.auto = nil
		}
		return a.log
	}
}

func (f *fakeConsul) setCloseConns(on bool) {
	f.mu.Lock()
	f.closeConns = on
	f.mu.Unlock()
}

func newFakeConsul() *fakeConsul {
	f := &fakeConsul{arrivals: make(chan *request, 64), quit: make(chan struct{})}
	f.srv = httptest.NewServer(f)
	return f
}

// shutdown releases every request still parked (answer 500: the real callers behind them return)
// and closes the server. httptest.Server.Close waits for outstanding requests, so a simulator that
// is given up while requests are parked must let them go first.
func (f *fakeConsul) shutdown() {
	f.release()
	f.srv.Close()
}

// release answers every parked request — and every later one — with 500, the server stays up.
func (f *fakeConsul) release() { f.quitOnce.Do(func() { close(f.quit) }) }

func (f *fakeConsul) addr() string { return strings.TrimPrefix(f.srv.URL, "http://") }

func (f *fakeConsul) ServeHTTP(w http.ResponseWriter, r *http.Request) {
	body, _ := io.ReadAll(r.Body)
	rq := &request{method: r.Method, key: strings.TrimPrefix(r.URL.Path, "/v1/kv/"), q: r.URL.Query(), body: body,
		reply: make(chan response, 1)}
	if !strings.HasPrefix(r.URL.Path, "/v1/kv/") {
		http.Error(w, "not simulated", http.StatusNotFound)
		return
	}
	var rp response
	f.mu.Lock()
	closeConn := f.closeConns
	if a := f.auto; a != nil {
		var what string
		var args []string
		rp, what, args = process(a.store, rq)
		a.log = append(a.log, reqRecord{what: what, args: args, key: rq.key})
		f.mu.Unlock()
		f.write(w, rp, closeConn)
		return
	}
	f.mu.Unlock()
	select {
	case f.arrivals <- rq:
		select {
		case rp = <-rq.reply:
		case <-f.quit:
			rp = response{code: 500, body: []byte("simulator shut down")}
		}
	case <-f.quit:
		rp = response{code: 500, body: []byte("simulator shut down")}
	}
	f.write(w, rp, closeConn)
}

func (f *fakeConsul) write(w http.ResponseWriter, rp response, closeConn bool) {
	if closeConn {
		w.Header().Set("Connection", "close")
	}
	w.Header().Set("Content-Type", "application/json")
	w.Header().Set("X-Consul-Index", strconv.FormatUint(rp.index, 10))
	w.Header().Set("X-Consul-KnownLeader", "true")
	w.Header().Set("X-Consul-LastContact", "0")
	w.WriteHeader(rp.code)
	w.Write(rp.body)
}

type kvJSON struct {
	LockIndex   uint64
	Key         string
	Flags       uint64
	Value       *string
	CreateIndex uint64
	ModifyIndex uint64
}

// process applies one request to the store. It returns the response and a short description of
// the request (what the observation records).
func process(s *kvStore, rq *request) (response, string, []string) {
	switch rq.method {
	case http.MethodGet:
		_, consistent := rq.q["consistent"]
		k := s.key(rq.key)
		e := k.cur
		if !consistent && k.havePrev {
			e = k.prev
		}
		c := "0"
		if consistent {
			c = "1"
		}
		if e == nil {
			return response{code: 404, index: s.raft}, "get", []string{c}
		}
		v := base64.StdEncoding.EncodeToString(e.raw)
		js, _ := json.Marshal([]kvJSON{{Key: rq.key, Value: &v, CreateIndex: e.create, ModifyIndex: e.idx}})
		return response{code: 200, body: js, index: s.raft}, "get", []string{c}
	case http.MethodPut:
		casS, hasCas := rq.q["cas"]
		param := "-"
		ok := true
		if hasCas && len(casS) > 0 {
			param = casS[0]
			i, err := strconv.ParseUint(casS[0], 10, 64)
			if err != nil {
				return response{code: 400, body: []byte("bad cas"), index: s.raft}, "put", []string{param, string(rq.body), "400"}
			}
			ok = s.casOk(rq.key, i)
		}
		if ok {
			s.write(rq.key, rq.body)
		}
		return response{code: 200, body: []byte(fmt.Sprintf("%v", ok)), index: s.raft}, "put", []string{param, string(rq.body), fmt.Sprintf("%v", ok)}
	case http.MethodDelete:
		casS, hasCas := rq.q["cas"]
		ok := true
		if hasCas && len(casS) > 0 {
			i, _ := strconv.ParseUint(casS[0], 10, 64)
			ok = s.casOk(rq.key, i) && i != 0
		}
		if ok {
			s.delete(rq.key)
		}
		return response{code: 200, body: []byte(fmt.Sprintf("%v", ok)), index: s.raft}, "delete", nil
	}
	return response{code: 405, body: []byte("method not simulated"), index: s.raft}, strings.ToLower(rq.method), nil
}

// refuse answers a request with an HTTP error without applying it.
func refuse(s *kvStore, rq *request) (response, string, []string) {
	rp := response{code: 500, body: []byte("simulated failure"), index: s.raft}
	switch rq.method {
	case http.MethodGet:
		c := "0"
		if _, ok := rq.q["consistent"]; ok {
			c = "1"
		}
		return rp, "get", []string{c}
	case http.MethodPut:
		param := "-"
		if casS, ok := rq.q["cas"]; ok && len(casS) > 0 {
			param = casS[0]
		}
		return rp, "put", []string{param, string(rq.body), "500"}
	}
	return rp, strings.ToLower(rq.method), nil
}
