package c07

// The ENVIRONMENT-LEVEL stream of C07: histories of START attempts on one real
// core/environment.Environment (driven through harness/envh, shared with C01/C08/C09/C10 and
// used here read-only through envh.Setup / envh.Run / envh.Shrink / envh.GenCase).
//
// Input  : (hooks reqs nTasks)                    -- envh's format; the first element is a LIST,
//                                                    which is how it is told from the protocol
//                                                    stream `(n (raft entry) sched)`
//
//	hook := (id call|task crit trigName trigW awaitName awaitW (o0 o1 …))   oK=1 ⇒ K-th execution fails
//	req  := (T ev bodyOk rnFail) | (C ev bodyOk rnFail)                     T = TryTransition, C = API glue
//
// Obs    : (E (cls state rn var (n…)) …)          one entry per request, read off envh's trace:
//
//	cls    ok | illegal | hooks | body | rn | …      class of the error the request returned
//	state  the environment's state after the request
//	rn     GetCurrentRunNumber() after the request        (the `rn` field of envh's R record)
//	var    the workflow variable run_number after it      (absent | empty | N)
//	n…     run numbers PUBLISHED for a new run during the request (Ev_RunEvent START_ACTIVITY STARTED)
//
// The counter behind the.ConfSvc() is envh's mock:// backend (apricot's file branch of
// NewRunNumber, a fresh counter file per case): the attempts of one environment are sequential,
// so each is one complete, undisturbed call of the protocol — what Model/RunAttempts.lean
// composes. Spec (Lean, SpecEnv): a request publishes at most one number and every number is
// larger than every number published before in the history.

import (
	"fmt"
	"strings"
	"sync"

	"verifharness/envh"
	"verifharness/fw"
	"verifharness/rng"
	"verifharness/sx"
)

// envh keeps one global recorder and drives process-global singletons: one case at a time.
var envMu sync.Mutex

func isEnvInput(input string) bool {
	in, err := sx.Parse(input)
	return err == nil && in.IsList && len(in.List) == 3 && in.At(0).IsList
}

func runEnv(input string) (string, error) {
	envMu.Lock()
	defer envMu.Unlock()
	in, err := sx.Parse(input)
	if err != nil {
		return "", err
	}
	for _, q := range in.At(1).List {
		if k := q.At(0).Str(); k != "T" && k != "C" && k != "D" {
			return "", fmt.Errorf("environment stream: request kind %q not supported", k)
		}
	}
	tr, err := envh.Run(input, false)
	if err != nil {
		return "", err
	}
	return projectTrace(tr)
}

// projectTrace keeps, per request, what C07 is about.
func projectTrace(trace string) (string, error) {
	t, err := sx.Parse(trace)
	if err != nil {
		return "", fmt.Errorf("unparsable envh trace: %v", err)
	}
	out := sx.L(sx.A("E"))
	pubs := sx.L()
	for _, e := range t.List {
		switch e.At(0).Str() {
		case "RE":
			if e.At(1).Str() == "START_ACTIVITY" && e.At(2).Str() == "STARTED" {
				pubs.Add(sx.A(e.At(3).Str()))
			}
		case "R":
			cls := "ok"
			if res := e.At(1); res.At(0).Str() != "ok" {
				cls = res.At(1).Str()
			}
			out.Add(sx.L(sx.A(cls), sx.A(e.At(2).Str()), sx.A(e.At(3).Str()), sx.A(e.At(4).At(0).Str()), pubs))
			pubs = sx.L()
		}
	}
	if len(pubs.List) != 0 {
		return "", fmt.Errorf("envh trace ends inside a request")
	}
	return out.String(), nil
}

// ---- generator ------------------------------------------------------------------------------------
//
// A history is built from SEGMENTS, each starting and ending in CONFIGURED: one way a start
// attempt (or the run it started) can end. Three scripted hooks decide the fate of each attempt:
//
//	hook 0  before_START_ACTIVITY, weight >= 0   runs AFTER the number was obtained
//	hook 1  before_START_ACTIVITY, weight <  0   runs BEFORE (a failure here means: no call)
//	hook 2  leave_CONFIGURED                     runs after before_event (number obtained)
//
// The builder keeps the execution counters of the three hooks so that it can put the failure of
// the k-th execution where the segment needs it. (If it miscounts, the history is merely a
// different one: nothing is compared with the builder.)

var segKinds = []string{"neg", "callfails", "pos", "leave", "body", "stop", "goerror", "stopfails", "reset"}

var segTag = map[string]string{
	"neg": "env:cancelled-before-number", "callfails": "env:call-fails", "pos": "env:cancelled-after-number(before_START>=0)",
	"leave": "env:cancelled-after-number(leave_CONFIGURED)", "body": "env:start-body-fails", "stop": "env:run-stopped",
	"goerror": "env:run-ends-in-GO_ERROR", "stopfails": "env:stop-fails-api-glue", "reset": "env:reset-configure",
}

type envBuilder struct {
	reqs             []*sx.Node
	neg, pos, leave  []bool
	kNeg, kPos, kLea int
	tags             map[string]bool
}

func failAt(s *[]bool, k int) {
	for len(*s) <= k {
		*s = append(*s, false)
	}
	(*s)[k] = true
}

func (b *envBuilder) req(kind, ev string, bodyOk, rnFail bool) {
	b.reqs = append(b.reqs, sx.L(sx.A(kind), sx.A(ev), sx.B(bodyOk), sx.B(rnFail)))
}

// recover brings the environment back to CONFIGURED after the API glue sent it to ERROR.
func (b *envBuilder) recover() {
	b.req("T", "RECOVER", true, false)
	b.req("T", "CONFIGURE", true, false)
}

// seg appends one segment; kind "T"/"C" is how its START request is issued.
func (b *envBuilder) seg(what, kind string) {
	b.tags[segTag[what]] = true
	if kind == "C" {
		b.tags["env:api-glue"] = true
	}
	failedStart := func() {
		if kind == "C" { // the glue answers a failed transition with GO_ERROR: CONFIGURED is left once more
			b.kLea++
			b.recover()
		}
	}
	switch what {
	case "neg":
		failAt(&b.neg, b.kNeg)
		b.kNeg++
		b.req(kind, "START_ACTIVITY", true, false)
		failedStart()
	case "callfails":
		b.kNeg++
		b.req(kind, "START_ACTIVITY", true, true)
		failedStart()
	case "pos":
		b.kNeg++
		failAt(&b.pos, b.kPos)
		b.kPos++
		b.req(kind, "START_ACTIVITY", true, false)
		failedStart()
	case "leave":
		b.kNeg++
		b.kPos++
		failAt(&b.leave, b.kLea)
		b.kLea++
		b.req(kind, "START_ACTIVITY", true, false)
		failedStart()
	case "body":
		b.kNeg++
		b.kPos++
		b.kLea++
		b.req(kind, "START_ACTIVITY", false, false)
		failedStart()
	case "stop", "goerror", "stopfails":
		b.kNeg++
		b.kPos++
		b.kLea++
		b.req(kind, "START_ACTIVITY", true, false)
		switch what {
		case "stop":
			b.req("T", "STOP_ACTIVITY", true, false)
		case "goerror":
			b.req("T", "GO_ERROR", true, false)
			b.recover()
		case "stopfails":
			b.tags["env:api-glue"] = true
			b.req("C", "STOP_ACTIVITY", false, false)
			b.recover()
		}
	case "reset":
		b.kLea++
		b.req("T", "RESET", true, false)
		b.req("T", "CONFIGURE", true, false)
	}
}

func outcomes(s []bool) *sx.Node {
	l := sx.L()
	for _, f := range s {
		l.Add(sx.B(f))
	}
	return l
}

func hookNode(id int, kind string, crit bool, trig string, w int, outs *sx.Node) *sx.Node {
	return sx.L(sx.I(id), sx.A(kind), sx.B(crit), sx.A(trig), sx.I(w), sx.A(trig), sx.I(w), outs)
}

// history assembles the input: DEPLOY, CONFIGURE, the segments, and one last START attempt.
func history(segs, kinds []string, posW, negW, leaW int, posKind string, extra []*sx.Node, nTasks int, origin string) fw.Case {
	b := &envBuilder{tags: map[string]bool{}}
	b.req("T", "DEPLOY", true, false)
	b.req("T", "CONFIGURE", true, false)
	for i, s := range segs {
		b.seg(s, kinds[i])
	}
	b.req("T", "START_ACTIVITY", true, false)
	hooks := sx.L(
		hookNode(0, posKind, true, "before_START_ACTIVITY", posW, outcomes(b.pos)),
		hookNode(1, "call", true, "before_START_ACTIVITY", negW, outcomes(b.neg)),
		hookNode(2, "call", true, "leave_CONFIGURED", leaW, outcomes(b.leave)))
	hooks.Add(extra...)
	tags := []string{origin, fmt.Sprintf("env:segments=%d", len(segs))}
	for _, k := range segKinds {
		if b.tags[segTag[k]] {
			tags = append(tags, segTag[k])
		}
	}
	if b.tags["env:api-glue"] {
		tags = append(tags, "env:api-glue")
	}
	return fw.Case{Input: sx.L(hooks, sx.L(b.reqs...), sx.I(nTasks)).String(), Tags: tags}
}

// every ordered pair (thorough: triple) of segment kinds, START through TryTransition
func envExhaustive(n int) []fw.Case {
	var cs []fw.Case
	var rec func(pre []string)
	rec = func(pre []string) {
		if len(pre) == n {
			kinds := make([]string, n)
			for i := range kinds {
				kinds[i] = "T"
			}
			cs = append(cs, history(append([]string{}, pre...), kinds, 5, -5, 0, "call", nil, 1, fmt.Sprintf("env:exh-%d-segments", n)))
			return
		}
		for _, k := range segKinds {
			rec(append(pre, k))
		}
	}
	rec(nil)
	return cs
}

var envMoments = []string{"before_CONFIGURE", "after_CONFIGURE", "before_START_ACTIVITY", "leave_CONFIGURED", "enter_RUNNING",
	"after_START_ACTIVITY", "before_STOP_ACTIVITY", "leave_RUNNING", "after_STOP_ACTIVITY", "before_GO_ERROR", "enter_ERROR",
	"before_RECOVER", "after_RECOVER", "before_RESET", "enter_CONFIGURED"}

func envRandom(r *rng.R) fw.Case {
	n := r.Range(2, 6)
	segs, kinds := make([]string, n), make([]string, n)
	for i := range segs {
		segs[i] = rng.Pick(r, segKinds)
		kinds[i] = "T"
		if r.P(3, 10) {
			kinds[i] = "C"
		}
	}
	posKind := "call"
	if r.P(1, 5) {
		posKind = "task"
	}
	// bystanders: NON-critical hooks anywhere (failing or not, awaited in place or floating):
	// they must not change which attempts get a number
	var extra []*sx.Node
	for i, k := 0, r.N(3); i < k; i++ {
		trig := rng.Pick(r, envMoments)
		w := rng.Pick(r, []int{-20, -1, 0, 3, 40})
		at, aw := trig, w
		outs := sx.L()
		if r.P(1, 4) {
			at, aw = rng.Pick(r, envMoments), rng.Pick(r, []int{-20, 0, 40})
			if r.P(1, 2) { // floating calls get a constant script: their execution indices are not order-stable
				for j := 0; j < 8; j++ {
					outs.Add(sx.B(true))
				}
			}
		} else {
			for j := 0; j < 6; j++ {
				outs.Add(sx.B(r.P(1, 3)))
			}
		}
		extra = append(extra, sx.L(sx.I(3+i), sx.A("call"), sx.B(false), sx.A(trig), sx.I(w), sx.A(at), sx.I(aw), outs))
	}
	return history(segs, kinds, rng.Pick(r, []int{0, 5, 50}), rng.Pick(r, []int{-1, -50}), rng.Pick(r, []int{-10, 0, 10}),
		posKind, extra, r.Range(0, 2), "env:random-history")
}

// a steered random walk of envh's own generator, run-focused, no teardowns, no overlapping requests
var walkProfile = envh.Profile{MaxHooks: 6, MaxReqs: 14, FailP: 150, BodyFailP: 120, IllegalP: 60, TaskHookP: 100, FloatP: 60,
	TeardownP: 0, ControlP: 300, RunFocus: true}

func envWalk(r *rng.R) fw.Case {
	c := envh.GenCase(r, walkProfile)
	c.Tags = append([]string{"env:random-walk"}, c.Tags...)
	return c
}

func generateEnv(tier string, r *rng.R) []fw.Case {
	cs := envExhaustive(2)
	nHist, nWalk := 150, 60
	if tier == "thorough" {
		cs = append(cs, envExhaustive(3)...)
		nHist, nWalk = 3000, 1500
	}
	for i := 0; i < nHist; i++ {
		cs = append(cs, envRandom(r.Fork()))
	}
	for i := 0; i < nWalk; i++ {
		cs = append(cs, envWalk(r.Fork()))
	}
	return cs
}

// non-trivial: at least two numbers were handed out and the history is not a plain START/STOP
// cycle: some START request did not succeed, or the environment went through ERROR.
func nontrivialEnv(input, obs string) bool {
	in, err := sx.Parse(input)
	if err != nil {
		return false
	}
	o, err := sx.Parse(obs)
	if err != nil || len(o.List) == 0 || o.At(0).Str() != "E" {
		return false
	}
	reqs := in.At(1).List
	pubs, disturbed := 0, false
	for i, e := range o.List[1:] {
		pubs += len(e.At(4).List)
		if e.At(1).Str() == "ERROR" {
			disturbed = true
		}
		if i < len(reqs) && reqs[i].At(1).Str() == "START_ACTIVITY" && e.At(0).Str() != "ok" {
			disturbed = true
		}
	}
	return pubs >= 2 && disturbed
}

const envRule = " ENVIRONMENT LEVEL (first input element a list): request histories on one real core/environment.Environment through harness/envh " +
	"(mock:// counter, fresh per case): DEPLOY, CONFIGURE, then segments — START cancelled by a critical negative-weight before_START_ACTIVITY hook " +
	"(no call) / by a failing NewRunNumber / by a critical before_START_ACTIVITY hook of weight >= 0 / by a critical leave_CONFIGURED hook (number " +
	"already obtained) / by a failing task-level body; run stopped; run ended by GO_ERROR, RECOVER, CONFIGURE; STOP failing through the API glue; " +
	"RESET, CONFIGURE — and a last START. EXHAUSTIVE: every ordered pair (thorough: triple) of the 9 segment kinds. RANDOM: 150 (3000) histories of " +
	"2..6 segments, 30% of the START requests through the ControlEnvironment glue, hook weights/kinds varied, 0..2 non-critical bystander hooks " +
	"(failing, floating); 60 (1500) run-focused random walks of envh's generator (no teardown, no overlap). non-trivial there = >=2 numbers handed " +
	"out and some START did not succeed or ERROR was visited"

func envSetup(work string) error { return envh.Setup(work) }

func shrinkEnv(input string) []string {
	var out []string
	for _, c := range envh.Shrink(input) {
		if !strings.Contains(c, "(P ") {
			out = append(out, c)
		}
	}
	return out
}
