package c07

// The controller: replays one model schedule on the real code.
//
// Callers are goroutines inside the real `local.Service.NewRunNumber` /
// `cfgbackend.ConsulSource.GetNextUInt32`. At any moment at most ONE goroutine is running (all
// others are parked inside the simulator or have not been launched), so the next request that
// arrives belongs to the caller the controller has just let go — no tagging of requests, no
// timing. After every step the controller waits (event-driven) until that caller has either
// returned or parked its next request.
//
// ROUTES. Which object a caller goes through is part of the input (4th element, optional):
//
//	(absent)  caller c uses slot c mod 4: even slots local.Service.NewRunNumber (a Service of
//	          its own per slot), odd slots ConsulSource.GetNextUInt32 directly
//	(svc k)   caller c calls NewRunNumber on Service number c mod k (k = 1..4): k = 1 is ONE
//	          apricot instance serving every caller — the situation in production, where all
//	          environments of a core (and every remote client) share one local.Service — so
//	          calls OVERLAP INSIDE one Service object
//	(rpc k)   caller c calls NewRunNumber on the remote (apricot://) client number c mod k, i.e.
//	          through the REAL gRPC hop — remote.RemoteService → loopback TCP → the handler
//	          RpcServer.NewRunNumber of remote.NewServer → local.Service number c mod k → Consul
//	          (see remote.go): the layout of production, where the core holds no local.Service
//
//	(inst k)  START-UPS ARE STEPS OF THE SCHEDULE. k apricot instances (cores with an embedded
//	          apricot, apricot daemons, coconut invocations) exist, none of them constructed when
//	          the schedule begins. `(s j)` lets the construction of instance j — the real
//	          local.NewService("consul://<simulator>") — begin, on a goroutine of its own, and
//	          processes the first request it sends, if it sends one; a further `(s j)` processes
//	          the next request of a construction still under way (a no-op otherwise — for the code
//	          as it stands a construction sends NOTHING and is complete within its first step).
//	          Caller c calls NewRunNumber on instance c mod k; a step that would LAUNCH a call
//	          (`r c`, `e c` of an idle caller) while that instance is not up is a no-op. So
//	          constructions interleave with each other, with allocations of instances already up,
//	          with foreign writes and deletes of the key, exactly as read/CAS steps do. The
//	          observation gets two more elements: per instance its status, the steps at which its
//	          construction began/ended and the requests Consul processed FOR THE CONSTRUCTION, and
//	          `(own (B A)…)` — for every write of the code under test (caller or construction)
//	          that Consul APPLIED to the counter key, the counter's level before and after.
//
// The model is blind to the route as far as the protocol goes: every caller runs read ; cas
// itself, whatever it goes through. The hop is an error boundary on top: a call that ends in an
// error comes back with that error and NO number (Model/RunRemote.lean `viaHop`).
//
// SILENT CALLERS. A caller that has been let go and shows no event (no request, no return) within
// the ceiling is marked `silent` and the schedule goes on without it: it is blocked on something
// other than Consul (or merely slow — the controller cannot tell, and never needs to). Nothing is
// concluded from the silence itself:
//   - if the silent caller RETURNS later, that return is an event, and the fact that no request
//     whatsoever arrived at the simulator between its launch and its return is an observation:
//     the caller answered without talking to Consul. It is recorded with the requests Consul
//     processed for it — none — and the end step `len(schedule)` (an upper bound);
//   - if ANY request arrives while a silent caller exists, it can no longer be attributed ⇒ the
//     case is inconclusive (err);
//   - a caller still silent when the schedule is over and not returning by itself ⇒ inconclusive.
//
// BUDGET. Every ceiling hit is counted (`trip`). On the unchanged tree none ever occurs (every
// wait ends with an event within microseconds). A tree on which expected requests do not arrive
// would otherwise spend the full ceiling in thousands of cases — hours; after three hits in one
// process the ceiling drops to 250 ms, after twenty to 40 ms. A ceiling is never a verdict.

import (
	"errors"
	"fmt"
	"strconv"
	"strings"
	"sync/atomic"
	"time"

	"github.com/AliceO2Group/Control/apricot/local"
	"github.com/AliceO2Group/Control/configuration/cfgbackend"
	"github.com/hashicorp/consul/api"

	"verifharness/sx"
)

const runNumberKey = "o2/runtime/run_number" // what local.Service.NewRunNumber uses
const nSlots = 4

var trips atomic.Int64

func trip() { trips.Add(1) }

// ceiling: infrastructure guard only. Exceeded ⇒ the awaited caller is `silent` or the case is
// inconclusive — never a verdict.
func ceiling() time.Duration {
	switch n := trips.Load(); {
	case n < 3:
		return 15 * time.Second
	case n < 20:
		return 250 * time.Millisecond
	}
	return 40 * time.Millisecond
}

type callResult struct {
	value uint32
	err   error
}

// rig = one simulator + the real clients talking to it. Reused across cases (keep-alive).
type rig struct {
	consul *fakeConsul
	// what the constructors of the rig's own clients and Service objects asked of Consul (served at
	// once against a scratch store with the key absent; nothing for the code as it stands)
	ctorReqs []reqRecord
	svcs     [nSlots]*local.Service
	chains   [nSlots]*chain // remote client → gRPC server → svcs[i], built on first use (remote.go)
	srcs     [nSlots]*cfgbackend.ConsulSource
	foreign  *cfgbackend.ConsulSource
	kv       *api.KV
}

func newRig() (*rig, error) {
	g := &rig{consul: newFakeConsul()}
	// no scenario is being replayed: whatever a constructor asks is served at once, and recorded
	stop := g.consul.serveAtOnce(newStore(0))
	defer func() { g.ctorReqs = stop() }()
	for i := 0; i < nSlots; i++ {
		svc, err := local.NewService("consul://" + g.consul.addr())
		if err != nil {
			return nil, err
		}
		g.svcs[i] = svc
		src, err := cfgbackend.NewConsulSource(g.consul.addr())
		if err != nil {
			return nil, err
		}
		g.srcs[i] = src
	}
	var err error
	if g.foreign, err = cfgbackend.NewConsulSource(g.consul.addr()); err != nil {
		return nil, err
	}
	cfg := api.DefaultConfig()
	cfg.Address = g.consul.addr()
	cli, err := api.NewClient(cfg)
	if err != nil {
		return nil, err
	}
	g.kv = cli.KV()
	return g, nil
}

// close: parked requests are released first (the handlers behind them return, and with them the
// RPCs), then the gRPC chains go, then the simulator.
func (g *rig) close() {
	g.consul.release()
	g.closeChains()
	g.consul.shutdown()
}

// route = the optional 4th element of a protocol input.
type route struct {
	kind string // "" (none) | "svc" | "rpc" | "inst"
	k    int
}

// call runs the real code for caller c. No route given: even slots go through apricot's
// local.Service (the path the core takes with an embedded apricot), odd slots call the backend
// directly (one of them with a leading slash, which formatKey trims).
func (g *rig) call(c int, rt route) callResult {
	var v uint32
	var err error
	switch rt.kind {
	case "svc":
		v, err = g.svcs[c%rt.k].NewRunNumber()
		return callResult{v, err}
	case "rpc":
		v, err = g.chains[c%rt.k].cli.NewRunNumber() // built by runCase before any caller is launched
		return callResult{v, err}
	}
	slot := c % nSlots
	switch {
	case slot%2 == 0:
		v, err = g.svcs[slot].NewRunNumber()
	case slot == 1:
		v, err = g.srcs[slot].GetNextUInt32(runNumberKey)
	default:
		v, err = g.srcs[slot].GetNextUInt32("/" + runNumberKey)
	}
	return callResult{v, err}
}

const (
	phIdle = iota
	phPending
	phDone
	phDead
	phSilent // let go, no event seen since (see the header)
)

// callerRT = one ACTOR of a scenario: a caller (one call of the real code), or — route (inst k),
// actors n..n+k-1 — the construction of one Service (svc = what it returned).
type callerRT struct {
	svc        *local.Service
	phase      int
	live       bool // its goroutine has been launched and has not returned
	req        *request
	resCh      chan callResult
	res        callResult
	start, end int
	trace      *sx.Node
}

func errClass(err error) string {
	if err == nil {
		return "ok"
	}
	var ne *strconv.NumError
	if errors.As(err, &ne) {
		return "parse"
	}
	// an error that crossed the gRPC hop is the handler's error as text (remote.go)
	if msg, crossed, _ := throughHop(err); crossed {
		return classOfText(msg)
	}
	msg := err.Error()
	switch {
	case msg == "cannot write back incremented CAS key":
		return "cas"
	case strings.Contains(msg, "Unexpected response code"):
		return "http"
	case strings.Contains(msg, "exhausted"):
		return "exhausted"
	}
	return "other"
}

// transportTrouble: the loopback connection itself failed — infrastructure, not behaviour.
func transportTrouble(err error) bool {
	if _, _, transport := throughHop(err); transport {
		return true
	}
	msg := err.Error()
	for _, s := range []string{"dial tcp", "connection re", "EOF", "timeout", "broken pipe", "use of closed"} {
		if strings.Contains(msg, s) {
			return true
		}
	}
	return false
}

type controller struct {
	g       *rig
	store   *kvStore
	cs      []*callerRT // callers 0..n-1, then (route inst) the constructions n..n+k-1
	n       int         // number of callers
	own     [][2]uint64 // (level before, level after) of every write of an actor applied to the counter key
	rt      route       // the route, kind "" = none
	nSteps  int         // length of the schedule
	returns chan int    // a caller's goroutine has returned (its result is in its resCh)
}

const (
	evReturn  = iota // a caller returned
	evArrival        // a request reached the simulator
	evForeign        // the foreign operation under way finished
	evCeiling        // nothing within the ceiling
)

type event struct {
	kind int
	ci   int
	rq   *request
	res  callResult
}

// next blocks until something happens.
func (k *controller) next(foreign chan callResult) event {
	t := time.NewTimer(ceiling())
	defer t.Stop()
	select {
	case ci := <-k.returns:
		return event{kind: evReturn, ci: ci, res: <-k.cs[ci].resCh}
	case rq := <-k.g.consul.arrivals:
		return event{kind: evArrival, rq: rq}
	case res := <-foreign:
		return event{kind: evForeign, res: res}
	case <-t.C:
		trip()
		return event{kind: evCeiling}
	}
}

func (k *controller) anySilent() bool {
	for _, c := range k.cs {
		if c.phase == phSilent {
			return true
		}
	}
	return false
}

var errAmbiguous = fmt.Errorf("c07 harness: inconclusive: a request arrived while a caller that had shown no event within the ceiling was still out — it cannot be attributed")

// returned books the return of caller ci that was NOT the one being waited for: legitimate only
// for a silent caller (it answered without any request of its own having reached the simulator).
func (k *controller) returned(ev event) error {
	d := k.cs[ev.ci]
	d.live = false
	if d.phase != phSilent {
		return fmt.Errorf("c07 harness: inconclusive: caller %d returned while it was not running", ev.ci)
	}
	d.phase, d.res, d.end, d.req = phDone, ev.res, k.nSteps, nil
	return nil
}

// settle waits until caller ci, which has just been let go, has returned or parked its next request.
func (k *controller) settle(ci int, step int) error {
	c := k.cs[ci]
	for {
		ev := k.next(nil)
		switch ev.kind {
		case evReturn:
			if ev.ci == ci {
				c.live = false
				c.phase, c.res, c.end, c.req = phDone, ev.res, step, nil
				return nil
			}
			if err := k.returned(ev); err != nil {
				return err
			}
		case evArrival:
			if k.anySilent() {
				ev.rq.reply <- response{code: 500, body: []byte("simulation over")}
				return errAmbiguous
			}
			c.phase, c.req = phPending, ev.rq
			return nil
		case evCeiling:
			c.phase, c.req = phSilent, nil
			return nil
		}
	}
}

func (k *controller) record(c *callerRT, what string, args []string) {
	n := sx.L(sx.A(what))
	for _, a := range args {
		n.Add(sx.A(a))
	}
	c.trace.Add(n)
}

// answer processes (or refuses) c's parked request and lets c run to its next event.
func (k *controller) answer(ci int, step int, apply bool) error {
	c := k.cs[ci]
	var rp response
	var what string
	var args []string
	if apply {
		before, raft := k.store.level(runNumberKey), k.store.raft
		rp, what, args = process(k.store, c.req)
		if k.store.raft != raft && c.req.key == runNumberKey {
			k.own = append(k.own, [2]uint64{before, k.store.level(runNumberKey)})
		}
	} else {
		rp, what, args = refuse(k.store, c.req)
	}
	if c.req.key != runNumberKey {
		args = append(append([]string{}, args...), c.req.key)
	}
	k.record(c, what, args)
	c.req.reply <- rp
	c.req = nil
	return k.settle(ci, step)
}

func (k *controller) launch(ci int, step int) error {
	c := k.cs[ci]
	c.resCh = make(chan callResult, 1)
	c.start = step
	c.live = true
	returns, rt, g := k.returns, k.rt, k.g
	var run func() callResult
	switch {
	case ci >= k.n: // the construction of instance ci-n
		addr := g.consul.addr()
		run = func() callResult {
			svc, err := local.NewService("consul://" + addr)
			c.svc = svc // read by the controller only after the receive from resCh
			return callResult{err: err}
		}
	case rt.kind == "inst":
		svc := k.cs[k.n+ci%rt.k].svc // up: checked by instUp before the launch
		run = func() callResult {
			v, err := svc.NewRunNumber()
			return callResult{v, err}
		}
	default:
		run = func() callResult { return g.call(ci, rt) }
	}
	go func() {
		c.resCh <- run()
		returns <- ci
	}()
	return k.settle(ci, step)
}

// instUp: caller ci may be launched — its instance has been constructed (always true off the
// (inst k) route, where the rig's own objects are used).
func (k *controller) instUp(ci int) bool {
	if k.rt.kind != "inst" {
		return true
	}
	a := k.cs[k.n+ci%k.rt.k]
	return a.phase == phDone && a.res.err == nil && a.svc != nil
}

// outside runs a foreign operation (through the real client, over HTTP) to completion.
func (k *controller) outside(op func() error) error {
	ch := make(chan callResult, 1)
	go func() { ch <- callResult{err: op()} }()
	for i := 0; i < 8; i++ {
		ev := k.next(ch)
		switch ev.kind {
		case evForeign:
			if ev.res.err != nil {
				return fmt.Errorf("c07 harness: foreign operation failed: %v", ev.res.err)
			}
			return nil
		case evReturn:
			if err := k.returned(ev); err != nil {
				return err
			}
		case evArrival:
			if k.anySilent() {
				ev.rq.reply <- response{code: 500, body: []byte("simulation over")}
				return errAmbiguous
			}
			rp, _, _ := process(k.store, ev.rq)
			ev.rq.reply <- rp
		case evCeiling:
			return fmt.Errorf("c07 harness: inconclusive: foreign operation: no event within its ceiling")
		}
	}
	return fmt.Errorf("c07 harness: foreign operation did not finish")
}

func parseStore(n *sx.Node) (*kvStore, error) {
	raft, err := strconv.ParseUint(n.At(0).Str(), 10, 64)
	if err != nil {
		return nil, fmt.Errorf("bad raft index")
	}
	s := newStore(raft)
	e := n.At(1)
	if e.IsList {
		idx, err := strconv.ParseUint(e.At(1).Str(), 10, 64)
		if err != nil {
			return nil, fmt.Errorf("bad ModifyIndex")
		}
		s.key(runNumberKey).cur = &kvEntry{raw: []byte(e.At(0).Str()), idx: idx, create: idx}
	}
	return s, nil
}

func dashOr(i int) *sx.Node {
	if i < 0 {
		return sx.A("-")
	}
	return sx.I(i)
}

func (g *rig) runCase(input string) (string, error) {
	in, err := sx.Parse(input)
	if err != nil {
		return "", err
	}
	n := in.At(0).Int()
	if n < 0 || n > 64 {
		return "", fmt.Errorf("bad caller count")
	}
	store, err := parseStore(in.At(1))
	if err != nil {
		return "", err
	}
	var rt route
	if len(in.List) >= 4 {
		rn := in.At(3)
		if kd := rn.At(0).Str(); !rn.IsList || len(rn.List) != 2 || (kd != "svc" && kd != "rpc" && kd != "inst") || rn.At(1).Int() < 1 || rn.At(1).Int() > nSlots {
			return "", fmt.Errorf("bad route %s", rn.String())
		}
		rt = route{kind: rn.At(0).Str(), k: rn.At(1).Int()}
		if rt.kind == "rpc" {
			for i := 0; i < rt.k; i++ {
				if _, err := g.chain(i); err != nil {
					return "", err // infrastructure ⇒ inconclusive
				}
			}
		}
	}
	// drain anything a previous (failed) case may have left behind
	for drained := false; !drained; {
		select {
		case rq := <-g.consul.arrivals:
			rq.reply <- response{code: 500}
		default:
			drained = true
		}
	}
	nInst := 0
	if rt.kind == "inst" {
		nInst = rt.k
		// every Service constructed by this case brings a connection pool of its own
		g.consul.setCloseConns(true)
		defer g.consul.setCloseConns(false)
	}
	k := &controller{g: g, store: store, rt: rt, n: n, nSteps: len(in.At(2).List), returns: make(chan int, n+nInst+1)}
	for i := 0; i < n+nInst; i++ {
		k.cs = append(k.cs, &callerRT{start: -1, end: -1, trace: sx.L()})
	}
	var runErr error
	for i, st := range in.At(2).List {
		kind := st.At(0).Str()
		var c *callerRT
		ci := -1
		if kind == "r" || kind == "w" || kind == "e" || kind == "x" {
			ci = st.At(1).Int()
			if ci < 0 || ci >= n {
				runErr = fmt.Errorf("caller out of range")
				break
			}
			c = k.cs[ci]
		}
		switch kind {
		case "s": // the construction of instance j begins / its next request is processed
			j := st.At(1).Int()
			if rt.kind != "inst" || j < 0 || j >= rt.k {
				runErr = fmt.Errorf("start-up step %s without a matching (inst k) route", st.String())
				break
			}
			a := k.cs[n+j]
			if a.phase == phIdle {
				if runErr = k.launch(n+j, i); runErr == nil && a.phase == phPending {
					runErr = k.answer(n+j, i, true)
				}
			} else if a.phase == phPending {
				runErr = k.answer(n+j, i, true)
			}
		case "r":
			if c.phase == phIdle && k.instUp(ci) {
				if runErr = k.launch(ci, i); runErr == nil && c.phase == phPending {
					runErr = k.answer(ci, i, true)
				}
			}
		case "w":
			if c.phase == phPending {
				runErr = k.answer(ci, i, true)
			}
		case "e":
			if c.phase == phIdle {
				if !k.instUp(ci) {
					break
				}
				if runErr = k.launch(ci, i); runErr == nil && c.phase == phPending {
					runErr = k.answer(ci, i, false)
				}
			} else if c.phase == phPending {
				runErr = k.answer(ci, i, false)
			}
		case "x":
			if c.phase == phIdle || c.phase == phPending {
				c.phase = phDead // a parked request stays parked: it is never processed
			} else if c.phase == phSilent {
				runErr = fmt.Errorf("c07 harness: inconclusive: crash step for a caller that has shown no event within the ceiling")
			}
		case "f":
			raw := st.At(1).Str()
			runErr = k.outside(func() error { return g.foreign.Put(runNumberKey, raw) })
		case "d":
			runErr = k.outside(func() error { _, err := g.kv.Delete(runNumberKey, nil); return err })
		default:
			runErr = fmt.Errorf("unknown step %q", kind)
		}
		if runErr != nil {
			break
		}
	}
	// the schedule is over. A caller still silent may yet return BY ITSELF (nothing is answered or
	// refused meanwhile): that return is an event like any other. One that does not ⇒ inconclusive.
	for runErr == nil && k.anySilent() {
		ev := k.next(nil)
		switch ev.kind {
		case evReturn:
			runErr = k.returned(ev)
		case evArrival:
			ev.rq.reply <- response{code: 500, body: []byte("simulation over")}
			runErr = errAmbiguous
		case evCeiling:
			runErr = fmt.Errorf("c07 harness: inconclusive: a caller showed no event (no request, no return) within the ceiling and had not returned when the schedule was over")
		}
	}
	// teardown: whoever is still parked is refused, and so is every request that still arrives,
	// until every goroutine has returned (results discarded)
	for _, c := range k.cs {
		if c.req != nil {
			c.req.reply <- response{code: 500, body: []byte("simulation over")}
			c.req = nil
		}
	}
	live := func() bool {
		for _, c := range k.cs {
			if c.live {
				return true
			}
		}
		return false
	}
	for tries := 0; live(); tries++ {
		ev := k.next(nil)
		switch ev.kind {
		case evReturn:
			k.cs[ev.ci].live = false
		case evArrival:
			ev.rq.reply <- response{code: 500, body: []byte("simulation over")}
		case evCeiling:
			if runErr != nil {
				return "", runErr
			}
			return "", fmt.Errorf("c07 harness: inconclusive: a caller does not return although every request of it has been refused")
		}
		if tries > 64*(n+1) {
			return "", fmt.Errorf("c07 harness: caller keeps sending requests")
		}
	}
	if runErr != nil {
		return "", runErr
	}
	calls := sx.L()
	for i, c := range k.cs[:n] {
		var status *sx.Node
		end := -1
		switch c.phase {
		case phIdle:
			status = sx.A("idle")
		case phPending:
			status = sx.A("pending")
		case phDead:
			status = sx.A("dead")
		case phDone:
			end = c.end
			if cls := errClass(c.res.err); cls == "ok" {
				status = sx.L(sx.A("ok"), sx.U64(uint64(c.res.value)))
			} else if cls == "other" && transportTrouble(c.res.err) {
				return "", fmt.Errorf("c07 harness: transport trouble: %v", c.res.err)
			} else {
				status = sx.L(sx.A("err"), sx.A(cls), sx.U64(uint64(c.res.value)))
			}
		default:
			return "", fmt.Errorf("c07 harness: inconclusive: caller %d in phase %d when the observation is written", i, c.phase)
		}
		calls.Add(sx.L(sx.I(i), status, dashOr(c.start), dashOr(end), c.trace))
	}
	entry := sx.A("-")
	if e := store.key(runNumberKey).cur; e != nil {
		entry = sx.L(sx.A(string(e.raw)), sx.U64(e.idx))
	}
	if rt.kind != "inst" {
		return sx.L(calls, sx.L(sx.U64(store.raft), entry)).String(), nil
	}
	insts := sx.L()
	for j, a := range k.cs[n:] {
		var status *sx.Node
		end := -1
		switch a.phase {
		case phIdle:
			status = sx.A("down")
		case phPending:
			status = sx.A("starting")
		case phDone:
			end = a.end
			if a.res.err == nil && a.svc != nil {
				status = sx.A("up")
			} else if a.res.err != nil && transportTrouble(a.res.err) {
				return "", fmt.Errorf("c07 harness: transport trouble: %v", a.res.err)
			} else {
				status = sx.L(sx.A("failed"), sx.A(errClass(a.res.err)))
			}
		default:
			return "", fmt.Errorf("c07 harness: inconclusive: construction %d in phase %d when the observation is written", j, a.phase)
		}
		insts.Add(sx.L(sx.I(j), status, dashOr(a.start), dashOr(end), a.trace))
	}
	own := sx.L(sx.A("own"))
	for _, w := range k.own {
		own.Add(sx.L(sx.U64(w[0]), sx.U64(w[1])))
	}
	return sx.L(calls, sx.L(sx.U64(store.raft), entry), insts, own).String(), nil
}
