package c07

// The controller: replays one model schedule on the real code.
//
// Callers are goroutines inside the real `local.Service.NewRunNumber` /
// `cfgbackend.ConsulSource.GetNextUInt32`. At any moment at most ONE goroutine is running (all
// others are parked inside the simulator or have not been launched), so the next request that
// arrives belongs to the caller the controller has just let go — no tagging of requests, no
// timing. After every step the controller waits (event-driven) until that caller has either
// returned or parked its next request.

import (
	"errors"
	"fmt"
	"strconv"
	"strings"
	"time"

	"github.com/AliceO2Group/Control/apricot/local"
	"github.com/AliceO2Group/Control/configuration/cfgbackend"
	"github.com/hashicorp/consul/api"

	"verifharness/sx"
)

const runNumberKey = "o2/runtime/run_number" // what local.Service.NewRunNumber uses
const nSlots = 4
const waitLimit = 30 * time.Second // infrastructure guard only: exceeded ⇒ inconclusive, never a verdict

type callResult struct {
	value uint32
	err   error
}

// rig = one simulator + the real clients talking to it. Reused across cases (keep-alive).
type rig struct {
	consul  *fakeConsul
	svcs    [nSlots]*local.Service
	srcs    [nSlots]*cfgbackend.ConsulSource
	foreign *cfgbackend.ConsulSource
	kv      *api.KV
}

func newRig() (*rig, error) {
	g := &rig{consul: newFakeConsul()}
	for i := 0; i < nSlots; i++ {
		svc, err := local.NewService("consul://" + g.consul.addr())
		if err != nil {
			return nil, err
		}
		g.svcs[i] = svc
		src, err := cfgbackend.NewConsulSource(g.consul.addr())
		if err != nil {
			return nil, err
		}
		g.srcs[i] = src
	}
	var err error
	if g.foreign, err = cfgbackend.NewConsulSource(g.consul.addr()); err != nil {
		return nil, err
	}
	cfg := api.DefaultConfig()
	cfg.Address = g.consul.addr()
	cli, err := api.NewClient(cfg)
	if err != nil {
		return nil, err
	}
	g.kv = cli.KV()
	return g, nil
}

func (g *rig) close() { g.consul.srv.Close() }

// call runs the real code for caller c. Even slots go through apricot's local.Service (the path
// the core takes), odd slots call the backend directly (one of them with a leading slash, which
// formatKey trims).
func (g *rig) call(c int) callResult {
	slot := c % nSlots
	var v uint32
	var err error
	switch {
	case slot%2 == 0:
		v, err = g.svcs[slot].NewRunNumber()
	case slot == 1:
		v, err = g.srcs[slot].GetNextUInt32(runNumberKey)
	default:
		v, err = g.srcs[slot].GetNextUInt32("/" + runNumberKey)
	}
	return callResult{v, err}
}

const (
	phIdle = iota
	phPending
	phDone
	phDead
)

type callerRT struct {
	phase      int
	req        *request
	resCh      chan callResult
	res        callResult
	start, end int
	trace      *sx.Node
}

func errClass(err error) string {
	if err == nil {
		return "ok"
	}
	var ne *strconv.NumError
	if errors.As(err, &ne) {
		return "parse"
	}
	msg := err.Error()
	switch {
	case msg == "cannot write back incremented CAS key":
		return "cas"
	case strings.Contains(msg, "Unexpected response code"):
		return "http"
	case strings.Contains(msg, "exhausted"):
		return "exhausted"
	}
	return "other"
}

// transportTrouble: the loopback connection itself failed — infrastructure, not behaviour.
func transportTrouble(err error) bool {
	msg := err.Error()
	for _, s := range []string{"dial tcp", "connection re", "EOF", "timeout", "broken pipe", "use of closed"} {
		if strings.Contains(msg, s) {
			return true
		}
	}
	return false
}

type controller struct {
	g     *rig
	store *kvStore
	cs    []*callerRT
}

// await waits until the goroutine behind resCh has returned (done=true) or parked a request.
func (k *controller) await(resCh chan callResult) (rq *request, res callResult, done bool, err error) {
	t := time.NewTimer(waitLimit)
	defer t.Stop()
	select {
	case res = <-resCh:
		return nil, res, true, nil
	case rq = <-k.g.consul.arrivals:
		return rq, callResult{}, false, nil
	case <-t.C:
		return nil, callResult{}, false, fmt.Errorf("c07 harness: no event within %v", waitLimit)
	}
}

func (k *controller) settle(c *callerRT, step int) error {
	rq, res, done, err := k.await(c.resCh)
	if err != nil {
		return err
	}
	if done {
		c.phase, c.res, c.end, c.req = phDone, res, step, nil
	} else {
		c.phase, c.req = phPending, rq
	}
	return nil
}

func (k *controller) record(c *callerRT, what string, args []string) {
	n := sx.L(sx.A(what))
	for _, a := range args {
		n.Add(sx.A(a))
	}
	c.trace.Add(n)
}

// answer processes (or refuses) c's parked request and lets c run to its next event.
func (k *controller) answer(c *callerRT, step int, apply bool) error {
	var rp response
	var what string
	var args []string
	if apply {
		rp, what, args = process(k.store, c.req)
	} else {
		rp, what, args = refuse(k.store, c.req)
	}
	k.record(c, what, args)
	c.req.reply <- rp
	return k.settle(c, step)
}

func (k *controller) launch(ci int, step int) error {
	c := k.cs[ci]
	c.resCh = make(chan callResult, 1)
	c.start = step
	go func() { c.resCh <- k.g.call(ci) }()
	return k.settle(c, step)
}

// outside runs a foreign operation (through the real client, over HTTP) to completion.
func (k *controller) outside(op func() error) error {
	ch := make(chan callResult, 1)
	go func() { ch <- callResult{err: op()} }()
	for i := 0; i < 4; i++ {
		rq, res, done, err := k.await(ch)
		if err != nil {
			return err
		}
		if done {
			if res.err != nil {
				return fmt.Errorf("c07 harness: foreign operation failed: %v", res.err)
			}
			return nil
		}
		rp, _, _ := process(k.store, rq)
		rq.reply <- rp
	}
	return fmt.Errorf("c07 harness: foreign operation did not finish")
}

func parseStore(n *sx.Node) (*kvStore, error) {
	raft, err := strconv.ParseUint(n.At(0).Str(), 10, 64)
	if err != nil {
		return nil, fmt.Errorf("bad raft index")
	}
	s := newStore(raft)
	e := n.At(1)
	if e.IsList {
		idx, err := strconv.ParseUint(e.At(1).Str(), 10, 64)
		if err != nil {
			return nil, fmt.Errorf("bad ModifyIndex")
		}
		s.key(runNumberKey).cur = &kvEntry{raw: []byte(e.At(0).Str()), idx: idx, create: idx}
	}
	return s, nil
}

func dashOr(i int) *sx.Node {
	if i < 0 {
		return sx.A("-")
	}
	return sx.I(i)
}

func (g *rig) runCase(input string) (string, error) {
	in, err := sx.Parse(input)
	if err != nil {
		return "", err
	}
	n := in.At(0).Int()
	if n < 0 || n > 64 {
		return "", fmt.Errorf("bad caller count")
	}
	store, err := parseStore(in.At(1))
	if err != nil {
		return "", err
	}
	// drain anything a previous (failed) case may have left behind
	for drained := false; !drained; {
		select {
		case rq := <-g.consul.arrivals:
			rq.reply <- response{code: 500}
		default:
			drained = true
		}
	}
	k := &controller{g: g, store: store}
	for i := 0; i < n; i++ {
		k.cs = append(k.cs, &callerRT{start: -1, end: -1, trace: sx.L()})
	}
	var runErr error
	for i, st := range in.At(2).List {
		kind := st.At(0).Str()
		var c *callerRT
		ci := -1
		if kind == "r" || kind == "w" || kind == "e" || kind == "x" {
			ci = st.At(1).Int()
			if ci < 0 || ci >= n {
				runErr = fmt.Errorf("caller out of range")
				break
			}
			c = k.cs[ci]
		}
		switch kind {
		case "r":
			if c.phase == phIdle {
				if runErr = k.launch(ci, i); runErr == nil && c.phase == phPending {
					runErr = k.answer(c, i, true)
				}
			}
		case "w":
			if c.phase == phPending {
				runErr = k.answer(c, i, true)
			}
		case "e":
			if c.phase == phIdle {
				if runErr = k.launch(ci, i); runErr == nil && c.phase == phPending {
					runErr = k.answer(c, i, false)
				}
			} else if c.phase == phPending {
				runErr = k.answer(c, i, false)
			}
		case "x":
			if c.phase == phIdle || c.phase == phPending {
				c.phase = phDead // a parked request stays parked: it is never processed
			}
		case "f":
			raw := st.At(1).Str()
			runErr = k.outside(func() error { return g.foreign.Put(runNumberKey, raw) })
		case "d":
			runErr = k.outside(func() error { _, err := g.kv.Delete(runNumberKey, nil); return err })
		default:
			runErr = fmt.Errorf("unknown step %q", kind)
		}
		if runErr != nil {
			break
		}
	}
	// teardown: whoever is still parked is refused until its goroutine returns (results discarded)
	for _, c := range k.cs {
		req := c.req
		for tries := 0; req != nil && tries < 8; tries++ {
			req.reply <- response{code: 500, body: []byte("simulation over")}
			rq, _, done, err := k.await(c.resCh)
			if err != nil {
				return "", err
			}
			if done {
				req = nil
			} else {
				req = rq
			}
		}
		if req != nil {
			return "", fmt.Errorf("c07 harness: caller keeps sending requests")
		}
	}
	if runErr != nil {
		return "", runErr
	}
	calls := sx.L()
	for i, c := range k.cs {
		var status *sx.Node
		end := -1
		switch c.phase {
		case phIdle:
			status = sx.A("idle")
		case phPending:
			status = sx.A("pending")
		case phDead:
			status = sx.A("dead")
		case phDone:
			end = c.end
			if cls := errClass(c.res.err); cls == "ok" {
				status = sx.L(sx.A("ok"), sx.U64(uint64(c.res.value)))
			} else if cls == "other" && transportTrouble(c.res.err) {
				return "", fmt.Errorf("c07 harness: transport trouble: %v", c.res.err)
			} else {
				status = sx.L(sx.A("err"), sx.A(cls), sx.U64(uint64(c.res.value)))
			}
		}
		calls.Add(sx.L(sx.I(i), status, dashOr(c.start), dashOr(end), c.trace))
	}
	entry := sx.A("-")
	if e := store.key(runNumberKey).cur; e != nil {
		entry = sx.L(sx.A(string(e.raw)), sx.U64(e.idx))
	}
	return sx.L(calls, sx.L(sx.U64(store.raft), entry)).String(), nil
}
