package c07

// Facts about the anchored code, regenerated on every run into lean/ControlModel/Gen/C07Facts.lean
// and identified with what the model assumes by the theorems C07_*_is_code:
//
//   go/ast over configuration/cfgbackend/consulsource.go (GetNextUInt32),
//               apricot/local/service.go (NewRunNumber), core/environment/environment.go,
//               apricot/remote/*.go (the gRPC hop: handler RpcServer.NewRunNumber and the client);
//   one EVALUATION of the linked GetNextUInt32 with the counter at 2^32-1.

import (
	"fmt"
	"go/ast"
	"go/parser"
	"go/token"
	"go/types"
	"os"
	"path/filepath"
	"strings"
	"time"

	"github.com/AliceO2Group/Control/apricot/local"

	"verifharness/sx"
)

func parseFile(path string) (*ast.File, error) {
	return parser.ParseFile(token.NewFileSet(), path, nil, 0)
}

func findFunc(f *ast.File, recv, name string) *ast.FuncDecl {
	for _, d := range f.Decls {
		fd, ok := d.(*ast.FuncDecl)
		if !ok || fd.Name.Name != name || fd.Body == nil {
			continue
		}
		if recv == "" {
			return fd
		}
		if fd.Recv != nil && len(fd.Recv.List) == 1 && strings.TrimPrefix(types.ExprString(fd.Recv.List[0].Type), "*") == recv {
			return fd
		}
	}
	return nil
}

func es(e ast.Expr) string {
	if e == nil {
		return ""
	}
	return types.ExprString(e)
}

// stmtLists visits every statement list under n.
func stmtLists(n ast.Node, visit func([]ast.Stmt)) {
	ast.Inspect(n, func(x ast.Node) bool {
		switch b := x.(type) {
		case *ast.BlockStmt:
			visit(b.List)
		case *ast.CaseClause:
			visit(b.Body)
		case *ast.CommClause:
			visit(b.Body)
		}
		return true
	})
}

func hasReturn(b *ast.BlockStmt) bool {
	for _, s := range b.List {
		if _, ok := s.(*ast.ReturnStmt); ok {
			return true
		}
	}
	return false
}

func callOf(e ast.Expr) (*ast.CallExpr, string) {
	c, ok := e.(*ast.CallExpr)
	if !ok {
		return nil, ""
	}
	return c, es(c.Fun)
}

type facts struct {
	readRequiresConsistent, writeIsCAS, casPairIsReadPair, casOkChecked, errorsReturned bool
	serviceDelegates, startCancelledOnError, wrapsAtMax, wrapEvaluated                  bool
	// the consumer: before_event of core/environment/environment.go (startFacts)
	startReachedAfterNegHooksOnly, startCallUnconditional, startNumberAdopted, onlyStartSetsNumber bool
	// the gRPC hop of a remote apricot (hopFacts)
	rpcServerSingleCall, rpcServerForwardsError, rpcServerForwardsNumber bool
	rpcClientSingleCall, rpcClientReturnsError, rpcClientReturnsNumber   bool
	// the construction of a Service on a Consul backend (ctorFacts: go/ast; evalStartup: evaluated)
	ctorBuildsOnly, ctorSilentAbsent, ctorSilentPresent, ctorEvaluated bool
}

func consulFacts(repo string, ft *facts) error {
	f, err := parseFile(repo + "/configuration/cfgbackend/consulsource.go")
	if err != nil {
		return err
	}
	fd := findFunc(f, "ConsulSource", "GetNextUInt32")
	if fd == nil {
		return fmt.Errorf("ConsulSource.GetNextUInt32 not found")
	}
	recv := fd.Recv.List[0].Names[0].Name // cc
	kv := recv + ".kv."

	// every call on cc.kv in the function
	var gets, cass, otherWrites []*ast.CallExpr
	ast.Inspect(fd.Body, func(x ast.Node) bool {
		if c, fun := callOf(asExpr(x)); c != nil && strings.HasPrefix(fun, kv) {
			switch strings.TrimPrefix(fun, kv) {
			case "Get":
				gets = append(gets, c)
			case "CAS":
				cass = append(cass, c)
			default: // Put, Acquire, Release, Delete, DeleteCAS, Txn, List, Keys …
				otherWrites = append(otherWrites, c)
			}
		}
		return true
	})

	// (1) the read is consistent
	ft.readRequiresConsistent = len(gets) == 1
	for _, g := range gets {
		ok := false
		if len(g.Args) == 2 {
			if u, isU := g.Args[1].(*ast.UnaryExpr); isU && u.Op == token.AND {
				if cl, isC := u.X.(*ast.CompositeLit); isC && es(cl.Type) == "api.QueryOptions" {
					for _, el := range cl.Elts {
						if kvp, isKV := el.(*ast.KeyValueExpr); isKV {
							switch es(kvp.Key) {
							case "RequireConsistent":
								ok = es(kvp.Value) == "true"
							case "AllowStale", "UseCache":
								if es(kvp.Value) != "false" {
									ft.readRequiresConsistent = false
								}
							}
						}
					}
				}
			}
		}
		if !ok {
			ft.readRequiresConsistent = false
		}
	}

	// (2) the write is CAS and nothing else writes
	ft.writeIsCAS = len(cass) == 1 && len(otherWrites) == 0

	// (3) the pair given to CAS is the variable the Get result was assigned to; its ModifyIndex is
	// never assigned; the variable is only re-assigned under `if <pair> == nil` with ModifyIndex 0
	pair := ""
	if len(cass) == 1 && len(cass[0].Args) >= 1 {
		if id, ok := cass[0].Args[0].(*ast.Ident); ok {
			pair = id.Name
		}
	}
	ft.casPairIsReadPair = pair != ""
	fromGet := false
	var walk func(n ast.Node, underNil bool)
	walk = func(n ast.Node, underNil bool) {
		ast.Inspect(n, func(x ast.Node) bool {
			switch s := x.(type) {
			case *ast.IfStmt:
				if es(s.Cond) == pair+" == nil" && s.Else == nil {
					if s.Init != nil {
						walk(s.Init, underNil)
					}
					walk(s.Body, true)
					return false
				}
			case *ast.AssignStmt:
				for i, l := range s.Lhs {
					switch es(l) {
					case pair:
						var rhs ast.Expr
						if len(s.Rhs) == len(s.Lhs) {
							rhs = s.Rhs[i]
						} else if len(s.Rhs) == 1 {
							rhs = s.Rhs[0]
						}
						if c, fun := callOf(rhs); c != nil && fun == kv+"Get" && i == 0 {
							fromGet = true
						} else if underNil && zeroIndexLiteral(rhs) {
							// the documented "create with cas=0" branch
						} else {
							ft.casPairIsReadPair = false
						}
					case pair + ".ModifyIndex", pair + ".Key":
						ft.casPairIsReadPair = false
					}
				}
			case *ast.IncDecStmt:
				if es(s.X) == pair+".ModifyIndex" {
					ft.casPairIsReadPair = false
				}
			}
			return true
		})
	}
	if pair != "" {
		walk(fd.Body, false)
	}
	ft.casPairIsReadPair = ft.casPairIsReadPair && fromGet

	// (4)+(5) on the function's top-level statement list: each of Get / ParseUint / CAS assigns
	// `err` and is immediately followed by `if err != nil { return }`; the CAS answer `ok` is
	// then checked by `if !ok { err = <non-nil> }`; the function ends in a bare return and has
	// the named results (value uint32, err error).
	named := fd.Type.Results != nil && len(fd.Type.Results.List) == 2 &&
		len(fd.Type.Results.List[1].Names) == 1 && fd.Type.Results.List[1].Names[0].Name == "err" &&
		es(fd.Type.Results.List[0].Type) == "uint32"
	list := fd.Body.List
	checked := map[string]bool{}
	okVar := ""
	casAt := -1
	for i, s := range list {
		as, isAs := s.(*ast.AssignStmt)
		if !isAs || len(as.Rhs) != 1 {
			continue
		}
		c, fun := callOf(as.Rhs[0])
		if c == nil {
			continue
		}
		what := ""
		switch fun {
		case kv + "Get":
			what = "Get"
		case kv + "CAS":
			what = "CAS"
		case "strconv.ParseUint":
			what = "ParseUint"
		default:
			continue
		}
		errAssigned := len(as.Lhs) > 0 && es(as.Lhs[len(as.Lhs)-1]) == "err"
		guarded := false
		if i+1 < len(list) {
			if ifs, isIf := list[i+1].(*ast.IfStmt); isIf && ifs.Init == nil && es(ifs.Cond) == "err != nil" && hasReturn(ifs.Body) {
				guarded = true
			}
		}
		checked[what] = errAssigned && guarded
		if what == "CAS" {
			casAt = i
			okVar = es(as.Lhs[0])
		}
	}
	ft.errorsReturned = named && checked["Get"] && checked["ParseUint"] && checked["CAS"]
	if n := len(list); n > 0 {
		if r, isR := list[n-1].(*ast.ReturnStmt); !isR || len(r.Results) != 0 {
			ft.errorsReturned = false
		}
	}
	ft.casOkChecked = false
	if casAt >= 0 && okVar != "" && okVar != "_" && casAt+2 < len(list) {
		if ifs, isIf := list[casAt+2].(*ast.IfStmt); isIf && ifs.Init == nil && es(ifs.Cond) == "!"+okVar {
			for _, s := range ifs.Body.List {
				if as, isAs := s.(*ast.AssignStmt); isAs && len(as.Lhs) == 1 && es(as.Lhs[0]) == "err" && es(as.Rhs[0]) != "nil" {
					ft.casOkChecked = true
				}
			}
		}
	}
	return nil
}

func asExpr(n ast.Node) ast.Expr {
	if e, ok := n.(ast.Expr); ok {
		return e
	}
	return nil
}

// &api.KVPair{…, ModifyIndex: 0 | uint64(0)} (or no ModifyIndex at all)
func zeroIndexLiteral(e ast.Expr) bool {
	u, ok := e.(*ast.UnaryExpr)
	if !ok || u.Op != token.AND {
		return false
	}
	cl, ok := u.X.(*ast.CompositeLit)
	if !ok || es(cl.Type) != "api.KVPair" {
		return false
	}
	for _, el := range cl.Elts {
		if kvp, isKV := el.(*ast.KeyValueExpr); isKV && es(kvp.Key) == "ModifyIndex" {
			if v := es(kvp.Value); v != "0" && v != "uint64(0)" {
				return false
			}
		}
	}
	return true
}

func consumerFacts(repo string, ft *facts) error {
	f, err := parseFile(repo + "/apricot/local/service.go")
	if err != nil {
		return err
	}
	fd := findFunc(f, "Service", "NewRunNumber")
	if fd == nil {
		return fmt.Errorf("local.Service.NewRunNumber not found")
	}
	// serviceDelegates — the Consul branch makes the protocol call DIRECTLY, for every caller:
	//   the FIRST statement of the body is `if cSrc, ok := <recv>.src.(*cfgbackend.ConsulSource); ok {`,
	//   that block consists of the single statement `return cSrc.GetNextUInt32(<key>)` (no other
	//   statement, so no wrapper, no deferred or spawned call, nothing between the callers and the
	//   protocol), and <key> is one expression without function literals that calls nothing but
	//   filepath.Join / path.Join / getConsulRuntimePrefix.
	recvName := ""
	if fd.Recv != nil && len(fd.Recv.List) == 1 && len(fd.Recv.List[0].Names) == 1 {
		recvName = fd.Recv.List[0].Names[0].Name
	}
	if len(fd.Body.List) >= 1 && recvName != "" {
		if ifs, ok := fd.Body.List[0].(*ast.IfStmt); ok && ifs.Init != nil {
			if as, isAs := ifs.Init.(*ast.AssignStmt); isAs && len(as.Lhs) == 2 && len(as.Rhs) == 1 && as.Tok == token.DEFINE &&
				es(as.Rhs[0]) == recvName+".src.(*cfgbackend.ConsulSource)" && es(ifs.Cond) == es(as.Lhs[1]) && len(ifs.Body.List) == 1 {
				if r, isR := ifs.Body.List[0].(*ast.ReturnStmt); isR && len(r.Results) == 1 {
					if c, fun := callOf(r.Results[0]); c != nil && fun == es(as.Lhs[0])+".GetNextUInt32" && len(c.Args) == 1 && c.Ellipsis == token.NoPos {
						plain := true
						ast.Inspect(c.Args[0], func(x ast.Node) bool {
							switch n := x.(type) {
							case *ast.FuncLit:
								plain = false
							case *ast.CallExpr:
								switch es(n.Fun) {
								case "filepath.Join", "path.Join", "getConsulRuntimePrefix":
								default:
									plain = false
								}
							}
							return true
						})
						ft.serviceDelegates = plain
					}
				}
			}
		}
	}

	f, err = parseFile(repo + "/core/environment/environment.go")
	if err != nil {
		return err
	}
	found, good := 0, 0
	stmtLists(f, func(list []ast.Stmt) {
		for i, s := range list {
			as, isAs := s.(*ast.AssignStmt)
			if !isAs || len(as.Rhs) != 1 || len(as.Lhs) != 2 {
				continue
			}
			c, fun := callOf(as.Rhs[0])
			if c == nil || !strings.HasSuffix(fun, ".NewRunNumber") {
				continue
			}
			found++
			errVar := es(as.Lhs[1])
			if errVar == "_" || i+1 >= len(list) {
				continue
			}
			ifs, isIf := list[i+1].(*ast.IfStmt)
			if !isIf || ifs.Init != nil || es(ifs.Cond) != errVar+" != nil" || !hasReturn(ifs.Body) {
				continue
			}
			cancels := false
			for _, b := range ifs.Body.List {
				if ex, isEx := b.(*ast.ExprStmt); isEx {
					if cc, cf := callOf(ex.X); cc != nil && strings.HasSuffix(cf, ".Cancel") && len(cc.Args) == 1 && es(cc.Args[0]) == errVar {
						cancels = true
					}
				}
			}
			if cancels {
				good++
			}
		}
	})
	ft.startCancelledOnError = found >= 1 && found == good
	return nil
}

// ---- the consumer: how before_event obtains, adopts and publishes the number ----------------------
//
// Shape required of the `"before_event": func(_ context.Context, e *fsm.Event) {…}` callback in
// core/environment/environment.go (L = its top-level statement list, B = the statement list of
// the `if e.Event == "START_ACTIVITY" {…}` found IN L):
//
//	startReachedAfterNegHooksOnly  every `return` in L before that `if` sits in an
//	                               `if X != nil {…}` of L whose X was assigned in L from
//	                               `….handleHooksWithNegativeWeights(…)`
//	startCallUnconditional         B itself contains `n, err := the.ConfSvc().NewRunNumber()` (a
//	                               statement OF B: not under a further if/switch/for/select/func),
//	                               no return/branch statement precedes it in B, and it is the only
//	                               NewRunNumber call of the whole callback
//	startNumberAdopted             n is never assigned again, incremented or address-taken in B;
//	                               statements OF B after the call: `env.currentRunNumber = n`,
//	                               `s := strconv.FormatUint(uint64(n), 10)`, `….Set("run_number", s)`
//	                               and an expression statement holding `Ev_RunEvent{… RunNumber: n …}`
//	onlyStartSetsNumber            in package core/environment (the field is unexported; test files
//	                               and files under a `verif` build constraint aside) that assignment
//	                               is the only one giving `.currentRunNumber` a value other than the
//	                               literal 0; the field is never incremented, address-taken or set
//	                               in a composite literal
func startFacts(repo string, ft *facts) error {
	path := repo + "/core/environment/environment.go"
	f, err := parseFile(path)
	if err != nil {
		return err
	}
	var cb *ast.FuncLit
	ast.Inspect(f, func(x ast.Node) bool {
		if kv, ok := x.(*ast.KeyValueExpr); ok {
			if bl, isB := kv.Key.(*ast.BasicLit); isB && bl.Value == `"before_event"` {
				if fl, isF := kv.Value.(*ast.FuncLit); isF && cb == nil {
					cb = fl
				}
			}
		}
		return true
	})
	if cb == nil || cb.Type.Params == nil || len(cb.Type.Params.List) != 2 || len(cb.Type.Params.List[1].Names) != 1 {
		return fmt.Errorf("before_event callback not found")
	}
	ev := cb.Type.Params.List[1].Names[0].Name
	L := cb.Body.List

	// the START_ACTIVITY branch, a statement of L
	at := -1
	for i, s := range L {
		if ifs, ok := s.(*ast.IfStmt); ok && ifs.Init == nil && es(ifs.Cond) == ev+`.Event == "START_ACTIVITY"` {
			if at >= 0 {
				return fmt.Errorf("two START_ACTIVITY branches in before_event")
			}
			at = i
		}
	}
	if at < 0 {
		return fmt.Errorf("no top-level `if %s.Event == \"START_ACTIVITY\"` in before_event", ev)
	}
	B := L[at].(*ast.IfStmt).Body.List

	// (a) what can keep the flow from reaching the branch
	negErr := map[string]bool{}
	ft.startReachedAfterNegHooksOnly = true
	for _, s := range L[:at] {
		if as, ok := s.(*ast.AssignStmt); ok && len(as.Lhs) == 1 && len(as.Rhs) == 1 {
			if c, fun := callOf(as.Rhs[0]); c != nil && strings.HasSuffix(fun, ".handleHooksWithNegativeWeights") {
				negErr[es(as.Lhs[0])] = true
				continue
			}
		}
		if ifs, ok := s.(*ast.IfStmt); ok && ifs.Init == nil && ifs.Else == nil {
			if be, isB := ifs.Cond.(*ast.BinaryExpr); isB && be.Op == token.NEQ && es(be.Y) == "nil" && negErr[es(be.X)] {
				continue // the cancel-on-negative-weight-hook-error block: may return
			}
		}
		if leavesFlow(s) {
			ft.startReachedAfterNegHooksOnly = false
		}
	}
	ft.startReachedAfterNegHooksOnly = ft.startReachedAfterNegHooksOnly && len(negErr) == 1

	// (b) the call
	nCalls := 0
	ast.Inspect(cb.Body, func(x ast.Node) bool {
		if c, fun := callOf(asExpr(x)); c != nil && strings.HasSuffix(fun, ".NewRunNumber") {
			nCalls++
		}
		return true
	})
	k, numVar := -1, ""
	var adoptPos token.Pos
	for i, s := range B {
		as, ok := s.(*ast.AssignStmt)
		if !ok || len(as.Lhs) != 2 || len(as.Rhs) != 1 {
			continue
		}
		if c, fun := callOf(as.Rhs[0]); c != nil && fun == "the.ConfSvc().NewRunNumber" && len(c.Args) == 0 {
			if id, isId := as.Lhs[0].(*ast.Ident); isId && id.Name != "_" && k < 0 {
				k, numVar = i, id.Name
			}
		}
	}
	ft.startCallUnconditional = k >= 0 && nCalls == 1
	for _, s := range B[:max(k, 0)] {
		if leavesFlow(s) {
			ft.startCallUnconditional = false
		}
	}

	// (c) what becomes of the result
	if k >= 0 {
		reassigned := false
		for i, s := range B {
			ast.Inspect(s, func(x ast.Node) bool {
				switch n := x.(type) {
				case *ast.AssignStmt:
					for _, l := range n.Lhs {
						if es(l) == numVar && !(i == k && n == B[k]) {
							reassigned = true
						}
					}
				case *ast.IncDecStmt:
					if es(n.X) == numVar {
						reassigned = true
					}
				case *ast.UnaryExpr:
					if n.Op == token.AND && es(n.X) == numVar {
						reassigned = true
					}
				}
				return true
			})
		}
		adopted, strVar, varSet, published := false, "", false, false
		for _, s := range B[k+1:] {
			switch n := s.(type) {
			case *ast.AssignStmt:
				if len(n.Lhs) == 1 && len(n.Rhs) == 1 {
					if sel, ok := n.Lhs[0].(*ast.SelectorExpr); ok && sel.Sel.Name == "currentRunNumber" && n.Tok == token.ASSIGN && es(n.Rhs[0]) == numVar {
						adopted = true
						adoptPos = n.Pos()
					}
					if es(n.Rhs[0]) == "strconv.FormatUint(uint64("+numVar+"), 10)" && n.Tok == token.DEFINE {
						strVar = es(n.Lhs[0])
					}
				}
			case *ast.ExprStmt:
				c, fun := callOf(n.X)
				if c == nil {
					continue
				}
				if strVar != "" && strings.HasSuffix(fun, ".Set") && len(c.Args) == 2 && es(c.Args[0]) == `"run_number"` && es(c.Args[1]) == strVar {
					varSet = true
				}
				ast.Inspect(c, func(x ast.Node) bool {
					if cl, ok := x.(*ast.CompositeLit); ok && strings.HasSuffix(es(cl.Type), "Ev_RunEvent") {
						for _, el := range cl.Elts {
							if kv, isKV := el.(*ast.KeyValueExpr); isKV && es(kv.Key) == "RunNumber" && es(kv.Value) == numVar {
								published = true
							}
						}
					}
					return true
				})
			}
		}
		ft.startNumberAdopted = !reassigned && adopted && varSet && published
	}

	// (d) nobody else gives the field a non-zero value
	files, err := filepath.Glob(repo + "/core/environment/*.go")
	if err != nil {
		return err
	}
	ft.onlyStartSetsNumber = adoptPos.IsValid()
	nonZero := 0
	for _, fn := range files {
		if strings.HasSuffix(fn, "_test.go") {
			continue
		}
		src, err := os.ReadFile(fn)
		if err != nil {
			return err
		}
		if verifOnly(string(src)) {
			continue
		}
		pf, err := parser.ParseFile(token.NewFileSet(), fn, src, 0)
		if err != nil {
			return err
		}
		isField := func(e ast.Expr) bool {
			sel, ok := e.(*ast.SelectorExpr)
			return ok && sel.Sel.Name == "currentRunNumber"
		}
		ast.Inspect(pf, func(x ast.Node) bool {
			switch n := x.(type) {
			case *ast.AssignStmt:
				for i, l := range n.Lhs {
					if !isField(l) {
						continue
					}
					zero := n.Tok == token.ASSIGN && len(n.Rhs) == len(n.Lhs) && es(n.Rhs[i]) == "0"
					if !zero {
						nonZero++
					}
				}
			case *ast.IncDecStmt:
				if isField(n.X) {
					ft.onlyStartSetsNumber = false
				}
			case *ast.UnaryExpr:
				if n.Op == token.AND && isField(n.X) {
					ft.onlyStartSetsNumber = false
				}
			case *ast.KeyValueExpr:
				if id, ok := n.Key.(*ast.Ident); ok && id.Name == "currentRunNumber" {
					ft.onlyStartSetsNumber = false
				}
			}
			return true
		})
	}
	// exactly one non-zero assignment in the package, and environment.go holds the adopted one
	ft.onlyStartSetsNumber = ft.onlyStartSetsNumber && nonZero == 1
	return nil
}

// ---- the gRPC hop of a remote apricot: apricot/remote ---------------------------------------------
//
// A "forwarding function" F (the handler `func (m *RpcServer) NewRunNumber(ctx, req) (*Resp, error)`
// and the client `func (c *<Client>) NewRunNumber() (uint32, error)` — the method of that name with
// NO parameters, wherever in apricot/remote/*.go it lives) is matched against this shape, L = the
// top-level statement list of F:
//
//	singleCall      F contains exactly one call whose function ends in `.NewRunNumber`; it is the
//	                right-hand side of a two-value assignment `x, e := / = <call>` that is a statement
//	                OF L (not under if/for/switch/select, not in a function literal: no loop, no
//	                retry, no second attempt), F has no `defer`, no `go`, no function literal and
//	                no label/goto
//	forwardsError   e (not `_`) is never assigned again, incremented or address-taken in F; every
//	                `return` of F that comes after the call either has the identifier e as its LAST
//	                result, or comes — in L — after an L-statement `if e != nil { … return …, e }`
//	                (no init, no else, the block's last statement is that return): on no path does a
//	                non-nil e turn into a nil error or into another error. Returns are explicit
//	                (two results each).
//	forwardsNumber  x is never assigned again, incremented or address-taken; the LAST statement of L
//	                is a return whose first result carries x and nothing else that computes: for the
//	                handler a `&<pkg>.RunNumberResponse{RunNumber: x}` literal, for the client
//	                `x.GetRunNumber()` or `x.RunNumber`
//	(client only) returnsError additionally demands that the error return hands out NO number: the
//	                first result of every return whose last result is e is the literal 0 (or, with
//	                named results, … — not accepted: returns must be explicit)
type fwdFacts struct{ single, fwdErr, fwdNum, zeroOnErr bool }

func forwardingFacts(fd *ast.FuncDecl, numberOf func(first ast.Expr, x string) bool) fwdFacts {
	var out fwdFacts
	if fd == nil || fd.Body == nil || fd.Type.Results == nil {
		return out
	}
	L := fd.Body.List
	// no defer / go / function literal / label / goto anywhere
	clean := true
	nCalls := 0
	ast.Inspect(fd.Body, func(n ast.Node) bool {
		switch v := n.(type) {
		case *ast.DeferStmt, *ast.GoStmt, *ast.FuncLit, *ast.LabeledStmt:
			clean = false
		case *ast.BranchStmt:
			if v.Tok == token.GOTO {
				clean = false
			}
		case *ast.CallExpr:
			if strings.HasSuffix(es(v.Fun), ".NewRunNumber") {
				nCalls++
			}
		}
		return true
	})
	at, x, e := -1, "", ""
	for i, s := range L {
		as, ok := s.(*ast.AssignStmt)
		if !ok || len(as.Lhs) != 2 || len(as.Rhs) != 1 || (as.Tok != token.DEFINE && as.Tok != token.ASSIGN) {
			continue
		}
		if c, fun := callOf(as.Rhs[0]); c != nil && strings.HasSuffix(fun, ".NewRunNumber") {
			xi, ok1 := as.Lhs[0].(*ast.Ident)
			ei, ok2 := as.Lhs[1].(*ast.Ident)
			if ok1 && ok2 && at < 0 {
				at, x, e = i, xi.Name, ei.Name
			}
		}
	}
	out.single = clean && nCalls == 1 && at >= 0
	if at < 0 || e == "_" || x == "_" {
		return out
	}
	// neither x nor e is touched again
	touched := map[string]bool{}
	for i, s := range L {
		ast.Inspect(s, func(n ast.Node) bool {
			switch v := n.(type) {
			case *ast.AssignStmt:
				if i == at && v == L[at] {
					return true
				}
				for _, l := range v.Lhs {
					touched[es(l)] = true
				}
			case *ast.IncDecStmt:
				touched[es(v.X)] = true
			case *ast.UnaryExpr:
				if v.Op == token.AND {
					touched[es(v.X)] = true
				}
			case *ast.RangeStmt:
				touched[es(v.Key)] = true
				touched[es(v.Value)] = true
			}
			return true
		})
	}
	// every return after the call
	guardAt := -1 // index in L of the first `if e != nil { … return …, e }`
	for i := at + 1; i < len(L); i++ {
		if ifs, ok := L[i].(*ast.IfStmt); ok && ifs.Init == nil && ifs.Else == nil && es(ifs.Cond) == e+" != nil" && len(ifs.Body.List) > 0 {
			if r, isR := ifs.Body.List[len(ifs.Body.List)-1].(*ast.ReturnStmt); isR && len(r.Results) == 2 && es(r.Results[1]) == e {
				guardAt = i
				break
			}
		}
	}
	out.fwdErr, out.zeroOnErr = out.single && !touched[e], true
	for i := at + 1; i < len(L); i++ {
		ast.Inspect(L[i], func(n ast.Node) bool {
			r, ok := n.(*ast.ReturnStmt)
			if !ok {
				return true
			}
			if len(r.Results) != 2 {
				out.fwdErr = false
				return true
			}
			if es(r.Results[1]) == e {
				if es(r.Results[0]) != "0" {
					out.zeroOnErr = false
				}
				return true
			}
			if !(guardAt >= 0 && i > guardAt) {
				out.fwdErr = false
			}
			return true
		})
	}
	// the number
	if n := len(L); n > 0 && out.single && !touched[x] {
		if r, ok := L[n-1].(*ast.ReturnStmt); ok && len(r.Results) == 2 {
			out.fwdNum = numberOf(r.Results[0], x)
		}
	}
	return out
}

func hopFacts(repo string, ft *facts) error {
	files, err := filepath.Glob(repo + "/apricot/remote/*.go")
	if err != nil {
		return err
	}
	var handler, client *ast.FuncDecl
	clients := 0
	for _, fn := range files {
		if strings.HasSuffix(fn, "_test.go") {
			continue
		}
		f, err := parseFile(fn)
		if err != nil {
			return err
		}
		for _, d := range f.Decls {
			fd, ok := d.(*ast.FuncDecl)
			if !ok || fd.Name.Name != "NewRunNumber" || fd.Body == nil || fd.Recv == nil || len(fd.Recv.List) != 1 {
				continue
			}
			recv := strings.TrimPrefix(types.ExprString(fd.Recv.List[0].Type), "*")
			nParams := 0
			if fd.Type.Params != nil {
				for _, p := range fd.Type.Params.List {
					nParams += max(len(p.Names), 1)
				}
			}
			switch {
			case recv == "RpcServer" && nParams == 2:
				handler = fd
			case nParams == 0: // configuration.Service's signature: the client
				client = fd
				clients++
			}
		}
	}
	if handler == nil {
		return fmt.Errorf("RpcServer.NewRunNumber(ctx, req) not found in apricot/remote")
	}
	if client == nil || clients != 1 {
		return fmt.Errorf("%d parameterless NewRunNumber methods in apricot/remote (want exactly one: the client)", clients)
	}
	h := forwardingFacts(handler, func(first ast.Expr, x string) bool {
		u, ok := first.(*ast.UnaryExpr)
		if !ok || u.Op != token.AND {
			return false
		}
		cl, ok := u.X.(*ast.CompositeLit)
		if !ok || !strings.HasSuffix(es(cl.Type), ".RunNumberResponse") || len(cl.Elts) != 1 {
			return false
		}
		kv, ok := cl.Elts[0].(*ast.KeyValueExpr)
		return ok && es(kv.Key) == "RunNumber" && es(kv.Value) == x
	})
	// the handler's call goes to the service it fronts: <recv>.service.NewRunNumber()
	hr := ""
	if len(handler.Recv.List[0].Names) == 1 {
		hr = handler.Recv.List[0].Names[0].Name
	}
	onService := false
	ast.Inspect(handler.Body, func(n ast.Node) bool {
		if c, fun := callOf(asExpr(n)); c != nil && strings.HasSuffix(fun, ".NewRunNumber") {
			onService = hr != "" && fun == hr+".service.NewRunNumber" && len(c.Args) == 0
		}
		return true
	})
	ft.rpcServerSingleCall = h.single && onService
	ft.rpcServerForwardsError = h.fwdErr && onService
	ft.rpcServerForwardsNumber = h.fwdNum && onService
	c := forwardingFacts(client, func(first ast.Expr, x string) bool {
		s := es(first)
		return s == x+".GetRunNumber()" || s == x+".RunNumber"
	})
	ft.rpcClientSingleCall = c.single
	ft.rpcClientReturnsError = c.fwdErr && c.zeroOnErr
	ft.rpcClientReturnsNumber = c.fwdNum
	return nil
}

// leavesFlow: the statement contains (outside nested function literals) a return, goto, break,
// continue or a call of panic / os.Exit / runtime.Goexit.
func leavesFlow(s ast.Stmt) bool {
	found := false
	ast.Inspect(s, func(x ast.Node) bool {
		switch n := x.(type) {
		case *ast.FuncLit:
			return false
		case *ast.ReturnStmt, *ast.BranchStmt:
			found = true
		case *ast.CallExpr:
			switch es(n.Fun) {
			case "panic", "os.Exit", "runtime.Goexit":
				found = true
			}
		}
		return true
	})
	return found
}

// verifOnly: the file is compiled only under the `verif` build tag (the add-only hook files).
func verifOnly(src string) bool {
	for _, l := range strings.Split(src, "\n") {
		t := strings.TrimSpace(l)
		if strings.HasPrefix(t, "package ") {
			return false
		}
		if strings.HasPrefix(t, "//go:build ") && strings.Contains(t, "verif") && !strings.Contains(t, "!verif") {
			return true
		}
	}
	return false
}

// ---- the construction of a Service ------------------------------------------------------------
//
// ctorBuildsOnly (go/ast): on the way from local.NewService to a ConsulSource nothing but
// constructors is called — no method of the backend, no KV request:
//
//	local.NewService           (apricot/local/service.go)   calls ⊆ { cfgbackend.NewSource }
//	cfgbackend.NewSource       (…/cfgbackend/source.go)     calls ⊆ { strings.HasPrefix, strings.HasSuffix,
//	                                                          strings.TrimPrefix, NewConsulSource, newYamlSource,
//	                                                          NewMockSource, errors.New }
//	cfgbackend.NewConsulSource (…/cfgbackend/consulsource.go) calls ⊆ { api.DefaultConfig, api.NewClient, <x>.KV }
//
// and none of the three contains a `go`/`defer` statement or a function literal (nothing is left
// running that could talk to Consul later on behalf of the construction).
func ctorFacts(repo string, ft *facts) error {
	type target struct {
		file, name string
		allowed    map[string]bool
		methodKV   bool // additionally any `<ident>.KV()`
	}
	targets := []target{
		{"/apricot/local/service.go", "NewService", map[string]bool{"cfgbackend.NewSource": true}, false},
		{"/configuration/cfgbackend/source.go", "NewSource", map[string]bool{"strings.HasPrefix": true, "strings.HasSuffix": true,
			"strings.TrimPrefix": true, "NewConsulSource": true, "newYamlSource": true, "NewMockSource": true, "errors.New": true}, false},
		{"/configuration/cfgbackend/consulsource.go", "NewConsulSource", map[string]bool{"api.DefaultConfig": true, "api.NewClient": true}, true},
	}
	ok := true
	for _, t := range targets {
		f, err := parseFile(repo + t.file)
		if err != nil {
			return err
		}
		fd := findFunc(f, "", t.name)
		if fd == nil || fd.Recv != nil {
			return fmt.Errorf("%s: func %s not found", t.file, t.name)
		}
		ast.Inspect(fd.Body, func(x ast.Node) bool {
			switch n := x.(type) {
			case *ast.GoStmt, *ast.DeferStmt, *ast.FuncLit:
				ok = false
			case *ast.CallExpr:
				fun := es(n.Fun)
				if t.allowed[fun] {
					return true
				}
				if sel, isSel := n.Fun.(*ast.SelectorExpr); t.methodKV && isSel && sel.Sel.Name == "KV" && len(n.Args) == 0 {
					if _, isId := sel.X.(*ast.Ident); isId {
						return true
					}
				}
				ok = false
			}
			return true
		})
	}
	ft.ctorBuildsOnly = ok
	return nil
}

// evalStartup CONSTRUCTS a Service with the linked code — local.NewService("consul://<simulator>") —
// twice: on a KV without the counter key and on one that holds it. No scenario is being replayed,
// so whatever the constructor asks of Consul is served at once and recorded (consul.go, mode
// atOnce); the facts say whether it asked anything at all.
func evalStartup(ft *facts) error {
	f := newFakeConsul()
	defer f.shutdown()
	f.setCloseConns(true)
	for _, present := range []bool{false, true} {
		st := newStore(7)
		if present {
			st.key(runNumberKey).cur = &kvEntry{raw: []byte("41"), idx: 5, create: 5}
		}
		stop := f.serveAtOnce(st)
		done := make(chan error, 1)
		go func() {
			_, err := local.NewService("consul://" + f.addr())
			done <- err
		}()
		select {
		case err := <-done:
			if err != nil {
				stop()
				return fmt.Errorf("local.NewService: %v", err)
			}
		case <-time.After(20 * time.Second):
			stop()
			return fmt.Errorf("local.NewService did not return within 20 s although every request was answered at once")
		}
		reqs := stop()
		if present {
			ft.ctorSilentPresent = len(reqs) == 0
		} else {
			ft.ctorSilentAbsent = len(reqs) == 0
		}
	}
	ft.ctorEvaluated = true
	return nil
}

// evalWrap runs the LINKED GetNextUInt32 once with the counter at 2^32-1 (extra `w` steps let a
// variant that sends more requests run to completion; they are no-ops otherwise).
func evalWrap(ft *facts) error {
	g, err := newRig()
	if err != nil {
		return err
	}
	defer g.close()
	obs, err := g.runCase(`(2 (9 ("4294967295" 9)) ((r 1) (w 1) (w 1) (w 1) (w 1) (w 1)))`)
	if err != nil {
		return err
	}
	o, err := sx.Parse(obs)
	if err != nil {
		return err
	}
	st := o.At(0).At(1).At(1)
	switch {
	case st.IsList && st.At(0).Str() == "ok" && st.At(1).Str() == "0":
		ft.wrapsAtMax, ft.wrapEvaluated = true, true
	case st.IsList && st.At(0).Str() == "err":
		ft.wrapsAtMax, ft.wrapEvaluated = false, true
	default:
		return fmt.Errorf("unexpected answer at 2^32-1: %s", obs)
	}
	return nil
}

func lb(b bool) string {
	if b {
		return "true"
	}
	return "false"
}

// genFacts never fails: a fact that cannot be established is reported as false (with the reason
// in a comment), which breaks the C07_*_is_code theorem that needs it — and only C07.
func genFacts(repo string) (string, error) {
	var ft facts
	var problems []string
	if err := consulFacts(repo, &ft); err != nil {
		problems = append(problems, "consulsource.go: "+err.Error())
	}
	if err := consumerFacts(repo, &ft); err != nil {
		problems = append(problems, "consumers: "+err.Error())
	}
	if err := startFacts(repo, &ft); err != nil {
		problems = append(problems, "before_event: "+err.Error())
	}
	if err := hopFacts(repo, &ft); err != nil {
		problems = append(problems, "apricot/remote: "+err.Error())
	}
	if err := evalWrap(&ft); err != nil {
		problems = append(problems, "evaluation at 2^32-1: "+err.Error())
	}
	if err := ctorFacts(repo, &ft); err != nil {
		problems = append(problems, "constructors: "+err.Error())
	}
	if err := evalStartup(&ft); err != nil {
		problems = append(problems, "evaluation of local.NewService: "+err.Error())
	}
	var b strings.Builder
	for _, p := range problems {
		fmt.Fprintf(&b, "-- could not establish: %s\n", strings.NewReplacer("\n", " ", "\r", " ").Replace(p))
	}
	b.WriteString("namespace Gen.C07\n\n")
	w := func(doc, name string, v bool) {
		fmt.Fprintf(&b, "/-- %s -/\ndef %s : Bool := %s\n\n", doc, name, lb(v))
	}
	w("go/ast: the only kv.Get in GetNextUInt32 passes &api.QueryOptions{RequireConsistent: true} (no AllowStale/UseCache)", "readRequiresConsistent", ft.readRequiresConsistent)
	w("go/ast: GetNextUInt32 writes through exactly one kv.CAS call and calls no other kv method besides Get", "writeIsCAS", ft.writeIsCAS)
	w("go/ast: the pair passed to kv.CAS is the variable assigned from kv.Get; its ModifyIndex/Key are never assigned; it is re-created only under `== nil` with ModifyIndex 0", "casPairIsReadPair", ft.casPairIsReadPair)
	w("go/ast: the boolean result of kv.CAS is checked by `if !ok { err = <non-nil> }` right after the error check", "casOkChecked", ft.casOkChecked)
	w("go/ast: Get, ParseUint and CAS each assign err and are immediately followed by `if err != nil { return }`; results are named (value uint32, err error); the function ends in a bare return", "errorsReturned", ft.errorsReturned)
	w("go/ast: the first statement of local.Service.NewRunNumber is `if cSrc, ok := s.src.(*cfgbackend.ConsulSource); ok {…}` and that block is the single statement `return cSrc.GetNextUInt32(<key>)` — a DIRECT call by every caller (no wrapper, closure, defer/go or other statement; <key> calls nothing but filepath.Join/getConsulRuntimePrefix)", "serviceDelegates", ft.serviceDelegates)
	w("go/ast: every `x, err := ….NewRunNumber()` in core/environment/environment.go is immediately followed by `if err != nil { e.Cancel(err); return }`", "startCancelledOnError", ft.startCancelledOnError)
	w("go/ast: in before_event (environment.go) every `return` before the top-level `if e.Event == \"START_ACTIVITY\"` sits in the `if errHooks != nil` block of the negative-weight hook pass", "startReachedAfterNegHooksOnly", ft.startReachedAfterNegHooksOnly)
	w("go/ast: `n, err := the.ConfSvc().NewRunNumber()` is a statement OF the START_ACTIVITY branch (not nested under if/switch/loop, no return before it) and the only NewRunNumber call of the callback", "startCallUnconditional", ft.startCallUnconditional)
	w("go/ast: n is never re-assigned; statements of the branch assign it to env.currentRunNumber, set run_number to FormatUint(uint64(n),10) and publish Ev_RunEvent{RunNumber: n}", "startNumberAdopted", ft.startNumberAdopted)
	w("go/ast: in package core/environment (tests and verif-tagged hook files aside) that is the only assignment giving .currentRunNumber a value other than the literal 0; no ++/--/&/composite-literal use", "onlyStartSetsNumber", ft.onlyStartSetsNumber)
	w("go/ast: the handler RpcServer.NewRunNumber (apricot/remote) makes exactly one call, `x, e := m.service.NewRunNumber()`, as a top-level statement (no loop, no second attempt; no defer/go/function literal in the handler)", "rpcServerSingleCall", ft.rpcServerSingleCall)
	w("go/ast: the handler hands the service's error on UNCHANGED: e is never re-assigned and every return after the call has e as its error result (or follows a top-level `if e != nil { … return …, e }`) — no path answers OK after the backend said no", "rpcServerForwardsError", ft.rpcServerForwardsError)
	w("go/ast: the handler's last statement returns &…RunNumberResponse{RunNumber: x} with x the (never re-assigned) number the service returned", "rpcServerForwardsNumber", ft.rpcServerForwardsNumber)
	w("go/ast: the client's NewRunNumber (the one parameterless method of that name in apricot/remote) makes exactly one RPC `resp, e = ….NewRunNumber(…)`, as a top-level statement (no loop, no retry; no defer/go/function literal)", "rpcClientSingleCall", ft.rpcClientSingleCall)
	w("go/ast: the client hands the RPC's error on unchanged and NO number with it: e is never re-assigned, every return after the call is `return 0, e` or follows the top-level `if e != nil { return 0, e }`", "rpcClientReturnsError", ft.rpcClientReturnsError)
	w("go/ast: the client's last statement returns resp.GetRunNumber() (or resp.RunNumber) of the never re-assigned response", "rpcClientReturnsNumber", ft.rpcClientReturnsNumber)
	w("EVALUATED on the linked code: with the counter at 4294967295 GetNextUInt32 returns (0, nil) and writes \"0\"", "wrapsAtMax", ft.wrapsAtMax)
	w("the evaluation at 2^32-1 ran to completion and gave one of the two expected answers ((0, nil) or an error)", "wrapEvaluated", ft.wrapEvaluated)
	w("go/ast: local.NewService calls nothing but cfgbackend.NewSource, NewSource nothing but string tests and the three backend constructors, NewConsulSource nothing but api.DefaultConfig/api.NewClient/<client>.KV; no go/defer/function literal in any of them — constructing a Service calls no method of the backend", "ctorBuildsOnly", ft.ctorBuildsOnly)
	w("EVALUATED on the linked code: local.NewService(consul://…) on a KV WITHOUT the counter key sends no request to Consul (every request would have been answered at once and recorded)", "ctorSilentAbsent", ft.ctorSilentAbsent)
	w("EVALUATED on the linked code: the same on a KV that holds the counter key", "ctorSilentPresent", ft.ctorSilentPresent)
	w("both constructions returned (within 20 s, every request answered at once)", "ctorEvaluated", ft.ctorEvaluated)
	b.WriteString("end Gen.C07\n")
	return b.String(), nil
}
