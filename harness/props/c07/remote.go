package c07

// The gRPC hop of a remote apricot — the route `(rpc k)`.
//
// In the production layout (configServiceUri apricot://host:port) the core does not hold a
// local.Service: `the.ConfSvc()` is a remote.RemoteService, its NewRunNumber is one unary RPC to
// the apricot process, whose RpcServer.NewRunNumber handler calls NewRunNumber on the
// local.Service (consul://…) it fronts. A chain here is that path with nothing replaced:
//
//	remote.NewService("apricot://127.0.0.1:<port>")            the client the core uses
//	  → loopback TCP, grpc-go
//	  → remote.NewServer(svc) serving on 127.0.0.1:<port>       the real handler
//	  → svc = the rig's local.Service number i (consul://<simulator>)
//	  → ConsulSource.GetNextUInt32 → hashicorp/consul/api → the KV simulator (consul.go)
//
// so the simulator still decides the interleaving: a caller that goes through a chain parks its
// GET / PUT in the simulator exactly like a direct caller, and returns when the RPC's answer has
// travelled back. With `(rpc k)` caller c uses chain c mod k; k = 1 is ONE core talking to ONE
// apricot: every call shares the client connection, the server and the Service behind it (each
// RPC is served on a goroutine of its own, so the calls overlap inside the Service as well).
//
// What the hop adds to a call is an ERROR BOUNDARY and nothing else: the handler has to hand the
// backend's error on, grpc-go turns a plain Go error into a status (code Unknown, the text as the
// description) and drops the response message, the client returns `0, err`. The observation per
// caller stays what it is on every route — the number, or the error's class — so a hop that
// answers a caller whose write Consul refused (or never saw) with a number shows as `(ok n)`
// where the model has `(err cas 0)` / `(err http 0)`.
//
// Chains are built on first use (a rig that is replaced after infrastructure trouble does not pay
// for four servers it may never need) and torn down with the rig.

import (
	"fmt"
	"net"
	"reflect"
	"strings"
	"unsafe"

	"github.com/AliceO2Group/Control/apricot/remote"
	"github.com/AliceO2Group/Control/configuration"
	"google.golang.org/grpc"
	"google.golang.org/grpc/codes"
	"google.golang.org/grpc/status"
)

type chain struct {
	srv *grpc.Server
	cli configuration.Service
}

func (g *rig) chain(i int) (*chain, error) {
	if g.chains[i] != nil {
		return g.chains[i], nil
	}
	lis, err := net.Listen("tcp", "127.0.0.1:0")
	if err != nil {
		return nil, fmt.Errorf("c07 harness: loopback listener: %v", err)
	}
	srv := remote.NewServer(g.svcs[i])
	go srv.Serve(lis)
	cli, err := remote.NewService("apricot://" + lis.Addr().String())
	if err != nil {
		srv.Stop()
		return nil, fmt.Errorf("c07 harness: cannot reach the apricot server on loopback: %v", err)
	}
	g.chains[i] = &chain{srv: srv, cli: cli}
	return g.chains[i], nil
}

// closeChains: the client connection first (best effort — RemoteService keeps it in an unexported
// field and offers no Close; a connection that cannot be reached is merely left to its back-off
// loop), then the server (Stop closes the listener and every connection).
func (g *rig) closeChains() {
	for i, ch := range g.chains {
		if ch == nil {
			continue
		}
		closeClientConn(ch.cli)
		ch.srv.Stop()
		g.chains[i] = nil
	}
}

func closeClientConn(svc configuration.Service) {
	defer func() { _ = recover() }()
	v := reflect.ValueOf(svc)
	if v.Kind() != reflect.Ptr || v.Elem().Kind() != reflect.Struct {
		return
	}
	var found *grpc.ClientConn
	var walk func(x reflect.Value, depth int)
	walk = func(x reflect.Value, depth int) {
		if found != nil || depth > 3 || x.Kind() != reflect.Struct {
			return
		}
		for i := 0; i < x.NumField(); i++ {
			f := x.Field(i)
			if !f.CanAddr() {
				continue
			}
			if f.Type() == reflect.TypeOf((*grpc.ClientConn)(nil)) {
				found = *(**grpc.ClientConn)(unsafe.Pointer(f.UnsafeAddr()))
				return
			}
			walk(f, depth+1)
		}
	}
	walk(v.Elem(), 0)
	if found != nil {
		found.Close()
	}
}

// throughHop reports what a Go error that crossed the gRPC boundary says: the description of a
// status with code Unknown is the text of the error the handler returned (grpc-go: a handler's
// non-status error becomes status.New(codes.Unknown, err.Error())). Every other code was produced
// by the handler itself or by the transport.
func throughHop(err error) (msg string, crossed bool, transport bool) {
	st, ok := status.FromError(err)
	if !ok || st == nil {
		return "", false, false
	}
	switch st.Code() {
	case codes.Unknown:
		return st.Message(), true, false
	case codes.Unavailable, codes.DeadlineExceeded, codes.Canceled, codes.ResourceExhausted:
		return st.Message(), false, true
	}
	return st.Message(), false, false
}

// classOfText: the error classes of errClass, told from the error's text (all that is left of a
// *strconv.NumError once it has been an RPC status).
func classOfText(msg string) string {
	switch {
	case msg == "cannot write back incremented CAS key":
		return "cas"
	case strings.HasPrefix(msg, "strconv.ParseUint: parsing "):
		return "parse"
	case strings.Contains(msg, "Unexpected response code"):
		return "http"
	case strings.Contains(msg, "exhausted"):
		return "exhausted"
	}
	return "other"
}
