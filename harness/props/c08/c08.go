// Package c08: correspondence harness for property C08 (stub — registers nothing yet).
package c08
