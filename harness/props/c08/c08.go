// Package c08: see harness/envh (shared environment-machine harness) and lean/ControlModel/Spec/C08.lean.
package c08

import (
	"verifharness/envh"
	"verifharness/fw"
	"verifharness/rng"
)

func generate(tier string, r *rng.R) []fw.Case {
	n := nQuick
	if tier == "thorough" {
		n = nThorough
	}
	var cs []fw.Case
	for i := 0; i < n; i++ {
		switch {
		case i%4 == 1:
			cs = append(cs, awaitGroupCase(r.Fork()))
		case i%10 == 0:
			cs = append(cs, envh.GenTeardownCase(r.Fork()))
		case i%11 == 2:
			// a call whose result waits longer than its declared timeout (or for ever): see late.go
			cs = append(cs, outlivedTimeoutCase(r.Fork()))
		case i%7 == 3:
			// the weights as WRITTEN in the template (padded, signed, bare): see written.go
			cs = append(cs, writtenWeightsCase(r.Fork()))
		case i%7 == 6:
			// calls awaited in the OTHER pass of their trigger moment, next to hooks triggered at the await weight
			cs = append(cs, envh.GenCrossPassCase(r.Fork()))
		case i%7 == 5:
			f := r.Fork()
			cs = append(cs, withWrittenWeights(envh.GenCase(f, profile), f))
		default:
			cs = append(cs, envh.GenCase(r.Fork(), profile))
		}
	}
	return cs
}

func init() {
	fw.Register(&fw.Property{
		ID:         "C08",
		Generate:   generate,
		RunImpl:    func(in string) (string, error) { return envh.Run(in, true) },
		Nontrivial: nontrivial,
		Rule:       rule,
		Shrink:     envh.Shrink,
		Workers:    1,
		Setup:      envh.Setup,
		Teardown:   envh.Teardown,
		TrustedBase: []string{
			"harness/envh: environment builder (YAML roles, NewTaskForVerif tasks), probe plugin (verifprobe.Probe), event capture, fake task manager answering ReleaseTasks",
			"verif hooks in /repo: core/environment/verif_hooks.go, core/workflow/verif_hooks.go, core/the/verif_hooks.go, core/task/verif_hooks_task.go",
			"trace monitor (lean/ControlModel/Spec/EnvTrace.lean): probe calls are judged by windows and happens-before, not by exact position",
		},
		Assumptions: []string{
			"looplab/fsm v1.0.1 Event/Cancel semantics as modelled (sampled by every case)",
			"scripted task-level bodies stand in for the real transition bodies; task hooks are answered by the harness (BasicTaskTerminated with exit code) through a blocking delivery hook",
			"goroutine scheduling of call hooks is arbitrary; the harness paces time.Now() reads so that distinct stamps differ",
		},
	})
}
