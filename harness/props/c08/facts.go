package c08

// go/ast facts about (*Environment).handleHooks and its three wrappers in core/environment/environment.go
// (Gen/C08Facts.lean, tied by `C08_pass_weights_are_code`):
//
//   - weightSources: what fills the set of weights of a pass BEFORE its loop starts — every assignment
//     `allWeightsSet[KEY] = …` that precedes `allWeights := allWeightsSet.GetWeights()`, in source order, with the
//     `range` statements it stands in (outermost first) and the `if` conditions it stands under (init; cond). The
//     Lean model's `weightsFor` is the union of exactly these sources (Model/Env.lean; `weightSources codeRunCfg`,
//     Model/EnvLegacy.lean). Since "fix: handleHooks visits the await weight of a call it starts at the same
//     trigger" there are three: the trigger weights, the await weights of the calls triggered here whose await
//     names this trigger, the weights of calls already pending. Reverting the repair removes the second row.
//   - weightsFromSet / loopOverFiltered: the visited weights are `allWeightsSet.GetWeights()` (sorted, maps.go)
//     restricted by the pass predicate, and the four-phase loop ranges over exactly those.
//   - wrappers: handleAllHooks / handleHooksWithNegativeWeights / handleHooksWithPositiveWeights are a log line, a
//     deferred time track and ONE `return env.handleHooks(workflow, trigger, <predicate>)` — nothing that could
//     skip a pass — with the predicates `true`, `w < 0`, `w >= 0` (`allW`, `negW`, `posW`).

import (
	"bytes"
	"fmt"
	"go/ast"
	"go/parser"
	"go/printer"
	"go/token"
	"path/filepath"
	"strings"

	"verifharness/fw"
)

func render(fset *token.FileSet, n ast.Node) string {
	var b bytes.Buffer
	printer.Fprint(&b, fset, n)
	return strings.Join(strings.Fields(b.String()), " ")
}

func leanStr(s string) string {
	s = strings.ReplaceAll(s, "\\", "\\\\")
	s = strings.ReplaceAll(s, "\"", "\\\"")
	return "\"" + s + "\""
}

func leanStrs(ss []string) string {
	qs := make([]string, len(ss))
	for i, s := range ss {
		qs[i] = leanStr(s)
	}
	return "[" + strings.Join(qs, ", ") + "]"
}

type weightSource struct {
	key    string
	ranges []string
	conds  []string
}

type wrapper struct {
	name, pred string
	stmts      []string
}

type passFacts struct {
	sources          []weightSource
	weightsFromSet   bool
	loopOverFiltered bool
	wrappers         []wrapper
}

func rangeHead(fset *token.FileSet, r *ast.RangeStmt) string {
	var lhs []string
	if r.Key != nil {
		lhs = append(lhs, render(fset, r.Key))
	}
	if r.Value != nil {
		lhs = append(lhs, render(fset, r.Value))
	}
	return strings.Join(lhs, ", ") + " " + r.Tok.String() + " range " + render(fset, r.X)
}

// the statements of handleHooks up to (not including) `allWeights := allWeightsSet.GetWeights()`
func scanSources(fset *token.FileSet, fd *ast.FuncDecl) (srcs []weightSource, fromSet bool, loopFiltered bool) {
	cut := -1
	for i, st := range fd.Body.List {
		if as, ok := st.(*ast.AssignStmt); ok && len(as.Lhs) == 1 && len(as.Rhs) == 1 &&
			render(fset, as.Lhs[0]) == "allWeights" && render(fset, as.Rhs[0]) == "allWeightsSet.GetWeights()" {
			cut = i
			fromSet = true
			break
		}
	}
	if cut < 0 {
		cut = len(fd.Body.List)
	}
	var walk func(n ast.Node, ranges, conds []string)
	walk = func(n ast.Node, ranges, conds []string) {
		switch x := n.(type) {
		case *ast.BlockStmt:
			for _, st := range x.List {
				walk(st, ranges, conds)
			}
		case *ast.RangeStmt:
			walk(x.Body, append(append([]string{}, ranges...), rangeHead(fset, x)), conds)
		case *ast.IfStmt:
			c := render(fset, x.Cond)
			if x.Init != nil {
				c = render(fset, x.Init) + "; " + c
			}
			walk(x.Body, ranges, append(append([]string{}, conds...), c))
			if x.Else != nil {
				walk(x.Else, ranges, append(append([]string{}, conds...), "else of "+c))
			}
		case *ast.ForStmt:
			walk(x.Body, append(append([]string{}, ranges...), "for "+render(fset, x.Cond)), conds)
		case *ast.AssignStmt:
			for _, l := range x.Lhs {
				if ix, ok := l.(*ast.IndexExpr); ok && render(fset, ix.X) == "allWeightsSet" {
					srcs = append(srcs, weightSource{key: render(fset, ix.Index), ranges: ranges, conds: conds})
				}
			}
		}
	}
	for _, st := range fd.Body.List[:cut] {
		walk(st, nil, nil)
	}
	// after the cut: `for _, weight := range allWeights { if weightPredicate(weight) { filteredWeights = append(filteredWeights, weight) } }`
	// and the four-phase loop `for _, weight := range filteredWeights`
	sawFilter, sawLoop := false, false
	for _, st := range fd.Body.List[cut:] {
		r, ok := st.(*ast.RangeStmt)
		if !ok {
			continue
		}
		switch rangeHead(fset, r) {
		case "_, weight := range allWeights":
			if len(r.Body.List) == 1 {
				if is, ok := r.Body.List[0].(*ast.IfStmt); ok && is.Init == nil && is.Else == nil &&
					render(fset, is.Cond) == "weightPredicate(weight)" && len(is.Body.List) == 1 &&
					render(fset, is.Body.List[0]) == "filteredWeights = append(filteredWeights, weight)" {
					sawFilter = true
				}
			}
		case "_, weight := range filteredWeights":
			sawLoop = true
		}
	}
	// nothing else may write the two slices
	writes := 0
	ast.Inspect(fd.Body, func(n ast.Node) bool {
		if as, ok := n.(*ast.AssignStmt); ok {
			for _, l := range as.Lhs {
				if s := render(fset, l); s == "filteredWeights" || s == "allWeights" {
					writes++
				}
			}
		}
		return true
	})
	loopFiltered = sawFilter && sawLoop && writes == 3 // allWeights :=, filteredWeights := make, filteredWeights = append
	return
}

func scanWrapper(fset *token.FileSet, fd *ast.FuncDecl) wrapper {
	w := wrapper{name: fd.Name.Name, pred: "?"}
	for _, st := range fd.Body.List {
		switch x := st.(type) {
		case *ast.ExprStmt:
			if s := render(fset, x.X); strings.HasPrefix(s, "log.") {
				w.stmts = append(w.stmts, "log")
			} else {
				w.stmts = append(w.stmts, s)
			}
		case *ast.DeferStmt:
			if strings.HasPrefix(render(fset, x.Call.Fun), "utils.TimeTrack") {
				w.stmts = append(w.stmts, "defer timetrack")
			} else {
				w.stmts = append(w.stmts, render(fset, x))
			}
		case *ast.ReturnStmt:
			kind := render(fset, x)
			if len(x.Results) == 1 {
				if call, ok := x.Results[0].(*ast.CallExpr); ok && render(fset, call.Fun) == "env.handleHooks" && len(call.Args) == 3 &&
					render(fset, call.Args[0]) == "workflow" && render(fset, call.Args[1]) == "trigger" {
					if fl, ok := call.Args[2].(*ast.FuncLit); ok && len(fl.Body.List) == 1 {
						if rs, ok := fl.Body.List[0].(*ast.ReturnStmt); ok && len(rs.Results) == 1 {
							w.pred = render(fset, rs.Results[0])
							kind = "return handleHooks"
						}
					}
				}
			}
			w.stmts = append(w.stmts, kind)
		default:
			w.stmts = append(w.stmts, fmt.Sprintf("%T", st))
		}
	}
	return w
}

func passFactsOf(repo string) (passFacts, error) {
	var pf passFacts
	fset := token.NewFileSet()
	af, err := parser.ParseFile(fset, filepath.Join(repo, "core/environment/environment.go"), nil, 0)
	if err != nil {
		return pf, err
	}
	found := false
	for _, d := range af.Decls {
		fd, ok := d.(*ast.FuncDecl)
		if !ok || fd.Recv == nil || fd.Body == nil {
			continue
		}
		switch fd.Name.Name {
		case "handleHooks":
			found = true
			pf.sources, pf.weightsFromSet, pf.loopOverFiltered = scanSources(fset, fd)
		case "handleAllHooks", "handleHooksWithNegativeWeights", "handleHooksWithPositiveWeights":
			pf.wrappers = append(pf.wrappers, scanWrapper(fset, fd))
		}
	}
	if !found {
		return pf, fmt.Errorf("handleHooks not found in core/environment/environment.go")
	}
	return pf, nil
}

func genPassFacts(repo string) (string, error) {
	pf, err := passFactsOf(repo)
	if err != nil {
		return "", err
	}
	var b strings.Builder
	b.WriteString("namespace Gen.C08Facts\n\n")
	b.WriteString("/-- Every `allWeightsSet[KEY] = …` of (*Environment).handleHooks (core/environment/environment.go, go/ast) that stands\n" +
		"    before `allWeights := allWeightsSet.GetWeights()`, in source order: (KEY as written, the `range` statements it stands\n" +
		"    in from the outside in, the `if` conditions it stands under as `init; cond`). -/\n")
	b.WriteString("def weightSources : List (String × List String × List String) := [")
	for i, s := range pf.sources {
		if i > 0 {
			b.WriteString(",")
		}
		fmt.Fprintf(&b, "\n  (%s, %s, %s)", leanStr(s.key), leanStrs(s.ranges), leanStrs(s.conds))
	}
	b.WriteString("]\n\n")
	fmt.Fprintf(&b, "/-- handleHooks has the statement `allWeights := allWeightsSet.GetWeights()` (ascending, callable/maps.go). -/\ndef weightsFromSet : Bool := %v\n\n", pf.weightsFromSet)
	fmt.Fprintf(&b, "/-- `filteredWeights` is `allWeights` restricted by `weightPredicate`, the four-phase loop ranges over `filteredWeights`,\n"+
		"    and nothing else assigns either slice. -/\ndef loopOverFiltered : Bool := %v\n\n", pf.loopOverFiltered)
	b.WriteString("/-- The three entries to handleHooks, in source order: (name, the predicate handed over, the statements of the body:\n" +
		"    `log` = a log line, `defer timetrack`, `return handleHooks` = `return env.handleHooks(workflow, trigger, func…)`;\n" +
		"    anything else as written / by its node type). -/\n")
	b.WriteString("def wrappers : List (String × String × List String) := [")
	for i, w := range pf.wrappers {
		if i > 0 {
			b.WriteString(",")
		}
		fmt.Fprintf(&b, "\n  (%s, %s, %s)", leanStr(w.name), leanStr(w.pred), leanStrs(w.stmts))
	}
	b.WriteString("]\n\nend Gen.C08Facts\n")
	return b.String(), nil
}

func init() {
	fw.RegisterGen(fw.GenFile{Name: "C08Facts.lean", Make: genPassFacts})
}
