package c08

// A call whose RESULT WAITS LONGER THAN ITS DECLARED TIMEOUT before it is collected — or is never collected. The
// documentation: "Regardless of when in time the call actually finishes, its result isn't collected until the
// environment state machine reaches [the await moment]", "The ECS will not abort the call upon reaching the timeout
// value": the `timeout` trait is handed to the plugin and is nothing to the state machine. So a call with a timeout
// of a few milliseconds that returned at once must still be collected exactly once at its await point however
// late that point comes (a healthy SLOW probe sits in between), with the outcome it had; and one whose await point
// never comes must still hold its result when the case ends (`Q` = what the environment lists, Spec.C08 clause (f)).

import (
	"fmt"

	"verifharness/fw"
	"verifharness/rng"
	"verifharness/sx"
)

func outlivedTimeoutCase(r *rng.R) fw.Case {
	var pts []string // the moments of the run cycle in the order a walk visits them
	for k := range cycle {
		pts = append(pts, cycleMoments(k)...)
	}
	timeout := r.Range(2, 4) // ms
	dur := 5 * timeout
	a := r.N(len(pts) - 4)
	crit, fails := r.P(2, 3), r.P(2, 3)
	outs := sx.L()
	if fails {
		for j := 0; j < 8; j++ {
			outs.Add(sx.B(true))
		}
	}
	hooks := sx.L()
	tags := []string{"outlived-timeout", "slow-call", "floating-await"}
	last := a
	if r.P(1, 3) {
		// never awaited: the result is held to the end of the case
		hooks.Add(sx.L(sx.I(0), sx.A("call"), sx.B(crit), sx.A(pts[a]), sx.I(rng.Pick(r, []int{-10, 0, 5})), sx.A(fmt.Sprintf("never_%d", r.N(3))), sx.I(0), outs, sx.I(timeout), sx.I(0)))
		last = min(a+r.Range(1, 6), len(pts)-1)
		tags = append(tags, "outlived-timeout-never-awaited")
	} else {
		// awaited at a later moment (same transition or a later one)
		last = r.Range(a+1, min(a+8, len(pts)-1))
		hooks.Add(sx.L(sx.I(0), sx.A("call"), sx.B(crit), sx.A(pts[a]), sx.I(rng.Pick(r, []int{-10, 0, 5})), sx.A(pts[last]), sx.I(rng.Pick(r, []int{-10, 0, 5})), outs, sx.I(timeout), sx.I(0)))
		tags = append(tags, "outlived-timeout-awaited-later")
		if fails && crit {
			tags = append(tags, "critical-failures")
		}
	}
	// the slow healthy probe between start and await / end: strictly after the start, strictly before the await
	c := r.Range(a, last)
	sw := 0
	switch {
	case c == a:
		sw = 30
	case c == last:
		sw = -30
	}
	hooks.Add(sx.L(sx.I(1), sx.A("call"), sx.B(false), sx.A(pts[c]), sx.I(sw), sx.A(pts[c]), sx.I(sw), sx.L(), sx.I(0), sx.I(dur)))
	// something at the await point's moment that must (not) run after it
	hooks.Add(sx.L(sx.I(2), sx.A(rng.Pick(r, []string{"call", "task"})), sx.B(r.Bool()), sx.A(pts[last]), sx.I(60), sx.A(pts[last]), sx.I(60), sx.L()))
	rng.Shuffle(r, hooks.List)
	reqs := sx.L()
	for i := 0; i <= last/4; i++ {
		reqs.Add(sx.L(sx.A("T"), sx.A(cycle[i].ev), sx.B(true), sx.B(false)))
	}
	if r.Bool() && last/4+1 < len(cycle) {
		reqs.Add(sx.L(sx.A("T"), sx.A(cycle[last/4+1].ev), sx.B(true), sx.B(false)))
	}
	return fw.Case{Input: sx.L(hooks, reqs, sx.I(r.Range(0, 2))).String(), Tags: tags}
}
