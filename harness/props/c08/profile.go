package c08

import (
	"verifharness/envh"
	"verifharness/sx"
)

const nQuick, nThorough = 350, 6000

var profile = envh.Profile{MaxHooks: 12, MaxReqs: 8, FailP: 40, BodyFailP: 60, IllegalP: 80, TaskHookP: 250, FloatP: 300,
	TeardownP: 90, ControlP: 150, DestroyHooks: true}

const rule = "random walks of 1..8 requests over 0..12 hooks (call and task hooks, weights in -300..300 with deliberate ties, 30% of call hooks " +
	"await somewhere else: later weight / other moment / never / earlier weight; DESTROY hooks; teardowns); non-trivial = at least two hooks share a " +
	"trigger moment with different weights or some call awaits away from its trigger, and >=3 requests; distinct by input text"

func nontrivial(input, obs string) bool {
	in, err := sx.Parse(input)
	if err != nil || in.At(1).Len() < 3 {
		return false
	}
	hs := in.At(0).List
	for i, a := range hs {
		if a.At(3).Str() != a.At(5).Str() || a.At(4).Int() != a.At(6).Int() {
			return true
		}
		for _, b := range hs[i+1:] {
			if a.At(3).Str() == b.At(3).Str() && a.At(4).Int() != b.At(4).Int() {
				return true
			}
		}
	}
	return false
}
