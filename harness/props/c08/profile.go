package c08

import (
	"verifharness/envh"
	"verifharness/fw"
	"verifharness/rng"
	"verifharness/sx"
)

const nQuick, nThorough = 350, 6000

var profile = envh.Profile{MaxHooks: 12, MaxReqs: 8, FailP: 40, BodyFailP: 60, IllegalP: 80, TaskHookP: 250, FloatP: 300,
	TeardownP: 90, ControlP: 150, DestroyHooks: true}

// the points of the run cycle, in the order in which a walk DEPLOY, CONFIGURE, START_ACTIVITY, STOP_ACTIVITY visits them
var cycle = []struct{ ev, src, dst string }{{"DEPLOY", "STANDBY", "DEPLOYED"}, {"CONFIGURE", "DEPLOYED", "CONFIGURED"},
	{"START_ACTIVITY", "CONFIGURED", "RUNNING"}, {"STOP_ACTIVITY", "RUNNING", "CONFIGURED"}}

func cycleMoments(k int) []string {
	t := cycle[k]
	return []string{"before_" + t.ev, "leave_" + t.src, "enter_" + t.dst, "after_" + t.ev}
}

// awaitGroupCase: SEVERAL calls awaited at ONE point (moment, weight) — 2..3 of them, each either started right
// there (await = trigger, the default) or started at an earlier moment of the walk and awaiting that point — where
// the calls take different times (one of them is SLOW: its probe takes 15..30 ms, everything else 0.3 ms) and one
// of them may fail, critically or not, standing anywhere in the order in which the calls were registered. The
// await barrier must hold for every one of them (nothing of the moment's remainder, and no finish marker, before
// the slowest has returned), each result must be collected exactly there, and what a teardown finds still pending
// must be cancelled. Plus a hook at a later weight of the same moment, and a teardown in half of the cases.
func awaitGroupCase(r *rng.R) fw.Case {
	k := r.N(len(cycle))
	mi := r.N(4)
	m := cycleMoments(k)[mi]
	w := rng.Pick(r, []int{-20, -1, 0, 10})
	// the points strictly before moment m in the walk
	var earlier []string
	for i := 0; i <= k; i++ {
		for j, x := range cycleMoments(i) {
			if i < k || j < mi {
				earlier = append(earlier, x)
			}
		}
	}
	n := r.Range(2, 3)
	slow := r.N(n)
	failing := -1
	if r.P(3, 4) {
		failing = r.N(n)
	}
	critFail := r.P(2, 3)
	fixed := r.N(n) // at least one member is started at the await point itself, so that its weight is visited
	hooks := sx.L()
	id := 0
	nFloat := 0
	for i := 0; i < n; i++ {
		trig, tw := m, w
		if i != fixed && len(earlier) > 0 && r.P(1, 2) {
			trig, tw = rng.Pick(r, earlier), rng.Pick(r, []int{-5, 0, 3})
			nFloat++
		}
		crit := r.Bool()
		outs := sx.L()
		if i == failing {
			crit = critFail
			for j := 0; j < 8; j++ {
				outs.Add(sx.B(true))
			}
		}
		dur := 0
		if i == slow {
			dur = r.Range(15, 30)
		}
		hooks.Add(sx.L(sx.I(id), sx.A("call"), sx.B(crit), sx.A(trig), sx.I(tw), sx.A(m), sx.I(w), outs, sx.I(0), sx.I(dur)))
		id++
	}
	// the rest of the moment: a later weight of the same pass, and a probe at the end of the transition
	lw := w + r.Range(1, 30)
	if w < 0 && lw >= 0 {
		lw = -1
	}
	if lw > w {
		kind := "call"
		if r.P(1, 3) {
			kind = "task"
		}
		hooks.Add(sx.L(sx.I(id), sx.A(kind), sx.B(r.Bool()), sx.A(m), sx.I(lw), sx.A(m), sx.I(lw), sx.L()))
		id++
	}
	hooks.Add(sx.L(sx.I(id), sx.A("call"), sx.B(false), sx.A("after_"+cycle[k].ev), sx.I(50), sx.A("after_"+cycle[k].ev), sx.I(50), sx.L()))
	rng.Shuffle(r, hooks.List) // role order = the order in which calls of one trigger point are registered
	reqs := sx.L()
	for i := 0; i <= k; i++ {
		reqs.Add(sx.L(sx.A("T"), sx.A(cycle[i].ev), sx.B(true), sx.B(false)))
	}
	if r.P(1, 2) {
		reqs.Add(sx.L(sx.A("T"), sx.A(cycle[k].ev), sx.B(true), sx.B(false))) // again (or illegal by now)
	}
	tags := []string{"await-group", "slow-call"}
	if r.P(1, 2) {
		reqs.Add(sx.L(sx.A("D"), sx.B(true), sx.B(true), sx.B(r.P(9, 10))))
		tags = append(tags, "teardown")
	}
	if failing >= 0 {
		if critFail {
			tags = append(tags, "critical-failures", "await-group-critical-failure")
		} else {
			tags = append(tags, "await-group-noncritical-failure")
		}
	}
	if nFloat > 0 {
		tags = append(tags, "floating-await")
	}
	return fw.Case{Input: sx.L(hooks, reqs, sx.I(r.Range(0, 2))).String(), Tags: tags}
}

const rule = "every eleventh case an outlived-timeout class (a call with a `timeout` of 2..4 ms that returns at once and is awaited at a later moment / transition - a healthy probe taking 5x " +
	"the timeout in between - or never: collected once with its own outcome however late, or still held at the end); every seventh case a written-weights class (3..7 call / task hooks at one moment of the run cycle, weights of both signs close together, " +
	"every weight WRITTEN as a template author may write it: zero-padded, explicit sign, -0, +00, nothing at all for 0; the same integer in two writings; awaits at a later " +
	"weight / a later moment written likewise), a seventh of the random walks with half of their weights re-written the same way; every seventh case a cross-pass class (see C10: calls " +
	"triggered at a negative and awaited at a non-negative weight of one moment, or the reverse, with hooks triggered at the await weight); every fourth case an await group (2..3 calls awaited at one point, started there or earlier in the walk, one of them slow (15..30 ms), " +
	"one of them failing critically / non-critically / none, in every registration order; a later weight of the same moment; teardown in half of them), " +
	"every tenth a teardown class (see C10); otherwise random walks of 1..8 requests over 0..12 hooks (call and task hooks, weights in -300..300 with deliberate ties, 30% of call hooks " +
	"await somewhere else: later weight / other moment / never / earlier weight; DESTROY hooks; teardowns); non-trivial = at least two hooks share a " +
	"trigger moment with different weights or some call awaits away from its trigger, and >=3 requests; distinct by input text"

func nontrivial(input, obs string) bool {
	in, err := sx.Parse(input)
	if err != nil || in.At(1).Len() < 3 {
		return false
	}
	hs := in.At(0).List
	for i, a := range hs {
		if a.At(3).Str() != a.At(5).Str() || weightOf(a.At(4)) != weightOf(a.At(6)) {
			return true
		}
		for _, b := range hs[i+1:] {
			if a.At(3).Str() == b.At(3).Str() && weightOf(a.At(4)) != weightOf(b.At(4)) {
				return true
			}
		}
	}
	return false
}
