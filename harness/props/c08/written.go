package c08

// Weights AS WRITTEN. The input language of the environment-machine harness carried weights as integers, which
// the harness printed into the workflow YAML as %+d: of all the texts a template author can write for one
// integer, the core's reader (callable.ParseTriggerExpression) only ever saw the canonical one. Here a hook's
// trigger / await weight is the TEXT `(w "+010")` (harness/envh): the same integer zero-padded to a column
// width, with an explicit sign, `-0`, `+00`, or — for weight 0 — nothing at all. The property speaks about the
// DECLARED integer ("ascending order of their weight"): however an integer is written, the hooks must be
// started, ordered and awaited as that integer says (Model/TrigExpr.lean; `C08_weight_padding_irrelevant`,
// `C08_order_by_declared_integer`).

import (
	"fmt"
	"strconv"
	"strings"

	"verifharness/fw"
	"verifharness/rng"
	"verifharness/sx"
)

// writeWeight: one of the texts that declare the integer w.
func writeWeight(r *rng.R, w int) string {
	sign, abs := "+", w
	if w < 0 {
		sign, abs = "-", -w
	}
	if w == 0 {
		switch r.N(6) {
		case 0:
			return "" // no weight at all: the default
		case 1:
			return "-0"
		case 2:
			return "+00"
		case 3:
			return "-000"
		}
		return "+0"
	}
	switch r.N(4) {
	case 0:
		return fmt.Sprintf("%s%d", sign, abs) // canonical
	case 1:
		return fmt.Sprintf("%s0%d", sign, abs) // one leading zero
	case 2:
		return fmt.Sprintf("%s%03d", sign, abs) // a column three digits wide
	}
	return fmt.Sprintf("%s%s%d", sign, strings.Repeat("0", r.Range(1, 4)), abs)
}

// weightOf: the integer a trigW / awaitW field of the input declares (decimal reading of a written weight).
func weightOf(n *sx.Node) int {
	if n.IsList {
		w, _ := strconv.Atoi(n.At(1).Str())
		return w
	}
	return n.Int()
}

func written(r *rng.R, w int) *sx.Node { return sx.L(sx.A("w"), sx.A(writeWeight(r, w))) }

// withWrittenWeights rewrites the integer weights of a generated case as texts that declare the same integers
// (each trigger / await weight with probability 1/2): the model's prediction is that of the integer form.
func withWrittenWeights(c fw.Case, r *rng.R) fw.Case {
	in, err := sx.Parse(c.Input)
	if err != nil {
		return c
	}
	hooks := sx.L()
	n := 0
	for _, h := range in.At(0).List {
		g := sx.L(h.List...)
		for _, k := range []int{4, 6} {
			if !g.At(k).IsList && r.P(1, 2) {
				g.List[k] = written(r, g.At(k).Int())
				n++
			}
		}
		hooks.Add(g)
	}
	if n == 0 {
		return c
	}
	return fw.Case{Input: sx.L(hooks, in.At(1), in.At(2)).String(), Tags: append(append([]string{}, c.Tags...), "written-weights")}
}

// the integers whose usual writings are told apart only by reading them as DECIMAL integers: neighbours of the
// padded readings in other bases (010 = eight?), the digits 8 and 9, both signs, zero, and the weights templates use
var writtenValues = []int{-100, -50, -19, -18, -12, -10, -9, -8, -7, -1, 0, 0, 1, 7, 8, 9, 10, 10, 12, 15, 17, 18, 19, 50, 64, 100}

// writtenWeightsCase: 3..7 hooks (calls and task hooks) at ONE moment of the run cycle, their weights close
// together and of both signs, every one WRITTEN some way (padded, signed, bare zero); two of them declare the
// same integer in different writings now and then (they must be started together); a call may await a later
// weight of the moment, or float to a later moment, its await weight written too; the walk goes through the
// moment once or twice, a teardown follows in a third of the cases.
func writtenWeightsCase(r *rng.R) fw.Case {
	k := r.N(len(cycle))
	mi := r.N(4)
	m := cycleMoments(k)[mi]
	var later []string
	for i := k; i < len(cycle); i++ {
		for j, x := range cycleMoments(i) {
			if i > k || j > mi {
				later = append(later, x)
			}
		}
	}
	n := r.Range(3, 7)
	hooks := sx.L()
	var ws []int
	tags := []string{"written-weights", "written-weights-class"}
	nFloat, nCritFail := 0, 0
	for i := 0; i < n; i++ {
		w := rng.Pick(r, writtenValues)
		if i > 0 && r.P(1, 4) {
			w = ws[r.N(len(ws))] // the same integer again, most likely written differently
		}
		ws = append(ws, w)
		kind := "call"
		if r.P(1, 4) {
			kind = "task"
		}
		at, aw := m, w
		if kind == "call" && r.P(1, 4) {
			nFloat++
			if len(later) > 0 && r.P(1, 2) {
				at, aw = rng.Pick(r, later), rng.Pick(r, writtenValues)
			} else {
				aw = w + r.Range(1, 12) // later weight, same moment (may cross into the other pass)
			}
		}
		crit := r.P(1, 3)
		outs := sx.L()
		if at == m && aw == w && r.P(1, 8) {
			for j := 0; j < 4; j++ {
				outs.Add(sx.B(true))
			}
			if crit {
				nCritFail++
			}
		}
		hooks.Add(sx.L(sx.I(i), sx.A(kind), sx.B(crit), sx.A(m), written(r, w), sx.A(at), written(r, aw), outs))
	}
	rng.Shuffle(r, hooks.List)
	reqs := sx.L()
	for i := 0; i <= k; i++ {
		reqs.Add(sx.L(sx.A("T"), sx.A(cycle[i].ev), sx.B(true), sx.B(false)))
	}
	for i := k + 1; i < len(cycle) && r.P(1, 2); i++ {
		reqs.Add(sx.L(sx.A("T"), sx.A(cycle[i].ev), sx.B(true), sx.B(false)))
	}
	if r.P(1, 3) {
		reqs.Add(sx.L(sx.A("D"), sx.B(true), sx.B(true), sx.B(true)))
		tags = append(tags, "teardown")
	}
	if nFloat > 0 {
		tags = append(tags, "floating-await")
	}
	if nCritFail > 0 {
		tags = append(tags, "critical-failures")
	}
	return fw.Case{Input: sx.L(hooks, reqs, sx.I(r.Range(0, 2))).String(), Tags: tags}
}
