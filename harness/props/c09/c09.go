// Package c09: see harness/envh (shared environment-machine harness) and lean/ControlModel/Spec/C09.lean.
package c09

import (
	"verifharness/envh"
	"verifharness/fw"
	"verifharness/rng"
)

func generate(tier string, r *rng.R) []fw.Case {
	n := nQuick
	if tier == "thorough" {
		n = nThorough
	}
	var cs []fw.Case
	for i := 0; i < n; i++ {
		f := r.Fork()
		var c fw.Case
		if i%6 == 5 {
			c = lateCollectCase(f)
		} else if i%3 == 0 {
			c = clusterCase(f)
		} else {
			c = envh.GenCase(f, profile)
		}
		// every other case: some of its failing call executions fail in a NAMED way (ways.go)
		if i%2 == 1 {
			c = mixWays(c, f)
		}
		cs = append(cs, c)
	}
	// the grid way × criticality × moment kind × weight sign, once (quick) or eight times over
	rounds := 1
	if tier == "thorough" {
		rounds = 8
	}
	for i := 0; i < rounds; i++ {
		cs = append(cs, waysGrid(r.Fork())...)
	}
	return cs
}

func init() {
	fw.Register(&fw.Property{
		ID:         "C09",
		Generate:   generate,
		RunImpl:    func(in string) (string, error) { return envh.Run(in, true) },
		Nontrivial: nontrivial,
		Rule:       rule,
		Shrink:     envh.Shrink,
		Workers:    1,
		Setup:      envh.Setup,
		Teardown:   envh.Teardown,
		TrustedBase: []string{
			"harness/envh: environment builder (YAML roles, NewTaskForVerif tasks), probe plugin (verifprobe.Probe; ways.go: the ways it makes a call fail), event capture, fake task manager answering ReleaseTasks",
			"harness/props/c09/facts.go: go/ast facts about (*Call).Call() / Start / Await / AwaitAll of core/workflow/callable/call.go",
			"verif hooks in /repo: core/environment/verif_hooks.go, core/workflow/verif_hooks.go, core/the/verif_hooks.go, core/task/verif_hooks_task.go",
			"trace monitor (lean/ControlModel/Spec/EnvTrace.lean): probe calls are judged by windows and happens-before, not by exact position",
		},
		Assumptions: []string{
			"looplab/fsm v1.0.1 Event/Cancel semantics as modelled (sampled by every case)",
			"scripted task-level bodies stand in for the real transition bodies; task hooks are answered by the harness (BasicTaskTerminated with exit code) through a blocking delivery hook",
			"goroutine scheduling of call hooks is arbitrary; the harness paces time.Now() reads so that distinct stamps differ",
		},
	})
}
