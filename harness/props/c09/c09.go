// Package c09: correspondence harness for property C09 (stub — registers nothing yet).
package c09
