// Package c09: see harness/envh (shared environment-machine harness) and lean/ControlModel/Spec/C09.lean.
package c09

import (
	"verifharness/envh"
	"verifharness/fw"
	"verifharness/rng"
)

func generate(tier string, r *rng.R) []fw.Case {
	n := nQuick
	if tier == "thorough" {
		n = nThorough
	}
	var cs []fw.Case
	for i := 0; i < n; i++ {
		if i%6 == 5 {
			cs = append(cs, lateCollectCase(r.Fork()))
		} else if i%3 == 0 {
			cs = append(cs, clusterCase(r.Fork()))
		} else {
			cs = append(cs, envh.GenCase(r.Fork(), profile))
		}
	}
	return cs
}

func init() {
	fw.Register(&fw.Property{
		ID:         "C09",
		Generate:   generate,
		RunImpl:    func(in string) (string, error) { return envh.Run(in, true) },
		Nontrivial: nontrivial,
		Rule:       rule,
		Shrink:     envh.Shrink,
		Workers:    1,
		Setup:      envh.Setup,
		Teardown:   envh.Teardown,
		TrustedBase: []string{
			"harness/envh: environment builder (YAML roles, NewTaskForVerif tasks), probe plugin (verifprobe.Probe), event capture, fake task manager answering ReleaseTasks",
			"verif hooks in /repo: core/environment/verif_hooks.go, core/workflow/verif_hooks.go, core/the/verif_hooks.go, core/task/verif_hooks_task.go",
			"trace monitor (lean/ControlModel/Spec/EnvTrace.lean): probe calls are judged by windows and happens-before, not by exact position",
		},
		Assumptions: []string{
			"looplab/fsm v1.0.1 Event/Cancel semantics as modelled (sampled by every case)",
			"scripted task-level bodies stand in for the real transition bodies; task hooks are answered by the harness (BasicTaskTerminated with exit code) through a blocking delivery hook",
			"goroutine scheduling of call hooks is arbitrary; the harness paces time.Now() reads so that distinct stamps differ",
		},
	})
}
