package c09

// go/ast facts about core/workflow/callable/call.go: the exits of (*Call).Call() and the path its return value
// takes to handleHooks (Start → await channel → Await → AwaitAll). The Lean model of the exits is
// Model/CallWays.lean (`CallCfg`, `callReturnsErr`); `C09_call_exits_are_code` pins `codeCall` to these facts, so
// that "whatever way a call hook fails, the environment machine sees a failure" is a statement about the code
// as it is now.

import (
	"bytes"
	"fmt"
	"go/ast"
	"go/parser"
	"go/printer"
	"go/token"
	"path/filepath"
	"strings"

	"verifharness/fw"
)

func render(fset *token.FileSet, n ast.Node) string {
	if n == nil {
		return ""
	}
	var b bytes.Buffer
	printer.Fprint(&b, fset, n)
	return strings.Join(strings.Fields(b.String()), " ")
}

type callFacts struct {
	evalErrorExits          bool // `err = fields.Execute(…)` is followed at once by `if err != nil { …; return err }` (err untouched in between)
	callErrorExits          bool // `if m, ok = c.VarStack["__call_error"]; ok && len(m) > 0 { …; return errors.New(m) }` (m only appended to)
	evalBeforeCallErrorTest bool // the first of these comes before the second, both at the top level of the body
	nilOnlyAtEnd            bool // the body's only other return is its last statement, `return nil`
	returns                 int  // return statements of Call() (function literals not counted)
	startSendsCallResult    bool // Start: `c.await <- c.Call()`
	awaitReturnsReceived    bool // Await: `return <-c.await`
	awaitAllKeepsEveryError bool // AwaitAll: `err := v.Await(); if err != nil { … errors[v] = err … }`
}

func method(af *ast.File, recv, name string) *ast.FuncDecl {
	for _, d := range af.Decls {
		fd, ok := d.(*ast.FuncDecl)
		if !ok || fd.Name.Name != name || fd.Recv == nil || len(fd.Recv.List) != 1 || fd.Body == nil {
			continue
		}
		t := fd.Recv.List[0].Type
		if st, ok := t.(*ast.StarExpr); ok {
			t = st.X
		}
		if id, ok := t.(*ast.Ident); ok && id.Name == recv {
			return fd
		}
	}
	return nil
}

// returnsOf: the return statements of a body, not descending into function literals.
func returnsOf(b *ast.BlockStmt) []*ast.ReturnStmt {
	var out []*ast.ReturnStmt
	ast.Inspect(b, func(n ast.Node) bool {
		switch x := n.(type) {
		case *ast.FuncLit:
			return false
		case *ast.ReturnStmt:
			out = append(out, x)
		}
		return true
	})
	return out
}

// assignsTo: does the block assign to identifier name (any token but the allowed one)?
func assignsTo(fset *token.FileSet, b ast.Node, name string, allowed token.Token) bool {
	found := false
	ast.Inspect(b, func(n ast.Node) bool {
		switch x := n.(type) {
		case *ast.AssignStmt:
			for _, l := range x.Lhs {
				if id, ok := l.(*ast.Ident); ok && id.Name == name && x.Tok != allowed {
					found = true
				}
			}
		case *ast.UnaryExpr:
			if x.Op == token.AND && render(fset, x.X) == name {
				found = true
			}
		case *ast.IncDecStmt:
			if render(fset, x.X) == name {
				found = true
			}
		}
		return true
	})
	return found
}

func lastReturn(b *ast.BlockStmt) *ast.ReturnStmt {
	if b == nil || len(b.List) == 0 {
		return nil
	}
	r, _ := b.List[len(b.List)-1].(*ast.ReturnStmt)
	return r
}

func callFactsOf(repo string) (*callFacts, error) {
	fset := token.NewFileSet()
	af, err := parser.ParseFile(fset, filepath.Join(repo, "core/workflow/callable/call.go"), nil, 0)
	if err != nil {
		return nil, err
	}
	f := &callFacts{}
	call := method(af, "Call", "Call")
	if call == nil {
		return nil, fmt.Errorf("call.go: func (c *Call) Call not found")
	}
	recv := ""
	if ns := call.Recv.List[0].Names; len(ns) == 1 {
		recv = ns[0].Name
	}
	evalIdx, errIdx := -1, -1
	var evalRet, errRet *ast.ReturnStmt
	for i, st := range call.Body.List {
		// err = fields.Execute(…)
		if as, ok := st.(*ast.AssignStmt); ok && len(as.Lhs) == 1 && len(as.Rhs) == 1 && evalIdx < 0 {
			ce, isCall := as.Rhs[0].(*ast.CallExpr)
			id, isId := as.Lhs[0].(*ast.Ident)
			if isCall && isId {
				if se, ok := ce.Fun.(*ast.SelectorExpr); ok && se.Sel.Name == "Execute" {
					evalIdx = i
					if i+1 < len(call.Body.List) {
						if is, ok := call.Body.List[i+1].(*ast.IfStmt); ok && is.Init == nil && is.Else == nil &&
							render(fset, is.Cond) == id.Name+" != nil" {
							if r := lastReturn(is.Body); r != nil && len(r.Results) == 1 && render(fset, r.Results[0]) == id.Name &&
								!assignsTo(fset, is.Body, id.Name, token.ILLEGAL) {
								f.evalErrorExits = true
								evalRet = r
							}
						}
					}
				}
			}
		}
		// if m, ok = c.VarStack["__call_error"]; ok && len(m) > 0 { …; return errors.New(m) }
		if is, ok := st.(*ast.IfStmt); ok && is.Init != nil && errIdx < 0 {
			as, ok := is.Init.(*ast.AssignStmt)
			if !ok || len(as.Lhs) != 2 || len(as.Rhs) != 1 || render(fset, as.Rhs[0]) != recv+`.VarStack["__call_error"]` {
				continue
			}
			m, ok1 := as.Lhs[0].(*ast.Ident)
			okv, ok2 := as.Lhs[1].(*ast.Ident)
			if !ok1 || !ok2 {
				continue
			}
			errIdx = i
			if is.Else == nil && render(fset, is.Cond) == fmt.Sprintf("%s && len(%s) > 0", okv.Name, m.Name) {
				if r := lastReturn(is.Body); r != nil && len(r.Results) == 1 && render(fset, r.Results[0]) == "errors.New("+m.Name+")" &&
					!assignsTo(fset, is.Body, m.Name, token.ADD_ASSIGN) {
					f.callErrorExits = true
					errRet = r
				}
			}
		}
	}
	f.evalBeforeCallErrorTest = evalIdx >= 0 && errIdx > evalIdx
	rs := returnsOf(call.Body)
	f.returns = len(rs)
	if last := lastReturn(call.Body); last != nil && len(last.Results) == 1 && render(fset, last.Results[0]) == "nil" {
		f.nilOnlyAtEnd = true
		for _, r := range rs {
			if r != last && r != evalRet && r != errRet {
				f.nilOnlyAtEnd = false
			}
		}
	}
	if start := method(af, "Call", "Start"); start != nil {
		r := ""
		if ns := start.Recv.List[0].Names; len(ns) == 1 {
			r = ns[0].Name
		}
		ast.Inspect(start.Body, func(n ast.Node) bool {
			if s, ok := n.(*ast.SendStmt); ok && render(fset, s.Chan) == r+".await" && render(fset, s.Value) == r+".Call()" {
				f.startSendsCallResult = true
			}
			return true
		})
	}
	if aw := method(af, "Call", "Await"); aw != nil {
		r := ""
		if ns := aw.Recv.List[0].Names; len(ns) == 1 {
			r = ns[0].Name
		}
		rs := returnsOf(aw.Body)
		if last := lastReturn(aw.Body); last != nil && len(rs) == 1 && len(last.Results) == 1 && render(fset, last.Results[0]) == "<-"+r+".await" {
			f.awaitReturnsReceived = true
		}
	}
	if all := method(af, "Calls", "AwaitAll"); all != nil {
		ast.Inspect(all.Body, func(n ast.Node) bool {
			b, ok := n.(*ast.BlockStmt)
			if !ok {
				return true
			}
			for i, st := range b.List {
				as, ok := st.(*ast.AssignStmt)
				if !ok || as.Tok != token.DEFINE || len(as.Lhs) != 1 || len(as.Rhs) != 1 || !strings.HasSuffix(render(fset, as.Rhs[0]), ".Await()") || i+1 >= len(b.List) {
					continue
				}
				e := render(fset, as.Lhs[0])
				v := strings.TrimSuffix(render(fset, as.Rhs[0]), ".Await()")
				is, ok := b.List[i+1].(*ast.IfStmt)
				if !ok || is.Init != nil || render(fset, is.Cond) != e+" != nil" {
					continue
				}
				for _, s := range is.Body.List {
					if render(fset, s) == fmt.Sprintf("errors[%s] = %s", v, e) {
						f.awaitAllKeepsEveryError = true
					}
				}
			}
			return true
		})
	}
	return f, nil
}

func genCallFacts(repo string) (string, error) {
	f, err := callFactsOf(repo)
	if err != nil {
		return "", err
	}
	var b strings.Builder
	b.WriteString("namespace Gen.C09Call\n\n")
	b.WriteString("/-! go/ast facts about core/workflow/callable/call.go (harness/props/c09/facts.go). -/\n\n")
	row := func(name, doc string, v bool) {
		fmt.Fprintf(&b, "/-- %s -/\ndef %s : Bool := %v\n\n", doc, name, v)
	}
	row("evalErrorExits", "(*Call).Call(): `err = fields.Execute(…)` is followed at once by `if err != nil { … return err }`, with `err` not touched inside", f.evalErrorExits)
	row("callErrorExits", "(*Call).Call(): `if m, ok = c.VarStack[\"__call_error\"]; ok && len(m) > 0 { … return errors.New(m) }`, with `m` only appended to inside", f.callErrorExits)
	row("evalBeforeCallErrorTest", "both at the top level of the body, the evaluation first", f.evalBeforeCallErrorTest)
	row("nilOnlyAtEnd", "the only other return statement of Call() is its last statement, `return nil`", f.nilOnlyAtEnd)
	fmt.Fprintf(&b, "/-- return statements of Call() (function literals not counted) -/\ndef returns : Nat := %d\n\n", f.returns)
	row("startSendsCallResult", "(*Call).Start(): `c.await <- c.Call()`", f.startSendsCallResult)
	row("awaitReturnsReceived", "(*Call).Await(): its only return is `return <-c.await`", f.awaitReturnsReceived)
	row("awaitAllKeepsEveryError", "Calls.AwaitAll(): `err := v.Await()` followed by `if err != nil { … errors[v] = err … }`", f.awaitAllKeepsEveryError)
	b.WriteString("end Gen.C09Call\n")
	return b.String(), nil
}

func init() {
	fw.RegisterGen(fw.GenFile{Name: "C09CallFacts.lean", Make: genCallFacts})
}
