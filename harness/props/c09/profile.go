package c09

import (
	"strings"

	"verifharness/envh"
	"verifharness/sx"
)

const nQuick, nThorough = 350, 6000

var profile = envh.Profile{MaxHooks: 8, MaxReqs: 8, FailP: 300, BodyFailP: 100, IllegalP: 60, TaskHookP: 300, FloatP: 150,
	TeardownP: 40, ControlP: 200}

const rule = "random walks of 1..8 requests over 0..8 hooks where 30% of hook executions fail (call error / task non-zero exit), critical or not, " +
	"alone or several at one point; non-trivial = at least one failing execution scripted and actually executed, and >=2 requests; distinct by input text"

func nontrivial(input, obs string) bool {
	in, err := sx.Parse(input)
	if err != nil || in.At(1).Len() < 2 {
		return false
	}
	// a failing execution really happened: "(XE h k 1 " or a failing task in an H record
	return strings.Contains(obs, " 1 (") && (strings.Contains(obs, "(XE ") || strings.Contains(obs, "(H "))
}
