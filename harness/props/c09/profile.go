package c09

import (
	"strings"

	"verifharness/envh"
	"verifharness/fw"
	"verifharness/rng"
	"verifharness/sx"
)

const nQuick, nThorough = 350, 6000

var profile = envh.Profile{MaxHooks: 8, MaxReqs: 8, FailP: 300, BodyFailP: 100, IllegalP: 60, TaskHookP: 300, FloatP: 150,
	TeardownP: 40, ControlP: 200}

const rule = "the grid of the WAYS a call hook can fail (by __call_error, with a reason, by its own timeout, by a cancelled request, by a Go error of the plugin function, by both, " +
	"by a panic, by a function the plugin does not export, by a plugin that is not loaded, by an expression that does not compile) x critical or not x before_/leave_/enter_/after_ x weight sign, once each " +
	"(thorough: 8 times), the transition retried and followed by the next one; in every other of the remaining cases half of the failing call hooks fail in such named ways; every sixth case a late collection (a call awaited at a later weight pass / later moment / later transition than its trigger, with a short " +
	"timeout of its own (6..10 ms) and a healthy slow hook (5x that) between its start and its await point; failing or not, critical or not), every third a cluster " +
	"(several hooks failing at one point); otherwise random walks of 1..8 requests over 0..8 hooks where 30% of hook executions fail (call error / task non-zero exit), critical or not, " +
	"alone or several at one point; non-trivial = at least one failing execution scripted and actually executed, and >=2 requests; distinct by input text"

// clusterCase: SEVERAL hooks failing at the SAME trigger point with mixed criticality (calls and task
// hooks), plus hooks at larger weights of the same pass that must not run once a critical one failed,
// walked to by a fixed legal path.
func clusterCase(r *rng.R) fw.Case {
	type tr struct{ ev, src, dst string }
	path := []tr{{"DEPLOY", "STANDBY", "DEPLOYED"}, {"CONFIGURE", "DEPLOYED", "CONFIGURED"}, {"START_ACTIVITY", "CONFIGURED", "RUNNING"}, {"STOP_ACTIVITY", "RUNNING", "CONFIGURED"}}
	k := r.N(len(path))
	t := path[k]
	moment := rng.Pick(r, []string{"before_" + t.ev, "leave_" + t.src, "enter_" + t.dst, "after_" + t.ev})
	w := rng.Pick(r, []int{-50, -1, 0, 10})
	hooks := sx.L()
	id := 0
	nFail := r.Range(2, 4)
	for i := 0; i < nFail; i++ {
		kind := "call"
		if r.P(1, 3) {
			kind = "task"
		}
		crit := i == 0 || r.P(1, 3) // at least one critical, usually some non-critical too
		if i == 1 {
			crit = false
		}
		outs := sx.L(sx.B(true), sx.B(true), sx.B(true))
		hooks.Add(sx.L(sx.I(id), sx.A(kind), sx.B(crit), sx.A(moment), sx.I(w), sx.A(moment), sx.I(w), outs))
		id++
	}
	// later weights in the same pass (and one in the other pass / next moment)
	for i := 0; i < r.Range(1, 3); i++ {
		lw := w + r.Range(1, 40)
		if w < 0 && lw >= 0 {
			lw = -1
			if lw <= w {
				lw = w
			}
		}
		kind := "call"
		if r.P(1, 3) {
			kind = "task"
		}
		hooks.Add(sx.L(sx.I(id), sx.A(kind), sx.B(r.Bool()), sx.A(moment), sx.I(lw), sx.A(moment), sx.I(lw), sx.L()))
		id++
	}
	hooks.Add(sx.L(sx.I(id), sx.A("call"), sx.B(true), sx.A("after_"+t.ev), sx.I(5), sx.A("after_"+t.ev), sx.I(5), sx.L()))
	// shuffle role order: map iteration decides which failure is visited last, role order who is started first
	rng.Shuffle(r, hooks.List)
	reqs := sx.L()
	for i := 0; i <= k; i++ {
		reqs.Add(sx.L(sx.A("T"), sx.A(path[i].ev), sx.B(true), sx.B(false)))
	}
	// the failing transition again (scripts fail 3 times), then something else
	reqs.Add(sx.L(sx.A("T"), sx.A(t.ev), sx.B(true), sx.B(false)))
	return fw.Case{Input: sx.L(hooks, reqs, sx.I(r.Range(0, 2))).String(), Tags: []string{"cluster", "critical-failures"}}
}

// lateCollectCase: a call whose result is collected LATE — its await point is another point than its trigger
// (a later weight pass of the same moment, a later moment of the same transition, a later transition), the call
// itself returns at once, and more wall-clock time than the call's own `timeout` passes before the state machine
// reaches the await point, because a healthy SLOW hook (a probe taking 5x the timeout) sits in between. The call
// fails (3/4) or not, is critical (3/4) or not. The documentation: "Regardless of when in time the call actually
// finishes, its result isn't collected until the environment state machine reaches [the await moment]" and "The ECS
// will not abort the call upon reaching the timeout value" — so the failure must take effect at the await point
// exactly as if it had been collected at once.
func lateCollectCase(r *rng.R) fw.Case {
	type tr struct{ ev, src, dst string }
	path := []tr{{"DEPLOY", "STANDBY", "DEPLOYED"}, {"CONFIGURE", "DEPLOYED", "CONFIGURED"}, {"START_ACTIVITY", "CONFIGURED", "RUNNING"}, {"STOP_ACTIVITY", "RUNNING", "CONFIGURED"}}
	var pts []string // the moments of the walk, in the order they are visited
	for _, t := range path {
		pts = append(pts, "before_"+t.ev, "leave_"+t.src, "enter_"+t.dst, "after_"+t.ev)
	}
	timeout := r.Range(6, 10)
	dur := 5 * timeout
	crit, fails := r.P(3, 4), r.P(3, 4)
	outs := sx.L()
	if fails {
		for j := 0; j < 8; j++ {
			outs.Add(sx.B(true))
		}
	}
	hooks := sx.L()
	shape := ""
	var last int // index in pts of the await moment
	switch r.N(4) {
	case 0: // later weight pass of the same moment: started in the negative pass, awaited in the other one
		shape = "late-collect-same-moment"
		i := r.N(len(pts))
		last = i
		hooks.Add(sx.L(sx.I(0), sx.A("call"), sx.B(crit), sx.A(pts[i]), sx.I(-r.Range(5, 20)), sx.A(pts[i]), sx.I(r.Range(5, 20)), outs, sx.I(timeout), sx.I(0)))
		sw := rng.Pick(r, []int{-3, 0, 2})
		hooks.Add(sx.L(sx.I(1), sx.A("call"), sx.B(false), sx.A(pts[i]), sx.I(sw), sx.A(pts[i]), sx.I(sw), sx.L(), sx.I(0), sx.I(dur)))
	case 1: // later moment of the same transition
		shape = "late-collect-same-transition"
		k := r.N(len(path))
		a := r.Range(0, 2)
		b := r.Range(a+1, 3)
		last = 4*k + b
		hooks.Add(sx.L(sx.I(0), sx.A("call"), sx.B(crit), sx.A(pts[4*k+a]), sx.I(rng.Pick(r, []int{-10, 0, 5})), sx.A(pts[4*k+b]), sx.I(rng.Pick(r, []int{-10, 0, 5})), outs, sx.I(timeout), sx.I(0)))
		c := r.Range(a, b)
		sw := 0
		if c == a {
			sw = 30 // after the call has been started
		} else if c == b {
			sw = -30 // before it is awaited
		}
		hooks.Add(sx.L(sx.I(1), sx.A("call"), sx.B(false), sx.A(pts[4*k+c]), sx.I(sw), sx.A(pts[4*k+c]), sx.I(sw), sx.L(), sx.I(0), sx.I(dur)))
	default: // a later transition
		shape = "late-collect-later-transition"
		k1 := r.Range(0, len(path)-2)
		k2 := r.Range(k1+1, len(path)-1)
		a, b := 4*k1+r.N(4), 4*k2+r.N(4)
		last = b
		hooks.Add(sx.L(sx.I(0), sx.A("call"), sx.B(crit), sx.A(pts[a]), sx.I(rng.Pick(r, []int{-10, 0, 5})), sx.A(pts[b]), sx.I(rng.Pick(r, []int{-10, 0, 5})), outs, sx.I(timeout), sx.I(0)))
		c := r.Range(a+1, b)
		sw := 0
		if c == b {
			sw = -30
		}
		hooks.Add(sx.L(sx.I(1), sx.A("call"), sx.B(false), sx.A(pts[c]), sx.I(sw), sx.A(pts[c]), sx.I(sw), sx.L(), sx.I(0), sx.I(dur)))
	}
	// something that must (not) run after the await point
	hooks.Add(sx.L(sx.I(2), sx.A(rng.Pick(r, []string{"call", "task"})), sx.B(r.Bool()), sx.A(pts[last]), sx.I(60), sx.A(pts[last]), sx.I(60), sx.L()))
	rng.Shuffle(r, hooks.List)
	reqs := sx.L()
	for i := 0; i <= last/4; i++ {
		reqs.Add(sx.L(sx.A("T"), sx.A(path[i].ev), sx.B(true), sx.B(false)))
	}
	// the transition of the await point again (a cancelled one can be retried), or the next one
	if r.Bool() {
		reqs.Add(sx.L(sx.A("T"), sx.A(path[last/4].ev), sx.B(true), sx.B(false)))
	} else {
		reqs.Add(sx.L(sx.A("T"), sx.A(path[(last/4+1)%len(path)].ev), sx.B(true), sx.B(false)))
	}
	tags := []string{"late-collect", "slow-call", "floating-await", shape}
	if fails && crit {
		tags = append(tags, "critical-failures", "late-collect-critical-failure")
	}
	return fw.Case{Input: sx.L(hooks, reqs, sx.I(r.Range(0, 2))).String(), Tags: tags}
}

func nontrivial(input, obs string) bool {
	in, err := sx.Parse(input)
	if err != nil || in.At(1).Len() < 2 {
		return false
	}
	// a failing execution really happened: "(XE h k 1 " or a failing task in an H record
	return strings.Contains(obs, " 1 (") && (strings.Contains(obs, "(XE ") || strings.Contains(obs, "(H "))
}
