package c09

import (
	"strings"

	"verifharness/envh"
	"verifharness/fw"
	"verifharness/rng"
	"verifharness/sx"
)

const nQuick, nThorough = 350, 6000

var profile = envh.Profile{MaxHooks: 8, MaxReqs: 8, FailP: 300, BodyFailP: 100, IllegalP: 60, TaskHookP: 300, FloatP: 150,
	TeardownP: 40, ControlP: 200}

const rule = "random walks of 1..8 requests over 0..8 hooks where 30% of hook executions fail (call error / task non-zero exit), critical or not, " +
	"alone or several at one point; non-trivial = at least one failing execution scripted and actually executed, and >=2 requests; distinct by input text"

// clusterCase: SEVERAL hooks failing at the SAME trigger point with mixed criticality (calls and task
// hooks), plus hooks at larger weights of the same pass that must not run once a critical one failed,
// walked to by a fixed legal path.
func clusterCase(r *rng.R) fw.Case {
	type tr struct{ ev, src, dst string }
	path := []tr{{"DEPLOY", "STANDBY", "DEPLOYED"}, {"CONFIGURE", "DEPLOYED", "CONFIGURED"}, {"START_ACTIVITY", "CONFIGURED", "RUNNING"}, {"STOP_ACTIVITY", "RUNNING", "CONFIGURED"}}
	k := r.N(len(path))
	t := path[k]
	moment := rng.Pick(r, []string{"before_" + t.ev, "leave_" + t.src, "enter_" + t.dst, "after_" + t.ev})
	w := rng.Pick(r, []int{-50, -1, 0, 10})
	hooks := sx.L()
	id := 0
	nFail := r.Range(2, 4)
	for i := 0; i < nFail; i++ {
		kind := "call"
		if r.P(1, 3) {
			kind = "task"
		}
		crit := i == 0 || r.P(1, 3) // at least one critical, usually some non-critical too
		if i == 1 {
			crit = false
		}
		outs := sx.L(sx.B(true), sx.B(true), sx.B(true))
		hooks.Add(sx.L(sx.I(id), sx.A(kind), sx.B(crit), sx.A(moment), sx.I(w), sx.A(moment), sx.I(w), outs))
		id++
	}
	// later weights in the same pass (and one in the other pass / next moment)
	for i := 0; i < r.Range(1, 3); i++ {
		lw := w + r.Range(1, 40)
		if w < 0 && lw >= 0 {
			lw = -1
			if lw <= w {
				lw = w
			}
		}
		kind := "call"
		if r.P(1, 3) {
			kind = "task"
		}
		hooks.Add(sx.L(sx.I(id), sx.A(kind), sx.B(r.Bool()), sx.A(moment), sx.I(lw), sx.A(moment), sx.I(lw), sx.L()))
		id++
	}
	hooks.Add(sx.L(sx.I(id), sx.A("call"), sx.B(true), sx.A("after_"+t.ev), sx.I(5), sx.A("after_"+t.ev), sx.I(5), sx.L()))
	// shuffle role order: map iteration decides which failure is visited last, role order who is started first
	rng.Shuffle(r, hooks.List)
	reqs := sx.L()
	for i := 0; i <= k; i++ {
		reqs.Add(sx.L(sx.A("T"), sx.A(path[i].ev), sx.B(true), sx.B(false)))
	}
	// the failing transition again (scripts fail 3 times), then something else
	reqs.Add(sx.L(sx.A("T"), sx.A(t.ev), sx.B(true), sx.B(false)))
	return fw.Case{Input: sx.L(hooks, reqs, sx.I(r.Range(0, 2))).String(), Tags: []string{"cluster", "critical-failures"}}
}

func nontrivial(input, obs string) bool {
	in, err := sx.Parse(input)
	if err != nil || in.At(1).Len() < 2 {
		return false
	}
	// a failing execution really happened: "(XE h k 1 " or a failing task in an H record
	return strings.Contains(obs, " 1 (") && (strings.Contains(obs, "(XE ") || strings.Contains(obs, "(H "))
}
