package c09

// The class "the WAYS a call hook can fail" (harness/envh/ways.go, lean/ControlModel/Model/CallWays.lean): by
// __call_error (with or without a reason), by running into its own timeout, by a cancelled request, by a Go
// error returned to the expression evaluator, by both at once, by a panic, by a function the plugin does not
// export, by a plugin that is not loaded, by an expression that does not compile. The property says that only
// the criticality of the hook and the moment decide what the failure does.

import (
	"fmt"

	"verifharness/envh"
	"verifharness/fw"
	"verifharness/rng"
	"verifharness/sx"
)

// allWays: `1` (the plugin writes __call_error) and the named ways.
var allWays = append([]string{"1"}, envh.Ways...)

// script: n executions failing the given way (a static way fails at every execution: 16 entries).
func script(way string, n int) *sx.Node {
	if envh.StaticWay(way) {
		n = 16
	}
	l := sx.L()
	for i := 0; i < n; i++ {
		l.Add(sx.A(way))
	}
	return l
}

// wayHook: a call hook awaited at its trigger whose first n executions fail the given way.
func wayHook(id int, crit bool, moment string, w int, way string, n int, r *rng.R) *sx.Node {
	timeout := 0
	if way == "timeout" {
		timeout = r.Range(4, 9)
	}
	return sx.L(sx.I(id), sx.A("call"), sx.B(crit), sx.A(moment), sx.I(w), sx.A(moment), sx.I(w), script(way, n), sx.I(timeout), sx.I(0))
}

type trn struct{ ev, src, dst string }

var walk = []trn{{"DEPLOY", "STANDBY", "DEPLOYED"}, {"CONFIGURE", "DEPLOYED", "CONFIGURED"}, {"START_ACTIVITY", "CONFIGURED", "RUNNING"}, {"STOP_ACTIVITY", "RUNNING", "CONFIGURED"}}

func momentOf(t trn, at string) string {
	switch at {
	case "before":
		return "before_" + t.ev
	case "leave":
		return "leave_" + t.src
	case "enter":
		return "enter_" + t.dst
	}
	return "after_" + t.ev
}

// waysGrid: every way × critical or not × moment kind (before_ leave_ enter_ after_) × weight sign, once each:
// the hook fails that way the first time a transition of the walk DEPLOY … STOP reaches its moment, next to a
// hook at a later weight of the same moment (which must not run iff the failure is critical), sometimes a
// second hook failing ANOTHER way at the same point (counted together), and a healthy critical hook at
// after_<event>; the transition is requested again afterwards (a cancelled one can be retried: the second
// execution succeeds unless the way is a property of the expression), then the next one.
func waysGrid(r *rng.R) []fw.Case {
	var cs []fw.Case
	for _, way := range allWays {
		for _, crit := range []bool{true, false} {
			for _, at := range []string{"before", "leave", "enter", "after"} {
				for _, neg := range []bool{true, false} {
					f := r.Fork()
					k := f.N(len(walk))
					t := walk[k]
					m := momentOf(t, at)
					w := f.Range(0, 40)
					if neg {
						w = -f.Range(2, 40)
					}
					hooks := sx.L()
					hooks.Add(wayHook(0, crit, m, w, way, 1, f))
					id := 1
					// a later weight of the same pass
					lw := w + f.Range(1, 30)
					if neg && lw >= 0 {
						lw = -1
					}
					kind := "call"
					if f.P(1, 4) {
						kind = "task"
					}
					hooks.Add(sx.L(sx.I(id), sx.A(kind), sx.B(f.Bool()), sx.A(m), sx.I(lw), sx.A(m), sx.I(lw), sx.L()))
					id++
					tags := []string{"ways", "way=" + way, "way-at=" + at}
					if f.P(1, 3) {
						// another way at the same point, of either criticality
						other := rng.Pick(f, allWays)
						hooks.Add(wayHook(id, f.Bool(), m, w, other, 1, f))
						id++
						tags = append(tags, "ways-mixed")
					}
					hooks.Add(sx.L(sx.I(id), sx.A("call"), sx.B(true), sx.A("after_"+t.ev), sx.I(5), sx.A("after_"+t.ev), sx.I(5), sx.L()))
					rng.Shuffle(f, hooks.List)
					reqs := sx.L()
					kindOf := func() string {
						if f.P(1, 5) {
							return "C" // through the API glue: the failure is answered with GO_ERROR
						}
						return "T"
					}
					for i := 0; i < k; i++ {
						reqs.Add(sx.L(sx.A("T"), sx.A(walk[i].ev), sx.B(true), sx.B(false)))
					}
					reqs.Add(sx.L(sx.A(kindOf()), sx.A(t.ev), sx.B(true), sx.B(false)))
					reqs.Add(sx.L(sx.A("T"), sx.A(t.ev), sx.B(true), sx.B(false)))
					reqs.Add(sx.L(sx.A("T"), sx.A(walk[(k+1)%len(walk)].ev), sx.B(true), sx.B(false)))
					if crit {
						tags = append(tags, "way-critical", "critical-failures")
					} else {
						tags = append(tags, "way-noncritical")
					}
					if neg {
						tags = append(tags, "way-weight-neg")
					} else {
						tags = append(tags, "way-weight-pos")
					}
					cs = append(cs, fw.Case{Input: sx.L(hooks, reqs, sx.I(f.Range(0, 2))).String(), Tags: tags})
				}
			}
		}
	}
	return cs
}

// mixWays rewrites the failing executions of some CALL hooks of a generated case into named ways: per hook
// (probability 1/2) either one static way for the whole hook (1 in 6: the hook then fails at every execution)
// or a way drawn per failing execution. Everything else of the case stays as generated.
func mixWays(c fw.Case, r *rng.R) fw.Case {
	in, err := sx.Parse(c.Input)
	if err != nil {
		return c
	}
	dynamic := []string{}
	for _, w := range allWays {
		if !envh.StaticWay(w) {
			dynamic = append(dynamic, w)
		}
	}
	hooks := sx.L()
	used := map[string]bool{}
	for _, h := range in.At(0).List {
		failing := false
		for _, o := range h.At(7).List {
			failing = failing || o.Bool()
		}
		if h.At(1).Str() != "call" || !failing || !r.P(1, 2) {
			hooks.Add(h)
			continue
		}
		timeout, dur := 0, 0
		if h.Len() >= 10 {
			timeout, dur = h.At(8).Int(), h.At(9).Int()
		}
		outs := sx.L()
		if r.P(1, 6) {
			w := rng.Pick(r, []string{"noplugin", "badexpr"})
			outs = script(w, 16)
			used[w] = true
		} else {
			for _, o := range h.At(7).List {
				if !o.Bool() {
					outs.Add(o)
					continue
				}
				w := rng.Pick(r, dynamic)
				if w == "timeout" && dur > 0 {
					w = "goerr" // a slow probe has its own clock
				}
				if w == "timeout" && (timeout < 1 || timeout > 200) {
					timeout = r.Range(4, 9)
				}
				outs.Add(sx.A(w))
				used[w] = true
			}
		}
		hooks.Add(sx.L(h.At(0), h.At(1), h.At(2), h.At(3), h.At(4), h.At(5), h.At(6), outs, sx.I(timeout), sx.I(dur)))
	}
	if len(used) == 0 {
		return c
	}
	tags := append(append([]string{}, c.Tags...), "ways-mixed-in")
	for _, w := range allWays {
		if used[w] {
			tags = append(tags, fmt.Sprintf("way=%s", w))
		}
	}
	return fw.Case{Input: sx.L(hooks, in.At(1), in.At(2)).String(), Tags: tags}
}
