// Package c10: see harness/envh (shared environment-machine harness) and lean/ControlModel/Spec/C10.lean.
package c10

import (
	"verifharness/envh"
	"verifharness/fw"
	"verifharness/rng"
)

func generate(tier string, r *rng.R) []fw.Case {
	n := nQuick
	if tier == "thorough" {
		n = nThorough
	}
	var cs []fw.Case
	for i := 0; i < n; i++ {
		switch {
		case i%5 == 4:
			// teardowns that end a run (or not): every state, leave_<state> / DESTROY hooks of every kind and outcome
			cs = append(cs, envh.GenTeardownCase(r.Fork()))
		case i%5 == 2:
			// a task-manager command round trip fails inside a transition (REAL bodies), then the run is closed some way
			cs = append(cs, envh.GenBodyFailureCase(r.Fork()))
		case i%7 == 1:
			// calls whose trigger and await weights lie on different sides of 0 at one moment of the run bracket,
			// next to hooks triggered at the await weight: what each hook sees, and how often it runs
			cs = append(cs, envh.GenCrossPassCase(r.Fork()))
		case i%2 == 0:
			// the same walk with the REAL task-level bodies of CONFIGURE / START / STOP / RESET
			f := r.Fork()
			cs = append(cs, envh.WithRealBodies(envh.GenCase(f, profile), f))
		default:
			cs = append(cs, envh.GenCase(r.Fork(), profile))
		}
	}
	return cs
}

func init() {
	fw.Register(&fw.Property{
		ID:         "C10",
		Generate:   generate,
		RunImpl:    func(in string) (string, error) { return envh.Run(in, true) },
		Nontrivial: nontrivial,
		Rule:       rule,
		Shrink:     envh.Shrink,
		Workers:    1,
		Setup:      envh.Setup,
		Teardown:   envh.Teardown,
		TrustedBase: []string{
			"harness/envh: environment builder (YAML roles, NewTaskForVerif tasks), probe plugin (verifprobe.Probe), event capture, fake task manager answering ReleaseTasks and - for TR/CR requests - the ConfigureTasks/TransitionTasks command of the REAL transition bodies with a TasksStateChangedEvent through the environment manager's event loop",
			"verif hooks in /repo: core/environment/verif_hooks.go, core/workflow/verif_hooks.go, core/the/verif_hooks.go, core/task/verif_hooks_task.go",
			"trace monitor (lean/ControlModel/Spec/EnvTrace.lean): probe calls are judged by windows and happens-before, not by exact position",
		},
		Assumptions: []string{
			"looplab/fsm v1.0.1 Event/Cancel semantics as modelled (sampled by every case)",
			"T/C requests and DEPLOY/EXIT/RECOVER/GO_ERROR always: scripted task-level bodies stand in for the real transition bodies (what they replicate is pinned by C10_transition_bodies_are_code, go/ast over core/environment/transition_*.go); TR/CR requests run the real bodies of CONFIGURE/START_ACTIVITY/STOP_ACTIVITY/RESET, only the task manager's answer is scripted; not run: a real body after a teardown attempt (stateChangedCh closed); task hooks are answered by the harness (BasicTaskTerminated with exit code) through a blocking delivery hook",
			"goroutine scheduling of call hooks is arbitrary; the harness paces time.Now() reads so that distinct stamps differ",
		},
	})
}
