// Package c10: correspondence harness for property C10 (stub — registers nothing yet).
package c10
