package c10

// go/ast facts about the task-level BODIES of the environment transitions (core/environment/transition_*.go,
// method `do`): what each of them writes to the environment / its workflow, on which branch. The harness runs
// the real bodies of CONFIGURE / START_ACTIVITY / STOP_ACTIVITY / RESET for the TR / CR requests, but scripted
// stand-ins everywhere else (T / C requests, DEPLOY always) — and the Lean model has the bodies' effect written
// out (Model/EnvBodies.lean). `C10_transition_bodies_are_code` pins these tables: a body that starts to touch
// the run number, the run timestamps or the state makes it false.

import (
	"bytes"
	"fmt"
	"go/ast"
	"go/parser"
	"go/printer"
	"go/token"
	"path/filepath"
	"sort"
	"strconv"
	"strings"

	"verifharness/fw"
)

// methods whose call changes variables or state of an environment / role / workflow
var writeMethods = map[string]bool{
	"SetRuntimeVar": true, "SetRuntimeVars": true, "DeleteRuntimeVar": true, "DeleteRuntimeVars": true,
	"Set": true, "Del": true, "setState": true, "SetState": true,
}

func render(fset *token.FileSet, n ast.Node) string {
	var b bytes.Buffer
	printer.Fprint(&b, fset, n)
	return strings.Join(strings.Fields(b.String()), " ")
}

func rootIdent(e ast.Expr) string {
	for {
		switch x := e.(type) {
		case *ast.SelectorExpr:
			e = x.X
		case *ast.IndexExpr:
			e = x.X
		case *ast.StarExpr:
			e = x.X
		case *ast.ParenExpr:
			e = x.X
		case *ast.Ident:
			return x.Name
		default:
			return ""
		}
	}
}

// failureBlock: the block ends by returning something that is not nil (the tasks' error, a fresh error).
func failureBlock(b *ast.BlockStmt) bool {
	if b == nil || len(b.List) == 0 {
		return false
	}
	r, ok := b.List[len(b.List)-1].(*ast.ReturnStmt)
	if !ok || len(r.Results) == 0 {
		return false
	}
	for _, x := range r.Results {
		if id, ok := x.(*ast.Ident); !ok || id.Name != "nil" {
			return true
		}
	}
	return false
}

type bodyFacts struct {
	file, event string
	writes      [][2]string // (branch, kind+"\x00"+what) in source order
	envCalls    map[string]bool
}

func scanBody(fset *token.FileSet, fd *ast.FuncDecl, bf *bodyFacts) {
	envName := ""
	if fd.Type.Params != nil && len(fd.Type.Params.List) > 0 && len(fd.Type.Params.List[0].Names) > 0 {
		envName = fd.Type.Params.List[0].Names[0].Name
	}
	var walk func(n ast.Node, failure bool)
	branch := func(f bool) string {
		if f {
			return "failure"
		}
		return "main"
	}
	walk = func(n ast.Node, failure bool) {
		if n == nil {
			return
		}
		switch x := n.(type) {
		case *ast.IfStmt:
			walk(x.Init, failure)
			walk(x.Cond, failure)
			walk(x.Body, failure || failureBlock(x.Body))
			if eb, ok := x.Else.(*ast.BlockStmt); ok {
				walk(eb, failure || failureBlock(eb))
			} else {
				walk(x.Else, failure)
			}
			return
		case *ast.AssignStmt:
			for i, l := range x.Lhs {
				if _, plain := l.(*ast.Ident); plain || rootIdent(l) != envName || envName == "" {
					continue
				}
				rhs := ""
				if len(x.Rhs) == len(x.Lhs) {
					rhs = render(fset, x.Rhs[i])
				} else if len(x.Rhs) > 0 {
					rhs = render(fset, x.Rhs[0])
				}
				bf.writes = append(bf.writes, [2]string{branch(failure), "assign\x00" + render(fset, l) + " " + x.Tok.String() + " " + rhs})
			}
		case *ast.IncDecStmt:
			if rootIdent(x.X) == envName && envName != "" {
				bf.writes = append(bf.writes, [2]string{branch(failure), "assign\x00" + render(fset, x)})
			}
		case *ast.CallExpr:
			if se, ok := x.Fun.(*ast.SelectorExpr); ok {
				if writeMethods[se.Sel.Name] {
					bf.writes = append(bf.writes, [2]string{branch(failure), "call\x00" + render(fset, x)})
				}
				if rootIdent(se.X) == envName && envName != "" {
					// env.M(…) or env.F.M(…): the path after `env.`
					bf.envCalls[strings.TrimPrefix(render(fset, se), envName+".")] = true
				}
			} else {
				for _, a := range x.Args {
					if id, ok := a.(*ast.Ident); ok && id.Name == envName && envName != "" {
						bf.envCalls["<passed to> "+render(fset, x.Fun)] = true
					}
				}
			}
			if se, ok := x.Fun.(*ast.SelectorExpr); ok {
				for _, a := range x.Args {
					if id, ok := a.(*ast.Ident); ok && id.Name == envName && envName != "" {
						bf.envCalls["<passed to> "+render(fset, se)] = true
					}
				}
			}
		}
		// children, with the same branch
		ast.Inspect(n, func(c ast.Node) bool {
			if c == nil || c == n {
				return c == n
			}
			walk(c, failure)
			return false
		})
	}
	walk(fd.Body, false)
}

func bodiesOf(repo string) ([]*bodyFacts, error) {
	files, err := filepath.Glob(filepath.Join(repo, "core/environment/transition_*.go"))
	if err != nil {
		return nil, err
	}
	sort.Strings(files)
	var out []*bodyFacts
	for _, f := range files {
		if strings.HasSuffix(f, "_test.go") {
			continue
		}
		fset := token.NewFileSet()
		af, err := parser.ParseFile(fset, f, nil, 0)
		if err != nil {
			return nil, err
		}
		// the event name: baseTransition{name: "X", …} in the constructor
		names := []string{}
		ast.Inspect(af, func(n ast.Node) bool {
			cl, ok := n.(*ast.CompositeLit)
			if !ok {
				return true
			}
			if id, ok := cl.Type.(*ast.Ident); !ok || id.Name != "baseTransition" {
				return true
			}
			for _, el := range cl.Elts {
				if kv, ok := el.(*ast.KeyValueExpr); ok {
					if k, ok := kv.Key.(*ast.Ident); ok && k.Name == "name" {
						if bl, ok := kv.Value.(*ast.BasicLit); ok && bl.Kind == token.STRING {
							if s, err := strconv.Unquote(bl.Value); err == nil {
								names = append(names, s)
							}
						}
					}
				}
			}
			return true
		})
		for _, d := range af.Decls {
			fd, ok := d.(*ast.FuncDecl)
			if !ok || fd.Name.Name != "do" || fd.Recv == nil || fd.Body == nil {
				continue
			}
			bf := &bodyFacts{file: filepath.Base(f), event: "?", envCalls: map[string]bool{}}
			if len(names) == 1 {
				bf.event = names[0]
			}
			scanBody(fset, fd, bf)
			out = append(out, bf)
		}
	}
	return out, nil
}

func leanStr(s string) string {
	s = strings.ReplaceAll(s, "\\", "\\\\")
	s = strings.ReplaceAll(s, "\"", "\\\"")
	return "\"" + s + "\""
}

func genBodies(repo string) (string, error) {
	bs, err := bodiesOf(repo)
	if err != nil {
		return "", err
	}
	var b strings.Builder
	b.WriteString("namespace Gen.EnvBodies\n\n")
	b.WriteString("/-- The `do` methods of core/environment/transition_*.go (go/ast), in file order: (file, event name given to\n    baseTransition in the constructor of the same file). -/\n")
	b.WriteString("def transitions : List (String × String) := [")
	for i, f := range bs {
		if i > 0 {
			b.WriteString(", ")
		}
		fmt.Fprintf(&b, "(%s, %s)", leanStr(f.file), leanStr(f.event))
	}
	b.WriteString("]\n\n")
	b.WriteString("/-- Every write a body makes to the environment or through a variable/state setter, in source order:\n    (event, branch, kind, text). kind = assign: an assignment / ++ / -- whose target is reached from the environment\n    parameter; call: a call of SetRuntimeVar(s) / DeleteRuntimeVar(s) / Set / Del / setState / SetState on anything.\n    branch = failure: inside an `if`/`else` block that ends by returning a non-nil value; main: anywhere else. -/\n")
	b.WriteString("def writes : List (String × String × String × String) := [")
	first := true
	for _, f := range bs {
		for _, w := range f.writes {
			kv := strings.SplitN(w[1], "\x00", 2)
			if !first {
				b.WriteString(",")
			}
			first = false
			fmt.Fprintf(&b, "\n  (%s, %s, %s, %s)", leanStr(f.event), leanStr(w[0]), leanStr(kv[0]), leanStr(kv[1]))
		}
	}
	b.WriteString("]\n\n")
	b.WriteString("/-- Per body: the methods / fields' methods of the environment it calls (path after `env.`), and the functions it\n    hands the environment to (`<passed to> f`), sorted. -/\n")
	b.WriteString("def envCalls : List (String × List String) := [")
	for i, f := range bs {
		if i > 0 {
			b.WriteString(",")
		}
		var cs []string
		for c := range f.envCalls {
			cs = append(cs, c)
		}
		sort.Strings(cs)
		for j := range cs {
			cs[j] = leanStr(cs[j])
		}
		fmt.Fprintf(&b, "\n  (%s, [%s])", leanStr(f.event), strings.Join(cs, ", "))
	}
	b.WriteString("]\n\nend Gen.EnvBodies\n")
	return b.String(), nil
}

func init() {
	fw.RegisterGen(fw.GenFile{Name: "EnvBodies.lean", Make: genBodies})
}
