package c10

import (
	"strings"

	"verifharness/envh"
	"verifharness/sx"
)

const nQuick, nThorough = 300, 5000

var profile = envh.Profile{MaxHooks: 8, MaxReqs: 12, FailP: 80, BodyFailP: 120, IllegalP: 50, TaskHookP: 100, FloatP: 80,
	TeardownP: 60, ControlP: 300, RunFocus: true}

const rule = "random walks of 1..12 requests steered through DEPLOY/CONFIGURE/START/STOP cycles (failing hooks, failing bodies, failing run-number " +
	"acquisition, API fallback to GO_ERROR, teardown while running) over 0..8 hooks placed mostly at run-related moments; every fifth case a teardown class " +
	"(teardown from every state, half of them from RUNNING, with 1..4 call/task hooks at leave_<state> critical or not, failing or not, at weights of both signs, " +
	"call hooks at DESTROY/after_DESTROY, calls still pending, forced or not, release rounds failing or not, then 0..2 further requests); every fifth case a " +
	"body-failure class with the REAL transition bodies (the tasks refuse the command of START_ACTIVITY - half of them -, STOP_ACTIVITY, CONFIGURE or RESET, requested " +
	"through TryTransition or the API glue, after a legal path that sometimes holds a complete earlier run, with 0..4 probes at the moments of the failed transition and of " +
	"the GO_ERROR that closes it, then 0..3 further requests: GO_ERROR, the request again, RECOVER, STOP, teardown); every seventh case a cross-pass class (run cycle once or twice, closed by STOP_ACTIVITY or GO_ERROR; 1..2 calls triggered at a negative weight and awaited at a " +
	"non-negative weight of ONE moment of the run bracket - or the reverse -, 1..2 call / task hooks triggered at that await weight, 0..2 more at other weights of both signs: each " +
	"hook runs once per occurrence of the moment, in the pass of its own sign, and sees what that pass sees); half of the remaining walks with the real bodies of " +
	"CONFIGURE/START/STOP/RESET (TR/CR requests: fake task manager answers the body's command per script); non-trivial = at least one run " +
	"number was handed out and >=3 requests; distinct by input text"

func nontrivial(input, obs string) bool {
	in, err := sx.Parse(input)
	if err != nil || in.At(1).Len() < 3 {
		return false
	}
	return strings.Contains(obs, "(RE START_ACTIVITY STARTED")
}
