package c10

// go/ast facts about the WRITERS of the two end-of-run stamps (run_end_time_ms, run_end_completion_time_ms) in
// core/environment (no tests, no `verif` files): for every `….SetRuntimeVar("<key>", …)` where it stands (file, FSM
// callback or function), under which event / source-state / current-state test, whether it clears or stamps, whether
// it is GUARDED the way every closer of a run has to be —
//
//	v, ok := ….GetUserVars().Get("<same key>")
//	if ok && v == "" { …write… }
//
// — and whether an Ev_RunEvent is published next to it (same block). The Lean model writes these sites as
// `setSoeorIfEmpty` / `setEoeorIfEmpty` (Model/Env.lean); `C10_end_stamp_writers_are_code` pins the table. Since
// "fix: after_STOP_ACTIVITY stamps run_end_completion_time_ms only if it is still empty" every stamping site is
// guarded; a site that loses its guard (or a new unguarded one) makes the theorem false.

import (
	"fmt"
	"go/ast"
	"go/parser"
	"go/token"
	"os"
	"path/filepath"
	"sort"
	"strconv"
	"strings"

	"verifharness/fw"
)

var endKeys = map[string]bool{"run_end_time_ms": true, "run_end_completion_time_ms": true}

type stampRow struct {
	file, ctx, branch, key, value, guard string
	publishes                            bool
}

func strLit(e ast.Expr) (string, bool) {
	bl, ok := e.(*ast.BasicLit)
	if !ok || bl.Kind != token.STRING {
		return "", false
	}
	s, err := strconv.Unquote(bl.Value)
	return s, err == nil
}

// `X == "S"` with X one of e.Event / e.Src / <anything>.CurrentState()
func stateTest(fset *token.FileSet, cond ast.Expr) (string, bool) {
	b, ok := cond.(*ast.BinaryExpr)
	if !ok || b.Op != token.EQL {
		return "", false
	}
	s, ok := strLit(b.Y)
	if !ok {
		return "", false
	}
	switch x := render(fset, b.X); {
	case x == "e.Event":
		return "event=" + s, true
	case x == "e.Src":
		return "src=" + s, true
	case strings.HasSuffix(x, ".CurrentState()"):
		return "state=" + s, true
	}
	return "", false
}

// is `is` the guard `ok && v == ""` whose v, ok were read with GetUserVars().Get("key") by the statement just before it?
func presentAndEmpty(fset *token.FileSet, is *ast.IfStmt, parent ast.Node) (string, bool) {
	blk, ok := parent.(*ast.BlockStmt)
	if !ok || is.Init != nil {
		return "", false
	}
	idx := -1
	for i, st := range blk.List {
		if st == ast.Stmt(is) {
			idx = i
		}
	}
	if idx < 1 {
		return "", false
	}
	as, ok := blk.List[idx-1].(*ast.AssignStmt)
	if !ok || as.Tok != token.DEFINE || len(as.Lhs) != 2 || len(as.Rhs) != 1 {
		return "", false
	}
	v, ok1 := as.Lhs[0].(*ast.Ident)
	okv, ok2 := as.Lhs[1].(*ast.Ident)
	call, ok3 := as.Rhs[0].(*ast.CallExpr)
	if !ok1 || !ok2 || !ok3 || len(call.Args) != 1 {
		return "", false
	}
	if !strings.HasSuffix(render(fset, call.Fun), ".GetUserVars().Get") {
		return "", false
	}
	key, ok := strLit(call.Args[0])
	if !ok {
		return "", false
	}
	if render(fset, is.Cond) != okv.Name+" && "+v.Name+` == ""` {
		return "", false
	}
	return key, true
}

func scanStamps(fset *token.FileSet, file string, af *ast.File) []stampRow {
	var rows []stampRow
	var stack []ast.Node
	ast.Inspect(af, func(n ast.Node) bool {
		if n == nil {
			stack = stack[:len(stack)-1]
			return true
		}
		stack = append(stack, n)
		call, ok := n.(*ast.CallExpr)
		if !ok || len(call.Args) != 2 {
			return true
		}
		se, ok := call.Fun.(*ast.SelectorExpr)
		if !ok || se.Sel.Name != "SetRuntimeVar" {
			return true
		}
		key, ok := strLit(call.Args[0])
		if !ok || !endKeys[key] {
			return true
		}
		row := stampRow{file: file, key: key, value: "stamp", ctx: "?", branch: "-"}
		if v, isLit := strLit(call.Args[1]); isLit && v == "" {
			row.value = "clear"
		}
		var guards []string
		// from the call outwards
		for i := len(stack) - 2; i >= 0; i-- {
			switch x := stack[i].(type) {
			case *ast.BlockStmt:
				// the block that holds the write as one of its statements: does it publish a run event?
				if i+1 < len(stack) {
					if es, isStmt := stack[i+1].(*ast.ExprStmt); isStmt && es.X == ast.Expr(call) {
						ast.Inspect(x, func(c ast.Node) bool {
							if ce, ok := c.(*ast.CallExpr); ok {
								if s, ok := ce.Fun.(*ast.SelectorExpr); ok && s.Sel.Name == "WriteEventWithTimestamp" {
									row.publishes = true
								}
							}
							return true
						})
					}
				}
			case *ast.IfStmt:
				inThen := i+1 < len(stack) && stack[i+1] == ast.Node(x.Body)
				if t, ok := stateTest(fset, x.Cond); ok && inThen {
					if row.branch == "-" {
						row.branch = t
					}
					continue
				}
				if _, ok := stateTest(fset, x.Cond); ok && !inThen {
					continue // the else of an event test: the next `else if` says which event
				}
				if !inThen {
					guards = append(guards, "else of "+render(fset, x.Cond))
					continue
				}
				if row.branch != "-" {
					continue // outside the event test: not a guard of THIS write (e.g. hook errors checked earlier)
				}
				if k, ok := presentAndEmpty(fset, x, stack[i-1]); ok && k == key {
					guards = append(guards, "presentAndEmpty")
				} else {
					guards = append(guards, "if "+render(fset, x.Cond))
				}
			case *ast.FuncLit:
				if row.ctx == "?" && i >= 1 {
					if kv, ok := stack[i-1].(*ast.KeyValueExpr); ok {
						if k, ok := strLit(kv.Key); ok {
							row.ctx = k
						}
					}
				}
			case *ast.FuncDecl:
				if row.ctx == "?" {
					row.ctx = x.Name.Name
				}
			}
		}
		if len(guards) == 0 {
			row.guard = "none"
		} else {
			row.guard = strings.Join(guards, " & ")
		}
		rows = append(rows, row)
		return true
	})
	return rows
}

func stampRows(repo string) ([]stampRow, error) {
	dir := filepath.Join(repo, "core/environment")
	ents, err := os.ReadDir(dir)
	if err != nil {
		return nil, err
	}
	var names []string
	for _, ent := range ents {
		name := ent.Name()
		if ent.IsDir() || !strings.HasSuffix(name, ".go") || strings.HasSuffix(name, "_test.go") {
			continue
		}
		names = append(names, name)
	}
	sort.Strings(names)
	var rows []stampRow
	for _, name := range names {
		raw, err := os.ReadFile(filepath.Join(dir, name))
		if err != nil {
			return nil, err
		}
		if strings.HasPrefix(string(raw), "//go:build verif") {
			continue
		}
		fset := token.NewFileSet()
		af, err := parser.ParseFile(fset, name, raw, 0)
		if err != nil {
			return nil, err
		}
		rows = append(rows, scanStamps(fset, name, af)...)
	}
	return rows, nil
}

func genStamps(repo string) (string, error) {
	rows, err := stampRows(repo)
	if err != nil {
		return "", err
	}
	var b strings.Builder
	b.WriteString("namespace Gen.EnvStamps\n\n")
	b.WriteString("/-- Every `SetRuntimeVar(\"run_end_time_ms\" | \"run_end_completion_time_ms\", …)` of core/environment/*.go (go/ast; no\n" +
		"    tests, no `verif` files), in file and source order: (file, FSM callback key or function, nearest enclosing test\n" +
		"    `e.Event == \"S\"` → event=S / `e.Src == \"S\"` → src=S / `….CurrentState() == \"S\"` → state=S, key, clear (the literal \"\") or\n" +
		"    stamp, guard, an Ev_RunEvent is published in the same block).\n" +
		"    guard = presentAndEmpty: the write stands in the then-branch of `if ok && v == \"\"` whose v, ok come from\n" +
		"    `….GetUserVars().Get(<the same key>)` in the statement just before that `if`; none: no condition between the event /\n" +
		"    state test and the write; anything else: the conditions found, as written. -/\n")
	b.WriteString("def writers : List (String × String × String × String × String × String × Bool) := [")
	for i, r := range rows {
		if i > 0 {
			b.WriteString(",")
		}
		fmt.Fprintf(&b, "\n  (%s, %s, %s, %s, %s, %s, %v)", leanStr(r.file), leanStr(r.ctx), leanStr(r.branch), leanStr(r.key),
			leanStr(r.value), leanStr(r.guard), r.publishes)
	}
	b.WriteString("]\n\nend Gen.EnvStamps\n")
	return b.String(), nil
}

func init() {
	fw.RegisterGen(fw.GenFile{Name: "EnvStamps.lean", Make: genStamps})
}
